(* ConfProofs.v - the statements Properties_C08.v exports, assembled from
   ConfSound/ConfComplete/ConfDiag/ConfReject/ConfValue/ConfRdomain/ConfTie/ConfInst,
   and the concrete witnesses of the three findings. *)
From Robsd Require Import Conf.ConfDefs Conf.ConfSpec Conf.DocSpec Conf.ConfTie Conf.ConfSound Conf.ConfComplete
  Conf.ConfDiag Conf.ConfReject Conf.ConfRdomain Conf.ConfValue Conf.ConfInst Conf.ConfPrim Conf.ConfTrack.
From RobsdGen Require Import Gen_Conf.
From Coq Require Import String.
Local Open Scope string_scope.

(* ---- an environment for the witnesses: /r and /d exist, root is a user *)
Definition wit_env : env :=
  mk_env (fun p => if beq p (bs "/r") || beq p (bs "/d") then DS_dir else DS_err 2)
         (fun u => beq u (bs "root")) (fun _ => GL_nomatch) (fun _ => F_noopen)
         None 4%Z [] [] (bs "amd64") (bs "amd64").

(* ---- acceptance *)
Lemma accept_iff_conforms_gen E m text c :
  config_parse E (tables_of m) text = Accepted c <-> text_conforms E (tables_of m) text c.
Proof. apply config_parse_iff. Qed.

Lemma accept_iff_conforms_doc E m text :
  spec_accepts E m text = true <-> exists c, text_conforms E (doc_tables m) text c.
Proof. apply spec_accepts_iff. Qed.

(* D7 as a statement about acceptance: a canvas configuration that assigns
   robsddir is accepted by the code's tables and does not conform to the
   documented grammar *)
Definition wit_canvas_text : bytes :=
  bs "canvas-name ""x""
robsddir ""/d""
canvas-dir ""/r""
step ""a"" command { ""true"" }
".

Lemma canvas_accepts_undocumented_robsddir :
  (exists c, config_parse wit_env (tables_of CANVAS) wit_canvas_text = Accepted c
             /\ find_var (c_vars c) kw_robsddir = Some (VStr (bs "/d"))
             /\ find_var (c_vars c) kw_canvas_dir = Some (VStr (bs "/r")))
  /\ ~ (exists c, text_conforms wit_env (doc_tables CANVAS) wit_canvas_text c).
Proof.
  split.
  - eexists. split; [vm_compute; reflexivity|]. split; vm_compute; reflexivity.
  - intros H. apply accept_iff_conforms_doc in H. vm_compute in H. discriminate.
Qed.

(* ---- rejection *)
(* full statement (does not hold): every rejection leaves a diagnostic that names the file *)
Definition reject_names_file_statement : Prop :=
  forall E m text c, config_parse E (tables_of m) text = Rejected c ->
                     exists d, In d (c_diags c) /\ names_file d.

Definition wit_reject_text : bytes :=
  bs "robsddir ""/r""
destdir ""/r""
bsd-srcdir ""${nope}""
".

Lemma reject_names_file_refuted :
  t_interp_path (tables_of ROBSD) = false ->
  exists c, config_parse wit_env (tables_of ROBSD) wit_reject_text = Rejected c
            /\ c_diags c = [mk_diag P_none 3 (M_interp (EUnknown (bs "nope")))]
            /\ ~ (exists d, In d (c_diags c) /\ names_file d).
Proof.
  intros Hf.
  first [ vm_compute in Hf; discriminate
        | eexists; split; [vm_compute; reflexivity|]; split; [vm_compute; reflexivity|];
          intros [d [[<-|[]] [Hl _]]]; discriminate ].
Qed.

Lemma reject_names_file_statement_false :
  t_interp_path (tables_of ROBSD) = false -> ~ reject_names_file_statement.
Proof.
  intros Hf H. destruct (reject_names_file_refuted Hf) as [c [Hc [_ Hn]]]. exact (Hn (H _ _ _ _ Hc)).
Qed.

Lemma reject_has_diagnostic_partial E m text c :
  config_parse E (tables_of m) text = Rejected c ->
  (forall vars stdin, r_exit (robsd_config E (tables_of m) text vars stdin) = 1%N
                      /\ r_stdout (robsd_config E (tables_of m) text vars stdin) = [])
  /\ exists d, In d (c_diags c) /\ (names_file d \/ interp_diag (tables_of m) d).
Proof.
  intros H. split.
  - intros vars stdin. destruct (robsd_config_rejected E _ text vars stdin c H) as [H1 [H2 _]]. auto.
  - exact (reject_diagnostic E _ text c (wf_tokens_gen m) H).
Qed.

(* once the parse-time interpolations pass the path (findings/D16_interp_diag_path.diff) every rejection names the file *)
Lemma reject_names_file_if_fixed E T text c :
  wf_tokens T = true -> t_interp_path T = true -> config_parse E T text = Rejected c ->
  exists d, In d (c_diags c) /\ d_path d = P_conf.
Proof.
  intros Hwf Hf H. destruct (reject_diagnostic E T text c Hwf H) as [d [Hin [[_ Hp]|[Hp _]]]]; exists d; split; auto.
  unfold ipath in Hp. now rewrite Hf in Hp.
Qed.

(* ---- rdomain *)
Definition rdomain_cycle_statement : Prop :=
  forall k, rd_val TR k (cfg_init TR) = (doc_rdomain_first + Z.of_nat k mod (doc_rdomain_last - doc_rdomain_first + 1))%Z
            /\ rd_val TR k (cfg_init TR) <> rd_val TR (S k) (cfg_init TR).

(* the witness: references number 246 and 247 (k = 245, 246) both yield 11 *)
Lemma rdomain_repeats_after_wrap :
  t_rdomain_fixed TR = false ->
  rd_val TR 244 (cfg_init TR) = 255%Z /\ rd_val TR 245 (cfg_init TR) = 11%Z /\ rd_val TR 246 (cfg_init TR) = 11%Z
  /\ rd_val TR 247 (cfg_init TR) = 12%Z.
Proof. unfold TR. intros H. repeat split; vm_compute in *; congruence || reflexivity. Qed.

(* refuted as long as the source has the shipped body; a theorem once it has the repaired one *)
Lemma rdomain_cycle_dichotomy :
  (t_rdomain_fixed TR = false /\ ~ rdomain_cycle_statement) \/ (t_rdomain_fixed TR = true /\ rdomain_cycle_statement).
Proof.
  destruct (t_rdomain_fixed TR) eqn:Hf; [right|left]; split; try reflexivity.
  - intros k. exact (rdomain_if_fixed k Hf).
  - intros H. destruct (rdomain_repeats_after_wrap Hf) as [_ [H1 [H2 _]]].
    destruct (H 245%nat) as [_ Hd]. congruence.
Qed.

(* ---- values: one conjunction per clause of the property *)
Lemma value_exact E T :
  (* configured value: first definition, rendered *)
  (forall early c n v, find_var (c_vars c) n = Some v -> v <> VInvalid ->
                       early = false \/ is_early (t_grammar T) n = true ->
                       lookup1 E T early c n = (c, Some (render v)))
  (* documented default when unset *)
  /\ (forall c n g v, find_var (c_vars c) n = None -> grammar_for_interp (t_grammar T) n = Some g ->
                      gr_req g = false -> (forall f, gr_default g <> D_fun f) -> default_value E g = Some v ->
                      lookup1 E T false c n = (c, Some (render v)))
  (* no value for an unset required variable or an unknown name (per-test options only on their test) *)
  /\ (forall c n, find_var (c_vars c) n = None ->
                  (grammar_for_interp (t_grammar T) n = None \/
                   exists g, grammar_for_interp (t_grammar T) n = Some g /\ gr_req g = true) ->
                  lookup1 E T false c n = (c, None))
  (* an accepted entry of a plain kind defines its keyword as the value written *)
  /\ (forall c g e c1 v, plain (gr_fn g) = true -> apply_entry E T c g e = Some c1 ->
                         own_value E (gr_fn g) (en_val e) = Some v ->
                         (forall c0 ov, apply_value E T c (gr_fn g) (en_val e) = Some (c0, ov) -> find_var (c_vars c0) (en_kw e) = None) ->
                         find_var (c_vars c1) (en_kw e) = Some v)
  (* and later definitions never replace it: first definition wins *)
  /\ (forall c n v m w, find_var (c_vars c) m = Some w -> find_var (c_vars (cfg_append c n v)) m = Some w)
  (* lists join with single spaces, booleans are 1/0, time-outs are seconds *)
  /\ (forall l, render (VList l) = join_spec l)
  /\ (render (VInt doc_yes) = [49%N] /\ render (VInt doc_no) = [48%N])
  /\ (forall c n u c1 v, apply_value E T c PF_regress_timeout (E_timeout n u) = Some (c1, Some v) ->
                         exists k, doc_unit_seconds u = Some k /\ v = VInt (k * n)%Z).
Proof.
  repeat split.
  - apply lookup_defined.
  - apply lookup_default.
  - intros c n Hf [Hg|[g [Hg Hr]]]; [now apply lookup_unknown|eapply lookup_required_unset; eauto].
  - apply plain_entry_defines.
  - apply append_keeps.
  - apply render_list_single_spaces.
  - intros c n u c1 v H. destruct (timeout_in_seconds _ _ _ _ _ _ _ H) as [k [Hk [Hv _]]]. exists k. split; [|exact Hv].
    destruct u; simpl in *; try discriminate; exact Hk.
Qed.

(* ---- values of an accepted configuration, in terms of its entries *)
(* a plain keyword (yes|no, number, string, user, directory, list, glob, time-out) that no other production
   writes interpolates to the value of its first defining entry, else to its default row *)
Lemma value_of_accepted_plain E T kw es c :
  plain_free T kw = true -> run_entries E T (cfg_init T) es = Some c ->
  find_var (c_vars c) kw = kw_value E T kw es
  /\ (forall v, kw_value E T kw es = Some v -> v <> VInvalid -> lookup1 E T false c kw = (c, Some (render v))).
Proof.
  intros Hp Hr. pose proof (plain_value_run_entries E T kw Hp es _ _ Hr) as H. simpl in H. split; [exact H|].
  intros v Hv Hn. apply lookup_defined; [now rewrite H|exact Hn|now left].
Qed.

(* that covers every settable plain keyword of every mode except the two spelled regress-... (regress-user,
   regress-timeout), whose names share the prefix of the per-test variables, and robsddir, which canvas-dir
   also defines *)
Lemma plain_keywords_covered m :
  forallb (fun g => negb (has_fn g && plain (gr_fn g)) || plain_free (tables_of m) (gr_kw g) || prefixb regress_prefix (gr_kw g) || beq (gr_kw g) kw_robsddir)
          (t_grammar (tables_of m)) = true.
Proof. destruct m; vm_compute; reflexivity. Qed.

(* documented defaults, computed on the regenerated tables in an empty configuration (robsd mode) *)
Definition default_of (m : mode) (name : string) : option bytes :=
  snd (lookup1 wit_env (tables_of m) false (cfg_init (tables_of m)) (bs name)).

Lemma documented_defaults :
  default_of ROBSD "stat-interval" = Some (bs "10") /\ default_of ROBSD "keep" = Some (bs "0")
  /\ default_of ROBSD "keep-attic" = Some (bs "1") /\ default_of ROBSD "kernel" = Some (bs "GENERIC.MP")
  /\ default_of ROBSD "reboot" = Some (bs "0") /\ default_of ROBSD "bsd-objdir" = Some (bs "/usr/obj")
  /\ default_of ROBSD "bsd-srcdir" = Some (bs "/usr/src") /\ default_of ROBSD "x11-objdir" = Some (bs "/usr/xobj")
  /\ default_of ROBSD "x11-srcdir" = Some (bs "/usr/xenocara") /\ default_of ROBSD "hook" = Some []
  /\ default_of ROBSD_PORTS "ports-dir" = Some (bs "/usr/ports")
  /\ default_of ROBSD_REGRESS "parallel" = Some (bs "1") /\ default_of ROBSD_REGRESS "rdonly" = Some (bs "0")
  /\ default_of ROBSD_REGRESS "sudo" = Some (bs "doas -n") /\ default_of ROBSD_REGRESS "regress-timeout" = Some (bs "0")
  /\ default_of ROBSD_REGRESS "regress-user" = Some (bs "${build-user}")
  /\ default_of ROBSD_REGRESS "regress-x-targets" = Some (bs "regress")
  /\ default_of ROBSD_REGRESS "regress-x-quiet" = None /\ default_of ROBSD "robsddir" = None.
Proof. repeat split; vm_compute; reflexivity. Qed.

(* ---- non-vacuity: a regress configuration that is accepted, with its values *)
Definition wit_regress_text : bytes :=
  bs "# comment
robsddir ""/r""
regress-env { ""G=1"" }
regress ""bin/csh"" root quiet env { ""A=${rdomain}"" ""B=2"" }
regress ""bin/ls"" no-parallel targets { ""one"" ""two"" }
regress-timeout 2 h
keep-attic no
hook { ""a"" ""b c"" }
".

Definition wit_regress_out : bytes :=
  r_stdout (robsd_config wit_env (tables_of ROBSD_REGRESS) wit_regress_text []
     (bs "${regress} ${regress-bin/csh-root} ${regress-bin/csh-env} ${regress-bin/ls-parallel} ${regress-bin/ls-targets} ${regress-timeout} ${keep-attic} ${hook} ${rdomain}
")).

Lemma nonvacuous :
  (exists c, text_conforms wit_env (tables_of ROBSD_REGRESS) wit_regress_text c)
  /\ wit_regress_out = bs "bin/csh bin/ls 1 G=1 A=11 B=2 0 one two 7200 0 a b c 12
".
Proof.
  split.
  - eexists. apply accept_iff_conforms_gen. vm_compute. reflexivity.
  - vm_compute. reflexivity.
Qed.
