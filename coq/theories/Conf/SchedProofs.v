(* SchedProofs.v - lemmas about the schedule model: numbering and suffixes of the
   listing, the names a mode lists against the documented step lists, the
   two-pass order of the configured regress tests, resolvability of every
   listed name. *)
From Robsd Require Import Conf.SchedDefs Conf.SchedSpec Conf.ConfOracle Conf.ConfTie Conf.ConfValue.
From RobsdGen Require Import Gen_Conf.
Local Open Scope N_scope.

(* ---------------------------------------------------------------- the listing *)
Lemma list_lines_app i a b : list_lines i (a ++ b) = list_lines i a ++ list_lines (i + length a) b.
Proof.
  revert i. induction a as [|s a IH]; intros i; simpl; [now rewrite Nat.add_0_r|].
  rewrite IH, <- app_assoc. do 3 f_equal. lia.
Qed.

(* the numbers are i, i+1, ... *)
Lemma list_lines_numbering i steps :
  list_lines i steps = flat_map (fun js => list_line (fst js) (snd js)) (combine (seq i (length steps)) steps).
Proof. revert i. induction steps as [|s r IH]; intros i; simpl; [reflexivity|]. now rewrite IH. Qed.

(* the listing from step k+1 on is what remains of the full listing after its first k lines *)
Lemma list_lines_suffix k steps :
  list_lines 1 steps = list_lines 1 (firstn k steps) ++ list_lines (S (length (firstn k steps))) (skipn k steps).
Proof. rewrite <- (firstn_skipn k steps) at 1. now rewrite list_lines_app. Qed.

Lemma firstn_length_le {A} k (l : list A) : (k <= length l)%nat -> length (firstn k l) = k.
Proof. intros H. rewrite firstn_length. lia. Qed.

(* robsd-step -L -o k, 1 <= k <= N: exactly the suffix starting at step k, numbered from k;
   k = N + 1 (and beyond): "offset too large" *)
Lemma list_cmd_offset E T text c steps c1 (k : nat) kb :
  config_parse E T text = Accepted c -> get_steps E T (after_parse T c) false = (c1, Some steps) ->
  strtonum 1 int_max kb = NumOk (Z.of_nat k) -> (1 <= k)%nat ->
  list_cmd E T text (Some kb) =
    if (length steps <? k)%nat then L_offset_too_large
    else L_ok (list_lines k (skipn (k - 1) steps)).
Proof.
  intros Hp Hg Hk H1. unfold list_cmd. rewrite Hk, Hp, Hg.
  destruct (Z.leb_spec (Z.of_nat (length steps)) (Z.of_nat k - 1)) as [Hl|Hl]; destruct (Nat.ltb_spec (length steps) k) as [Hm|Hm]; try lia; try reflexivity.
  replace (Z.to_nat (Z.of_nat k - 1)) with (k - 1)%nat by lia.
  replace (S (k - 1)) with k by lia. reflexivity.
Qed.

Lemma list_cmd_full E T text c steps c1 :
  config_parse E T text = Accepted c -> get_steps E T (after_parse T c) false = (c1, Some steps) ->
  list_cmd E T text None = match steps with [] => L_offset_too_large | _ => L_ok (list_lines 1 steps) end.
Proof. intros Hp Hg. unfold list_cmd. rewrite Hp, Hg. simpl. destruct steps; reflexivity. Qed.

(* ---------------------------------------------------------------- names *)
Lemma interp_steps_names E T : forall steps c c1 l,
  interp_steps E T c steps = (c1, Some l) -> names l = names steps /\ map ss_par l = map ss_par steps.
Proof.
  induction steps as [|s r IH]; intros c c1 l H; simpl in H; [inversion H; auto|].
  destruct (interp_args E T c (ss_cmd s)) as [c2 [a|]]; [|discriminate].
  destruct (interp_steps E T c2 r) as [c3 [l'|]] eqn:Hr; [|discriminate]. inversion H; subst.
  destruct (IH _ _ _ Hr) as [Hn Hp]. simpl. now rewrite Hn, Hp.
Qed.

Lemma get_steps_names E T c tr c1 l :
  get_steps E T c tr = (c1, Some l) ->
  names l = names (snd (raw_steps E T (set_trace c tr))) /\ map ss_par l = map ss_par (snd (raw_steps E T (set_trace c tr))).
Proof.
  unfold get_steps. destruct (raw_steps E T (set_trace c tr)) as [c2 raw]. simpl.
  destruct (interp_steps E T c2 raw) as [c3 res] eqn:Hi. intros H; inversion H; subst. eapply interp_steps_names; eauto.
Qed.

Lemma names_static T rows : names (map (static_step T) rows) = map fst rows.
Proof. unfold names. rewrite map_map. reflexivity. Qed.

Lemma names_script T script par l : names (map (fun n => script_step T script n par) l) = l.
Proof. unfold names. rewrite map_map. simpl. apply map_id. Qed.

Lemma rows_all_names rows : map fst (rows_all rows) = step_names rows.
Proof. induction rows as [|[[n p]|] r IH]; simpl; [reflexivity|now rewrite IH|exact IH]. Qed.

(* subsequences *)
Inductive subseq {A} : list A -> list A -> Prop :=
| ss_nil l : subseq [] l
| ss_take x a b : subseq a b -> subseq (x :: a) (x :: b)
| ss_skip x a b : subseq a b -> subseq a (x :: b).

Lemma subseqb_sound a : forall b, subseqb a b = true -> subseq a b.
Proof.
  induction a as [|x a IHa]; intros b H; [constructor|].
  induction b as [|y b IHb]; simpl in H; [discriminate|].
  destruct (beq_spec x y) as [->|Hn]; [constructor; now apply IHa|]. constructor. now apply IHb.
Qed.

Lemma subseq_refl {A} (l : list A) : subseq l l.
Proof. induction l; constructor; assumption. Qed.

Lemma subseq_app_mid {A} (a m b : list A) : subseq (a ++ b) (a ++ m ++ b).
Proof.
  induction a as [|x a IH]; simpl; [|constructor; exact IH].
  induction m as [|y m IHm]; simpl; [apply subseq_refl|constructor; exact IHm].
Qed.

(* robsd, robsd-cross, robsd-ports: the listing is the static table *)
Lemma raw_names_static E m c :
  m = ROBSD \/ m = ROBSD_CROSS \/ m = ROBSD_PORTS ->
  names (snd (raw_steps E (tables_of m) c)) = step_names (t_steps (tables_of m))
  /\ Forall (fun s => ss_par s = false) (snd (raw_steps E (tables_of m) c)).
Proof.
  intros [->|[->| ->]]; (split; [vm_compute; reflexivity|vm_compute; repeat constructor]).
Qed.

Lemma fixed_steps_static E m c :
  m = ROBSD \/ m = ROBSD_CROSS \/ m = ROBSD_PORTS ->
  let ns := names (snd (raw_steps E (tables_of m) c)) in
  subseq (doc_steps m) ns /\ Forall (fun n => In n (doc_steps m)) ns /\ last ns [] = [101; 110; 100].
Proof.
  intros Hm. destruct (raw_names_static E m c Hm) as [Hn _]. cbv zeta. rewrite Hn.
  destruct Hm as [->|[->| ->]]; (split; [apply subseqb_sound; vm_compute; reflexivity|split; [|vm_compute; reflexivity]]);
    apply Forall_forall; intros n Hin; vm_compute in Hin; vm_compute;
    repeat (destruct Hin as [<-|Hin]; [tauto|]); destruct Hin.
Qed.

Lemma last_app_ne {A} (a b : list A) d : b <> [] -> last (a ++ b) d = last b d.
Proof.
  intros Hb. induction a as [|x a IH]; simpl; [reflexivity|].
  destruct (a ++ b) eqn:Eab; [destruct a; simpl in Eab; [congruence|discriminate]|exact IH].
Qed.

(* regress: static prefix, the configured tests in two passes, static rest *)
Definition TRg := tables_of ROBSD_REGRESS.

Lemma raw_regress E c :
  let '(c1, ov) := find1 E TRg c str_regress in
  let l := match ov with Some (VList l) => l | _ => [] end in
  let '(c2, ps, ns) := split_regress E TRg c1 l in
  names (snd (raw_steps E TRg c)) = map fst (rows_before (t_steps TRg)) ++ ps ++ ns ++ map fst (rows_after (t_steps TRg))
  /\ map ss_par (snd (raw_steps E TRg c)) =
     map (fun _ => false) (rows_before (t_steps TRg)) ++ map (fun _ => true) ps ++ map (fun _ => false) ns
     ++ map (fun _ => false) (rows_after (t_steps TRg)).
Proof.
  unfold raw_steps. change (t_mode TRg) with ROBSD_REGRESS. cbv iota.
  destruct (find1 E TRg c str_regress) as [c1 ov].
  destruct (split_regress E TRg c1 _) as [[c2 ps] ns]. cbn [snd]. split.
  - unfold names. rewrite !map_app. fold (names (map (static_step TRg) (rows_before (t_steps TRg)))).
    fold (names (map (static_step TRg) (rows_after (t_steps TRg)))). rewrite !names_static.
    fold (names (map (fun n => script_step TRg (t_regress_script TRg) n true) ps)).
    fold (names (map (fun n => script_step TRg (t_regress_script TRg) n false) ns)). now rewrite !names_script.
  - rewrite !map_app, !map_map. reflexivity.
Qed.

Lemma regress_doc_split :
  doc_steps ROBSD_REGRESS = map fst (rows_before (t_steps TRg)) ++ map fst (rows_after (t_steps TRg))
  /\ last (map fst (rows_before (t_steps TRg))) [] = doc_regress_after
  /\ last (map fst (rows_after (t_steps TRg))) [] = [101; 110; 100].
Proof. repeat split; vm_compute; reflexivity. Qed.

Lemma fixed_steps_regress E c :
  subseq (doc_steps ROBSD_REGRESS) (names (snd (raw_steps E TRg c)))
  /\ last (names (snd (raw_steps E TRg c))) [] = [101; 110; 100].
Proof.
  pose proof (raw_regress E c) as H. destruct (find1 E TRg c str_regress) as [c1 ov]. cbv zeta in H.
  destruct (split_regress E TRg c1 match ov with Some (VList l) => l | _ => [] end) as [[c2 ps] ns]. destruct H as [Hn _]. rewrite Hn.
  destruct regress_doc_split as [Hd [_ Hl]]. split.
  - rewrite Hd. rewrite (app_assoc ps ns). apply subseq_app_mid.
  - rewrite !app_assoc. rewrite last_app_ne; [exact Hl|]. vm_compute. discriminate.
Qed.

(* canvas: the configured steps in configuration order, then end *)
Lemma raw_canvas E c :
  snd (raw_steps E (tables_of CANVAS) (after_parse (tables_of CANVAS) c)) =
  map (fun s => mk_sstep (cs_name s) (cs_command s) (cs_parallel s)) (c_steps c)
  ++ [mk_sstep [101; 110; 100] (script_argv (tables_of CANVAS) (fst (t_canvas_end (tables_of CANVAS))) [101; 110; 100]) false].
Proof. unfold raw_steps, after_parse. simpl. rewrite map_app. reflexivity. Qed.

(* ---------------------------------------------------------------- the two passes *)
(* when deciding "parallel?" neither changes the configuration nor depends on what was decided before *)
Lemma split_regress_filter E T (par : bytes -> bool) c :
  (forall n, is_parallel E T c n = (c, par n)) ->
  forall l, split_regress E T c l = (c, filter par l, filter (fun n => negb (par n)) l).
Proof.
  intros Hp. induction l as [|n l IH]; simpl; [reflexivity|].
  rewrite Hp, IH. destruct (par n); reflexivity.
Qed.

(* ---------------------------------------------------------------- "parallel?" on the regress tables *)
Lemma beq_length a : forall b, beq a b = true -> length a = length b.
Proof. induction a as [|x a IH]; intros [|y b] H; simpl in H; try discriminate; [reflexivity|]. apply andb_true_iff in H. simpl. f_equal. apply IH, H. Qed.

Lemma find_grammar_skip p g G : p g = false -> find_grammar p (g :: G) = find_grammar p G.
Proof. intros H. simpl. now rewrite H. Qed.
Lemma find_grammar_hit p g G : p g = true -> find_grammar p (g :: G) = Some g.
Proof. intros H. simpl. now rewrite H. Qed.

Lemma ge_exact_len g name : gr_pat g = false -> length (gr_kw g) <> length name -> grammar_equals g name = false.
Proof.
  intros Hp Hl. unfold grammar_equals. rewrite Hp, andb_false_l, orb_false_r.
  destruct (beq (gr_kw g) name) eqn:Hb; [|reflexivity]. apply beq_length in Hb. congruence.
Qed.

Lemma ge_pat_suffix g name pre suf :
  pat_split (gr_kw g) = Some (pre, suf) -> suffixb suf (gr_kw g) = true -> suffixb suf name = false ->
  grammar_equals g name = false.
Proof.
  intros Hs Hk Hsuf. unfold grammar_equals, patmatch. rewrite Hs, Hsuf, andb_false_r, andb_false_l, andb_false_r, orb_false_r.
  destruct (beq_spec (gr_kw g) name) as [He|He]; [|reflexivity]. rewrite He in Hk. congruence.
Qed.

Definition rn_parallel (n : bytes) : bytes := regress_name n sfx_parallel.

Lemma rn_parallel_length n : length (rn_parallel n) = (17 + length n)%nat.
Proof. unfold rn_parallel, regress_name. rewrite app_length, app_length. simpl. lia. Qed.

Lemma rn_parallel_rev n :
  rev (rn_parallel n) = [108; 101; 108; 108; 97; 114; 97; 112; 45] ++ rev n ++ rev regress_prefix.
Proof.
  unfold rn_parallel, regress_name. rewrite rev_app_distr.
  change (n ++ 45 :: sfx_parallel) with (n ++ [45] ++ sfx_parallel). rewrite !rev_app_distr. simpl rev at 1 2.
  rewrite <- !app_assoc. reflexivity.
Qed.

Definition row_regress_parallel : grammar :=
  mk_grammar [114; 101; 103; 114; 101; 115; 115; 45; 42; 45; 112; 97; 114; 97; 108; 108; 101; 108]
             VT_INTEGER PF_none false false true false (D_fun DF_parallel).

Lemma gfi_regress_parallel n :
  grammar_for_interp (t_grammar TRg) (rn_parallel n) = Some row_regress_parallel.
Proof.
  unfold grammar_for_interp.
  let G := eval vm_compute in (t_grammar TRg) in change (t_grammar TRg) with G.
  pose proof (rn_parallel_length n) as Hlen. pose proof (rn_parallel_rev n) as Hrev.
  (* the twelve exact rows before the patterns *)
  do 12 (rewrite find_grammar_skip by (apply ge_exact_len; [reflexivity|rewrite Hlen; simpl; lia])).
  (* regress-*-env, regress-*-targets: the suffix does not fit *)
  do 2 (rewrite find_grammar_skip by
          (eapply ge_pat_suffix; [vm_compute; reflexivity|vm_compute; reflexivity|unfold suffixb; rewrite Hrev; reflexivity])).
  apply find_grammar_hit. unfold grammar_equals. cbn [gr_kw gr_pat].
  apply orb_true_iff. right. apply andb_true_iff. split; [reflexivity|]. unfold patmatch.
  assert (Hs : pat_split (gr_kw row_regress_parallel) = Some (regress_prefix, 45 :: sfx_parallel)) by (vm_compute; reflexivity).
  rewrite Hs. apply andb_true_iff. split; [apply andb_true_iff; split|].
  - apply prefixb_spec. eexists. reflexivity.
  - unfold suffixb. rewrite Hrev. apply prefixb_spec. eexists. reflexivity.
  - rewrite Hlen. apply Nat.leb_le. simpl. lia.
Qed.

Definition global_parallel (c : cfg) : Z :=
  match find_var (c_vars c) kw_parallel with Some (VInt z) => z | Some _ => 1%Z | None => 1%Z end.

(* a test runs in parallel iff the global switch is on and no no-parallel option defined regress-<test>-parallel as 0 *)
Definition par_of (c : cfg) (n : bytes) : bool :=
  if (global_parallel c =? 0)%Z then false
  else match find_var (c_vars c) (rn_parallel n) with
       | Some (VInt z) => negb (z =? 0)%Z
       | _ => true
       end.

Lemma find1_parallel E c :
  find1 E TRg c kw_parallel =
  (c, Some match find_var (c_vars c) kw_parallel with Some v => v | None => VInt 1 end).
Proof.
  unfold find1, config_find. destruct (find_var (c_vars c) kw_parallel); [reflexivity|].
  assert (Hg : grammar_for_interp (t_grammar TRg) kw_parallel
               = Some (mk_grammar kw_parallel VT_INTEGER PF_boolean false false false false (D_i32 1))) by (vm_compute; reflexivity).
  rewrite Hg. reflexivity.
Qed.

Lemma find_plain_parallel E c :
  config_find_plain E TRg c kw_parallel =
  (c, Some match find_var (c_vars c) kw_parallel with Some v => v | None => VInt 1 end).
Proof.
  unfold config_find_plain. destruct (find_var (c_vars c) kw_parallel); [reflexivity|].
  assert (Hg : grammar_for_interp (t_grammar TRg) kw_parallel
               = Some (mk_grammar kw_parallel VT_INTEGER PF_boolean false false false false (D_i32 1))) by (vm_compute; reflexivity).
  rewrite Hg. reflexivity.
Qed.

Lemma is_parallel_regress E c n : is_parallel E TRg c n = (c, par_of c n).
Proof.
  unfold is_parallel, int_value. rewrite find1_parallel. unfold par_of, global_parallel.
  destruct (find_var (c_vars c) kw_parallel) as [vp|] eqn:Hp.
  - assert (Hr : find1 E TRg c (regress_name n sfx_parallel)
                 = (c, Some match find_var (c_vars c) (rn_parallel n) with Some v => v | None => vp end)).
    { unfold find1, config_find. fold (rn_parallel n). destruct (find_var (c_vars c) (rn_parallel n)); [reflexivity|].
      rewrite gfi_regress_parallel. simpl. rewrite find_plain_parallel, Hp. reflexivity. }
    destruct vp as [|z|s|l]; simpl;
      try (rewrite Hr; destruct (find_var (c_vars c) (rn_parallel n)) as [[| | |]|]; reflexivity).
    destruct (z =? 0)%Z eqn:Hz; [reflexivity|]. rewrite Hr.
    destruct (find_var (c_vars c) (rn_parallel n)) as [[| | |]|]; try reflexivity. simpl. now rewrite Hz.
  - assert (Hr : find1 E TRg c (regress_name n sfx_parallel)
                 = (c, Some match find_var (c_vars c) (rn_parallel n) with Some v => v | None => VInt 1 end)).
    { unfold find1, config_find. fold (rn_parallel n). destruct (find_var (c_vars c) (rn_parallel n)); [reflexivity|].
      rewrite gfi_regress_parallel. simpl. rewrite find_plain_parallel, Hp. reflexivity. }
    simpl. rewrite Hr. destruct (find_var (c_vars c) (rn_parallel n)) as [[| | |]|]; reflexivity.
Qed.

Lemma filter_all_false {A} (p : A -> bool) l :
  (forall n, p n = false) -> filter p l = [] /\ filter (fun n => negb (p n)) l = l.
Proof.
  intros H. induction l as [|x l [IH1 IH2]]; simpl; [auto|]. rewrite H. simpl. now rewrite IH2.
Qed.

(* the regress part of the schedule: parallel ones first, then the others, both in configuration order;
   none parallel when the global switch is off *)
Lemma regress_two_passes E c :
  let l := match find_var (c_vars c) str_regress with Some (VList l) => l | _ => [] end in
  names (snd (raw_steps E TRg c)) =
    map fst (rows_before (t_steps TRg)) ++ filter (par_of c) l ++ filter (fun n => negb (par_of c n)) l
    ++ map fst (rows_after (t_steps TRg))
  /\ map ss_par (snd (raw_steps E TRg c)) =
    map (fun _ => false) (rows_before (t_steps TRg)) ++ map (fun _ => true) (filter (par_of c) l)
    ++ map (fun _ => false) (filter (fun n => negb (par_of c n)) l) ++ map (fun _ => false) (rows_after (t_steps TRg))
  /\ ((global_parallel c =? 0)%Z = true -> filter (par_of c) l = [] /\ filter (fun n => negb (par_of c n)) l = l).
Proof.
  cbv zeta. pose proof (raw_regress E c) as H.
  assert (Hf : find1 E TRg c str_regress = (c, find_var (c_vars c) str_regress)).
  { unfold find1, config_find. destruct (find_var (c_vars c) str_regress); [reflexivity|].
    assert (Hg : exists g, grammar_for_interp (t_grammar TRg) str_regress = Some g /\ gr_req g = true) by (eexists; split; vm_compute; reflexivity).
    destruct Hg as [g [-> ->]]. reflexivity. }
  rewrite Hf in H. cbv zeta in H.
  rewrite (split_regress_filter E TRg (par_of c) c (is_parallel_regress E c)) in H.
  destruct H as [H1 H2]. split; [exact H1|]. split; [exact H2|].
  intros Hz. assert (Hall : forall n, par_of c n = false) by (intros n; unfold par_of; now rewrite Hz).
  apply filter_all_false, Hall.
Qed.

(* ---------------------------------------------------------------- every listed name resolves *)
Lemma find_step_in steps : forall s, In s steps -> nonul (ss_name s) ->
  exists s', find_step steps (ss_name s) = Some s' /\ ss_name s' = ss_name s /\ In s' steps.
Proof.
  induction steps as [|h r IH]; intros s Hin0 Hn; [destruct Hin0|]. destruct Hin0 as [<-|Hin]; simpl.
  - rewrite (cstr_id _ Hn), beq_refl. eauto.
  - destruct (beq_spec (ss_name h) (cstr (ss_name s))) as [He|He].
    + exists h. rewrite (cstr_id _ Hn) in He. auto.
    + destruct (IH s Hin Hn) as [s' [Hf [Hs Hi]]]. exists s'. auto.
Qed.

(* robsd-exec resolves a listed name against the same schedule robsd-step -L printed *)
Lemma listed_resolvable E T text c c1 steps s :
  config_parse E T text = Accepted c -> get_steps E T (after_parse T c) false = (c1, Some steps) ->
  In s steps -> nonul (ss_name s) ->
  exists s', resolve E T text false (ss_name s) = Some (ss_cmd s') /\ ss_name s' = ss_name s /\ In s' steps.
Proof.
  intros Hp Hg Hin Hn. unfold resolve. rewrite Hp, Hg. simpl.
  destruct (find_step_in steps s Hin Hn) as [s' [Hf [Hs Hi]]]. exists s'. rewrite Hf. auto.
Qed.

(* a text without '$' interpolates to itself and leaves the configuration alone *)
Lemma sinner_nodollar {St} ig (lk : St -> bytes -> St * option bytes) rec st s :
  ~ In DOLLAR s -> sinner ig lk rec st s = (st, IOk s).
Proof.
  induction s as [|c s IH]; intros Hn; [reflexivity|]. cbn [sinner].
  destruct (N.eqb_spec c DOLLAR) as [->|Hc]; [exfalso; apply Hn; now left|].
  rewrite IH by (intros H; apply Hn; now right). reflexivity.
Qed.

Lemma cfg_interp_nodollar E T c s :
  (2 <= t_depth_limit T)%nat -> nonul s -> ~ In DOLLAR s -> cfg_interp E T c s = (c, IOk s).
Proof.
  intros Hd Hn Hs. unfold cfg_interp, sinterp_str. rewrite (cstr_id _ Hn).
  destruct (t_depth_limit T) as [|[|d]]; try lia. simpl pred. cbn [sinterp]. now apply sinner_nodollar.
Qed.

(* the command of a step made by config_steps_add_script is never empty after interpolation:
   it starts with the template's first literal ("sh") *)
Lemma script_cmd_nonempty E T c script name c1 l a0 rest :
  (2 <= t_depth_limit T)%nat -> t_argv T = A_lit a0 :: rest -> a0 <> [] -> nonul a0 -> ~ In DOLLAR a0 ->
  interp_args E T c (script_argv T script name) = (c1, Some l) -> exists l', l = a0 :: l'.
Proof.
  intros Hd Ha Hne Hn Hs. unfold script_argv. rewrite Ha. cbn [map interp_args].
  rewrite (cfg_interp_nodollar E T c a0 Hd Hn Hs).
  destruct (interp_args E T c _) as [c2 [l2|]]; [|discriminate]. intros H; inversion H; subst.
  destruct a0; [congruence|]. eauto.
Qed.

(* ---------------------------------------------------------------- assembled statements *)
Definition sh_lit : bytes := [115; 104].

Lemma script_cmd_nonempty_gen E m c script name c1 l :
  interp_args E (tables_of m) c (script_argv (tables_of m) script name) = (c1, Some l) -> exists l', l = sh_lit :: l'.
Proof.
  destruct m; eapply script_cmd_nonempty; try reflexivity; try (vm_compute; lia); try discriminate;
    try (repeat constructor; discriminate); try (vm_compute; intros [H|[H|[]]]; discriminate).
Qed.

(* a non-vacuity witness: a regress configuration and its listings *)
From Coq Require Import String.
Definition sched_wit_env : env :=
  mk_env (fun p => if beq p (bs "/r") then DS_dir else DS_err 2) (fun _ => true) (fun _ => GL_nomatch) (fun _ => F_noopen)
         (Some (bs "/x")) 4%Z [] [] (bs "amd64") (bs "amd64").

Definition sched_wit_text : bytes :=
  bs "robsddir ""/r""
regress ""a"" no-parallel
regress ""b""
regress ""c"" quiet no-parallel
regress ""d""
".

Lemma sched_nonvacuous :
  list_cmd sched_wit_env TRg sched_wit_text None =
  L_ok (bs "1 env
2 pkg-add
3 cvs
4 patch
5 obj
6 mount
7 b parallel
8 d parallel
9 a
10 c
11 umount
12 revert
13 pkg-del
14 dmesg
15 end
")
  /\ list_cmd sched_wit_env TRg sched_wit_text (Some (bs "14")) = L_ok (bs "14 dmesg
15 end
")
  /\ list_cmd sched_wit_env TRg sched_wit_text (Some (bs "16")) = L_offset_too_large
  /\ resolve sched_wit_env TRg sched_wit_text false (bs "b")
     = Some [bs "sh"; bs "-eu"; bs "/x/robsd-regress-exec.sh"; bs "b"].
Proof. repeat split; vm_compute; reflexivity. Qed.

(* a canvas step whose command interpolates to nothing is listed, resolved - and has no command left *)
Definition sched_wit_canvas_text : bytes :=
  bs "canvas-name ""x""
canvas-dir ""/r""
step ""s"" command { ""${trace}"" }
".

Lemma canvas_empty_command :
  list_cmd sched_wit_env (tables_of CANVAS) sched_wit_canvas_text None = L_ok (bs "1 s
2 end
")
  /\ resolve sched_wit_env (tables_of CANVAS) sched_wit_canvas_text false (bs "s") = Some [].
Proof. split; vm_compute; reflexivity. Qed.
