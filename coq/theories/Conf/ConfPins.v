(* ConfPins.v - what the translator counts in the sources against what the model accounts for.

   TRAP SITES.  harness/t_conf.py lists every function of the configuration sources (conf.c, conf-*.c, conf-token.c, lexer.c,
   variable-value.c, interpolate.c, if.c, robsd-config.c) that contains assert( / __builtin_trap( / abort(, with the number of
   such sites ([src_trap_sites]).  [trap_site_table] says, for each, where the model flags it (the numbers are the sites of
   Conf/ConfAbort.v) or why no run reaches it.  The comparison is a closed computation: a NEW assert/trap/abort anywhere in
   those files, or a second one in a listed function, stops [trap_sites_accounted].
   Of the ten places where the model sets its trap flag, three (2, 3, 6) are these source sites; the other seven are hazards
   that are not written as assert/trap in C: 1 a NULL dereference in config_default_parallel, 4 unbounded recursion (D21),
   8 a call through a NULL gr_fn, and 5, 7, 9, 10 the fuel of the model's own loops (artefacts of the model, proved dead).

   RETURN CODES.  [parser_returns] is the sequence of CONFIG_* codes each value parser returns, in source order;
   [parser_outcomes] is the set of outcomes ([prv] of Conf/ConfDefs.v) the corresponding model parser was written with.  This
   is a PIN (both sides are read off by hand on the model's side): a parser that starts returning a code it did not return
   before, or stops returning one, stops [parser_returns_pinned].  config_parse_keyword and config_validate are pinned as
   normalised text by the translator. *)
From Robsd Require Import Conf.ConfDefs.
From RobsdGen Require Import Gen_Conf.
From Coq Require Import String.
Local Open Scope string_scope.

Inductive disposition :=
| Modelled (sites : list nat)      (* the model sets its trap flag there: these sites of Conf/ConfAbort.v *)
| Dead_by_guard.                   (* unreachable by a guard in the same function / in every caller, pinned by the translator *)

Definition trap_site_table : list (string * string * nat * disposition) := [
  (* switch (vadef.va_val.type) case INVALID: the static default of a row of type INVALID *)
  ("conf.c", "config_find", 1%nat, Modelled [2; 3]%nat);
  (* case INVALID behind  if (va == NULL || !is_variable_value_valid(&va->va_val)) return NULL;  (is_variable_value_valid =
     type != INVALID): the model's lookup answers None for VInvalid *)
  ("conf.c", "config_interpolate_lookup", 1%nat, Dead_by_guard);
  (* assert(val->type == LIST): every caller has variable_value_init(val, LIST) before its first append *)
  ("variable-value.c", "variable_value_append", 1%nat, Dead_by_guard);
  (* assert(dst->type == LIST && src->type == LIST): config_find_or_create_list on a variable of another type *)
  ("variable-value.c", "variable_value_concat", 1%nat, Modelled [6]%nat)
].

Lemma trap_sites_accounted :
  src_trap_sites = map (fun x => match x with (f, fn, n, _) => (bs f, bs fn, n) end) trap_site_table.
Proof. vm_compute. reflexivity. Qed.

Definition modelled_sites : list nat :=
  flat_map (fun x => match x with (_, _, _, Modelled l) => l | _ => [] end) trap_site_table.

Lemma modelled_sites_are : modelled_sites = [2; 3; 6]%nat.
Proof. reflexivity. Qed.

(* ---- return codes *)
Inductive okind := O_append | O_nop | O_error | O_fatal.

Definition code_kind (r : retcode) : list okind :=
  match r with RC_append => [O_append] | RC_nop => [O_nop] | RC_error => [O_error] | RC_fatal => [O_fatal] | RC_pass => [] end.

Definition okind_eqb (a b : okind) : bool :=
  match a, b with O_append, O_append | O_nop, O_nop | O_error, O_error | O_fatal, O_fatal => true | _, _ => false end.

Definition has_kind (l : list okind) (k : okind) : bool := existsb (okind_eqb k) l.

(* the outcomes the MODEL's parser has (Conf/ConfDefs.v: parse_boolean, parse_integer, parse_string, parse_list, parse_glob,
   parse_user, parse_directory, parse_canvas_directory, parse_canvas_step, parse_regress, parse_regress_env,
   parse_regress_timeout), beside those handed on from a parser it calls *)
Definition parser_outcomes (f : pfun) : list okind :=
  match f with
  | PF_none => []
  | PF_boolean | PF_integer | PF_string | PF_user | PF_directory | PF_regress_timeout => [O_error; O_append]
  | PF_list => [O_error; O_append; O_fatal]
  | PF_glob => [O_error; O_nop; O_fatal; O_append]
  | PF_canvas_directory => [O_nop]
  | PF_canvas_step => [O_nop; O_error]
  | PF_regress | PF_regress_env => [O_error; O_nop]
  end.

Definition same_kinds (a b : list okind) : bool :=
  forallb (has_kind b) a && forallb (has_kind a) b.

Lemma parser_returns_pinned :
  forallb (fun x => same_kinds (flat_map code_kind (snd x)) (parser_outcomes (fst x))) parser_returns = true
  /\ map fst parser_returns = [PF_boolean; PF_integer; PF_string; PF_list; PF_glob; PF_user; PF_directory; PF_canvas_directory;
                               PF_canvas_step; PF_regress; PF_regress_env; PF_regress_timeout].
Proof. split; vm_compute; reflexivity. Qed.
