(* ConfValueMore.v - the values of the settable keywords that are NOT plain (Conf/ConfValueAll.v covers the plain ones):
     ${regress}       all configured tests, in the order written, joined by single spaces   [regress_value]
     ${regress-env}   the items of every regress-env entry, in order                         [regress_env_value]
     ${canvas-dir}    the directory as written (and robsddir with it)                         [canvas_dir_value]
   and rdomain THROUGH the interpolation: a template with n references ${rdomain} yields the values of n successive
   calls of config_default_rdomain and leaves the counter n steps further, whether the references are expanded while the
   file is read (the env option of a test) or in a template - both use the one counter [rdomain_template]. *)
From Robsd Require Import Conf.ConfDefs Conf.ConfSpec Conf.ConfInv Conf.ConfPrim Conf.ConfTrack Conf.ConfValue Conf.ConfValueAll
  Conf.ConfRdomain Conf.ConfInst Conf.ConfAbort Conf.ConfRows Base.DecimalProofs.
From RobsdGen Require Import Gen_Conf.
Local Open Scope N_scope.

(* ---------------------------------------------------------------- list variables that accumulate *)
Definition list_content (c : cfg) (x : bytes) : list bytes :=
  match find_var (c_vars c) x with Some (VList l) => l | _ => [] end.

Definition listish (c : cfg) (x : bytes) : Prop :=
  find_var (c_vars c) x = None \/ exists l, find_var (c_vars c) x = Some (VList l).

Lemma concat_list_value c x l : listish c x ->
  find_var (c_vars (concat_list c x l)) x = Some (VList (list_content c x ++ l)).
Proof.
  intros [Hn|[old Ho]]; unfold concat_list, present, list_content.
  - rewrite Hn. pose proof (append_defines c x (VList []) Hn) as Ha. rewrite Ha. cbn [set_vars c_vars].
    apply (find_var_set_first_same _ x _ (VList [])). exact Ha.
  - rewrite Ho. rewrite Ho. cbn [set_vars c_vars]. apply (find_var_set_first_same _ x _ (VList old)). exact Ho.
Qed.

Definition regress_paths (es : list entry) : list bytes :=
  flat_map (fun e => match en_val e with E_regress p _ => [p] | _ => [] end) es.

Definition regress_env_items (es : list entry) : list bytes :=
  flat_map (fun e => if beq (en_kw e) kw_regress_env then match en_val e with E_list l => l | _ => [] end else []) es.

Lemma not_fun_regress : ~ fun_name TR str_regress.
Proof. intros [g [f [Hg [Hd _]]]]. vm_compute in Hg. injection Hg as <-. discriminate. Qed.

Lemma not_fun_regress_env : ~ fun_name TR kw_regress_env.
Proof. intros [g [f [Hg [Hd _]]]]. vm_compute in Hg. injection Hg as <-. discriminate. Qed.

Lemma regress_name_ne_regress p s : beq (regress_name p s) str_regress = false.
Proof.
  pose proof (regress_name_prefix p s) as H. destruct (beq (regress_name p s) str_regress) eqn:E; [|reflexivity].
  apply beq_eq in E. rewrite E in H. vm_compute in H. discriminate.
Qed.

Lemma ropt_targets_ne_regress p os : not_among str_regress (map (ropt_target p) os).
Proof.
  induction os as [|o os IH]; [constructor|]. constructor; [|exact IH].
  destruct o; cbn [ropt_target]; try apply regress_name_ne_regress; vm_compute; reflexivity.
Qed.

(* the keyword rows of the regress table: the keyword's own parser decides what an entry can write *)
Lemma regress_rows kw g : grammar_for_keyword (t_grammar TR) kw = Some g ->
  gr_kw g = kw /\ (gr_fn g = PF_regress <-> kw = str_regress) /\ (gr_fn g = PF_regress_env <-> kw = kw_regress_env)
  /\ gr_fn g <> PF_canvas_directory /\ gr_fn g <> PF_canvas_step.
Proof.
  intros H. unfold grammar_for_keyword in H. apply ConfRows.find_grammar_some in H. destruct H as [Hin Hk].
  assert (Hall : forallb (fun g => negb (has_fn g) ||
            (Bool.eqb (match gr_fn g with PF_regress => true | _ => false end) (beq (gr_kw g) str_regress)
             && Bool.eqb (match gr_fn g with PF_regress_env => true | _ => false end) (beq (gr_kw g) kw_regress_env)
             && match gr_fn g with PF_canvas_directory | PF_canvas_step => false | _ => true end)) (t_grammar TR) = true)
    by (vm_compute; reflexivity).
  rewrite forallb_forall in Hall. specialize (Hall g Hin). apply andb_true_iff in Hk. destruct Hk as [Hf Hb].
  rewrite Hf in Hall. cbn [negb orb] in Hall. apply andb_true_iff in Hall. destruct Hall as [Hall H3].
  apply andb_true_iff in Hall. destruct Hall as [H1 H2]. apply beq_eq in Hb. subst kw.
  split; [reflexivity|]. apply Bool.eqb_prop in H1. apply Bool.eqb_prop in H2.
  repeat split.
  - intros E. rewrite E in H1. symmetry in H1. apply beq_eq in H1. exact H1.
  - intros E. rewrite E, beq_refl in H1. destruct (gr_fn g); try discriminate; reflexivity.
  - intros E. rewrite E in H2. symmetry in H2. apply beq_eq in H2. exact H2.
  - intros E. rewrite E, beq_refl in H2. destruct (gr_fn g); try discriminate; reflexivity.
  - intros E. rewrite E in H3. discriminate.
  - intros E. rewrite E in H3. discriminate.
Qed.

(* ---------------------------------------------------------------- ${regress} *)
Section RegressValue.
  Variable E : env.

  Lemma regress_entry_step c g e c1 : grammar_for_keyword (t_grammar TR) (en_kw e) = Some g ->
    value_fits (gr_fn g) (en_val e) = true -> listish c str_regress -> apply_entry E TR c g e = Some c1 ->
    listish c1 str_regress
    /\ list_content c1 str_regress = list_content c str_regress ++ regress_paths [e]
    /\ (find_var (c_vars c1) str_regress = None <-> find_var (c_vars c) str_regress = None /\ regress_paths [e] = []).
  Proof.
    intros Hg Hfit Hl Ha. destruct (regress_rows _ _ Hg) as [Hkw [Hr [_ [Hcd Hcs]]]].
    destruct (gr_fn g) eqn:Hf; try (exfalso; now (apply Hcd || apply Hcs)).
    all: try (
      (* not the regress production: the entry does not write "regress" and is no E_regress *)
      assert (Hne : beq (en_kw e) str_regress = false)
        by (destruct (beq (en_kw e) str_regress) eqn:B; [apply beq_eq in B; apply Hr in B; discriminate|reflexivity]);
      assert (Hu : find_var (c_vars c1) str_regress = find_var (c_vars c) str_regress)
        by (apply (untouched_apply_entry E TR str_regress not_fun_regress c g e c1 Hne); [rewrite Hf; destruct (en_val e); cbn [value_targets]; try constructor; repeat constructor; vm_compute; reflexivity|exact Ha]);
      assert (Hp : regress_paths [e] = []) by (unfold regress_paths; cbn [flat_map]; rewrite app_nil_r; destruct (en_val e); try reflexivity; cbn [value_fits] in Hfit; discriminate);
      unfold listish, list_content; rewrite Hu, Hp, app_nil_r; split; [exact Hl|]; split; [reflexivity|]; split; [intros H; split; [exact H|reflexivity]|intros [H _]; exact H]).
    (* PF_regress *)
    destruct (en_val e) as [| | | | |path opts|] eqn:Hv; cbn [value_fits] in Hfit; try discriminate.
    unfold apply_entry in Ha. rewrite Hf, Hv in Ha. cbn [apply_value] in Ha.
    destruct (apply_ropts E TR c path opts) as [c2|] eqn:Ho; [|discriminate]. injection Ha as Ha; subst c1.
    pose proof (untouched_apply_ropts E TR str_regress not_fun_regress opts c path c2 (ropt_targets_ne_regress path opts) Ho) as Hu.
    assert (Hl2 : listish c2 str_regress) by (unfold listish; rewrite Hu; exact Hl).
    pose proof (concat_list_value c2 str_regress [path] Hl2) as Hc.
    assert (Hcont : list_content c2 str_regress = list_content c str_regress) by (unfold list_content; rewrite Hu; reflexivity).
    unfold regress_paths. cbn [flat_map]. rewrite Hv, app_nil_r. split; [right; eexists; exact Hc|]. split.
    - unfold list_content at 1. rewrite Hc, Hcont. reflexivity.
    - rewrite Hc. split; [discriminate|intros [_ H]; discriminate].
  Qed.

  Lemma regress_run es : forall c c1, run_entries E TR c es = Some c1 -> listish c str_regress ->
    listish c1 str_regress
    /\ list_content c1 str_regress = list_content c str_regress ++ regress_paths es
    /\ (find_var (c_vars c1) str_regress = None <-> find_var (c_vars c) str_regress = None /\ regress_paths es = []).
  Proof.
    induction es as [|e es IH]; intros c c1 H Hl.
    - injection H as <-. rewrite app_nil_r. split; [exact Hl|]. split; [reflexivity|]. tauto.
    - cbn [run_entries] in H. destruct (grammar_for_keyword (t_grammar TR) (en_kw e)) as [g|] eqn:Hg; [|discriminate].
      destruct (value_fits (gr_fn g) (en_val e)) eqn:Hfit; [|discriminate]. cbn [andb] in H.
      destruct (gr_rep g || negb (present c (en_kw e))); [|discriminate].
      destruct (apply_entry E TR c g e) as [c2|] eqn:Ha; [|discriminate].
      destruct (regress_entry_step c g e c2 Hg Hfit Hl Ha) as [L1 [C1 N1]].
      destruct (IH c2 c1 H L1) as [L2 [C2 N2]]. split; [exact L2|]. split.
      + rewrite C2, C1, <- app_assoc. unfold regress_paths. cbn [flat_map]. rewrite app_nil_r. reflexivity.
      + rewrite N2, N1. unfold regress_paths. cbn [flat_map]. rewrite app_nil_r.
        destruct (match en_val e with E_regress p _ => [p] | _ => [] end); cbn [app]; split.
        * intros [[A _] B]. auto.
        * intros [A B]. auto.
        * intros [[_ A] _]. discriminate.
        * intros [_ A]. discriminate.
  Qed.

  (* THE VALUE OF ${regress}: after an accepted configuration the variable holds the paths of all regress entries in the
     order written, and a reference yields them joined by single spaces (robsd-config.8: "All configured regression tests") *)
  Theorem regress_value es c : run_entries E TR (cfg_init TR) es = Some c -> regress_paths es <> [] ->
    find_var (c_vars c) str_regress = Some (VList (regress_paths es))
    /\ lookup1 E TR false c str_regress = (c, Some (join_spec (regress_paths es))).
  Proof.
    intros H Hne. destruct (regress_run es (cfg_init TR) c H (or_introl eq_refl)) as [[Hn|[l Hl]] [C N]].
    - exfalso. apply Hne. apply (proj1 N Hn).
    - unfold list_content in C. rewrite Hl in C. cbn in C. subst l. split; [exact Hl|].
      rewrite (lookup_defined E TR false c str_regress _ Hl ltac:(discriminate) (or_introl eq_refl)).
      rewrite render_list_single_spaces. reflexivity.
  Qed.
End RegressValue.

(* ---------------------------------------------------------------- ${regress-env} *)
Lemma regress_name_ne_regress_env p s : (3 <= length s)%nat -> beq (regress_name p s) kw_regress_env = false.
Proof.
  intros Hs. destruct (beq (regress_name p s) kw_regress_env) eqn:B; [|reflexivity]. apply beq_eq in B.
  apply (f_equal (@length N)) in B. unfold regress_name in B. rewrite !app_length in B. cbn [length] in B.
  change (length regress_prefix) with 8%nat in B. change (length kw_regress_env) with 11%nat in B. lia.
Qed.

Lemma ropt_targets_ne_regress_env p os : not_among kw_regress_env (map (ropt_target p) os).
Proof.
  induction os as [|o os IH]; [constructor|]. constructor; [|exact IH].
  destruct o; cbn [ropt_target].
  - apply regress_name_ne_regress_env. unfold sfx_env. cbn [length]. lia.
  - apply regress_name_ne_regress_env. unfold sfx_parallel. cbn [length]. lia.
  - reflexivity.
  - reflexivity.
  - apply regress_name_ne_regress_env. unfold sfx_quiet. cbn [length]. lia.
  - apply regress_name_ne_regress_env. unfold sfx_root. cbn [length]. lia.
  - apply regress_name_ne_regress_env. unfold sfx_targets. cbn [length]. lia.
Qed.

Section RegressEnvValue.
  Variable E : env.

  Lemma regress_env_entry_step c g e c1 : grammar_for_keyword (t_grammar TR) (en_kw e) = Some g ->
    value_fits (gr_fn g) (en_val e) = true -> listish c kw_regress_env -> apply_entry E TR c g e = Some c1 ->
    listish c1 kw_regress_env
    /\ list_content c1 kw_regress_env = list_content c kw_regress_env ++ regress_env_items [e].
  Proof.
    intros Hg Hfit Hl Ha. destruct (regress_rows _ _ Hg) as [Hkw [_ [Hr [Hcd Hcs]]]].
    destruct (gr_fn g) eqn:Hf; try (exfalso; now (apply Hcd || apply Hcs)).
    all: try (
      assert (Hne : beq (en_kw e) kw_regress_env = false)
        by (destruct (beq (en_kw e) kw_regress_env) eqn:B; [apply beq_eq in B; apply Hr in B; discriminate|reflexivity]);
      assert (Hu : find_var (c_vars c1) kw_regress_env = find_var (c_vars c) kw_regress_env)
        by (apply (untouched_apply_entry E TR kw_regress_env not_fun_regress_env c g e c1 Hne);
            [rewrite Hf; destruct (en_val e); cbn [value_targets]; unfold not_among;
             repeat (first [apply Forall_nil | apply ropt_targets_ne_regress_env | apply Forall_cons; [reflexivity|]])|exact Ha]);
      unfold listish, list_content, regress_env_items; cbn [flat_map]; rewrite Hne, Hu, !app_nil_r; split; [exact Hl|reflexivity]).
    (* PF_regress_env *)
    assert (Hk : en_kw e = kw_regress_env) by (apply Hr; reflexivity).
    destruct (en_val e) as [| | |l| | |] eqn:Hv; cbn [value_fits] in Hfit; try discriminate.
    unfold apply_entry in Ha. rewrite Hf, Hv in Ha. cbn [apply_value] in Ha. injection Ha as Ha; subst c1.
    pose proof (concat_list_value c kw_regress_env l Hl) as Hc.
    unfold regress_env_items. cbn [flat_map]. rewrite Hk, beq_refl, Hv, app_nil_r.
    split; [right; eexists; exact Hc|]. unfold list_content at 1. rewrite Hc. reflexivity.
  Qed.

  Lemma regress_env_run es : forall c c1, run_entries E TR c es = Some c1 -> listish c kw_regress_env ->
    listish c1 kw_regress_env /\ list_content c1 kw_regress_env = list_content c kw_regress_env ++ regress_env_items es.
  Proof.
    induction es as [|e es IH]; intros c c1 H Hl.
    - injection H as <-. rewrite app_nil_r. split; [exact Hl|reflexivity].
    - cbn [run_entries] in H. destruct (grammar_for_keyword (t_grammar TR) (en_kw e)) as [g|] eqn:Hg; [|discriminate].
      destruct (value_fits (gr_fn g) (en_val e)) eqn:Hfit; [|discriminate]. cbn [andb] in H.
      destruct (gr_rep g || negb (present c (en_kw e))); [|discriminate].
      destruct (apply_entry E TR c g e) as [c2|] eqn:Ha; [|discriminate].
      destruct (regress_env_entry_step c g e c2 Hg Hfit Hl Ha) as [L1 C1].
      destruct (IH c2 c1 H L1) as [L2 C2]. split; [exact L2|].
      rewrite C2, C1, <- app_assoc. unfold regress_env_items. cbn [flat_map]. rewrite app_nil_r. reflexivity.
  Qed.

  (* THE VALUE OF ${regress-env}: the items of all regress-env entries in the order written ("Environment variables added to
     all regression tests"); each item is a template itself and is expanded when referenced *)
  Theorem regress_env_value es c : run_entries E TR (cfg_init TR) es = Some c ->
    list_content c kw_regress_env = regress_env_items es
    /\ (regress_env_items es <> [] -> find_var (c_vars c) kw_regress_env = Some (VList (regress_env_items es))).
  Proof.
    intros H. destruct (regress_env_run es (cfg_init TR) c H (or_introl eq_refl)) as [L C].
    change (list_content (cfg_init TR) kw_regress_env) with (@nil bytes) in C. cbn [app] in C. split; [exact C|].
    intros Hne. destruct L as [Hn|[l Hl]]; unfold list_content in C.
    - rewrite Hn in C. congruence.
    - rewrite Hl in C. subst l. exact Hl.
  Qed.
End RegressEnvValue.

(* ---------------------------------------------------------------- ${canvas-dir} *)
Definition TC := tables_of CANVAS.

Lemma not_fun_canvas_dir : ~ fun_name TC kw_canvas_dir.
Proof. intros [g [f [Hg [Hd _]]]]. vm_compute in Hg. injection Hg as <-. discriminate. Qed.

(* the entry  canvas-dir "s"  defines canvas-dir (and robsddir) as the string written, when the variable was undefined *)
Lemma canvas_dir_entry E c s c1 :
  apply_value E TC c PF_canvas_directory (E_str s) = Some (c1, None) -> find_var (c_vars c) kw_canvas_dir = None ->
  find_var (c_vars c1) kw_canvas_dir = Some (VStr s).
Proof.
  cbn [apply_value]. destruct (dir_ok E TC c s) as [c2|] eqn:Hd; [|discriminate]. intros H Hn. injection H as <-.
  pose proof (untouched_dir_ok E TC kw_canvas_dir not_fun_canvas_dir c s c2 Hd) as Hu.
  apply append_keeps. apply append_defines. rewrite Hu. exact Hn.
Qed.

Lemma canvas_rows kw g : grammar_for_keyword (t_grammar TC) kw = Some g ->
  gr_kw g = kw /\ (gr_fn g = PF_canvas_directory <-> kw = kw_canvas_dir) /\ gr_fn g <> PF_regress
  /\ (kw = kw_canvas_dir -> gr_rep g = false).
Proof.
  intros H. unfold grammar_for_keyword in H. apply ConfRows.find_grammar_some in H. destruct H as [Hin Hk].
  assert (Hall : forallb (fun g => negb (has_fn g) ||
            (Bool.eqb (match gr_fn g with PF_canvas_directory => true | _ => false end) (beq (gr_kw g) kw_canvas_dir)
             && match gr_fn g with PF_regress => false | _ => true end
             && (negb (beq (gr_kw g) kw_canvas_dir) || negb (gr_rep g)))) (t_grammar TC) = true)
    by (vm_compute; reflexivity).
  rewrite forallb_forall in Hall. specialize (Hall g Hin). apply andb_true_iff in Hk. destruct Hk as [Hf Hb].
  rewrite Hf in Hall. cbn [negb orb] in Hall. apply andb_true_iff in Hall. destruct Hall as [Hall H3].
  apply andb_true_iff in Hall. destruct Hall as [H1 H2]. apply beq_eq in Hb. subst kw.
  split; [reflexivity|]. apply Bool.eqb_prop in H1. repeat split.
  - intros E. rewrite E in H1. symmetry in H1. apply beq_eq in H1. exact H1.
  - intros E. rewrite E, beq_refl in H1. destruct (gr_fn g); try discriminate; reflexivity.
  - intros E. rewrite E in H2. discriminate.
  - intros E. rewrite E, beq_refl in H3. cbn [negb orb] in H3. destruct (gr_rep g); [discriminate|reflexivity].
Qed.

Definition canvas_dir_of (es : list entry) : option bytes :=
  match find (fun e => beq (en_kw e) kw_canvas_dir) es with
  | Some e => match en_val e with E_str s => Some s | _ => None end
  | None => None
  end.

Section CanvasDirValue.
  Variable E : env.

  Lemma canvas_other_entry c g e c1 : grammar_for_keyword (t_grammar TC) (en_kw e) = Some g ->
    beq (en_kw e) kw_canvas_dir = false -> apply_entry E TC c g e = Some c1 ->
    find_var (c_vars c1) kw_canvas_dir = find_var (c_vars c) kw_canvas_dir.
  Proof.
    intros Hg Hne Ha. destruct (canvas_rows _ _ Hg) as [_ [Hcd [Hnr _]]].
    apply (untouched_apply_entry E TC kw_canvas_dir not_fun_canvas_dir c g e c1 Hne); [|exact Ha].
    destruct (gr_fn g) eqn:Hf; try (exfalso; apply Hnr; reflexivity);
      try (destruct (en_val e); cbn [value_targets]; unfold not_among; repeat (first [apply Forall_nil | apply Forall_cons; [reflexivity|]])).
    all: exfalso; assert (B : en_kw e = kw_canvas_dir) by (apply Hcd; reflexivity); rewrite B, beq_refl in Hne; discriminate.
  Qed.

  Lemma canvas_dir_keeps es : forall c c1 v, find_var (c_vars c) kw_canvas_dir = Some v ->
    run_entries E TC c es = Some c1 -> find_var (c_vars c1) kw_canvas_dir = Some v.
  Proof.
    induction es as [|e es IH]; intros c c1 v Hv H; [injection H as <-; exact Hv|].
    cbn [run_entries] in H. destruct (grammar_for_keyword (t_grammar TC) (en_kw e)) as [g|] eqn:Hg; [|discriminate].
    destruct (value_fits (gr_fn g) (en_val e)); [|discriminate]. cbn [andb] in H.
    destruct (beq (en_kw e) kw_canvas_dir) eqn:B.
    - apply beq_eq in B. destruct (canvas_rows _ _ Hg) as [_ [_ [_ Hrep]]]. rewrite (Hrep B) in H.
      unfold present in H. rewrite B, Hv in H. discriminate.
    - destruct (gr_rep g || negb (present c (en_kw e))); [|discriminate].
      destruct (apply_entry E TC c g e) as [c2|] eqn:Ha; [|discriminate].
      apply (IH c2 c1 v); [|exact H]. rewrite (canvas_other_entry c g e c2 Hg B Ha). exact Hv.
  Qed.

  (* THE VALUE OF ${canvas-dir}: the string of the (only) canvas-dir entry, as written *)
  Theorem canvas_dir_run es : forall c c1, find_var (c_vars c) kw_canvas_dir = None ->
    run_entries E TC c es = Some c1 -> find_var (c_vars c1) kw_canvas_dir = option_map VStr (canvas_dir_of es).
  Proof.
    induction es as [|e es IH]; intros c c1 Hn H; [injection H as <-; exact Hn|].
    cbn [run_entries] in H. destruct (grammar_for_keyword (t_grammar TC) (en_kw e)) as [g|] eqn:Hg; [|discriminate].
    destruct (value_fits (gr_fn g) (en_val e)) eqn:Hfit; [|discriminate]. cbn [andb] in H.
    destruct (gr_rep g || negb (present c (en_kw e))); [|discriminate].
    destruct (apply_entry E TC c g e) as [c2|] eqn:Ha; [|discriminate].
    unfold canvas_dir_of. cbn [find]. destruct (beq (en_kw e) kw_canvas_dir) eqn:B.
    - apply beq_eq in B. destruct (canvas_rows _ _ Hg) as [_ [Hcd _]]. pose proof (proj2 Hcd B) as Hf.
      rewrite Hf in Hfit. destruct (en_val e) as [| |s| | | |] eqn:Hv; cbn [value_fits] in Hfit; try discriminate.
      unfold apply_entry in Ha. rewrite Hf, Hv in Ha.
      destruct (apply_value E TC c PF_canvas_directory (E_str s)) as [[c3 ov]|] eqn:Hav; [|discriminate].
      assert (Hov : ov = None) by (cbn [apply_value] in Hav; destruct (dir_ok E TC c s); [injection Hav as _ <-; reflexivity|discriminate]).
      subst ov. injection Ha as <-. cbn [option_map].
      apply (canvas_dir_keeps es c3 c1 (VStr s)); [|exact H]. exact (canvas_dir_entry E c s c3 Hav Hn).
    - fold (canvas_dir_of es). apply (IH c2 c1); [|exact H]. rewrite (canvas_other_entry c g e c2 Hg B Ha). exact Hn.
  Qed.

  Theorem canvas_dir_value es c s : run_entries E TC (cfg_init TC) es = Some c -> canvas_dir_of es = Some s ->
    find_var (c_vars c) kw_canvas_dir = Some (VStr s)
    /\ lookup1 E TC false c kw_canvas_dir = (c, Some s).
  Proof.
    intros H Hs. pose proof (canvas_dir_run es (cfg_init TC) c eq_refl H) as Hv. rewrite Hs in Hv. cbn [option_map] in Hv.
    split; [exact Hv|]. exact (lookup_defined E TC false c kw_canvas_dir _ Hv ltac:(discriminate) (or_introl eq_refl)).
  Qed.
End CanvasDirValue.

(* ---------------------------------------------------------------- rdomain through the interpolation *)
Definition SP : N := 32.

Fixpoint rd_tmpl (n : nat) : bytes :=
  match n with O => [] | S n' => ref_of kw_rdomain ++ SP :: rd_tmpl n' end.

(* what n successive calls of config_default_rdomain print, each followed by a blank *)
Fixpoint rd_outs (T : tables) (n : nat) (c : cfg) : bytes :=
  match n with O => [] | S n' => render_Z (snd (rdomain_next T c)) ++ SP :: rd_outs T n' (fst (rdomain_next T c)) end.

Lemma rdomain_next_vars T c : c_vars (fst (rdomain_next T c)) = c_vars c.
Proof. unfold rdomain_next. destruct (c_rdomain c =? t_rdomain_max T)%Z; reflexivity. Qed.

Lemma numchar_plain c : numchar c = true -> c <> DOLLAR /\ c <> 0.
Proof.
  unfold numchar, isdigit, DOLLAR. intros H. split; intros ->; vm_compute in H; discriminate.
Qed.

Lemma render_Z_nodollar z : nodollar (render_Z z).
Proof.
  unfold nodollar. apply Forall_forall. intros c Hc. pose proof (render_Z_chars z) as H. rewrite forallb_forall in H.
  exact (proj1 (numchar_plain c (H c Hc))).
Qed.

Lemma render_Z_cstr z : cstr (render_Z z) = render_Z z.
Proof.
  apply cstr_id. apply Forall_forall. intros c Hc. pose proof (render_Z_chars z) as H. rewrite forallb_forall in H.
  exact (proj2 (numchar_plain c (H c Hc))).
Qed.

Section RdTemplate.
  Variable E : env.
  Variable early : bool.
  Variable rec : cfg -> bytes -> cfg * ires.
  Hypothesis Hrec : forall st s, nodollar s -> rec st s = (st, IOk s).

  (* one level: the scanner on the template, [rec] = one level deeper with at least one level left *)
  Lemma rd_sinner n : forall c, find_var (c_vars c) kw_rdomain = None ->
    sinner early (lookup1 E TR early) rec c (rd_tmpl n)
    = (rd_after TR n c, IOk (rd_outs TR n c)).
  Proof.
    induction n as [|n IH]; intros c Hn; [reflexivity|].
    cbn [rd_tmpl rd_outs rd_after]. unfold ref_of at 1. cbn [app].
    rewrite sinner_cons. cbn [N.eqb Pos.eqb DOLLAR LBRACE].
    rewrite <- app_assoc. cbn [app].
    replace (kw_rdomain ++ RBRACE :: SP :: rd_tmpl n) with (kw_rdomain ++ [RBRACE] ++ SP :: rd_tmpl n) by reflexivity.
    assert (Hscan : forall acc rest st, sname_scan early (lookup1 E TR early) rec st acc
                                          (kw_rdomain ++ RBRACE :: rest)
                                        = sname_scan early (lookup1 E TR early) rec st
                                            (acc ++ kw_rdomain) (RBRACE :: rest)).
    { intros acc rest st. unfold kw_rdomain. cbn [app]. repeat (rewrite sname_scan_cons; cbn [N.eqb Pos.eqb RBRACE]; rewrite <- ?app_assoc; cbn [app]).
      reflexivity. }
    cbn [app]. rewrite Hscan. cbn [app]. rewrite sname_scan_cons. cbn [N.eqb Pos.eqb RBRACE].
    unfold kw_rdomain at 1. cbv beta iota.
    change [114; 100; 111; 109; 97; 105; 110] with kw_rdomain.
    rewrite (lookup_rdomain E early c Hn).
    destruct (rdomain_next TR c) as [c1 r] eqn:Hr. cbn [fst snd].
    rewrite render_Z_cstr. rewrite (Hrec c1 _ (render_Z_nodollar r)).
    assert (Hn1 : find_var (c_vars c1) kw_rdomain = None).
    { pose proof (rdomain_next_vars TR c) as Hv. rewrite Hr in Hv. cbn [fst] in Hv. rewrite Hv. exact Hn. }
    rewrite sinner_cons. cbn [N.eqb Pos.eqb DOLLAR SP]. rewrite (IH c1 Hn1). cbn [ibind app]. reflexivity.
  Qed.
End RdTemplate.

(* n references in ONE template, expanded while the file is read (early = true: the env option of a test) or afterwards
   (early = false: a template, a step command): the values of n successive calls of config_default_rdomain, the counter
   n steps further, nothing else changed *)
Theorem rdomain_template E n c : (3 <= t_depth_limit TR)%nat -> find_var (c_vars c) kw_rdomain = None ->
  cfg_interp E TR c (rd_tmpl n) = (rd_after TR n c, IOk (rd_outs TR n c))
  /\ cfg_interp_early E TR c (rd_tmpl n) = (rd_after TR n c, IOk (rd_outs TR n c)).
Proof.
  intros Hd Hn.
  assert (Hc : cstr (rd_tmpl n) = rd_tmpl n).
  { apply cstr_id. induction n as [|n IH]; [constructor|]. cbn [rd_tmpl]. unfold ref_of, kw_rdomain. cbn [app].
    repeat (constructor; [discriminate|]). exact IH. }
  unfold cfg_interp, cfg_interp_early, sinterp_str. rewrite Hc.
  destruct (t_depth_limit TR) as [|[|[|d]]]; try lia. cbn [pred]. cbn [sinterp].
  split; (apply rd_sinner; [intros st s Hs; cbn [sinterp]; apply sinner_nodollar; exact Hs|exact Hn]).
Qed.

(* the k-th number printed is the k-th value of the counter *)
Lemma flat_map_map_S {A} (f : nat -> list A) l : flat_map f (map S l) = flat_map (fun k => f (S k)) l.
Proof. induction l as [|x l IH]; [reflexivity|]. cbn [map flat_map]. rewrite IH. reflexivity. Qed.

Lemma rd_outs_values T n : forall c, rd_outs T n c = flat_map (fun k => render_Z (rd_val T k c) ++ [SP]) (seq 0 n).
Proof.
  induction n as [|n IH]; intros c; [reflexivity|]. cbn [rd_outs seq flat_map]. rewrite IH, <- seq_shift, flat_map_map_S.
  unfold rd_val at 2. cbn [rd_after]. rewrite <- app_assoc. cbn [app]. reflexivity.
Qed.

Lemma rd_after_vars T a : forall c, c_vars (rd_after T a c) = c_vars c.
Proof. induction a as [|a IH]; intros c; [reflexivity|]. cbn [rd_after]. rewrite IH. apply rdomain_next_vars. Qed.

Lemma rd_after_add T a : forall k x, rd_after T k (rd_after T a x) = rd_after T (a + k) x.
Proof. induction a as [|a IH]; intros k x; [reflexivity|]. cbn [rd_after Nat.add]. apply IH. Qed.

(* references expanded while the file is read and references of a later template share ONE counter: a references, then b
   more, print the values 0..a-1 and a..a+b-1 *)
Theorem rdomain_one_counter E a b c : (3 <= t_depth_limit TR)%nat -> find_var (c_vars c) kw_rdomain = None ->
  let '(c1, r1) := cfg_interp_early E TR c (rd_tmpl a) in
  let '(c2, r2) := cfg_interp E TR c1 (rd_tmpl b) in
  c2 = rd_after TR (a + b) c
  /\ r1 = IOk (flat_map (fun k => render_Z (rd_val TR k c) ++ [SP]) (seq 0 a))
  /\ r2 = IOk (flat_map (fun k => render_Z (rd_val TR (a + k) c) ++ [SP]) (seq 0 b)).
Proof.
  intros Hd Hn. rewrite (proj2 (rdomain_template E a c Hd Hn)).
  assert (Hn1 : find_var (c_vars (rd_after TR a c)) kw_rdomain = None) by (rewrite rd_after_vars; exact Hn).
  rewrite (proj1 (rdomain_template E b (rd_after TR a c) Hd Hn1)).
  pose proof (rd_after_add TR a) as Hadd.
  split; [apply Hadd|]. split; [rewrite rd_outs_values; reflexivity|].
  rewrite rd_outs_values. f_equal. apply flat_map_ext. intros k. unfold rd_val. rewrite Hadd. reflexivity.
Qed.
