(* LockRefused.v - what the OTHER processes experience when a rewrite is refused by the file system inside
   the critical section (C01 known finding refused-write-damages-file), or when the holder is killed
   between fopen("we") and fclose (C07's takedown sends SIGTERM to the step's process group; the kernel
   drops the flock of a dead process): the file holds the first k bytes of the new content (k = 0 for a
   kill before stdio flushed anything), the lock is released, and

     - the next process that gets the lock - a waiter blocked in flock - reads exactly [firstn k c];
     - if that does not parse as a step file, EVERY later command of the invocation fails with exit 1 and
       the file never changes again, under every schedule: one refused write poisons the run.

   The property C02 quantifies over schedules, not over faults: these are statements about the model
   extended by one transition, not part of C02's claim. *)
From Robsd Require Import Lock.LockDefs Lock.LockSpec Lock.LockProofs Step.StepDefs Step.StepFault Step.StepExit0.
Local Open Scope N_scope.

Section Refused.
  Variable upd : nat -> bytes -> option bytes.
  Variable mids : nat -> bytes -> list bytes.

  (* the holder, after the truncation, hands c to the file system, which keeps the first k bytes; the command
     goes on to its exit (status 1 when k < length c, StepFault.exit_fault), i.e. to the unlock *)
  Definition step_refused (k : nat) (s : state) (p : nat) : option state :=
    match pcs s p with
    | PTruncated =>
        match upd p (snaps s p) with
        | Some c => Some (mkstate (firstn k c) (lock s) (upd_fun (pcs s) p PWritten) (snaps s) (log s))
        | None => None
        end
    | _ => None
    end.

  (* the waiter: q stands in flock (POpened) while p holds the lock; p's rewrite is refused, p unlocks,
     q is granted the lock and reads: its snapshot is the cut content *)
  Theorem waiter_reads_cut k s p q c s1 s2 s3 s4 :
    p <> q -> pcs s q = POpened -> upd p (snaps s p) = Some c ->
    step_refused k s p = Some s1 ->
    step upd mids s1 p = Some s2 -> step upd mids s2 q = Some s3 -> step upd mids s3 q = Some s4 ->
    file s1 = firstn k c /\ lock s2 = None /\ lock s3 = Some q /\ snaps s4 q = firstn k c.
  Proof.
    intros Hpq Hq Hu H1 H2 H3 H4. unfold step_refused in H1.
    destruct (pcs s p) eqn:Hp; try discriminate. rewrite Hu in H1. injection H1 as <-.
    unfold step in H2. cbn [pcs] in H2. unfold upd_fun at 1 in H2. rewrite Nat.eqb_refl in H2.
    injection H2 as <-. cbn [file lock pcs snaps log] in *.
    assert (Hq2 : upd_fun (upd_fun (pcs s) p PWritten) p PDone q = POpened).
    { unfold upd_fun. destruct (Nat.eqb q p) eqn:E; [apply Nat.eqb_eq in E; now elim Hpq|exact Hq]. }
    unfold step in H3. cbn [pcs lock] in H3. rewrite Hq2 in H3. injection H3 as <-.
    unfold step in H4. cbn [pcs lock file snaps log] in H4. unfold upd_fun at 1 in H4. rewrite Nat.eqb_refl in H4.
    injection H4 as <-. cbn. repeat split. unfold upd_fun. now rewrite Nat.eqb_refl.
  Qed.
End Refused.

(* ---- robsd-step processes on a file that does not parse ------------------------------------------------- *)

Lemma unparsable_op o f : parse_file f = None -> op_upd o f = None /\ fst (op_out o f) = 1.
Proof.
  intros Hp. destruct (unparsable_is_stuck false f Hp) as [Hw [_ Hr]].
  destruct o as [idarg kvs|sel t]; cbn [op_upd op_out]; [rewrite Hw|rewrite Hr]; split; reflexivity.
Qed.

(* nobody is inside the critical section, and whoever has read has read f *)
Definition quiet_on (f : bytes) (s : state) : Prop :=
  file s = f /\
  forall p, match pcs s p with
            | PStart | POpened | PLocked | PDone => True
            | PRead => snaps s p = f
            | _ => False
            end.

Section Poisoned.
  Variable ops : list op.
  Variable mids : nat -> bytes -> list bytes.
  Variable f : bytes.
  Hypothesis Hbad : parse_file f = None.

  Lemma ops_upd_bad p : ops_upd ops p f = None.
  Proof. unfold ops_upd. destruct (nth_error ops p) as [o|]; [exact (proj1 (unparsable_op o f Hbad))|reflexivity]. Qed.

  Lemma quiet_step s p s' : quiet_on f s -> step (ops_upd ops) mids s p = Some s' -> quiet_on f s'.
  Proof.
    intros [Hf Hq] H. unfold step in H. pose proof (Hq p) as Hp.
    destruct (pcs s p) eqn:E; try (now elim Hp); try discriminate.
    - injection H as <-. split; [exact Hf|]. intro r. cbn [pcs snaps]. unfold upd_fun.
      destruct (Nat.eqb r p); [exact I|exact (Hq r)].
    - destruct (lock s); [discriminate|]. injection H as <-. split; [exact Hf|]. intro r. cbn [pcs snaps]. unfold upd_fun.
      destruct (Nat.eqb r p); [exact I|exact (Hq r)].
    - injection H as <-. split; [exact Hf|]. intro r. cbn [pcs snaps]. unfold upd_fun.
      destruct (Nat.eqb r p) eqn:Er; [exact Hf|]. exact (Hq r).
    - rewrite Hp, ops_upd_bad in H. injection H as <-. split; [exact Hf|]. intro r. cbn [pcs snaps]. unfold upd_fun.
      destruct (Nat.eqb r p); [exact I|exact (Hq r)].
  Qed.

  (* under EVERY schedule the file stays as it is, and every command that reads it reports exit 1 *)
  Theorem poisoned_run sched : forall s,
    quiet_on f s ->
    quiet_on f (run (ops_upd ops) mids s sched) /\
    file (run (ops_upd ops) mids s sched) = f /\
    (forall p o, nth_error ops p = Some o -> fst (op_out o f) = 1).
  Proof.
    assert (Hrep : forall p o, nth_error ops p = Some o -> fst (op_out o f) = 1)
      by (intros p o _; exact (proj2 (unparsable_op o f Hbad))).
    induction sched as [|p sched IH]; intros s Hq; cbn [run].
    - split; [exact Hq|]. split; [exact (proj1 Hq)|exact Hrep].
    - destruct (step (ops_upd ops) mids s p) as [s'|] eqn:E; [apply IH; exact (quiet_step s p s' Hq E)|apply IH; exact Hq].
  Qed.
End Poisoned.
