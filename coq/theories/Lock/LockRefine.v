(* LockRefine.v - every interleaving of processes that EXECUTE THE GENERATED CALL LISTS (Gen_Lock; one
   scheduling decision = the calls up to and including the next sync point, the granularity at which
   the harness drives the real processes) is a run of the transition system LockDefs, up to the
   extension of the per-process fields.  Hence the theorems of LockProofs about [run] - mutual
   exclusion, committed prefixes, serialisability - are theorems about those interleavings of the
   call order that stands in step.c / robsd-step.c today.

   Which list a process executes after the read is decided by what it read: a command that goes on to
   rewrite the file ([upd p snapshot] is some content) continues with write_path, any other (a reader,
   a write that rejects its arguments) with free_path; before the read the two lists coincide. *)
From Robsd Require Import Lock.LockDefs Lock.LockOps Lock.LockTie Lock.LockInterp Lock.LockProofs.
From RobsdGen Require Import Gen_Lock.
From Coq Require Import Lia.
Local Open Scope N_scope.

(* the sync point a counter is named after *)
Definition pc_point (c : pc) : option nat :=
  match c with
  | POpened => Some 0 | PLocked => Some 1 | PRead => Some 2 | PBeforeTrunc => Some 3
  | PTruncated => Some 4 | PWritten => Some 5 | PDone => Some 6 | PStart | PWriting _ => None
  end%nat.

Lemma pc_point_inverse n c : point_pc n = Some c -> pc_point c = Some n.
Proof.
  destruct n as [|[|[|[|[|[|[|n]]]]]]]; cbn; intro H; try discriminate; injection H as <-; reflexivity.
Qed.

(* the segment that starts where the segment closed by point [n] ended *)
Fixpoint seg_after (n : nat) (sgs : list (list fsop * nat)) : option (list fsop * nat) :=
  match sgs with
  | [] => None
  | sg :: rest => if Nat.eqb (snd sg) n then hd_error rest else seg_after n rest
  end.

Definition seg_at (c : pc) (sgs : list (list fsop * nat)) : option (list fsop * nat) :=
  match c with
  | PStart => hd_error sgs
  | _ => match pc_point c with Some n => seg_after n sgs | None => None end
  end.

Section Refine.
  Variable upd : nat -> bytes -> option bytes.
  Variable mids : nat -> bytes -> list bytes.

  Definition writes (s : state) (p : nat) : bool :=
    match upd p (snaps s p) with Some _ => true | None => false end.

  (* the calls process p makes next, up to and including the next sync point *)
  Definition next_segment (s : state) (p : nat) : option (list fsop * nat) :=
    seg_at (pcs s p) (fst (segments [] (if writes s p then writer_calls else reader_calls))).

  Definition impl_step (s : state) (p : nat) : option state :=
    match next_segment s p with
    | Some sg => exec_ops upd mids s p (fst sg ++ [FPoint (snd sg)])
    | None => None
    end.

  Fixpoint impl_run (s : state) (sched : list nat) : state :=
    match sched with
    | [] => s
    | p :: sched' => match impl_step s p with Some s' => impl_run s' sched' | None => impl_run s sched' end
    end.

  Fixpoint model_seg_run (s : state) (sched : list nat) : state :=
    match sched with
    | [] => s
    | p :: sched' => match model_seg upd mids s p with Some s' => model_seg_run s' sched' | None => model_seg_run s sched' end
    end.

  (* at the sync points no process stands inside the rewrite, and a process between the decision to rewrite
     and its unlock is one whose command rewrites (true of every state the system reaches: [good_init],
     [good_preserved]) *)
  Definition good (s : state) : Prop :=
    forall q, match pcs s q with
              | PWriting _ => False
              | PBeforeTrunc | PTruncated | PWritten => upd q (snaps s q) <> None
              | _ => True
              end.

  (* ---- one scheduling decision -------------------------------------------------------------------- *)
  Lemma impl_step_is_model s p : good s -> osteq (impl_step s p) (model_seg upd mids s p).
  Proof.
    intros Hat. specialize (Hat p).
    destruct (writer_segments_are_model_steps upd mids) as [_ HW].
    destruct (reader_segments_are_model_steps upd mids) as [_ HR].
    change (fst (segments [] writer_calls)) with (fst (segments [] (parse_path ++ write_path ++ free_path))) in HW.
    change (fst (segments [] reader_calls)) with (fst (segments [] (parse_path ++ free_path))) in HR.
    vm_compute segments in HW. vm_compute segments in HR.
    cbn [fst chain_sim snd point_pc] in HW, HR.
    repeat match goal with
           | H : _ /\ _ |- _ => destruct H
           | H : exists _, _ |- _ => destruct H
           | H : Some _ = Some _ |- _ => injection H as <-
           end.
    unfold impl_step, next_segment, writes.
    destruct (upd p (snaps s p)) as [c|] eqn:Hu;
      [set (L := fst (segments [] writer_calls))|set (L := fst (segments [] reader_calls))];
      vm_compute in L; subst L;
      destruct (pcs s p) eqn:Hpc; try (now elim Hat); try (now elim Hat; exact Hu);
      cbn [seg_at pc_point seg_after hd_error snd fst Nat.eqb];
      try (match goal with
           | H : seg_sim _ _ true ?k _ |- osteq (exec_ops _ _ _ _ (_ ++ [FPoint _])) _ =>
               refine (H s p Hpc _); intros _; rewrite Hu; discriminate
           end);
      try (match goal with
           | H : seg_sim _ _ false ?k _ |- osteq (exec_ops _ _ _ _ (_ ++ [FPoint _])) _ =>
               refine (H s p Hpc _); intros _; exact Hu
           end);
      try (unfold model_seg, step; rewrite Hpc, ?Hu; exact I).
  Qed.
  (* ---- the invariant ------------------------------------------------------------------------------------- *)
  Lemma good_init f0 : good (init f0).
  Proof. intro q. exact I. Qed.

  Lemma good_steq a b : steq a b -> good a -> good b.
  Proof. intros [_ [_ [P [S _]]]] G q. specialize (G q). rewrite <- (P q), <- (S q). exact G. Qed.

  Lemma good_preserved s p s' : good s -> model_seg upd mids s p = Some s' -> good s'.
  Proof.
    intros G H. unfold model_seg in H. pose proof (G p) as Gp.
    destruct (pcs s p) eqn:Hpc; try (now elim Gp).
    1-5,7-8: unfold step in H; rewrite Hpc in H.
    - injection H as <-. intro q. cbn [pcs snaps]. unfold upd_fun. destruct (Nat.eqb q p); [exact I|exact (G q)].
    - destruct (lock s); [discriminate|]. injection H as <-. intro q. cbn [pcs snaps]. unfold upd_fun.
      destruct (Nat.eqb q p); [exact I|exact (G q)].
    - injection H as <-. intro q. cbn [pcs snaps]. unfold upd_fun. destruct (Nat.eqb q p) eqn:E; [exact I|exact (G q)].
    - destruct (upd p (snaps s p)) eqn:Hu; injection H as <-; intro q; cbn [pcs snaps]; unfold upd_fun;
        destruct (Nat.eqb q p) eqn:E; try exact (G q); [|exact I].
      apply Nat.eqb_eq in E. subst q. rewrite Hu. discriminate.
    - injection H as <-. intro q. cbn [pcs snaps]. unfold upd_fun. destruct (Nat.eqb q p) eqn:E; [|exact (G q)].
      apply Nat.eqb_eq in E. subst q. exact Gp.
    - injection H as <-. intro q. cbn [pcs snaps]. unfold upd_fun. destruct (Nat.eqb q p); [exact I|exact (G q)].
    - discriminate.
    - destruct (upd p (snaps s p)) as [c|] eqn:Hu; [|discriminate]. injection H as <-.
      apply (good_steq (mkstate c (lock s) (upd_fun (pcs s) p PWritten) (snaps s) (log s))).
      + apply steq_sym. exact (run_from_truncated upd mids s p c Hpc Hu).
      + intro q. cbn [pcs snaps]. unfold upd_fun. destruct (Nat.eqb q p) eqn:E; [|exact (G q)].
        apply Nat.eqb_eq in E. subst q. rewrite Hu. discriminate.
  Qed.

  (* ---- runs ------------------------------------------------------------------------------------------------ *)
  Lemma run_respects_steq l : forall a b, steq a b -> steq (run upd mids a l) (run upd mids b l).
  Proof.
    induction l as [|p l IH]; intros a b H; [exact H|]. cbn [run].
    pose proof (step_respects_steq upd mids a b p H) as Hs.
    destruct (step upd mids a p) as [a'|], (step upd mids b p) as [b'|]; cbn in Hs; try (now elim Hs); now apply IH.
  Qed.

  Lemma model_seg_respects_steq a b p : steq a b -> osteq (model_seg upd mids a p) (model_seg upd mids b p).
  Proof.
    intros H. pose proof H as [_ [_ [P [S _]]]]. unfold model_seg. rewrite <- (P p), <- (S p).
    destruct (pcs a p); try exact (step_respects_steq upd mids a b p H).
    destruct (upd p (snaps a p)) as [c|]; [|exact I]. exact (run_respects_steq _ _ _ H).
  Qed.

  Lemma osteq_trans x y z : osteq x y -> osteq y z -> osteq x z.
  Proof.
    destruct x, y, z; cbn; try tauto. apply steq_trans.
  Qed.

  (* THE REFINEMENT: the interleaving of the call lists and the model, scheduled alike, stay equivalent *)
  Theorem impl_run_is_model_seg_run sched : forall s s',
    steq s s' -> good s ->
    steq (impl_run s sched) (model_seg_run s' sched) /\ good (impl_run s sched).
  Proof.
    induction sched as [|p sched IH]; intros s s' E G; [split; assumption|]. cbn [impl_run model_seg_run].
    pose proof (osteq_trans _ _ _ (impl_step_is_model s p G) (model_seg_respects_steq s s' p E)) as H.
    destruct (impl_step s p) as [s1|] eqn:E1, (model_seg upd mids s' p) as [s1'|] eqn:E2; cbn in H; try (now elim H).
    - apply IH; [exact H|]. apply (good_steq s1'); [now apply steq_sym|].
      exact (good_preserved s' p s1' (good_steq s s' E G) E2).
    - now apply IH.
  Qed.

  (* and a run of segments of the model is a run of the model *)
  Lemma run_app l1 : forall s l2, run upd mids s (l1 ++ l2) = run upd mids (run upd mids s l1) l2.
  Proof.
    induction l1 as [|p l1 IH]; intros s l2; [reflexivity|]. cbn [app run].
    destruct (step upd mids s p); apply IH.
  Qed.

  Lemma model_seg_run_is_run sched : forall s, exists sched', model_seg_run s sched = run upd mids s sched'.
  Proof.
    induction sched as [|p sched IH]; intros s; [exists []; reflexivity|]. cbn [model_seg_run].
    unfold model_seg.
    destruct (pcs s p) eqn:Hpc;
      try (destruct (step upd mids s p) as [s1|] eqn:Es;
           [destruct (IH s1) as [l Hl]; exists (p :: l); cbn [run]; rewrite Es; exact Hl
           |destruct (IH s) as [l Hl]; exists (p :: l); cbn [run]; rewrite Es; exact Hl]).
    destruct (upd p (snaps s p)) as [c|] eqn:Hu.
    - destruct (IH (run upd mids s (repeat p (S (length (mids p c)))))) as [l Hl].
      exists (repeat p (S (length (mids p c))) ++ l). rewrite run_app. exact Hl.
    - destruct (IH s) as [l Hl]. exists l. exact Hl.
  Qed.

  Theorem source_interleavings_are_model_runs f0 sched :
    exists sched', steq (impl_run (init f0) sched) (run upd mids (init f0) sched').
  Proof.
    destruct (model_seg_run_is_run sched (init f0)) as [l Hl]. exists l. rewrite <- Hl.
    exact (proj1 (impl_run_is_model_seg_run sched (init f0) (init f0) (steq_refl _) (good_init f0))).
  Qed.
  (* hence the C02 theorems hold of the interleavings of the call lists as they stand in the source: mutual
     exclusion, every process that has read has read the complete result of a prefix of the lock order, and
     once all started processes have finished the file is the result of applying them one at a time in lock
     order, each exactly once *)
  Theorem source_interleavings_are_serialised f0 sched :
    let s := impl_run (init f0) sched in
    (forall p q, mid (pcs s p) -> mid (pcs s q) -> p = q) /\
    (forall p, has_read (pcs s p) -> exists pre post, log s = pre ++ p :: post /\ snaps s p = eff upd f0 pre) /\
    ((forall q, pcs s q = PDone \/ before_lock (pcs s q)) ->
       lock s = None /\ file s = eff upd f0 (log s) /\ NoDup (log s) /\ (forall q, In q (log s) <-> pcs s q = PDone)).
  Proof.
    cbv zeta. destruct (source_interleavings_are_model_runs f0 sched) as [l [F [L [P [S G]]]]].
    assert (R : reachable upd mids f0 (run upd mids (init f0) l)) by (exists l; reflexivity).
    split; [|split].
    - intros p q Hp Hq. rewrite (P p) in Hp. rewrite (P q) in Hq. exact (mutual_exclusion upd mids f0 _ p q R Hp Hq).
    - intros p Hp. rewrite (P p) in Hp. rewrite G, (S p). exact (snapshot_is_committed_prefix upd mids f0 _ p R Hp).
    - intros Hq. assert (Hq' : forall q, pcs (run upd mids (init f0) l) q = PDone \/ before_lock (pcs (run upd mids (init f0) l) q))
        by (intro q; rewrite <- (P q); exact (Hq q)).
      destruct (quiescent_is_serial upd mids f0 _ R Hq') as [A [B [C [D _]]]].
      rewrite L, F, G. split; [exact A|]. split; [exact B|]. split; [exact C|]. intro q. rewrite (P q). exact (D q).
  Qed.
End Refine.
