From Robsd Require Import Lock.LockDefs.
Local Open Scope N_scope.

Lemma NoDup_snoc {A} (l : list A) x : NoDup l -> ~ In x l -> NoDup (l ++ [x]).
Proof.
  induction 1 as [|y l Hy Hl IH]; intros Hx; cbn; [constructor; [intros []|constructor]|].
  constructor.
  - rewrite in_app_iff. intros [H|[H|[]]]; [contradiction|]. apply Hx. now left.
  - apply IH. intros H. apply Hx. now right.
Qed.

Lemma NoDup_snoc_inv {A} (l : list A) x : NoDup (l ++ [x]) -> ~ In x l.
Proof.
  intros H Hin. apply NoDup_remove_2 with (l' := []) in H. apply H. rewrite app_nil_r. exact Hin.
Qed.

(* between flock and unlock *)
Definition midb (c : pc) : bool :=
  match c with
  | PLocked | PRead | PBeforeTrunc | PTruncated | PWriting _ | PWritten => true
  | _ => false
  end.
Definition mid (c : pc) : Prop := midb c = true.

(* the content has been read *)
Definition has_readb (c : pc) : bool :=
  match c with
  | PRead | PBeforeTrunc | PTruncated | PWriting _ | PWritten | PDone => true
  | _ => false
  end.
Definition has_read (c : pc) : Prop := has_readb c = true.

Definition before_lock (c : pc) : Prop := c = PStart \/ c = POpened.

Section Proofs.
  Variable upd : nat -> bytes -> option bytes.
  Variable mids : nat -> bytes -> list bytes.
  Variable f0 : bytes.

  Notation eff := (eff upd f0).
  Notation step := (step upd mids).

  (* what the file holds while h has the lock, l' being the processes that had it before *)
  Definition holder_ok (s : state) (h : nat) (l' : list nat) : Prop :=
    match pcs s h with
    | PLocked => file s = eff l'
    | PRead => file s = eff l' /\ snaps s h = eff l'
    | PBeforeTrunc => file s = eff l' /\ snaps s h = eff l' /\ upd h (snaps s h) <> None
    | PTruncated => file s = [] /\ snaps s h = eff l' /\ upd h (snaps s h) <> None
    | PWriting todo => snaps s h = eff l' /\
                       exists c done, upd h (snaps s h) = Some c /\ mids h c = done ++ file s :: todo
    | PWritten => snaps s h = eff l' /\ file s = eff (l' ++ [h])
    | _ => False
    end.

  Record Inv (s : state) : Prop := mkInv {
    i_nodup : NoDup (log s);
    i_log : forall q, In q (log s) <-> ~ before_lock (pcs s q);
    i_free : lock s = None -> file s = eff (log s) /\ forall q, In q (log s) -> pcs s q = PDone;
    i_held : forall h, lock s = Some h ->
               exists l', log s = l' ++ [h] /\ (forall q, In q l' -> pcs s q = PDone) /\ holder_ok s h l';
    i_done : forall q, pcs s q = PDone ->
               exists pre post, log s = pre ++ q :: post /\ snaps s q = eff pre;
  }.

  Lemma upd_fun_same {A} (f : nat -> A) p x : upd_fun f p x p = x.
  Proof. unfold upd_fun. now rewrite Nat.eqb_refl. Qed.

  Lemma upd_fun_other {A} (f : nat -> A) p x q : q <> p -> upd_fun f p x q = f q.
  Proof. unfold upd_fun. intros H. destruct (Nat.eqb_spec q p); [contradiction|reflexivity]. Qed.

  Lemma inv_init : Inv (init f0).
  Proof.
    constructor; cbn.
    - constructor.
    - intros q. split; [intros []|]. intros H. elim H. now left.
    - intros _. split; [reflexivity|intros q []].
    - discriminate.
    - discriminate.
  Qed.

  Lemma eff_snoc l p : eff (l ++ [p]) = apply1 upd (eff l) p.
  Proof. unfold LockDefs.eff. now rewrite fold_left_app. Qed.

  Lemma mid_not_before c : mid c -> ~ before_lock c.
  Proof. intros Hm [H|H]; rewrite H in Hm; discriminate. Qed.

  (* a process in the middle of its critical section is the lock holder *)
  Lemma mid_is_holder s p : Inv s -> mid (pcs s p) -> lock s = Some p.
  Proof.
    intros I Hm.
    assert (Hin : In p (log s)) by (apply (i_log s I); now apply mid_not_before).
    destruct (lock s) as [h|] eqn:El.
    - destruct (i_held s I h El) as [l' [Hl [Hd _]]].
      rewrite Hl in Hin. apply in_app_or in Hin. destruct Hin as [Hin|[->|[]]]; [|reflexivity].
      apply Hd in Hin. unfold mid in Hm. rewrite Hin in Hm. discriminate.
    - destruct (i_free s I El) as [_ Hd]. apply Hd in Hin.
      unfold mid in Hm. rewrite Hin in Hm. discriminate.
  Qed.

  (* the holder moves inside its critical section *)
  Lemma inv_holder_move s p l' f' c' :
    Inv s -> lock s = Some p -> log s = l' ++ [p] -> mid (pcs s p) -> mid c' ->
    let s' := mkstate f' (lock s) (upd_fun (pcs s) p c') (snaps s) (log s) in
    holder_ok s' p l' -> Inv s'.
  Proof.
    intros I El Hl Hm Hm' s' Hh.
    assert (Hnotin : ~ In p l') by (apply NoDup_snoc_inv; rewrite <- Hl; apply (i_nodup s I)).
    destruct (i_held s I p El) as [l0 [Hl0 [Hd0 _]]].
    assert (l0 = l') by (rewrite Hl in Hl0; now apply app_inj_tail in Hl0 as [-> _]). subst l0.
    constructor; cbn.
    - apply (i_nodup s I).
    - intros q. rewrite (i_log s I q). destruct (Nat.eq_dec q p) as [->|Hq].
      + rewrite upd_fun_same. split; intros _; now apply mid_not_before.
      + now rewrite upd_fun_other.
    - congruence.
    - intros h Hh'. rewrite El in Hh'. injection Hh' as <-. exists l'. split; [exact Hl|]. split; [|exact Hh].
      intros q Hq. rewrite upd_fun_other by (intros ->; contradiction). now apply Hd0.
    - intros q Hq. destruct (Nat.eq_dec q p) as [->|Hne].
      + rewrite upd_fun_same in Hq. rewrite Hq in Hm'. discriminate.
      + rewrite upd_fun_other in Hq by exact Hne. apply (i_done s I q Hq).
  Qed.

  (* the holder releases the lock *)
  Lemma inv_release s p l' :
    Inv s -> lock s = Some p -> log s = l' ++ [p] ->
    file s = eff (l' ++ [p]) -> snaps s p = eff l' ->
    Inv (mkstate (file s) None (upd_fun (pcs s) p PDone) (snaps s) (log s)).
  Proof.
    intros I El Hl Hf Hsn.
    destruct (i_held s I p El) as [l0 [Hl0 [Hd0 Hh0]]].
    assert (l0 = l') by (rewrite Hl in Hl0; now apply app_inj_tail in Hl0 as [-> _]). subst l0.
    assert (Hmid : ~ before_lock (pcs s p)).
    { apply (i_log s I). rewrite Hl. apply in_or_app. right. now left. }
    constructor; cbn.
    - apply (i_nodup s I).
    - intros q. rewrite (i_log s I q). destruct (Nat.eq_dec q p) as [->|Hq].
      + rewrite upd_fun_same. split; intros _; [intros [H|H]; discriminate|exact Hmid].
      + now rewrite upd_fun_other.
    - intros _. split; [now rewrite Hl|].
      intros q Hq. destruct (Nat.eq_dec q p) as [->|Hne]; [now rewrite upd_fun_same|].
      rewrite upd_fun_other by exact Hne.
      rewrite Hl in Hq. apply in_app_or in Hq. destruct Hq as [Hq|[Hq|[]]]; [auto|congruence].
    - discriminate.
    - intros q Hq. destruct (Nat.eq_dec q p) as [->|Hne].
      + exists l', []. split; [exact Hl|exact Hsn].
      + rewrite upd_fun_other in Hq by exact Hne. apply (i_done s I q Hq).
  Qed.

  Lemma inv_write_next s p l' c done todo :
    Inv s -> lock s = Some p -> log s = l' ++ [p] -> mid (pcs s p) ->
    snaps s p = eff l' -> upd p (snaps s p) = Some c -> mids p c = done ++ todo ->
    Inv (write_next s p c todo).
  Proof.
    intros I El Hl Hm Hsn Eu Hmids. unfold write_next. destruct todo as [|m rest].
    - apply (inv_holder_move s p l' c PWritten I El Hl Hm eq_refl).
      unfold holder_ok. cbn. rewrite upd_fun_same. split; [exact Hsn|].
      rewrite eff_snoc. unfold apply1. now rewrite <- Hsn, Eu.
    - apply (inv_holder_move s p l' m (PWriting rest) I El Hl Hm eq_refl).
      unfold holder_ok. cbn. rewrite upd_fun_same. split; [exact Hsn|].
      exists c, done. split; assumption.
  Qed.

  Lemma inv_step s p s' : Inv s -> step s p = Some s' -> Inv s'.
  Proof.
    intros I Hs. unfold LockDefs.step in Hs.
    destruct (pcs s p) eqn:Ep.
    - (* PStart -> POpened *)
      injection Hs as <-. constructor; cbn.
      + apply (i_nodup s I).
      + intros q. rewrite (i_log s I q). destruct (Nat.eq_dec q p) as [->|Hq].
        * rewrite upd_fun_same, Ep. split; intros H; elim H; [now left|now right].
        * now rewrite upd_fun_other.
      + intros El. destruct (i_free s I El) as [Hf Hd]. split; [exact Hf|].
        intros q Hq. destruct (Nat.eq_dec q p) as [->|Hne]; [apply Hd in Hq; congruence|].
        rewrite upd_fun_other by exact Hne. auto.
      + intros h El. destruct (i_held s I h El) as [l' [Hl [Hd Hh]]].
        exists l'. split; [exact Hl|]. split.
        * intros q Hq. destruct (Nat.eq_dec q p) as [->|Hne]; [apply Hd in Hq; congruence|].
          rewrite upd_fun_other by exact Hne. auto.
        * unfold holder_ok in *. cbn. destruct (Nat.eq_dec h p) as [->|Hne]; [rewrite Ep in Hh; contradiction|].
          rewrite upd_fun_other by exact Hne. exact Hh.
      + intros q Hq. destruct (Nat.eq_dec q p) as [->|Hne]; [rewrite upd_fun_same in Hq; discriminate|].
        rewrite upd_fun_other in Hq by exact Hne. apply (i_done s I q Hq).
    - (* POpened -> PLocked, needs the lock free *)
      destruct (lock s) eqn:El; [discriminate|]. injection Hs as <-.
      destruct (i_free s I El) as [Hf Hd].
      assert (Hnotin : ~ In p (log s)).
      { intros Hin. apply (i_log s I) in Hin. apply Hin. now right. }
      constructor; cbn.
      + apply NoDup_snoc; [apply (i_nodup s I)|exact Hnotin].
      + intros q. rewrite in_app_iff. cbn. destruct (Nat.eq_dec q p) as [->|Hq].
        * rewrite upd_fun_same. split; [intros _ [H|H]; discriminate|auto].
        * rewrite upd_fun_other by exact Hq. rewrite (i_log s I q).
          split; [intros [H|[H|[]]]; [exact H|congruence]|auto].
      + discriminate.
      + intros h Hh. injection Hh as <-. exists (log s). split; [reflexivity|]. split.
        * intros q Hq. destruct (Nat.eq_dec q p) as [->|Hne]; [contradiction|].
          rewrite upd_fun_other by exact Hne. auto.
        * unfold holder_ok. cbn. rewrite upd_fun_same. exact Hf.
      + intros q Hq. destruct (Nat.eq_dec q p) as [->|Hne]; [rewrite upd_fun_same in Hq; discriminate|].
        rewrite upd_fun_other in Hq by exact Hne.
        destruct (i_done s I q Hq) as [pre [post [Hl Hsn]]].
        exists pre, (post ++ [p]). split; [rewrite Hl, <- app_assoc; reflexivity|exact Hsn].
    - (* PLocked -> PRead *)
      injection Hs as <-.
      assert (Hm : mid (pcs s p)) by (now rewrite Ep).
      pose proof (mid_is_holder s p I Hm) as El.
      destruct (i_held s I p El) as [l' [Hl [Hd Hh]]]. unfold holder_ok in Hh. rewrite Ep in Hh.
      (* the snapshot function changes too: do it by hand *)
      assert (Hnotin : ~ In p l') by (apply NoDup_snoc_inv; rewrite <- Hl; apply (i_nodup s I)).
      constructor; cbn.
      + apply (i_nodup s I).
      + intros q. rewrite (i_log s I q). destruct (Nat.eq_dec q p) as [->|Hq].
        * rewrite upd_fun_same, Ep. split; intros _ [H|H]; discriminate.
        * now rewrite upd_fun_other.
      + congruence.
      + intros h Hh'. rewrite El in Hh'. injection Hh' as <-. exists l'. split; [exact Hl|]. split.
        * intros q Hq. rewrite upd_fun_other by (intros ->; contradiction). auto.
        * unfold holder_ok. cbn. rewrite !upd_fun_same. auto.
      + intros q Hq. destruct (Nat.eq_dec q p) as [->|Hne]; [rewrite upd_fun_same in Hq; discriminate|].
        rewrite upd_fun_other in Hq by exact Hne. rewrite upd_fun_other by exact Hne. apply (i_done s I q Hq).
    - (* PRead -> PBeforeTrunc or PDone *)
      assert (Hm : mid (pcs s p)) by (now rewrite Ep).
      pose proof (mid_is_holder s p I Hm) as El.
      destruct (i_held s I p El) as [l' [Hl [Hd Hh]]]. unfold holder_ok in Hh. rewrite Ep in Hh.
      destruct Hh as [Hf Hsn].
      destruct (upd p (snaps s p)) as [c|] eqn:Eu; injection Hs as <-.
      + apply (inv_holder_move s p l' (file s) PBeforeTrunc I El Hl Hm eq_refl).
        unfold holder_ok. cbn. rewrite upd_fun_same. repeat split; auto. congruence.
      + apply (inv_release s p l' I El Hl); [|exact Hsn].
        rewrite eff_snoc. unfold apply1. rewrite <- Hsn, Eu. congruence.
    - (* PBeforeTrunc -> PTruncated *)
      injection Hs as <-.
      assert (Hm : mid (pcs s p)) by (now rewrite Ep).
      pose proof (mid_is_holder s p I Hm) as El.
      destruct (i_held s I p El) as [l' [Hl [Hd Hh]]]. unfold holder_ok in Hh. rewrite Ep in Hh.
      destruct Hh as [Hf [Hsn Hu]].
      apply (inv_holder_move s p l' [] PTruncated I El Hl Hm eq_refl).
      unfold holder_ok. cbn. rewrite upd_fun_same. auto.
    - (* PTruncated -> first piece of the rewrite *)
      assert (Hm : mid (pcs s p)) by (now rewrite Ep).
      pose proof (mid_is_holder s p I Hm) as El.
      destruct (i_held s I p El) as [l' [Hl [Hd Hh]]]. unfold holder_ok in Hh. rewrite Ep in Hh.
      destruct Hh as [_ [Hsn Hu]].
      destruct (upd p (snaps s p)) as [c|] eqn:Eu; [|discriminate]. injection Hs as <-.
      apply (inv_write_next s p l' c [] (mids p c) I El Hl Hm Hsn Eu eq_refl).
    - (* PWriting -> next piece *)
      assert (Hm : mid (pcs s p)) by (now rewrite Ep).
      pose proof (mid_is_holder s p I Hm) as El.
      destruct (i_held s I p El) as [l' [Hl [Hd Hh]]]. unfold holder_ok in Hh. rewrite Ep in Hh.
      destruct Hh as [Hsn [c [done [Eu Hmids]]]].
      rewrite Eu in Hs. injection Hs as <-.
      apply (inv_write_next s p l' c (done ++ [file s]) todo I El Hl Hm Hsn Eu).
      now rewrite <- app_assoc.
    - (* PWritten -> PDone *)
      injection Hs as <-.
      assert (Hm : mid (pcs s p)) by (now rewrite Ep).
      pose proof (mid_is_holder s p I Hm) as El.
      destruct (i_held s I p El) as [l' [Hl [Hd Hh]]]. unfold holder_ok in Hh. rewrite Ep in Hh.
      destruct Hh as [Hsn Hf].
      apply (inv_release s p l' I El Hl Hf Hsn).
    - discriminate.
  Qed.

  Theorem inv_run sched : forall s, Inv s -> Inv (run upd mids s sched).
  Proof.
    induction sched as [|p sched IH]; intros s I; [exact I|].
    cbn [run]. destruct (step s p) as [s'|] eqn:Es; [|auto].
    apply IH. eapply inv_step; eauto.
  Qed.
End Proofs.

(* ---- consequences ------------------------------------------------------------------------- *)
Section Consequences.
  Variable upd : nat -> bytes -> option bytes.
  Variable mids : nat -> bytes -> list bytes.
  Variable f0 : bytes.

  Definition reachable (s : state) : Prop := exists sched, s = run upd mids (init f0) sched.

  Lemma reachable_inv s : reachable s -> Inv upd mids f0 s.
  Proof. intros [sched ->]. apply inv_run. apply inv_init. Qed.

  (* at most one process is between flock and unlock *)
  Theorem mutual_exclusion s p q :
    reachable s -> mid (pcs s p) -> mid (pcs s q) -> p = q.
  Proof.
    intros R Hp Hq. apply reachable_inv in R.
    pose proof (mid_is_holder upd mids f0 s p R Hp) as H1.
    pose proof (mid_is_holder upd mids f0 s q R Hq) as H2. congruence.
  Qed.

  (* only the lock holder ever changes the file *)
  Theorem only_holder_writes s p s' :
    reachable s -> step upd mids s p = Some s' -> file s' <> file s -> lock s = Some p.
  Proof.
    intros R Hs Hf. apply reachable_inv in R.
    destruct (midb (pcs s p)) eqn:Em; [now apply (mid_is_holder upd mids f0 s p R)|].
    exfalso. unfold step in Hs. destruct (pcs s p) eqn:Ep; try discriminate Em.
    - injection Hs as <-. now elim Hf.
    - destruct (lock s); [discriminate|]. injection Hs as <-. now elim Hf.
    - discriminate.
  Qed.

  (* whatever a process has read is the committed result of the processes that
     were granted the lock before it - never a truncated or half-written file *)
  Theorem snapshot_is_committed_prefix s p :
    reachable s -> has_read (pcs s p) ->
    exists pre post, log s = pre ++ p :: post /\ snaps s p = eff upd f0 pre.
  Proof.
    intros R Hp. apply reachable_inv in R.
    destruct (pcs s p) eqn:Ep; try discriminate Hp; [| | | | |apply (i_done upd mids f0 s R p Ep)].
    all: assert (El : lock s = Some p) by (apply (mid_is_holder upd mids f0 s p R); now rewrite Ep).
    all: destruct (i_held upd mids f0 s R p El) as [l' [Hl [_ Hh]]]; unfold holder_ok in Hh; rewrite Ep in Hh.
    all: exists l', []; split; [exact Hl|tauto].
  Qed.

  (* when nobody is in the middle of anything: the file is the result of the
     processes that ran, one after the other, in the order the lock was granted *)
  Theorem quiescent_is_serial s :
    reachable s -> (forall q, pcs s q = PDone \/ before_lock (pcs s q)) ->
    lock s = None /\ file s = eff upd f0 (log s) /\ NoDup (log s) /\
    (forall q, In q (log s) <-> pcs s q = PDone) /\
    (forall q, pcs s q = PDone -> exists pre post, log s = pre ++ q :: post /\ snaps s q = eff upd f0 pre).
  Proof.
    intros R Hq. apply reachable_inv in R.
    assert (El : lock s = None).
    { destruct (lock s) as [h|] eqn:El; [|reflexivity].
      destruct (i_held upd mids f0 s R h El) as [l' [_ [_ Hh]]]. unfold holder_ok in Hh.
      destruct (Hq h) as [H|[H|H]]; rewrite H in Hh; contradiction. }
    split; [exact El|]. destruct (i_free upd mids f0 s R El) as [Hf Hd].
    split; [exact Hf|]. split; [apply (i_nodup upd mids f0 s R)|]. split.
    - intros q. split; [apply Hd|]. intros H. apply (i_log upd mids f0 s R). rewrite H. intros [E|E]; discriminate.
    - apply (i_done upd mids f0 s R).
  Qed.

  (* AT EVERY reachable state, what is in the file - hence what a reader that does NOT take the
     lock could see: with the lock free, the committed result of everybody who had it; while h holds
     it, the result of those before h, or nothing (h has truncated), or one of the intermediate
     contents of h's rewrite, or h's complete result (not yet unlocked) *)
  Theorem file_at_every_state s :
    reachable s ->
    match lock s with
    | None => file s = eff upd f0 (log s)
    | Some h =>
        exists l', log s = l' ++ [h] /\
          (file s = eff upd f0 l' \/
           (pcs s h = PTruncated /\ file s = []) \/
           (exists todo c, pcs s h = PWriting todo /\ upd h (eff upd f0 l') = Some c /\ In (file s) (mids h c)) \/
           (pcs s h = PWritten /\ file s = eff upd f0 (l' ++ [h])))
    end.
  Proof.
    intros R. apply reachable_inv in R. destruct (lock s) as [h|] eqn:El.
    - destruct (i_held upd mids f0 s R h El) as [l' [Hl [_ Hh]]]. exists l'. split; [exact Hl|].
      unfold holder_ok in Hh. destruct (pcs s h) eqn:Ep; try contradiction.
      + now left.
      + left. tauto.
      + left. tauto.
      + right. left. tauto.
      + right. right. left. destruct Hh as [Hsn [c [done [Eu Hm]]]]. exists todo, c.
        split; [reflexivity|]. split; [now rewrite <- Hsn|]. rewrite Hm. apply in_or_app. right. now left.
      + right. right. right. tauto.
    - apply (i_free upd mids f0 s R El).
  Qed.
End Consequences.

(* ---- what the lock buys: the same processes without it lose an update ------------------- *)
Definition append_upd (p : nat) (c : bytes) : option bytes := Some (c ++ [N.of_nat p + 97]%N).

Lemma lost_update_without_lock :
  let sched := [0; 0; 0; 1; 1; 1; 0; 0; 0; 0; 1; 1; 1; 1]%nat in
  let s := run_nolock append_upd no_mids (init []) sched in
  pcs s 0%nat = PDone /\ pcs s 1%nat = PDone /\ file s = [98]%N /\
  file s <> eff append_upd [] [0; 1]%nat /\ file s <> eff append_upd [] [1; 0]%nat.
Proof. vm_compute. repeat split; discriminate. Qed.

(* ---- and what holding it until after the flush buys --------------------------------------- *)
(* writer 0 truncates and releases the lock before its data is in the file: reader 1 locks, reads
   nothing - not the result of any prefix of the lock order - and writer 2 rebuilds the file from
   nothing, after which writer 0's data lands on top: the update of 2 is lost *)
Definition eu_upd (p : nat) (c : bytes) : option bytes :=
  if Nat.eqb p 1 then None else Some (c ++ [N.of_nat p + 97]%N).

Lemma early_unlock_breaks_both_clauses :
  let sched := [0; 0; 0; 0; 0; 1; 1; 1; 1; 2; 2; 2; 2; 2; 2; 2; 0; 0]%nat in
  let s := run_early_unlock eu_upd no_mids (init [120]) sched in
  pcs s 0%nat = PDone /\ pcs s 1%nat = PDone /\ pcs s 2%nat = PDone /\ log s = [0; 1; 2]%nat /\
  snaps s 1%nat = [] /\
  (forall pre, snaps s 1%nat <> eff eu_upd [120] pre) /\
  file s = [120; 97]%N /\ file s <> eff eu_upd [120] (log s).
Proof.
  cbv zeta.
  split; [vm_compute; reflexivity|]. split; [vm_compute; reflexivity|]. split; [vm_compute; reflexivity|].
  split; [vm_compute; reflexivity|]. split; [vm_compute; reflexivity|].
  split; [|split; [vm_compute; reflexivity|vm_compute; discriminate]].
  intros pre. replace (snaps _ 1%nat) with (@nil N) by (vm_compute; reflexivity).
  assert (H : forall l c, fold_left (apply1 eu_upd) l c = [] -> c = []).
  { induction l as [|x l IH]; intros c Hc; [exact Hc|]. cbn [fold_left] in Hc. apply IH in Hc.
    unfold apply1, eu_upd in Hc. destruct (Nat.eqb x 1); [exact Hc|]. destruct c; discriminate. }
  intros E. symmetry in E. apply H in E. discriminate.
Qed.

(* non-vacuity of the intermediate contents: with a rewrite in two pieces the file does hold a
   strict prefix of the new content while the writer has the lock, and the reader that waits for
   the lock still reads the complete content *)
Definition half_mids (p : nat) (c : bytes) : list bytes := [firstn 1 c].

Lemma partial_content_is_reachable_but_never_read :
  let s0 := run append_upd half_mids (init [120; 121]) [0; 0; 0; 0; 0; 1; 1]%nat in
  let s1 := run append_upd half_mids s0 [0]%nat in
  let s2 := run append_upd half_mids s1 [0; 0; 1; 1]%nat in
  (* truncated: the file is empty; then half written: a strict prefix; neither is the result of any
     prefix of the lock order - this is what a reader that does not take the lock can see *)
  file s0 = [] /\ file s1 = [120]%N /\ lock s1 = Some 0%nat /\ pcs s1 1%nat = POpened /\
  (forall pre, file s0 <> eff append_upd [120; 121] pre) /\ (forall pre, file s1 <> eff append_upd [120; 121] pre) /\
  (* the reader that waits for the lock reads the complete content *)
  log s2 = [0; 1]%nat /\ snaps s2 1%nat = [120; 121; 97]%N.
Proof.
  cbv zeta.
  assert (Hlen : forall l c, (2 <= length c)%nat -> (2 <= length (fold_left (apply1 append_upd) l c))%nat).
  { induction l as [|x l IH]; intros c Hc; [exact Hc|]. cbn [fold_left]. apply IH.
    unfold apply1, append_upd. rewrite app_length. cbn. lia. }
  split; [vm_compute; reflexivity|]. split; [vm_compute; reflexivity|]. split; [vm_compute; reflexivity|].
  split; [vm_compute; reflexivity|]. split; [|split; [|split; vm_compute; reflexivity]].
  - intros pre E. pose proof (Hlen pre [120; 121]%N (le_n 2)) as H. unfold eff in E. rewrite <- E in H.
    vm_compute in H. lia.
  - intros pre E. pose proof (Hlen pre [120; 121]%N (le_n 2)) as H. unfold eff in E. rewrite <- E in H.
    vm_compute in H. lia.
Qed.
