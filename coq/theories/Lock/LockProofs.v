From Robsd Require Import Lock.LockDefs.
Local Open Scope N_scope.

Lemma NoDup_snoc {A} (l : list A) x : NoDup l -> ~ In x l -> NoDup (l ++ [x]).
Proof.
  induction 1 as [|y l Hy Hl IH]; intros Hx; cbn; [constructor; [intros []|constructor]|].
  constructor.
  - rewrite in_app_iff. intros [H|[H|[]]]; [contradiction|]. apply Hx. now left.
  - apply IH. intros H. apply Hx. now right.
Qed.

Section Proofs.
  Variable upd : nat -> bytes -> option bytes.
  Variable f0 : bytes.

  Notation eff := (eff upd f0).
  Notation step := (step upd).

  Definition before_lock (c : pc) : Prop := c = PStart \/ c = POpened.
  Definition mid (c : pc) : Prop :=
    c = PLocked \/ c = PRead \/ c = PBeforeTrunc \/ c = PTruncated \/ c = PWritten.

  Definition holder_ok (s : state) (h : nat) (l' : list nat) : Prop :=
    match pcs s h with
    | PLocked => file s = eff l'
    | PRead => file s = eff l' /\ snaps s h = eff l'
    | PBeforeTrunc => file s = eff l' /\ snaps s h = eff l' /\ upd h (snaps s h) <> None
    | PTruncated => snaps s h = eff l' /\ upd h (snaps s h) <> None
    | PWritten => snaps s h = eff l' /\ file s = eff (l' ++ [h])
    | _ => False
    end.

  Record Inv (s : state) : Prop := mkInv {
    i_nodup : NoDup (log s);
    i_log : forall q, In q (log s) <-> ~ before_lock (pcs s q);
    i_free : lock s = None -> file s = eff (log s) /\ forall q, In q (log s) -> pcs s q = PDone;
    i_held : forall h, lock s = Some h ->
               exists l', log s = l' ++ [h] /\ (forall q, In q l' -> pcs s q = PDone) /\ holder_ok s h l';
    i_done : forall q, pcs s q = PDone ->
               exists pre post, log s = pre ++ q :: post /\ snaps s q = eff pre;
  }.

  Lemma upd_fun_same {A} (f : nat -> A) p x : upd_fun f p x p = x.
  Proof. unfold upd_fun. now rewrite Nat.eqb_refl. Qed.

  Lemma upd_fun_other {A} (f : nat -> A) p x q : q <> p -> upd_fun f p x q = f q.
  Proof. unfold upd_fun. intros H. destruct (Nat.eqb_spec q p); [contradiction|reflexivity]. Qed.

  Lemma inv_init : Inv (init f0).
  Proof.
    constructor; cbn.
    - constructor.
    - intros q. split; [intros []|]. intros H. elim H. now left.
    - intros _. split; [reflexivity|intros q []].
    - discriminate.
    - discriminate.
  Qed.

  Lemma eff_snoc l p : eff (l ++ [p]) = apply1 upd (eff l) p.
  Proof. unfold LockDefs.eff. now rewrite fold_left_app. Qed.

  (* a process in the middle of its critical section is the lock holder *)
  Lemma mid_is_holder s p : Inv s -> mid (pcs s p) -> lock s = Some p.
  Proof.
    intros I Hm.
    assert (Hin : In p (log s)).
    { apply (i_log s I). intros [H|H]; unfold mid in Hm; rewrite H in Hm; intuition discriminate. }
    destruct (lock s) as [h|] eqn:El.
    - destruct (i_held s I h El) as [l' [Hl [Hd _]]].
      rewrite Hl in Hin. apply in_app_or in Hin. destruct Hin as [Hin|[->|[]]]; [|reflexivity].
      apply Hd in Hin. unfold mid in Hm. rewrite Hin in Hm. intuition discriminate.
    - destruct (i_free s I El) as [_ Hd]. apply Hd in Hin.
      unfold mid in Hm. rewrite Hin in Hm. intuition discriminate.
  Qed.

  Ltac pcs_cases q p :=
    destruct (Nat.eq_dec q p) as [->|?];
    [rewrite ?upd_fun_same in *
    |repeat match goal with
            | H : q <> p |- context [upd_fun ?f p ?x q] => rewrite (upd_fun_other f p x q H)
            | H : q <> p, H2 : context [upd_fun ?f p ?x q] |- _ => rewrite (upd_fun_other f p x q H) in H2
            end].

  Lemma inv_step s p s' : Inv s -> step s p = Some s' -> Inv s'.
  Proof.
    intros I Hs. unfold LockDefs.step in Hs.
    destruct (pcs s p) eqn:Ep.
    - (* PStart -> POpened *)
      injection Hs as <-. constructor; cbn.
      + apply (i_nodup s I).
      + intros q. rewrite (i_log s I q). pcs_cases q p.
        * rewrite Ep. split; intros H; elim H; [now left|now right].
        * reflexivity.
      + intros El. destruct (i_free s I El) as [Hf Hd]. split; [exact Hf|].
        intros q Hq. pcs_cases q p; [|auto]. apply Hd in Hq. congruence.
      + intros h El. destruct (i_held s I h El) as [l' [Hl [Hd Hh]]].
        exists l'. split; [exact Hl|]. split.
        * intros q Hq. pcs_cases q p; [|auto]. apply Hd in Hq. congruence.
        * unfold holder_ok in *. cbn. pcs_cases h p; [rewrite Ep in Hh; contradiction|exact Hh].
      + intros q Hq. pcs_cases q p; [discriminate|]. apply (i_done s I q Hq).
    - (* POpened -> PLocked, needs the lock free *)
      destruct (lock s) eqn:El; [discriminate|]. injection Hs as <-.
      destruct (i_free s I El) as [Hf Hd].
      assert (Hnotin : ~ In p (log s)).
      { intros Hin. apply (i_log s I) in Hin. apply Hin. now right. }
      constructor; cbn.
      + apply NoDup_snoc; [apply (i_nodup s I)|exact Hnotin].
      + intros q. rewrite in_app_iff. cbn. pcs_cases q p.
        * split; [intros _ [H|H]; discriminate|auto].
        * rewrite (i_log s I q). split; [intros [H|[H|[]]]; [exact H|congruence]|auto].
      + discriminate.
      + intros h Hh. injection Hh as <-. exists (log s). split; [reflexivity|]. split.
        * intros q Hq. pcs_cases q p; [contradiction|auto].
        * unfold holder_ok. cbn. rewrite upd_fun_same. exact Hf.
      + intros q Hq. pcs_cases q p; [discriminate|].
        destruct (i_done s I q Hq) as [pre [post [Hl Hsn]]].
        exists pre, (post ++ [p]). split; [rewrite Hl, <- app_assoc; reflexivity|exact Hsn].
    - (* PLocked -> PRead *)
      injection Hs as <-.
      assert (El : lock s = Some p) by (apply mid_is_holder; [exact I|rewrite Ep; unfold mid; auto]).
      destruct (i_held s I p El) as [l' [Hl [Hd Hh]]]. unfold holder_ok in Hh. rewrite Ep in Hh.
      constructor; cbn.
      + apply (i_nodup s I).
      + intros q. rewrite (i_log s I q). pcs_cases q p; [|reflexivity].
        rewrite Ep. split; intros _ [H|H]; discriminate.
      + congruence.
      + intros h Hh'. rewrite El in Hh'. injection Hh' as <-. exists l'. split; [exact Hl|]. split.
        * intros q Hq. pcs_cases q p; [|auto]. apply Hd in Hq. congruence.
        * unfold holder_ok. cbn. rewrite !upd_fun_same. auto.
      + intros q Hq. pcs_cases q p; [discriminate|]. apply (i_done s I q Hq).
    - (* PRead -> PBeforeTrunc or PDone *)
      assert (El : lock s = Some p) by (apply mid_is_holder; [exact I|rewrite Ep; unfold mid; auto]).
      destruct (i_held s I p El) as [l' [Hl [Hd Hh]]]. unfold holder_ok in Hh. rewrite Ep in Hh.
      destruct Hh as [Hf Hsn].
      destruct (upd p (snaps s p)) as [c|] eqn:Eu; injection Hs as <-.
      + constructor; cbn.
        * apply (i_nodup s I).
        * intros q. rewrite (i_log s I q). pcs_cases q p; [|reflexivity].
          rewrite Ep. split; intros _ [H|H]; discriminate.
        * congruence.
        * intros h Hh'. rewrite El in Hh'. injection Hh' as <-. exists l'. split; [exact Hl|]. split.
          -- intros q Hq. pcs_cases q p; [|auto]. apply Hd in Hq. congruence.
          -- unfold holder_ok. cbn. rewrite upd_fun_same. repeat split; auto. congruence.
        * intros q Hq. pcs_cases q p; [discriminate|]. apply (i_done s I q Hq).
      + (* nothing to write: release *)
        constructor; cbn.
        * apply (i_nodup s I).
        * intros q. rewrite (i_log s I q). pcs_cases q p; [|reflexivity].
          rewrite Ep. split; intros _ [H|H]; discriminate.
        * intros _. split.
          -- assert (Hgoal : file s = eff (l' ++ [p])).
             { rewrite eff_snoc. unfold apply1. rewrite <- Hsn, Eu. congruence. }
             rewrite Hl. exact Hgoal.
          -- intros q Hq. pcs_cases q p; [reflexivity|].
             rewrite Hl in Hq. apply in_app_or in Hq. destruct Hq as [Hq|[Hq|[]]]; [auto|congruence].
        * discriminate.
        * intros q Hq. pcs_cases q p.
          -- exists l', []. split; [exact Hl|exact Hsn].
          -- apply (i_done s I q Hq).
    - (* PBeforeTrunc -> PTruncated *)
      injection Hs as <-.
      assert (El : lock s = Some p) by (apply mid_is_holder; [exact I|rewrite Ep; unfold mid; auto 6]).
      destruct (i_held s I p El) as [l' [Hl [Hd Hh]]]. unfold holder_ok in Hh. rewrite Ep in Hh.
      destruct Hh as [Hf [Hsn Hu]].
      constructor; cbn.
      + apply (i_nodup s I).
      + intros q. rewrite (i_log s I q). pcs_cases q p; [|reflexivity].
        rewrite Ep. split; intros _ [H|H]; discriminate.
      + congruence.
      + intros h Hh'. rewrite El in Hh'. injection Hh' as <-. exists l'. split; [exact Hl|]. split.
        * intros q Hq. pcs_cases q p; [|auto]. apply Hd in Hq. congruence.
        * unfold holder_ok. cbn. rewrite upd_fun_same. auto.
      + intros q Hq. pcs_cases q p; [discriminate|]. apply (i_done s I q Hq).
    - (* PTruncated -> PWritten *)
      assert (El : lock s = Some p) by (apply mid_is_holder; [exact I|rewrite Ep; unfold mid; auto 6]).
      destruct (i_held s I p El) as [l' [Hl [Hd Hh]]]. unfold holder_ok in Hh. rewrite Ep in Hh.
      destruct Hh as [Hsn Hu].
      destruct (upd p (snaps s p)) as [c|] eqn:Eu; [|discriminate]. injection Hs as <-.
      constructor; cbn.
      + apply (i_nodup s I).
      + intros q. rewrite (i_log s I q). pcs_cases q p; [|reflexivity].
        rewrite Ep. split; intros _ [H|H]; discriminate.
      + congruence.
      + intros h Hh'. rewrite El in Hh'. injection Hh' as <-. exists l'. split; [exact Hl|]. split.
        * intros q Hq. pcs_cases q p; [|auto]. apply Hd in Hq. congruence.
        * unfold holder_ok. cbn. rewrite upd_fun_same. split; [exact Hsn|].
          rewrite eff_snoc. unfold apply1. now rewrite <- Hsn, Eu.
      + intros q Hq. pcs_cases q p; [discriminate|]. apply (i_done s I q Hq).
    - (* PWritten -> PDone *)
      injection Hs as <-.
      assert (El : lock s = Some p) by (apply mid_is_holder; [exact I|rewrite Ep; unfold mid; auto 6]).
      destruct (i_held s I p El) as [l' [Hl [Hd Hh]]]. unfold holder_ok in Hh. rewrite Ep in Hh.
      destruct Hh as [Hsn Hf].
      constructor; cbn.
      + apply (i_nodup s I).
      + intros q. rewrite (i_log s I q). pcs_cases q p; [|reflexivity].
        rewrite Ep. split; intros _ [H|H]; discriminate.
      + intros _. split; [now rewrite Hl|].
        intros q Hq. pcs_cases q p; [reflexivity|].
        rewrite Hl in Hq. apply in_app_or in Hq. destruct Hq as [Hq|[Hq|[]]]; [auto|congruence].
      + discriminate.
      + intros q Hq. pcs_cases q p.
        * exists l', []. split; [exact Hl|exact Hsn].
        * apply (i_done s I q Hq).
    - discriminate.
  Qed.

  Theorem inv_run sched : forall s, Inv s -> Inv (run upd s sched).
  Proof.
    induction sched as [|p sched IH]; intros s I; [exact I|].
    cbn [run]. destruct (step s p) as [s'|] eqn:Es; [|auto].
    apply IH. eapply inv_step; eauto.
  Qed.
End Proofs.

(* ---- consequences ------------------------------------------------------------------------- *)
Section Consequences.
  Variable upd : nat -> bytes -> option bytes.
  Variable f0 : bytes.

  Definition reachable (s : state) : Prop := exists sched, s = run upd (init f0) sched.

  Lemma reachable_inv s : reachable s -> Inv upd f0 s.
  Proof. intros [sched ->]. apply inv_run. apply inv_init. Qed.

  (* at most one process is between flock and unlock *)
  Theorem mutual_exclusion s p q :
    reachable s -> mid (pcs s p) -> mid (pcs s q) -> p = q.
  Proof.
    intros R Hp Hq. apply reachable_inv in R.
    pose proof (mid_is_holder upd f0 s p R Hp) as H1.
    pose proof (mid_is_holder upd f0 s q R Hq) as H2. congruence.
  Qed.

  (* only the lock holder ever changes the file *)
  Theorem only_holder_writes s p s' :
    reachable s -> step upd s p = Some s' -> file s' <> file s -> lock s = Some p.
  Proof.
    intros R Hs Hf. apply reachable_inv in R. unfold step in Hs.
    destruct (pcs s p) eqn:Ep.
    - injection Hs as <-. now elim Hf.
    - destruct (lock s); [discriminate|]. injection Hs as <-. now elim Hf.
    - injection Hs as <-. now elim Hf.
    - destruct (upd p (snaps s p)); injection Hs as <-; now elim Hf.
    - apply mid_is_holder with (upd := upd) (f0 := f0); [exact R|rewrite Ep; unfold mid; auto 6].
    - apply mid_is_holder with (upd := upd) (f0 := f0); [exact R|rewrite Ep; unfold mid; auto 6].
    - injection Hs as <-. now elim Hf.
    - discriminate.
  Qed.

  (* whatever a process has read is the committed result of the processes that
     were granted the lock before it - never a truncated or half-written file *)
  Theorem snapshot_is_committed_prefix s p :
    reachable s ->
    (pcs s p = PRead \/ pcs s p = PBeforeTrunc \/ pcs s p = PTruncated \/ pcs s p = PWritten \/ pcs s p = PDone) ->
    exists pre post, log s = pre ++ p :: post /\ snaps s p = eff upd f0 pre.
  Proof.
    intros R Hp. apply reachable_inv in R.
    destruct Hp as [Hp|[Hp|[Hp|[Hp|Hp]]]]; [| | | |apply (i_done upd f0 s R p Hp)].
    all: assert (El : lock s = Some p) by (apply mid_is_holder with (upd := upd) (f0 := f0); [exact R|rewrite Hp; unfold mid; auto 6]).
    all: destruct (i_held upd f0 s R p El) as [l' [Hl [_ Hh]]]; unfold holder_ok in Hh; rewrite Hp in Hh.
    all: exists l', []; split; [exact Hl|tauto].
  Qed.

  (* when nobody is in the middle of anything: the file is the result of the
     processes that ran, one after the other, in the order the lock was granted *)
  Theorem quiescent_is_serial s :
    reachable s -> (forall q, pcs s q = PDone \/ before_lock (pcs s q)) ->
    lock s = None /\ file s = eff upd f0 (log s) /\ NoDup (log s) /\
    (forall q, In q (log s) <-> pcs s q = PDone) /\
    (forall q, pcs s q = PDone -> exists pre post, log s = pre ++ q :: post /\ snaps s q = eff upd f0 pre).
  Proof.
    intros R Hq. apply reachable_inv in R.
    assert (El : lock s = None).
    { destruct (lock s) as [h|] eqn:El; [|reflexivity].
      destruct (i_held upd f0 s R h El) as [l' [_ [_ Hh]]]. unfold holder_ok in Hh.
      destruct (Hq h) as [H|[H|H]]; rewrite H in Hh; contradiction. }
    split; [exact El|]. destruct (i_free upd f0 s R El) as [Hf Hd].
    split; [exact Hf|]. split; [apply (i_nodup upd f0 s R)|]. split.
    - intros q. split; [apply Hd|]. intros H. apply (i_log upd f0 s R). rewrite H. intros [E|E]; discriminate.
    - apply (i_done upd f0 s R).
  Qed.
End Consequences.

(* ---- what the lock buys: the same processes without it lose an update ------------------- *)
Definition append_upd (p : nat) (c : bytes) : option bytes := Some (c ++ [N.of_nat p + 97]%N).

Lemma lost_update_without_lock :
  let sched := [0; 0; 0; 1; 1; 1; 0; 0; 0; 0; 1; 1; 1; 1]%nat in
  let s := run_nolock append_upd (init []) sched in
  pcs s 0%nat = PDone /\ pcs s 1%nat = PDone /\ file s = [98]%N /\
  file s <> eff append_upd [] [0; 1]%nat /\ file s <> eff append_upd [] [1; 0]%nat.
Proof. vm_compute. repeat split; discriminate. Qed.
