(* LockOracle.v - the serialisability oracle [spec_ok_serial] (LockSpec), which the harness applies to
   what real robsd-step processes left and printed, accepts every run of the MODEL: for every
   schedule after which the n processes have finished, the final file and the reports are those of
   the serial order in which the lock was granted - and that order is among the orders the oracle
   tries. *)
From Coq Require Import Permutation.
From Robsd Require Import Lock.LockSpec Lock.LockProofs.
Local Open Scope N_scope.

(* ---- [perms] enumerates every permutation ------------------------------------------------------- *)

Lemma insert_all_In {A} (x : A) l1 l2 : In (l1 ++ x :: l2) (insert_all x (l1 ++ l2)).
Proof.
  induction l1 as [|a l1 IH]; cbn [app insert_all].
  - destruct l2; now left.
  - right. apply in_map_iff. exists (l1 ++ x :: l2). split; [reflexivity|exact IH].
Qed.

Lemma perms_complete {A} (l0 : list A) : forall l, Permutation l0 l -> In l (perms l0).
Proof.
  induction l0 as [|x l0 IH]; intros l P.
  - apply Permutation_nil in P. subst. now left.
  - assert (Hin : In x l) by (eapply Permutation_in; [exact P|now left]).
    apply in_split in Hin. destruct Hin as [l1 [l2 ->]].
    apply Permutation_cons_app_inv in P. cbn [perms]. apply in_flat_map.
    exists (l1 ++ l2). split; [now apply IH|apply insert_all_In].
Qed.

(* ---- serial execution along a list without repetitions ------------------------------------------ *)

Lemma out_eq_refl a : out_eq a a = true.
Proof. unfold out_eq. now rewrite N.eqb_refl, beq_refl. Qed.

Lemma apply1_ops ops c p o :
  nth_error ops p = Some o ->
  apply1 (ops_upd ops) c p = match op_upd o c with Some x => x | None => c end.
Proof. intros H. unfold apply1, ops_upd. now rewrite H. Qed.

Lemma serial_spec ops : forall l c,
  (forall p, In p l -> (p < length ops)%nat) -> NoDup l ->
  fst (serial ops c l) = eff (ops_upd ops) c l /\
  forall p pre post o, l = pre ++ p :: post -> nth_error ops p = Some o ->
    lookup_out (snd (serial ops c l)) p = Some (op_out o (eff (ops_upd ops) c pre)).
Proof.
  induction l as [|q l IH]; intros c Hlt Hnd.
  - split; [reflexivity|]. intros p [|? ?] post o H; discriminate.
  - apply NoDup_cons_iff in Hnd. destruct Hnd as [Hq Hl].
    assert (Hql : (q < length ops)%nat) by (apply Hlt; now left).
    destruct (nth_error ops q) as [oq|] eqn:Eq; [|apply nth_error_None in Eq; lia].
    cbn [serial]. rewrite Eq.
    specialize (IH (match op_upd oq c with Some x => x | None => c end) (fun p H => Hlt p (or_intror H)) Hl).
    destruct (serial ops (match op_upd oq c with Some x => x | None => c end) l) as [cf outs] eqn:Es.
    destruct IH as [IH1 IH2]. cbn [fst snd] in *.
    unfold eff in *. cbn [fold_left]. rewrite (apply1_ops ops c q oq Eq). split; [exact IH1|].
    intros p pre post o Hsplit Ho. cbn [lookup_out].
    destruct pre as [|x pre]; cbn [app] in Hsplit; injection Hsplit as Hx Hl'.
    + subst p. rewrite Nat.eqb_refl. cbn [fold_left]. congruence.
    + subst x. assert (Hne : q <> p). { intros ->. apply Hq. rewrite Hl'. apply in_or_app. right. now left. }
      destruct (Nat.eqb_spec q p); [contradiction|].
      cbn [fold_left]. rewrite (apply1_ops ops c q oq Eq). now apply (IH2 p pre post o).
Qed.

Lemma final_reports_nth ops s p o :
  nth_error ops p = Some o -> nth_error (final_reports ops s) p = Some (op_out o (snaps s p)).
Proof.
  intros Ho. unfold final_reports.
  assert (Hp : (p < length ops)%nat) by (apply nth_error_Some; congruence).
  rewrite nth_error_map, nth_error_nth' with (d := 0%nat) by (now rewrite seq_length).
  rewrite seq_nth by exact Hp. cbn. now rewrite Ho.
Qed.

(* ---- the oracle accepts the model --------------------------------------------------------------------- *)

Theorem serial_oracle_accepts_model ops mids f0 s :
  reachable (ops_upd ops) mids f0 s ->
  (forall q, (q < length ops)%nat -> pcs s q = PDone) ->
  (forall q, (length ops <= q)%nat -> pcs s q = PStart) ->
  spec_ok_serial ops f0 (file s) (final_reports ops s) = true.
Proof.
  intros R Hdone Hrest.
  assert (Q : forall q, pcs s q = PDone \/ before_lock (pcs s q)).
  { intros q. destruct (Nat.lt_ge_cases q (length ops)); [left; auto|right; left; auto]. }
  destruct (quiescent_is_serial (ops_upd ops) mids f0 s R Q) as [_ [Hf [Hnd [Hin Hsn]]]].
  assert (Hlt : forall p, In p (log s) -> (p < length ops)%nat).
  { intros p Hp. apply Hin in Hp. destruct (Nat.lt_ge_cases p (length ops)) as [|Hge]; [assumption|].
    rewrite (Hrest p Hge) in Hp. discriminate. }
  assert (Hperm : Permutation (seq 0 (length ops)) (log s)).
  { apply NoDup_Permutation; [apply seq_NoDup|exact Hnd|].
    intros x. rewrite in_seq. split.
    - intros [_ Hx]. apply Hin. now apply Hdone.
    - intros Hx. split; [lia|now apply Hlt]. }
  unfold spec_ok_serial. apply existsb_exists. exists (log s). split; [now apply perms_complete|].
  destruct (serial_spec ops (log s) f0 Hlt Hnd) as [S1 S2].
  destruct (serial ops f0 (log s)) as [cf outs]. cbn [fst snd] in *.
  apply andb_true_iff. split; [rewrite S1, <- Hf; apply beq_refl|].
  apply forallb_forall. intros p Hp. apply in_seq in Hp. destruct Hp as [_ Hp]. cbn in Hp.
  destruct (nth_error ops p) as [o|] eqn:Eo; [|apply nth_error_None in Eo; lia].
  destruct (Hsn p (Hdone p Hp)) as [pre [post [Hl Hs]]].
  rewrite (S2 p pre post o Hl Eo), (final_reports_nth ops s p o Eo), Hs. apply out_eq_refl.
Qed.

(* what the harness compares per process, [final_reports], is the report of the same command run
   alone on the content left by the processes granted the lock before it *)
Theorem final_reports_are_serial ops mids f0 s p o :
  reachable (ops_upd ops) mids f0 s -> pcs s p = PDone -> nth_error ops p = Some o ->
  exists pre post, log s = pre ++ p :: post /\
    nth_error (final_reports ops s) p = Some (op_out o (eff (ops_upd ops) f0 pre)).
Proof.
  intros R Hd Ho.
  destruct (snapshot_is_committed_prefix (ops_upd ops) mids f0 s p R) as [pre [post [Hl Hs]]]; [now rewrite Hd|].
  exists pre, post. split; [exact Hl|]. now rewrite (final_reports_nth ops s p o Ho), Hs.
Qed.
