(* LockInterp.v - the generated call lists of step.c / robsd-step.c (Gen_Lock, regenerated from the
   source on every run), INTERPRETED call by call, are the transitions of LockDefs.step.

   gap report 2 (C02, "decorative tie"): [LockTie.walk1] is a hand-written table of program counters and
   nothing related it to [LockDefs.step].  Here each file-system call gets its meaning on the shared
   state (what flock / read / fopen("we") / fwrite / fclose / LOCK_UN do to the file, the lock and the
   caller's snapshot - the ASSUMPTIONS about the kernel and libc, stated once, per call), a sync point
   VERIF_POINT n only advances the caller's program counter to the counter it is named after, and then:

     every SEGMENT of the generated lists - the calls between two consecutive sync points, closed by the
     second one - executed from ANY state in which the caller stands at the counter of the first point,
     yields exactly the state [LockDefs.step] yields for that process (the rewrite segment: the steps
     through the intermediate contents [mids]); it is blocked exactly when [step] is.

   So the sequence of program counters the model goes through, the place where each effect on file, lock
   and snapshot happens, and the lock test are READ OFF the source order; [walk1] is a consequence
   ([walk_agrees_with_step]).  An edit of step.c that changes the order of the calls changes Gen_Lock and
   these proofs no longer check. *)
From Robsd Require Import Lock.LockDefs Lock.LockOps Lock.LockTie.
From RobsdGen Require Import Gen_Lock.
From Coq Require Import Lia.
Local Open Scope N_scope.

(* the counter a sync point stands for (the names of the points in step.c: after_open, after_lock,
   after_read, before_truncate, after_truncate, after_write, after_unlock; LockOps.FPoint) *)
Definition point_pc (n : nat) : option pc :=
  match n with
  | 0 => Some POpened | 1 => Some PLocked | 2 => Some PRead | 3 => Some PBeforeTrunc
  | 4 => Some PTruncated | 5 => Some PWritten | 6 => Some PDone | _ => None
  end%nat.

(* states up to the extension of their function fields (no functional extensionality here) *)
Definition steq (a b : state) : Prop :=
  file a = file b /\ lock a = lock b /\ (forall q, pcs a q = pcs b q) /\ (forall q, snaps a q = snaps b q) /\ log a = log b.
Definition osteq (a b : option state) : Prop :=
  match a, b with Some x, Some y => steq x y | None, None => True | _, _ => False end.

Lemma steq_refl s : steq s s.
Proof. repeat split. Qed.
Lemma steq_sym a b : steq a b -> steq b a.
Proof. intros [F [L [P [S G]]]]. repeat split; auto. Qed.
Lemma steq_trans a b c : steq a b -> steq b c -> steq a c.
Proof.
  intros [F [L [P [S G]]]] [F' [L' [P' [S' G']]]].
  split; [congruence|]. split; [congruence|]. split; [intro q; now rewrite P|]. split; [intro q; now rewrite S|congruence].
Qed.

Lemma upd_fun_ext {A} (f g : nat -> A) p x : (forall q, f q = g q) -> forall q, upd_fun f p x q = upd_fun g p x q.
Proof. intros H q. unfold upd_fun. destruct (Nat.eqb q p); auto. Qed.
Lemma upd_fun_same {A} (f : nat -> A) p x : upd_fun f p x p = x.
Proof. unfold upd_fun. now rewrite Nat.eqb_refl. Qed.
Lemma upd_fun_twice {A} (f : nat -> A) p x y q : upd_fun (upd_fun f p x) p y q = upd_fun f p y q.
Proof. unfold upd_fun. destruct (Nat.eqb q p); reflexivity. Qed.

Ltac steq_solve := repeat split; cbn [file lock pcs snaps log]; auto using upd_fun_ext.

Section Interp.
  Variable upd : nat -> bytes -> option bytes.
  Variable mids : nat -> bytes -> list bytes.

  (* [step] cannot tell equivalent states apart *)
  Lemma step_respects_steq a b p : steq a b -> osteq (step upd mids a p) (step upd mids b p).
  Proof.
    intros [F [L [P [S G]]]]. unfold step. rewrite <- (P p), <- (S p), <- F, <- L, <- G.
    destruct (pcs a p); cbn.
    - steq_solve.
    - destruct (lock a); cbn; [exact I|]. steq_solve.
    - steq_solve.
    - destruct (upd p (snaps a p)); cbn; steq_solve.
    - steq_solve.
    - destruct (upd p (snaps a p)) as [c|]; cbn; [|exact I]. unfold write_next. rewrite <- L, <- G.
      destruct (mids p c); cbn; steq_solve.
    - destruct (upd p (snaps a p)) as [c|]; cbn; [|exact I]. unfold write_next. rewrite <- L, <- G.
      destruct todo; cbn; steq_solve.
    - steq_solve.
    - exact I.
  Qed.

  (* ---- the meaning of one call of process p (the file-system assumptions, per call) ------------------- *)
  Definition exec_op (s : state) (p : nat) (o : fsop) : option state :=
    match o with
    | FOpenRd => Some s                                   (* a descriptor; nothing shared changes *)
    | FLockEx =>                                          (* granted only when nobody holds the lock; else the caller waits *)
        match lock s with
        | None => Some (mkstate (file s) (Some p) (pcs s) (snaps s) (log s ++ [p]))
        | Some _ => None
        end
    | FLockSh => None                                     (* no shared lock in the model *)
    | FUnlock => Some (mkstate (file s) None (pcs s) (snaps s) (log s))
    | FReadAll => Some (mkstate (file s) (lock s) (pcs s) (upd_fun (snaps s) p (file s)) (log s))
    | FParse => Some s                                    (* memory only *)
    | FSerialize => Some s                                (* memory only *)
    | FTruncate => Some (mkstate [] (lock s) (pcs s) (snaps s) (log s))     (* fopen(path, "we") *)
    | FWrite =>                                           (* fwrite: the blocks stdio writes by itself reach the file, one content after the other *)
        match upd p (snaps s p) with
        | Some c => Some (mkstate (last (mids p c) (file s)) (lock s) (pcs s) (snaps s) (log s))
        | None => None
        end
    | FFlushClose =>                                      (* fclose: the file holds the complete new content *)
        match upd p (snaps s p) with
        | Some c => Some (mkstate c (lock s) (pcs s) (snaps s) (log s))
        | None => None
        end
    | FCloseFd => Some s                                  (* the lock was released by LOCK_UN already *)
    | FPoint n =>
        match point_pc n with
        | Some c => Some (mkstate (file s) (lock s) (upd_fun (pcs s) p c) (snaps s) (log s))
        | None => None
        end
    end.

  Fixpoint exec_ops (s : state) (p : nat) (ops : list fsop) : option state :=
    match ops with
    | [] => Some s
    | o :: ops' => match exec_op s p o with Some s' => exec_ops s' p ops' | None => None end
    end.

  (* ---- what the model does between two sync points ---------------------------------------------------- *)
  (* one [step]; from PTruncated the steps through every intermediate content up to PWritten *)
  Definition model_seg (s : state) (p : nat) : option state :=
    match pcs s p with
    | PTruncated =>
        match upd p (snaps s p) with
        | Some c => Some (run upd mids s (repeat p (S (length (mids p c)))))
        | None => None
        end
    | _ => step upd mids s p
    end.

  (* the steps of the rewrite: the file passes through [todo] and ends as c *)
  Lemma run_rewrite todo : forall s p c,
    pcs s p = PWriting todo -> upd p (snaps s p) = Some c ->
    steq (run upd mids s (repeat p (S (length todo))))
        (mkstate c (lock s) (upd_fun (pcs s) p PWritten) (snaps s) (log s)).
  Proof.
    induction todo as [|m rest IH]; intros s p c Hpc Hu.
    - cbn [length repeat run]. unfold step. rewrite Hpc, Hu. cbn [write_next run]. apply steq_refl.
    - cbn [length repeat run]. unfold step at 1. rewrite Hpc, Hu. cbn [write_next].
      set (s1 := mkstate m (lock s) (upd_fun (pcs s) p (PWriting rest)) (snaps s) (log s)).
      assert (H1 : pcs s1 p = PWriting rest) by (cbn; apply upd_fun_same).
      assert (H2 : upd p (snaps s1 p) = Some c) by exact Hu.
      pose proof (IH s1 p c H1 H2) as H. cbn [length repeat] in H.
      eapply steq_trans; [exact H|]. subst s1. cbn. repeat split. intro q. apply upd_fun_twice.
  Qed.

  Lemma run_from_truncated s p c :
    pcs s p = PTruncated -> upd p (snaps s p) = Some c ->
    steq (run upd mids s (repeat p (S (length (mids p c)))))
        (mkstate c (lock s) (upd_fun (pcs s) p PWritten) (snaps s) (log s)).
  Proof.
    intros Hpc Hu. cbn [repeat run]. unfold step at 1. rewrite Hpc, Hu. unfold write_next.
    destruct (mids p c) as [|m rest] eqn:E.
    - cbn. apply steq_refl.
    - set (s1 := mkstate m (lock s) (upd_fun (pcs s) p (PWriting rest)) (snaps s) (log s)).
      assert (H1 : pcs s1 p = PWriting rest) by (cbn; apply upd_fun_same).
      assert (H2 : upd p (snaps s1 p) = Some c) by exact Hu.
      pose proof (run_rewrite rest s1 p c H1 H2) as H. cbn [length].
      eapply steq_trans; [exact H|]. subst s1. cbn. repeat split. intro q. apply upd_fun_twice.
  Qed.

  (* every file content the rewrite passes through is one of [mids p c] - the contents [exec_op FWrite]
     lets the file pass through - and it ends as c *)

  (* ---- segments ------------------------------------------------------------------------------------------ *)
  (* the calls of a list, cut after every sync point: (calls before the point, the point) *)
  Fixpoint segments (acc : list fsop) (ops : list fsop) : list (list fsop * nat) * list fsop :=
    match ops with
    | [] => ([], acc)
    | FPoint n :: ops' => let (sg, rest) := segments [] ops' in ((acc, n) :: sg, rest)
    | o :: ops' => segments (acc ++ [o]) ops'
    end.

  (* a segment simulates the model: from any state with the caller at counter [c] (and, at PRead, of the
     kind [writes]: a command that goes on to rewrite the file, or one that does not) *)
  Definition seg_sim (writes : bool) (c : pc) (sg : list fsop * nat) : Prop :=
    forall s p, pcs s p = c ->
      (c = PRead -> if writes then upd p (snaps s p) <> None else upd p (snaps s p) = None) ->
      osteq (exec_ops s p (fst sg ++ [FPoint (snd sg)])) (model_seg s p).

  (* all segments of a command, chained through the counters the points stand for; ends at PDone *)
  Fixpoint chain_sim (writes : bool) (c : pc) (sgs : list (list fsop * nat)) : Prop :=
    match sgs with
    | [] => c = PDone
    | sg :: rest => seg_sim writes c sg /\ exists c', point_pc (snd sg) = Some c' /\ chain_sim writes c' rest
    end.

  Ltac seg_tac :=
    let s := fresh "s" in let p := fresh "p" in let Hpc := fresh "Hpc" in let Hk := fresh "Hk" in
    intros s p Hpc Hk; cbn [fst snd app exec_ops exec_op point_pc]; unfold model_seg, step; rewrite Hpc.

  Theorem writer_segments_are_model_steps :
    snd (segments [] writer_calls) = [] /\
    chain_sim true PStart (fst (segments [] writer_calls)).
  Proof.
    split; [vm_compute; reflexivity|].
    change (fst (segments [] writer_calls)) with
      (fst (segments [] (parse_path ++ write_path ++ free_path))).
    vm_compute segments. cbn [fst chain_sim snd].
    split; [|eexists; split; [reflexivity|]].
    { seg_tac. cbn. apply steq_refl. }
    split; [|eexists; split; [reflexivity|]].
    { seg_tac. destruct (lock s); cbn; [exact I|apply steq_refl]. }
    split; [|eexists; split; [reflexivity|]].
    { seg_tac. cbn. apply steq_refl. }
    split; [|eexists; split; [reflexivity|]].
    { seg_tac. specialize (Hk eq_refl). cbn in Hk. destruct (upd p (snaps s p)); [|now elim Hk]. cbn. apply steq_refl. }
    split; [|eexists; split; [reflexivity|]].
    { seg_tac. cbn. apply steq_refl. }
    split; [|eexists; split; [reflexivity|]].
    { intros s p Hpc Hk. cbn [fst snd app exec_ops exec_op point_pc]. unfold model_seg. rewrite Hpc.
      destruct (upd p (snaps s p)) as [c|] eqn:Hu; cbn [exec_ops exec_op snaps]; [|exact I].
      rewrite Hu. cbn [osteq point_pc]. apply steq_sym. eapply steq_trans; [apply (run_from_truncated s p c Hpc Hu)|].
      cbn. apply steq_refl. }
    split; [|eexists; split; [reflexivity|]].
    { seg_tac. cbn. apply steq_refl. }
    reflexivity.
  Qed.

  Theorem reader_segments_are_model_steps :
    snd (segments [] reader_calls) = [] /\
    chain_sim false PStart (fst (segments [] reader_calls)).
  Proof.
    split; [vm_compute; reflexivity|].
    change (fst (segments [] reader_calls)) with (fst (segments [] (parse_path ++ free_path))).
    vm_compute segments. cbn [fst chain_sim snd].
    split; [|eexists; split; [reflexivity|]].
    { seg_tac. cbn. apply steq_refl. }
    split; [|eexists; split; [reflexivity|]].
    { seg_tac. destruct (lock s); cbn; [exact I|apply steq_refl]. }
    split; [|eexists; split; [reflexivity|]].
    { seg_tac. cbn. apply steq_refl. }
    split; [|eexists; split; [reflexivity|]].
    { seg_tac. specialize (Hk eq_refl). cbn in Hk. rewrite Hk. cbn. apply steq_refl. }
    reflexivity.
  Qed.
End Interp.

(* ---- [LockTie.walk1] is a consequence ---------------------------------------------------------------------- *)

(* wherever the hand-written table lets a sync point pass, it moves to the counter the point stands for *)
Lemma walk1_point c n c' : walk1 c (FPoint n) = Some c' -> point_pc n = Some c'.
Proof.
  destruct c as [| | | | | |todo| |]; cbn;
    try (destruct n as [|[|[|[|[|[|[|n]]]]]]]; cbn; intro H; try discriminate; injection H as <-; reflexivity).
  destruct todo as [|[|x t] [|y r]]; destruct n as [|[|[|[|[|[|[|n]]]]]]]; cbn; intro H; try discriminate.
  injection H as <-. reflexivity.
Qed.

(* on the generated lists: the counters [walk] passes at the sync points are, point for point, the counters
   of the segments above - i.e. those [LockDefs.step] reaches by [writer_segments_are_model_steps] *)
Theorem walk_agrees_with_step :
  points PStart writer_calls =
    map (fun sg => (snd sg, match point_pc (snd sg) with Some c => c | None => PStart end)) (fst (segments [] writer_calls)) /\
  points PStart reader_calls =
    map (fun sg => (snd sg, match point_pc (snd sg) with Some c => c | None => PStart end)) (fst (segments [] reader_calls)).
Proof. vm_compute. split; reflexivity. Qed.

(* ---- the command level: robsd-step.c main and action_write (generated) expand to the two call lists ---- *)
(* steps_find_by_id, step_set_keyval and steps_read work on memory; steps_parse, steps_write, steps_free are
   the three paths of step.c *)
Definition expand_action (c : call) : list fsop := match c with CWrite => write_path | _ => [] end.
Definition expand_main (c : call) : list fsop :=
  match c with
  | CParse => parse_path
  | CActionWrite => flat_map expand_action action_write_calls
  | CFree => free_path
  | _ => []
  end.

Theorem command_calls_expand :
  flat_map expand_main main_write_calls = writer_calls /\
  flat_map expand_main main_read_calls = reader_calls.
Proof. vm_compute. split; reflexivity. Qed.
