(* LockDefs.v - concurrent robsd-step processes on one step file, at the
   granularity of their file system operations (the sync points of step.c):
     open -> flock(LOCK_EX) -> read -> [compute] -> truncate -> write/close -> unlock.
   A process is given by [upd p : bytes -> option bytes]: from the content it
   read, either the new content it writes (a successful robsd-step -W) or None
   (a reader, or a write that rejects its arguments: nothing is truncated).
   Everything a process prints or returns is a function of the snapshot it read.
   The kernel enters only through the rule that flock is granted when no other
   process holds the lock. *)
From Robsd Require Export Base.Bytes.
Local Open Scope N_scope.

Inductive pc :=
| PStart        (* not started *)
| POpened       (* step.after_open: file opened, about to flock *)
| PLocked       (* step.after_lock *)
| PRead         (* step.after_read: content in memory *)
| PBeforeTrunc  (* step.before_truncate: new content computed *)
| PTruncated    (* step.after_truncate: fopen("w") done *)
| PWritten      (* step.after_write: data flushed and closed *)
| PDone.        (* step.after_unlock *)

Record state := mkstate {
  file : bytes;
  lock : option nat;
  pcs : nat -> pc;
  snaps : nat -> bytes;      (* what each process read *)
  log : list nat;            (* order in which the lock was granted *)
}.

Definition upd_fun {A} (f : nat -> A) (p : nat) (x : A) : nat -> A :=
  fun q => if Nat.eqb q p then x else f q.

Section Sys.
  Variable upd : nat -> bytes -> option bytes.

  Definition init (f0 : bytes) : state :=
    mkstate f0 None (fun _ => PStart) (fun _ => []) [].

  (* process p performs its next operation; None = not enabled (blocked in flock, or finished) *)
  Definition step (s : state) (p : nat) : option state :=
    match pcs s p with
    | PStart => Some (mkstate (file s) (lock s) (upd_fun (pcs s) p POpened) (snaps s) (log s))
    | POpened =>
        match lock s with
        | None => Some (mkstate (file s) (Some p) (upd_fun (pcs s) p PLocked) (snaps s) (log s ++ [p]))
        | Some _ => None
        end
    | PLocked => Some (mkstate (file s) (lock s) (upd_fun (pcs s) p PRead) (upd_fun (snaps s) p (file s)) (log s))
    | PRead =>
        match upd p (snaps s p) with
        | Some _ => Some (mkstate (file s) (lock s) (upd_fun (pcs s) p PBeforeTrunc) (snaps s) (log s))
        | None => Some (mkstate (file s) None (upd_fun (pcs s) p PDone) (snaps s) (log s))
        end
    | PBeforeTrunc => Some (mkstate [] (lock s) (upd_fun (pcs s) p PTruncated) (snaps s) (log s))
    | PTruncated =>
        match upd p (snaps s p) with
        | Some c => Some (mkstate c (lock s) (upd_fun (pcs s) p PWritten) (snaps s) (log s))
        | None => None
        end
    | PWritten => Some (mkstate (file s) None (upd_fun (pcs s) p PDone) (snaps s) (log s))
    | PDone => None
    end.

  (* a schedule: which process moves next; steps that are not enabled are skipped *)
  Fixpoint run (s : state) (sched : list nat) : state :=
    match sched with
    | [] => s
    | p :: sched' => match step s p with
                     | Some s' => run s' sched'
                     | None => run s sched'
                     end
    end.

  (* the committed content after the processes of [l] ran one after the other *)
  Definition apply1 (c : bytes) (p : nat) : bytes :=
    match upd p c with Some c' => c' | None => c end.
  Definition eff (f0 : bytes) (l : list nat) : bytes := fold_left apply1 l f0.

  (* the same system without the lock: flock always succeeds *)
  Definition step_nolock (s : state) (p : nat) : option state :=
    match pcs s p with
    | POpened => Some (mkstate (file s) (Some p) (upd_fun (pcs s) p PLocked) (snaps s) (log s ++ [p]))
    | _ => step s p
    end.

  Fixpoint run_nolock (s : state) (sched : list nat) : state :=
    match sched with
    | [] => s
    | p :: sched' => match step_nolock s p with
                     | Some s' => run_nolock s' sched'
                     | None => run_nolock s sched'
                     end
    end.
End Sys.
