(* LockDefs.v - concurrent robsd-step processes on one step file, at the
   granularity of their file system operations (the sync points of step.c):
     open -> flock(LOCK_EX) -> read -> [compute] -> truncate -> write ... write/close -> unlock.
   The rewrite itself may take several write(2) calls (stdio writes whole blocks directly and the tail
   when the stream is closed): [mids p c] lists the contents the file passes through, after the
   truncation and before it holds the complete new content c.  Every theorem holds for every
   [mids]; the sync points of step.c sit around the whole fwrite/fclose pair, so the driven
   correspondence runs the model with [mids] = none.
   A process is given by [upd p : bytes -> option bytes]: from the content it
   read, either the new content it writes (a successful robsd-step -W) or None
   (a reader, or a write that rejects its arguments: nothing is truncated).
   Everything a process prints or returns is a function of the snapshot it read.
   The kernel enters only through the rule that flock is granted when no other
   process holds the lock. *)
From Robsd Require Export Base.Bytes.
Local Open Scope N_scope.

Inductive pc :=
| PStart        (* not started *)
| POpened       (* step.after_open: file opened, about to flock *)
| PLocked       (* step.after_lock *)
| PRead         (* step.after_read: content in memory *)
| PBeforeTrunc  (* step.before_truncate: new content computed *)
| PTruncated    (* step.after_truncate: fopen("w") done *)
| PWriting (todo : list bytes)   (* part of the data written: the file holds an intermediate content, [todo] are those still to come *)
| PWritten      (* step.after_write: data flushed and closed *)
| PDone.        (* step.after_unlock *)

Record state := mkstate {
  file : bytes;
  lock : option nat;
  pcs : nat -> pc;
  snaps : nat -> bytes;      (* what each process read *)
  log : list nat;            (* order in which the lock was granted *)
}.

Definition upd_fun {A} (f : nat -> A) (p : nat) (x : A) : nat -> A :=
  fun q => if Nat.eqb q p then x else f q.

Section Sys.
  Variable upd : nat -> bytes -> option bytes.
  Variable mids : nat -> bytes -> list bytes.

  (* the next content on the way to c, given the intermediate contents still to come *)
  Definition write_next (s : state) (p : nat) (c : bytes) (todo : list bytes) : state :=
    match todo with
    | [] => mkstate c (lock s) (upd_fun (pcs s) p PWritten) (snaps s) (log s)
    | m :: rest => mkstate m (lock s) (upd_fun (pcs s) p (PWriting rest)) (snaps s) (log s)
    end.

  Definition init (f0 : bytes) : state :=
    mkstate f0 None (fun _ => PStart) (fun _ => []) [].

  (* process p performs its next operation; None = not enabled (blocked in flock, or finished) *)
  Definition step (s : state) (p : nat) : option state :=
    match pcs s p with
    | PStart => Some (mkstate (file s) (lock s) (upd_fun (pcs s) p POpened) (snaps s) (log s))
    | POpened =>
        match lock s with
        | None => Some (mkstate (file s) (Some p) (upd_fun (pcs s) p PLocked) (snaps s) (log s ++ [p]))
        | Some _ => None
        end
    | PLocked => Some (mkstate (file s) (lock s) (upd_fun (pcs s) p PRead) (upd_fun (snaps s) p (file s)) (log s))
    | PRead =>
        match upd p (snaps s p) with
        | Some _ => Some (mkstate (file s) (lock s) (upd_fun (pcs s) p PBeforeTrunc) (snaps s) (log s))
        | None => Some (mkstate (file s) None (upd_fun (pcs s) p PDone) (snaps s) (log s))
        end
    | PBeforeTrunc => Some (mkstate [] (lock s) (upd_fun (pcs s) p PTruncated) (snaps s) (log s))
    | PTruncated =>
        match upd p (snaps s p) with
        | Some c => Some (write_next s p c (mids p c))
        | None => None
        end
    | PWriting todo =>
        match upd p (snaps s p) with
        | Some c => Some (write_next s p c todo)
        | None => None
        end
    | PWritten => Some (mkstate (file s) None (upd_fun (pcs s) p PDone) (snaps s) (log s))
    | PDone => None
    end.

  (* a schedule: which process moves next; steps that are not enabled are skipped *)
  Fixpoint run (s : state) (sched : list nat) : state :=
    match sched with
    | [] => s
    | p :: sched' => match step s p with
                     | Some s' => run s' sched'
                     | None => run s sched'
                     end
    end.

  (* the committed content after the processes of [l] ran one after the other *)
  Definition apply1 (c : bytes) (p : nat) : bytes :=
    match upd p c with Some c' => c' | None => c end.
  Definition eff (f0 : bytes) (l : list nat) : bytes := fold_left apply1 l f0.

  (* the same system without the lock: flock always succeeds *)
  Definition step_nolock (s : state) (p : nat) : option state :=
    match pcs s p with
    | POpened => Some (mkstate (file s) (Some p) (upd_fun (pcs s) p PLocked) (snaps s) (log s ++ [p]))
    | _ => step s p
    end.

  (* the same system with the lock released right after the truncation, before the data is written
     and flushed (what "unlock once fwrite returned" amounts to, the data still being in the stdio buffer) *)
  Definition step_early_unlock (s : state) (p : nat) : option state :=
    match pcs s p with
    | PBeforeTrunc => Some (mkstate [] None (upd_fun (pcs s) p PTruncated) (snaps s) (log s))
    | _ => step s p
    end.

  Fixpoint run_early_unlock (s : state) (sched : list nat) : state :=
    match sched with
    | [] => s
    | p :: sched' => match step_early_unlock s p with
                     | Some s' => run_early_unlock s' sched'
                     | None => run_early_unlock s sched'
                     end
    end.

  Fixpoint run_nolock (s : state) (sched : list nat) : state :=
    match sched with
    | [] => s
    | p :: sched' => match step_nolock s p with
                     | Some s' => run_nolock s' sched'
                     | None => run_nolock s sched'
                     end
    end.
End Sys.

(* a rewrite that reaches the file in one piece *)
Definition no_mids (p : nat) (c : bytes) : list bytes := [].
