(* LockOps.v - the vocabulary of the generated call order (Gen_Lock) *)
Inductive fsop :=
| FOpenRd          (* open(path, O_RDONLY | O_CLOEXEC) *)
| FLockEx          (* flock(fd, LOCK_EX) *)
| FLockSh          (* flock(fd, LOCK_SH) *)
| FUnlock          (* flock(fd, LOCK_UN) *)
| FReadAll         (* lexer_alloc: the whole content is read into memory *)
| FParse           (* steps_parse_header / steps_parse_row: memory only *)
| FSerialize       (* steps_sort, step_serialize: into a memory buffer *)
| FTruncate        (* fopen(path, "we") *)
| FWrite           (* fwrite *)
| FFlushClose      (* fclose *)
| FCloseFd         (* close(fd) of the lock descriptor *)
| FPoint (n : nat) (* VERIF_POINT: 0 after_open, 1 after_lock, 2 after_read, 3 before_truncate, 4 after_truncate, 5 after_write, 6 after_unlock *).

Inductive call := CParse | CActionWrite | CRead | CFind | CSetKeyval | CWrite | CFree.
