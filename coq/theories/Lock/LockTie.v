(* LockTie.v - the order of the file-system calls in step.c / robsd-step.c (Gen_Lock, regenerated
   from the source on every run) is the order the transition system of LockDefs.v assumes.
   [walk] runs a command's call sequence through the program counters of the model: every call is
   allowed only at the counter where the model performs it, every sync point only at the counter
   it stands for.  Moving the unlock before the flush, taking a shared lock first, truncating
   before the rows are serialised, reading before locking: each makes [walk] fail on the generated
   list, i.e. breaks the proofs below, before any schedule is run. *)
From Robsd Require Import Lock.LockDefs Lock.LockOps.
From RobsdGen Require Import Gen_Lock.

(* the counter after performing one call at counter c; None = the model does not do that there *)
Definition walk1 (c : pc) (o : fsop) : option pc :=
  match c, o with
  | PStart, FOpenRd => Some PStart                (* the open itself; POpened is reached at the sync point *)
  | PStart, FPoint 0 => Some POpened
  | POpened, FLockEx => Some POpened
  | POpened, FPoint 1 => Some PLocked
  | PLocked, FReadAll => Some PLocked
  | PLocked, FPoint 2 => Some PRead
  | PRead, FParse => Some PRead                     (* memory only *)
  | PRead, FSerialize => Some PRead                 (* memory only: nothing is truncated when it fails *)
  | PRead, FPoint 3 => Some PBeforeTrunc
  | PBeforeTrunc, FTruncate => Some PBeforeTrunc
  | PBeforeTrunc, FPoint 4 => Some PTruncated
  | PTruncated, FWrite => Some (PWriting [])        (* data handed to stdio, some of it possibly in the file *)
  | PWriting [], FFlushClose => Some (PWriting [[]]) (* flushed and closed: the file is complete *)
  | PWriting [[]], FPoint 5 => Some PWritten
  | PWritten, FUnlock => Some PWritten
  | PRead, FUnlock => Some PWritten                 (* a reader, or a rejected write: straight to the release *)
  | PWritten, FCloseFd => Some PWritten
  | PWritten, FPoint 6 => Some PDone
  | _, _ => None
  end.

Fixpoint walk (c : pc) (ops : list fsop) : option pc :=
  match ops with
  | [] => Some c
  | o :: ops' => match walk1 c o with Some c' => walk c' ops' | None => None end
  end.

(* the counters at which the sync points are passed *)
Fixpoint points (c : pc) (ops : list fsop) : list (nat * pc) :=
  match ops with
  | [] => []
  | o :: ops' =>
      match walk1 c o with
      | Some c' => match o with FPoint n => (n, c') :: points c' ops' | _ => points c' ops' end
      | None => []
      end
  end.

(* a write command: steps_parse, [action_write: find, set key=value..., steps_write], steps_free *)
Definition writer_calls : list fsop := parse_path ++ write_path ++ free_path.
(* a read command, or a write command that rejects its arguments: steps_parse, steps_free *)
Definition reader_calls : list fsop := parse_path ++ free_path.

Theorem source_order_is_model_order :
  walk PStart writer_calls = Some PDone /\
  points PStart writer_calls =
    [(0, POpened); (1, PLocked); (2, PRead); (3, PBeforeTrunc); (4, PTruncated); (5, PWritten); (6, PDone)]%nat /\
  walk PStart reader_calls = Some PDone /\
  points PStart reader_calls = [(0, POpened); (1, PLocked); (2, PRead); (6, PDone)]%nat.
Proof. vm_compute. repeat split; reflexivity. Qed.

(* robsd-step.c: main parses (locks, reads) first, then acts, and releases at the common exit;
   action_write looks the id up, applies every key=value, and only then writes *)
Theorem command_call_order :
  main_write_calls = [CParse; CActionWrite; CFree] /\
  main_read_calls = [CParse; CRead; CFree] /\
  action_write_calls = [CFind; CSetKeyval; CWrite].
Proof. repeat split; reflexivity. Qed.

(* the literal lists, for the reader of this file *)
Theorem call_lists :
  parse_path = [FOpenRd; FPoint 0; FLockEx; FPoint 1; FReadAll; FPoint 2; FParse] /\
  write_path = [FSerialize; FPoint 3; FTruncate; FPoint 4; FWrite; FFlushClose; FPoint 5] /\
  free_path = [FUnlock; FCloseFd; FPoint 6].
Proof. repeat split; reflexivity. Qed.

(* what [walk] refuses, on the orders of the two seeded changes and two more *)
Lemma walk_refuses_wrong_orders :
  (* unlock before the flush *)
  walk PStart (parse_path ++ [FSerialize; FPoint 3; FTruncate; FPoint 4; FWrite; FUnlock; FCloseFd; FFlushClose; FPoint 5] ++ free_path) = None /\
  (* shared lock while reading, exclusive only for the rewrite *)
  walk PStart ([FOpenRd; FPoint 0; FLockSh; FPoint 1; FReadAll; FPoint 2; FParse] ++
               [FSerialize; FLockEx; FPoint 3; FTruncate; FPoint 4; FWrite; FFlushClose; FPoint 5] ++ free_path) = None /\
  (* truncate before the rows are serialised *)
  walk PStart (parse_path ++ [FPoint 3; FTruncate; FPoint 4; FSerialize; FWrite; FFlushClose; FPoint 5] ++ free_path) = None /\
  (* read before the lock is held *)
  walk PStart ([FOpenRd; FPoint 0; FReadAll; FLockEx; FPoint 1; FPoint 2; FParse] ++ write_path ++ free_path) = None.
Proof. vm_compute. repeat split; reflexivity. Qed.
