(* LockSpec.v - the processes of C02 are robsd-step -W / -R commands (StepDefs);
   the serialisability specification and its executable oracle. *)
From Robsd Require Export Lock.LockDefs Step.StepDefs Step.StepFault.
Local Open Scope N_scope.

Inductive op :=
| OpWrite (idarg : bytes) (kvs : list bytes)
| OpRead (sel : selector) (template : bytes).

(* what the process writes, given what it read *)
Definition op_upd (o : op) (c : bytes) : option bytes :=
  match o with
  | OpWrite idarg kvs =>
      match write_cmd false (Some c) idarg kvs with
      | (0, Some c') => Some c'
      | _ => None
      end
  | OpRead _ _ => None
  end.

(* what the process reports (exit status, standard output), given what it read *)
Definition op_out (o : op) (c : bytes) : N * bytes :=
  match o with
  | OpWrite idarg kvs => (fst (write_cmd false (Some c) idarg kvs), [])
  | OpRead sel t => read_cmd (Some c) sel t
  end.

Definition ops_upd (ops : list op) (p : nat) (c : bytes) : option bytes :=
  match nth_error ops p with Some o => op_upd o c | None => None end.

(* the contents a rewrite by robsd-step passes through (stdio, see StepFault): a file of several stdio
   blocks reaches the disk in two write(2) calls - the whole blocks from fwrite, the tail from fclose *)
Definition robsd_mids (p : nat) (c : bytes) : list bytes :=
  let d := direct_part (length c) in
  if (Nat.eqb d 0 || Nat.eqb d (length c))%bool then [] else [firstn d c].

(* serial execution of the processes in the order [l]: final content and, per
   process, what it reports *)
Fixpoint serial (ops : list op) (c : bytes) (l : list nat) : bytes * list (nat * (N * bytes)) :=
  match l with
  | [] => (c, [])
  | p :: l' =>
      match nth_error ops p with
      | None => serial ops c l'
      | Some o =>
          let c' := match op_upd o c with Some x => x | None => c end in
          let '(cf, outs) := serial ops c' l' in
          (cf, (p, op_out o c) :: outs)
      end
  end.

(* all orders of a list *)
Fixpoint insert_all {A} (x : A) (l : list A) : list (list A) :=
  match l with
  | [] => [[x]]
  | y :: l' => (x :: l) :: map (cons y) (insert_all x l')
  end.

Fixpoint perms {A} (l : list A) : list (list A) :=
  match l with
  | [] => [[]]
  | x :: l' => flat_map (insert_all x) (perms l')
  end.

Definition out_eq (a b : N * bytes) : bool := (fst a =? fst b) && beq (snd a) (snd b).

Fixpoint lookup_out (outs : list (nat * (N * bytes))) (p : nat) : option (N * bytes) :=
  match outs with
  | [] => None
  | (q, o) :: outs' => if Nat.eqb q p then Some o else lookup_out outs' p
  end.

(* the observed final file and the observed reports are those of SOME serial order *)
Definition spec_ok_serial (ops : list op) (init final : bytes) (observed : list (N * bytes)) : bool :=
  existsb (fun order =>
             let '(cf, outs) := serial ops init order in
             beq cf final &&
             forallb (fun p => match lookup_out outs p, nth_error observed p with
                               | Some a, Some b => out_eq a b
                               | _, _ => false
                               end) (seq 0 (length ops)))
          (perms (seq 0 (length ops))).

(* the driven schedule, for the correspondence: after every event the file on
   disk, whether the step was enabled *)
Fixpoint trace (ops : list op) (s : state) (events : list nat) : list (bool * bytes) :=
  match events with
  | [] => []
  | p :: ev' =>
      match step (ops_upd ops) no_mids s p with
      | Some s' => (true, file s') :: trace ops s' ev'
      | None => (false, file s) :: trace ops s ev'
      end
  end.

Definition final_reports (ops : list op) (s : state) : list (N * bytes) :=
  map (fun p => match nth_error ops p with
                | Some o => op_out o (snaps s p)
                | None => (1, [])
                end) (seq 0 (length ops)).
