(* LockBridge.v - C02 composed with C01: the effect of serialised robsd-step processes IS a C01
   history.  [eff (ops_upd ops) f0 l] (LockDefs: the content after the processes of l ran one at a
   time) equals [fold_left model_step (writes_of ops l) f0] (StepHistory: the write commands of l
   applied in that order); hence any concurrent run, once quiescent, leaves the file of the
   dictionary of the accepted writes in lock order, and a read returns the most recently written
   value in that order. *)
From Robsd Require Import Lock.LockSpec Lock.LockProofs Lock.LockOracle.
From Robsd Require Import Step.StepSpec Step.StepRows Step.StepWrite Step.StepHistory Step.StepFault Step.StepExit0
  Step.StepRenumber Step.StepLatest Step.StepRead Interp.InterpSpec.
From RobsdGen Require Import Gen_Step.
Local Open Scope N_scope.

(* the write commands among the processes of l, in the order of l *)
Definition writes_of (ops : list op) (l : list nat) : list wcmd :=
  flat_map (fun p => match nth_error ops p with
                     | Some (OpWrite idarg kvs) => [(idarg, kvs)]
                     | _ => []
                     end) l.

Lemma op_upd_model_step idarg kvs c :
  match op_upd (OpWrite idarg kvs) c with Some c' => c' | None => c end = model_step c (idarg, kvs).
Proof.
  unfold op_upd, model_step. cbn [fst snd].
  pose proof (write_cmd_cases false (Some c) idarg kvs) as H.
  destruct (write_cmd false (Some c) idarg kvs) as [e f']. cbn [snd].
  destruct H as [[-> ->]|[[H _]|[_ [-> [c0 [rows [rs [b [_ [_ [_ ->]]]]]]]]]]]; [reflexivity|discriminate|reflexivity].
Qed.

Theorem eff_is_history ops f0 l :
  eff (ops_upd ops) f0 l = fold_left model_step (writes_of ops l) f0.
Proof.
  unfold eff. revert f0. induction l as [|p l IH]; intros f0; [reflexivity|].
  cbn [fold_left writes_of flat_map]. rewrite fold_left_app. fold (writes_of ops l). rewrite <- IH. f_equal.
  unfold apply1, ops_upd. destruct (nth_error ops p) as [[idarg kvs|sel t]|]; cbn [fold_left]; try reflexivity.
  apply op_upd_model_step.
Qed.

(* no write command among the processes carries a step=... argument: then no order of them renumbers *)
Definition no_step_keys (ops : list op) : Prop :=
  Forall (fun o => match o with OpWrite _ kvs => no_id_key (map cstr kvs) | OpRead _ _ => True end) ops.

Lemma writes_of_no_step_keys ops l :
  no_step_keys ops -> Forall (fun w => no_id_key (map cstr (snd w))) (writes_of ops l).
Proof.
  intros H. unfold writes_of. apply Forall_forall. intros w Hw. apply in_flat_map in Hw.
  destruct Hw as [p [_ Hp]]. destruct (nth_error ops p) as [[idarg kvs|sel t]|] eqn:En; try contradiction.
  destruct Hp as [<-|[]]. cbn [snd]. unfold no_step_keys in H. rewrite Forall_forall in H.
  apply (H _ (nth_error_In _ _ En)).
Qed.

(* ANY concurrent run of robsd-step processes from the empty step file, once nobody is in the middle
   of anything: the file represents the dictionary obtained by applying the write commands of the
   finished processes in the order the lock was granted, each exactly once; and for every id and
   column a read (by position or name) returns the value of the most recent accepted write IN THAT
   ORDER - for every [mids], i.e. however the rewrite is cut into write(2) calls *)
Theorem concurrent_history ops mids s :
  reachable (ops_upd ops) mids [] s -> (forall q, pcs s q = PDone \/ before_lock (pcs s q)) ->
  never_renumbers [] (writes_of ops (log s)) ->
  NoDup (log s) /\ (forall q, In q (log s) <-> pcs s q = PDone) /\
  file s = fold_left model_step (writes_of ops (log s)) [] /\
  exists ds, Forall wfdata ds /\ sorted ds /\ reps ds (file s) /\
    abs ds = fold_left spec_step (writes_of ops (log s)) [] /\
    forall id fd, In fd fields ->
      match latest (tagged [] (map cw (writes_of ops (log s))) []) id (fd_index fd) with
      | None => find_data id ds = None
      | Some x =>
          exists d v, find_data id ds = Some d /\ x = Some v /\
            (forall posarg, strtonum id_min id_max (cstr posarg) = NumOk (Z.of_nat (S (pos_of id ds))) ->
               read_cmd (Some (file s)) (ById posarg) (ref (fd_name fd) ++ [NL]) = (0, render_value v ++ [NL])) /\
            (forall n, first_named (cstr n) ds = Some d ->
               read_cmd (Some (file s)) (ByName n) (ref (fd_name fd) ++ [NL]) = (0, render_value v ++ [NL]))
      end.
Proof.
  intros R Q NR.
  destruct (quiescent_is_serial (ops_upd ops) mids [] s R Q) as [_ [Hf [Hn [Hin _]]]].
  rewrite eff_is_history in Hf.
  split; [exact Hn|]. split; [exact Hin|]. split; [exact Hf|].
  destruct (roundtrip_history_gen _ NR) as [ds0 [W0 [S0 [R0 A0]]]].
  destruct (latest_value_read _ NR) as [ds [W [Sd [Rp HL]]]].
  exists ds. rewrite Hf. repeat split; auto.
  (* the same rows: both represent the same file *)
  assert (Hsame : map row_of ds = map row_of ds0).
  { pose proof (parse_reps ds _ W Rp) as P1. pose proof (parse_reps ds0 _ W0 R0) as P2. congruence. }
  rewrite <- A0. unfold abs.
  assert (Hds : ds = ds0).
  { clear - Hsame. revert ds0 Hsame. induction ds as [|d ds IH]; intros [|d0 ds0] H; try discriminate; [reflexivity|].
    cbn [map] in H. injection H as H1 H2 H3 H4 H5 H6 H7 H8 H9 Hrest.
    f_equal; [destruct d, d0; cbn in *; congruence|now apply IH]. }
  now rewrite Hds.
Qed.

(* what the harness compares per process ([final_reports]: exit status and output of process p, whose
   command is the p-th of ops) is what the same robsd-step command reports when run alone on the file
   of the C01 history of the processes granted the lock before it *)
Theorem reports_are_serial ops mids f0 s p o :
  reachable (ops_upd ops) mids f0 s -> pcs s p = PDone -> nth_error ops p = Some o ->
  exists pre post, log s = pre ++ p :: post /\
    nth_error (final_reports ops s) p = Some (op_out o (fold_left model_step (writes_of ops pre) f0)).
Proof.
  intros R Hd Ho. destruct (final_reports_are_serial ops mids f0 s p o R Hd Ho) as [pre [post [Hl Hr]]].
  exists pre, post. split; [exact Hl|]. now rewrite Hr, eff_is_history.
Qed.

(* ---- a write refused by the file system inside the critical section ------------------------------- *)
(* C01's refused write seen from C02: a process whose rewrite is refused entirely leaves the empty
   file and exits 1; this is NOT among the successful writes, yet the next process, which waited for
   the lock, starts from the empty file.  "The final file equals the result of applying the
   successful writes" therefore presupposes that no write was refused (the property quantifies over
   schedules, not over file system faults). *)
Lemma refused_write_under_lock_refuted :
  let f2 := fold_left model_step [([49], fw_full [111;110;101]); ([50], fw_full [116;119;111])] [] in
  let r3 := write_cmdk (Some 0%nat) (Some f2) [51] (fw_full [116;104;114;101;101]) in
  let r4 := write_cmdk None (snd r3) [52] (fw_full [102;111;117;114]) in
  fst r3 = 1 /\ fst r4 = 0 /\
  snd r4 <> Some (model_step f2 ([52], fw_full [102;111;117;114])).
Proof. vm_compute. repeat split; discriminate. Qed.
