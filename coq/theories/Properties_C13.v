(* Properties_C13.v - regress log extraction is sound, complete and agrees
   with its exit status.  Only theorem statements, each closed by [exact] and
   followed by Print Assumptions.  Quantifiers: every selection of outcomes,
   every list of files, every byte content - no bound on sizes.

   [main] is the model of robsd-regress-log (RLDefs.v, tied to the binary by the
   correspondence check), [spec_main], [file_blocks] the specification
   (RLSpec.v).  The command line can never set REGRESS_LOG_NEWLINE, hence the
   hypothesis [fNEWLINE fl = false]. *)
From Robsd Require Import RegressLog.RLSpec RegressLog.RLProofs.
Local Open Scope N_scope.

(* the command behaves exactly as the specification: same exit, same bytes *)
Theorem C13_main_refines_spec : forall fl doprint files,
  fNEWLINE fl = false -> main fl doprint files = spec_main fl doprint files.
Proof. exact main_refines_spec. Qed.
Print Assumptions C13_main_refines_spec.

(* exit 0 iff some line after the leading trace block of some file contains a
   selected keyword; 1 iff none does (all files readable) *)
Theorem C13_exit_iff_match : forall fl doprint fs,
  fNEWLINE fl = false ->
  (fst (main fl doprint (map Some fs)) = 0 <->
     exists f, In f fs /\ exists l, In l (drop_trace (clines f)) /\ selected fl l = true) /\
  (fst (main fl doprint (map Some fs)) = 1 <->
     ~ exists f, In f fs /\ exists l, In l (drop_trace (clines f)) /\ selected fl l = true).
Proof. exact exit_zero_iff. Qed.
Print Assumptions C13_exit_iff_match.

(* exit 2 exactly for an unreadable file *)
Theorem C13_exit2_iff_unreadable : forall fl doprint files,
  fNEWLINE fl = false -> (fst (main fl doprint files) = 2 <-> In None files).
Proof. exact exit_two_iff. Qed.
Print Assumptions C13_exit2_iff_unreadable.

(* the selected keywords mean what the manual says: substring containment *)
Theorem C13_keywords : forall l,
  (isfailed l = true <-> exists a b, l = a ++ kw_FAILED ++ b) /\
  (isxpassed l = true <-> exists a b, l = a ++ kw_XPASS ++ b) /\
  (isxfailed l = true <-> exists a b, l = a ++ kw_XFAIL ++ b) /\
  (isskipped l = true <-> (exists a b, l = a ++ kw_SKIPPED ++ b) \/ (exists a b, l = a ++ kw_DISABLED ++ b)).
Proof. exact keywords_spec. Qed.
Print Assumptions C13_keywords.

(* soundness: what is printed for a file, read back line by line, is the blocks
   with one empty separator line between them, and the blocks concatenated are
   a subsequence of the file's lines in their original order *)
Theorem C13_sound : forall fl f,
  fNEWLINE fl = false ->
  sublist (concat (file_blocks fl f)) (clines f) /\
  (file_blocks fl f <> [] ->
     snd (main fl true [Some f]) = render_from false 0 (file_blocks fl f) /\
     getlines (render_from false 0 (file_blocks fl f)) = with_separators (file_blocks fl f)).
Proof.
  exact (fun fl f Hnl => conj (blocks_sublist fl (clines f))
    (fun Hne => conj (sound_single fl f Hnl Hne) (printed_lines fl f Hne))).
Qed.
Print Assumptions C13_sound.

(* completeness: the lines after the trace block split into pieces that each
   end in their only selected line (plus an unselected remainder); a block is
   its piece from the last marker on; so every selected line ends a block that
   reaches back to the preceding marker or the previously extracted block *)
Theorem C13_complete : forall fl f,
  let L := drop_trace (clines f) in
  let cs := chunks (selected fl) [] L in
  (exists rest, L = concat cs ++ rest /\ existsb (selected fl) rest = false) /\
  (forall c, In c cs -> exists pre l, c = pre ++ [l] /\ existsb (selected fl) pre = false /\ selected fl l = true) /\
  file_blocks fl f = map from_last_marker cs /\
  (forall c, exists pre, c = pre ++ from_last_marker c /\
     (pre <> [] -> exists m t, from_last_marker c = m :: t /\ ismarker m = true) /\
     existsb ismarker (tl (from_last_marker c)) = false) /\
  (forall l, In l L -> selected fl l = true ->
     exists b, In b (file_blocks fl f) /\ b <> [] /\ last b l = l).
Proof.
  exact (fun fl f => conj (chunks_partition _ [] _ eq_refl)
    (conj (fun c => chunks_shape _ [] _ c eq_refl)
    (conj eq_refl (conj from_last_marker_suffix (complete_selected fl f))))).
Qed.
Print Assumptions C13_complete.

Theorem C13_noprint_same_exit : forall fl files,
  fNEWLINE fl = false ->
  fst (main fl false files) = fst (main fl true files) /\ snd (main fl false files) = [].
Proof. exact noprint_same. Qed.
Print Assumptions C13_noprint_same_exit.

Theorem C13_peek_agrees : forall fl f,
  (0 < peek fl f)%nat <-> (0 < fst (parse fl f []))%nat.
Proof. exact peek_agrees. Qed.
Print Assumptions C13_peek_agrees.

(* the corollary the orchestrator and the HTML status rest on *)
Theorem C13_failed_or_xpass_always_failed_run : forall fl f l dp,
  fNEWLINE fl = false -> fFAILED fl = true -> fXPASSED fl = true ->
  In l (drop_trace (clines f)) ->
  (exists a b, l = a ++ kw_FAILED ++ b) \/ (exists a b, l = a ++ kw_XPASS ++ b) ->
  fst (main fl dp [Some f]) = 0.
Proof. exact failed_or_xpass_is_failure. Qed.
Print Assumptions C13_failed_or_xpass_always_failed_run.

(* non-vacuity: a log with a trace block, two markers, two selected lines *)
From Coq Require Import String.
Local Open Scope string_scope.
Example C13_example :
  let f := bs "+ make
==== t1 ====
ok
==== t2 ====
x FAILED
+ late
y SKIPPED
z" in
  let fl := mkflags true true false false false in
  fst (main fl true [Some f]) = 0%N /\
  file_blocks fl f = [[bs "==== t2 ===="; bs "x FAILED"]; [bs "+ late"; bs "y SKIPPED"]].
Proof. vm_compute. split; reflexivity. Qed.
