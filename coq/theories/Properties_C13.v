(* Properties_C13.v - regress log extraction is sound, complete and agrees
   with its exit status.  Only theorem statements, each closed by [exact] and
   followed by Print Assumptions.  Quantifiers: every selection of outcomes,
   every list of files, every byte content (any line length, NUL and CR bytes
   included) - no bound on sizes.

   [main] is the model of robsd-regress-log (RLDefs.v, tied to the binary by the
   correspondence check and to the source text by RLTie.v / Gen_RegressLog.v),
   [spec_main] the comprehension-style specification (RLSpec.v), [Blocks] the
   relational specification of the extracted blocks (RLLines.v).  The command
   line can never set REGRESS_LOG_NEWLINE (C13_source_pins, last conjunct), hence
   the hypothesis [fNEWLINE fl = false].

   Property text vs. what holds:
     - "output consists solely of lines of the log": plus ONE EMPTY LINE between
       consecutive blocks, which is not a log line (C13_lines says exactly where);
     - "Hence ... always classified as a failed regress run": true for
       regress_failed (C13_hence_regress_failed) and for step_exec when the
       examined file is the complete log (C13_hence_step_exec); step_exec used
       to read the file while tee was still writing it, which refuted the
       clause (C13_hence_step_exec_refuted, replayed on util.sh, repaired in
       /repo 604d158; C13_hence_step_exec_holds_now for the present source); FALSE for
       robsd-regress-html taken by itself (C13_html_exit0_never_failure), true
       for it composed with step_exec's exit status (C13_hence_html_composed);
       the same for robsd-report: a step recorded with exit 0 whose log has a
       FAILED line is neither counted nor shown (C13_report_exit0_failed_omitted),
       with step_exec's status it is both (C13_hence_report_composed);
     - "for every tee schedule" (C13_hence_step_exec_holds_now) rests on an
       ASSUMPTION that no theorem covers: the shell waits for the LAST command of
       the pipeline (tee) before it runs the command after the pipeline (POSIX sh
       2.9.2).  The model has no shell; it takes "after the pipeline" to mean "the
       file holds the complete log";
     - the exit field of the step file: the orchestrator models (Orch/) take the
       status of a step's command as a free parameter; C13_recorded_exit /
       C13_hence_recorded instantiate it with step_exec's return value - an
       instantiation, not a derivation from util.sh (the three lines of
       step_exec_job that hand the value on are pinned as text).

   The ties to the source text come last; C13_tie_trim and C13_tie_report_flags
   are closed by computation on the generated constants HERE, so that a variant
   of regress_log_trim / of the flags in report.c breaks only them. *)
From Robsd Require Import RegressLog.RLSpec RegressLog.RLProofs RegressLog.RLMarkers
  RegressLog.RLLines RegressLog.RLExit RegressLog.RLTrim RegressLog.RLCallDefs RegressLog.RLCallers RegressLog.RLTie
  RegressLog.RLOracles RegressLog.RLMore RegressLog.RLStepSpec RegressLog.RLTrimTie
  RegressLog.RLOrchBridge RegressLog.RLReportCaller RegressLog.RLComposed.
From Robsd Require Report.ReportDefs Orch.OrchDefs.
From RobsdGen Require Import Gen_RegressLog.
Local Open Scope N_scope.

(* the command behaves exactly as the specification: same exit, same bytes *)
Theorem C13_main_refines_spec : forall fl doprint files,
  fNEWLINE fl = false -> main fl doprint files = spec_main fl doprint files.
Proof. exact main_refines_spec. Qed.
Print Assumptions C13_main_refines_spec.

(* exit 0 iff some line after the leading trace block of some file contains a
   keyword of a selected outcome; 1 iff none does (all files readable).  The
   right-hand side is spelled out on the bytes: [after_trace] = what is left
   after the longest prefix of lines starting with '+', [keyword_selected] =
   substring containment of FAILED / SKIPPED or DISABLED / EXPECTED_FAIL /
   UNEXPECTED_PASS for a selected outcome. *)
Theorem C13_exit_iff_match : forall fl doprint fs,
  fNEWLINE fl = false ->
  (fst (main fl doprint (map Some fs)) = 0 <->
     exists f rest l, In f fs /\ after_trace (clines f) rest /\ In l rest /\ keyword_selected fl l) /\
  (fst (main fl doprint (map Some fs)) = 1 <->
     ~ exists f rest l, In f fs /\ after_trace (clines f) rest /\ In l rest /\ keyword_selected fl l).
Proof. exact exit_spelled_out. Qed.
Print Assumptions C13_exit_iff_match.

(* exit 2 exactly for an unreadable file *)
Theorem C13_exit2_iff_unreadable : forall fl doprint files,
  fNEWLINE fl = false -> (fst (main fl doprint files) = 2 <-> In None files).
Proof. exact exit_two_iff. Qed.
Print Assumptions C13_exit2_iff_unreadable.

(* what the leading shell-trace block is: the longest prefix of '+' lines *)
Theorem C13_trace_block : forall ls,
  (forall rest, after_trace ls rest <-> rest = drop_trace ls) /\
  (exists tr, ls = tr ++ drop_trace ls /\ Forall (fun l => isxtrace l = true) tr /\
              untraced_head (drop_trace ls)) /\
  (forall l, isxtrace l = true <-> exists t, l = 43 :: t).
Proof. exact (fun ls => conj (after_trace_iff ls) (conj (drop_trace_spec ls) isxtrace_spec)). Qed.
Print Assumptions C13_trace_block.

(* what a marker is.  Test marker: "==== ====", or "==== x ====" where inside
   " x " no '=' directly follows a space ([sp_eq] = " =").  The source documents
   /^==== .* ====$/: that shape is neither sufficient ("==== a =b ====" is no
   marker) nor necessary ("==== ====" is one); it suffices when the name holds
   no '='.  Sub-directory marker: the prefix "===>". *)
Theorem C13_markers : forall l,
  (ismarker_regress l = true <->
     l = mk_regress ++ 32 :: mk_regress \/
     exists x, l = mk_regress ++ 32 :: x ++ 32 :: mk_regress /\ infixb sp_eq (32 :: x ++ [32]) = false) /\
  (ismarker_subdir l = true <-> exists t, l = mk_subdir ++ t) /\
  (forall x, ~ In 61 x -> ismarker_regress (mk_regress ++ 32 :: x ++ 32 :: mk_regress) = true) /\
  (exists x, ismarker_regress (mk_regress ++ 32 :: x ++ 32 :: mk_regress) = false).
Proof.
  exact (fun l => conj (ismarker_regress_spec l) (conj (ismarker_subdir_spec l)
           (conj marker_plain_name marker_regex_not_sufficient))).
Qed.
Print Assumptions C13_markers.

(* ... nor necessary: "==== ====" is a marker and has not the documented shape *)
Theorem C13_marker_regex_not_necessary :
  ismarker_regress (mk_regress ++ 32 :: mk_regress) = true /\
  ~ exists x, mk_regress ++ 32 :: mk_regress = mk_regress ++ 32 :: x ++ 32 :: mk_regress.
Proof. exact marker_regex_not_necessary. Qed.
Print Assumptions C13_marker_regex_not_necessary.

(* the blocks of one file as a relation on its lines, and that relation has
   exactly one solution, the one the specification computes *)
Theorem C13_blocks_determined : forall fl f bl,
  Blocks (selected fl) (drop_trace (clines f)) bl <-> bl = file_blocks fl f.
Proof. exact file_blocks_iff. Qed.
Print Assumptions C13_blocks_determined.

(* ANY list of readable files, line level: the printed text, read back line by
   line, is the blocks of all files in order with one empty line between
   consecutive blocks; the exit status says whether there is a block *)
Theorem C13_lines : forall fl fs,
  fNEWLINE fl = false ->
  exists bls : list (list (list bytes)),
    Forall2 (fun f bl => Blocks (selected fl) (drop_trace (clines f)) bl) fs bls /\
    getlines (snd (main fl true (map Some fs))) = with_separators (concat bls) /\
    snd (main fl true (map Some fs)) = unlines (with_separators (concat bls)) /\
    (forall dp, fst (main fl dp (map Some fs)) = 0 <-> concat bls <> []) /\
    (forall dp, fst (main fl dp (map Some fs)) = 1 <-> concat bls = []).
Proof. exact main_lines. Qed.
Print Assumptions C13_lines.

(* soundness and completeness, from the relation alone: the lines of the blocks
   are a subsequence of the lines offered (original order, nothing invented,
   nothing duplicated); the selected lines among them are exactly the selected
   lines offered, with multiplicity and in order; and each is the last line of
   its own block *)
Theorem C13_lines_sound_complete : forall (sel : bytes -> bool) Ls bls,
  Forall2 (Blocks sel) Ls bls ->
  sublist (concat (concat bls)) (concat Ls) /\
  filter sel (concat (concat bls)) = concat (map (filter sel) Ls) /\
  map (fun b => last b []) (concat bls) = concat (map (filter sel) Ls).
Proof. exact lines_sound_complete. Qed.
Print Assumptions C13_lines_sound_complete.

(* the two theorems above composed, on what the command prints for ANY list of
   readable files ([out]), read back line by line:
     - it is blocks with one empty line between consecutive blocks, and the
       lines of the blocks are a subsequence of the lines of the files (file
       order, line order; nothing invented, duplicated or reordered);
     - hence so are its non-empty lines (the separators are the only lines that
       need not be log lines);
     - its selected lines are exactly the selected lines after the leading trace
       block of each file, with multiplicity, in order. *)
Theorem C13_main_output_lines : forall fl fs,
  fNEWLINE fl = false ->
  let out := snd (main fl true (map Some fs)) in
  (exists bl, getlines out = with_separators bl /\ sublist (concat bl) (concat (map clines fs))) /\
  sublist (filter nonempty_line (getlines out)) (concat (map clines fs)) /\
  filter (selected fl) (getlines out) =
    concat (map (fun f => filter (selected fl) (drop_trace (clines f))) fs).
Proof. exact main_output_lines. Qed.
Print Assumptions C13_main_output_lines.

(* what a block reaches back to: it ends in its only selected line and holds
   no marker except possibly as its first line *)
Theorem C13_block_shape : forall sel L bl b,
  Blocks sel L bl -> In b bl ->
  exists kept l, b = kept ++ [l] /\ sel l = true /\ existsb sel kept = false /\
                 existsb ismarker (tl b) = false.
Proof. exact Blocks_shape. Qed.
Print Assumptions C13_block_shape.

Theorem C13_noprint_same_exit : forall fl files,
  fNEWLINE fl = false ->
  fst (main fl false files) = fst (main fl true files) /\ snd (main fl false files) = [].
Proof. exact noprint_same. Qed.
Print Assumptions C13_noprint_same_exit.

(* peek = 1 iff a selected line exists after the trace block, else 0; hence it agrees with the full parse *)
Theorem C13_peek_agrees : forall fl f,
  peek fl f = (if existsb (selected fl) (drop_trace (clines f)) then 1%nat else 0%nat) /\
  ((0 < peek fl f)%nat <-> (0 < fst (parse fl f []))%nat).
Proof. exact (fun fl f => conj (peek_spec fl f) (peek_agrees fl f)). Qed.
Print Assumptions C13_peek_agrees.

(* regress_log_trim (what robsd-regress-html shows for a log with nothing to
   extract): the lines after the leading trace block without the trailing block
   of trace lines, each followed by a newline; [strip_trailing ls] is the unique
   prefix of ls whose remainder is all trace lines and which does not end in one *)
Theorem C13_trim : forall file,
  trim file = unlines (strip_trailing (drop_trace (clines file))) /\
  getlines (trim file) = strip_trailing (drop_trace (clines file)) /\
  sublist (getlines (trim file)) (clines file) /\
  (forall ls keep t, ls = keep ++ t -> Forall (fun l => isxtrace l = true) t ->
     (forall d l, keep = d ++ [l] -> isxtrace l = false) -> keep = strip_trailing ls).
Proof.
  exact (fun file => conj (trim_refines_spec file) (conj (proj1 (trim_lines file))
           (conj (proj2 (trim_lines file)) strip_trailing_unique))).
Qed.
Print Assumptions C13_trim.

(* the executable oracles applied to the implementation accept every run of the model, and only those *)
Theorem C13_oracle_accepts_model : forall fl dp files,
  fNEWLINE fl = false ->
  spec_ok_main fl dp files (fst (main fl dp files)) (snd (main fl dp files)) = true /\
  (forall e o, spec_ok_main fl dp files e o = true <-> main fl dp files = (e, o)) /\
  (forall f, spec_ok_peek fl f (peek fl f) = true).
Proof.
  exact (fun fl dp files Hnl => conj (oracle_accepts_main fl dp files Hnl)
           (conj (fun e o => oracle_main_exact fl dp files e o Hnl) (oracle_accepts_peek fl))).
Qed.
Print Assumptions C13_oracle_accepts_model.

(* the oracles the harness applies to peek, trim and step_exec are EXACT: each
   accepts the model's answer and nothing else ([spec_ok_peek] above accepts any
   positive count; the harness uses [spec_ok_peek_exact]); [spec_ok_step] is the
   "Hence" clause decided on the lines of the log without the model of the
   extractor, and what it accepts is: returned <> 0 iff the runner failed or
   (regress mode and a failing line) *)
Theorem C13_oracles_exact : forall fl f k out regress rc e,
  (spec_ok_peek_exact fl f k = true <-> k = peek fl f) /\
  (spec_ok_trim f out = true <-> out = trim f) /\
  spec_ok_step regress rc f (step_exec_exit regress rc (Some f)) = true /\
  (spec_ok_step regress rc f e = true ->
     (e <> 0 <-> rc <> 0 \/ (regress = true /\ failing_line f))) /\
  (failing_lineb f = true <-> failing_line f).
Proof.
  exact (fun fl f k out regress rc e =>
    conj (oracle_peek_exact fl f k) (conj (oracle_trim_exact f out)
      (conj (spec_ok_step_accepts_model regress rc f)
        (conj (spec_ok_step_meaning regress rc f e) (failing_lineb_spec f))))).
Qed.
Print Assumptions C13_oracles_exact.

(* ---- the "Hence" clause, caller by caller ---------------------------------------------- *)

(* util-regress.sh regress_failed (robsd-regress-log -FPn): exact *)
Theorem C13_hence_regress_failed : forall log,
  regress_failed (Some log) = true <-> failing_line log.
Proof. exact regress_failed_iff. Qed.
Print Assumptions C13_hence_regress_failed.

(* util.sh step_exec on the log it examined: failed iff the runner failed or (regress mode and a failing line) *)
Theorem C13_hence_step_exec : forall regress rc seen,
  (step_exec_exit regress rc (Some seen) <> 0 <-> rc <> 0 \/ (regress = true /\ failing_line seen)) /\
  (regress = true -> failing_line seen -> step_exec_exit regress rc (Some seen) = 1) /\
  (regress = false -> step_exec_exit regress rc (Some seen) = rc) /\
  (~ failing_line seen -> step_exec_exit regress rc (Some seen) = rc).
Proof. exact step_exec_exit_spec. Qed.
Print Assumptions C13_hence_step_exec.

(* step_exec in full: [seen] = whatever part of the log tee had written when the
   runner exited, [step_exec_checks_inside_pipeline] = where util.sh examines
   the log, read from the source on every check.

   HISTORICAL PIN (defect found by this check, repaired in /repo 604d158): with
   the check inside the pipeline - the hypothesis below, FALSE of the present
   source - the clause held only when the whole log had reached the file and is
   refuted by a prefix (replayed on util.sh: findings/C13_step_exec_log_race.{sh,md,diff}).
   The statement that holds now is C13_hence_step_exec_holds_now (with the ties, at the end).
   A Remark, not a Theorem: its hypothesis is false today, it says nothing about
   the present source and is not counted among the results. *)
Remark C13_hence_step_exec_refuted :
  step_exec_checks_inside_pipeline = true ->
  ((forall rc log, failing_line log ->
      step_exec_run step_exec_checks_inside_pipeline true rc log log = 1) /\
   exists log seen, prefix_of seen log /\ failing_line log /\
      step_exec_run step_exec_checks_inside_pipeline true 0 log seen = 0) /\
  ~ hence_step_exec_statement.
Proof. exact (fun H => conj (proj2 hence_step_exec_shipped H) (hence_step_exec_statement_false H)). Qed.
Print Assumptions C13_hence_step_exec_refuted.

(* regress-html by itself: a recorded exit status of 0 never gives a failure
   status, whatever the log holds - the clause is false for this caller ... *)
Theorem C13_html_exit0_never_failure :
  (forall log, hfailure (html_status ex_timeout 0 log) = false) /\
  (exists log, failing_line log /\ html_status 124 0 log = HPASS).
Proof. exact (conj html_exit0_never_failure_shipped html_pass_with_failed_line). Qed.
Print Assumptions C13_html_exit0_never_failure.

(* ... and true for it when the exit status is the one step_exec computed from the same log *)
Theorem C13_hence_html_composed : forall timeout rc log,
  failing_line log ->
  hfailure (html_status timeout (step_exec_exit true rc (Some log)) log) = true.
Proof. exact hence_html_composed. Qed.
Print Assumptions C13_hence_html_composed.

(* robsd-report (report.c regress_report_skip_step / regress_report_step_log /
   number_of_failures_report_status, as modelled by Report/ReportDefs.v).  A
   regress suite recorded with exit 0 gets a section iff its log has a SKIPPED /
   DISABLED / EXPECTED_FAIL line after the leading trace block ... *)
Theorem C13_report_exit0_decision : forall cfg fs r log,
  ReportTypes.r_exit r = 0%Z -> Gen_Report.row_skipped (ReportTypes.r_skip r) = false ->
  ReportDefs.is_regress_step cfg (ReportTypes.r_name r) = true ->
  ReportDefs.is_regress_quiet cfg (ReportTypes.r_name r) = false ->
  ReportTypes.r_log r <> [] -> ReportDefs.f_log fs (ReportTypes.r_log r) = ReportDefs.FData log ->
  (row_decision ReportTypes.Regress cfg fs r = ReportDefs.SkShow <-> skipped_or_xfailed_line log) /\
  (row_decision ReportTypes.Regress cfg fs r = ReportDefs.SkOmit <-> ~ skipped_or_xfailed_line log).
Proof. exact report_exit0_decision. Qed.
Print Assumptions C13_report_exit0_decision.

(* ... so, NEGATIVE, the clause is false for the report taken by itself, exactly
   as for the HTML view: there is a log with a FAILED line such that a step
   recorded with exit 0 and that log leaves no trace - no section, and the
   failure count (taken from the exit field alone) does not move *)
Theorem C13_report_exit0_failed_omitted :
  exists log, failing_line log /\
    forall cfg fs r rs,
      ReportTypes.r_exit r = 0%Z -> ReportTypes.r_log r <> [] ->
      ReportDefs.f_log fs (ReportTypes.r_log r) = ReportDefs.FData log ->
      ReportDefs.steps_loop ReportTypes.Regress cfg fs (r :: rs) =
        ReportDefs.steps_loop ReportTypes.Regress cfg fs rs /\
      (forall rows, ReportDefs.count_status (r :: rows) = ReportDefs.count_status rows).
Proof. exact report_exit0_failed_omitted. Qed.
Print Assumptions C13_report_exit0_failed_omitted.

(* POSITIVE, composed: with the exit status step_exec computes from the same log
   the step is counted and gets a section (Exit: 1) whose body is the extracted
   blocks, which are not empty *)
Theorem C13_hence_report_composed : forall cfg fs r rs rc log,
  failing_line log ->
  ReportTypes.r_exit r = Z.of_N (step_exec_exit true rc (Some log)) ->
  Gen_Report.row_skipped (ReportTypes.r_skip r) = false -> ReportTypes.r_log r <> [] ->
  ReportDefs.f_log fs (ReportTypes.r_log r) = ReportDefs.FData log ->
  let bl := file_blocks (ReportDefs.fl_log (ReportDefs.is_regress_quiet cfg (ReportTypes.r_name r))) log in
  bl <> [] /\
  ReportDefs.steps_loop ReportTypes.Regress cfg fs (r :: rs) =
    match ReportDefs.steps_loop ReportTypes.Regress cfg fs rs with
    | ReportDefs.RErr => ReportDefs.RErr
    | ReportDefs.ROk ss =>
        ReportDefs.ROk (ReportDefs.mksec (ReportTypes.r_name r) 1 (DurationDefs.step_duration r) (ReportTypes.r_log r)
                          (10 :: render_from false 0 bl) :: ss)
    end /\
  (forall rows, let n := length (filter (fun x => negb (ReportTypes.r_exit x =? 0)%Z) rows) in
     ReportDefs.count_status (r :: rows) =
       Decimal.render_Z (Z.of_nat (S n)) ++ ReportDefs.str_failure ++ (if Nat.ltb 1 (S n) then [115] else [])).
Proof. exact report_after_step_exec. Qed.
Print Assumptions C13_hence_report_composed.

(* the exit field.  The orchestrator models take the status of a step's command
   as a free parameter (OrchDefs: section variable exit_of; ResumeDefs.orch: the
   third component of a configured step).  INSTANTIATED with step_exec's return
   value for runner status [rc_of i] and complete log [log_of i]: the record
   step_exec_job writes when job i finishes, under any schedule, is
   (i, name, step_exec_exit true rc log, skip 0), the hook gets the same value,
   and job_step writes nothing else but the in-flight -1; the sequential loop
   records the same and stops after a non-zero one *)
Theorem C13_recorded_exit : forall (rc_of : Z -> N) (log_of name_of : Z -> bytes),
  let e := fun i => Z.of_N (step_exec_exit true (rc_of i) (Some (log_of i))) in
  (forall s i, OrchDefs.phase_of (OrchDefs.running s) i = Some OrchDefs.JRunning ->
     exists s', OrchDefs.job_step e name_of s i = Some s' /\
       OrchDefs.sfile_ s' = ResumeDefs.upsert (ResumeDefs.mkrow i (name_of i) (e i) 0) (OrchDefs.sfile_ s) /\
       In (ResumeDefs.mkrow i (name_of i) (e i) 0) (OrchDefs.sfile_ s') /\
       OrchDefs.evlog s' = OrchDefs.evlog s ++ [OrchDefs.EFinish i (e i); OrchDefs.EHook (name_of i) (e i)]) /\
  (forall s i s', OrchDefs.job_step e name_of s i = Some s' ->
     OrchDefs.sfile_ s' = ResumeDefs.upsert (ResumeDefs.mkrow i (name_of i) (-1) 0) (OrchDefs.sfile_ s) \/
     OrchDefs.sfile_ s' = ResumeDefs.upsert (ResumeDefs.mkrow i (name_of i) (e i) 0) (OrchDefs.sfile_ s)) /\
  (forall i rest f, ResumeDefs.skipped f (name_of i) = false -> beq (name_of i) ResumeDefs.END = false ->
     exists f1 tail,
       f1 = ResumeDefs.upsert (ResumeDefs.mkrow i (name_of i) (-1) 0) f /\
       ResumeDefs.orch ((i, name_of i, e i) :: rest) f =
         (f1, []) :: (ResumeDefs.upsert (ResumeDefs.mkrow i (name_of i) (e i) 0) f1, [i]) :: tail /\
       (e i <> 0%Z -> tail = [])) /\
  (forall i, (e i <> 0%Z <-> rc_of i <> 0 \/ failing_line (log_of i)) /\
             (failing_line (log_of i) -> e i = 1%Z) /\
             (~ failing_line (log_of i) -> e i = Z.of_N (rc_of i))).
Proof.
  exact (fun rc_of log_of name_of =>
    conj (job_records_step_exec_exit rc_of log_of name_of)
      (conj (job_step_rows rc_of log_of name_of)
        (conj (orch_records_step_exec_exit rc_of log_of name_of) (regress_exit_of_spec rc_of log_of)))).
Qed.
Print Assumptions C13_recorded_exit.

(* from the runner to both views in one statement: the row written when a
   regress job finishes carries e = step_exec's return value; e <> 0 iff the
   runner failed or the log has a failing line; regress-html, reading e back
   and peeking into the same log, shows a failure status iff that holds; and
   robsd-report, for a row with that exit field and that log, counts a failure
   and prints the section with the extracted blocks *)
Theorem C13_hence_recorded : forall (rc_of : Z -> N) (log_of name_of : Z -> bytes) s i,
  OrchDefs.phase_of (OrchDefs.running s) i = Some OrchDefs.JRunning ->
  exists s' e,
    OrchDefs.job_step (fun j => Z.of_N (step_exec_exit true (rc_of j) (Some (log_of j)))) name_of s i = Some s' /\
    In (ResumeDefs.mkrow i (name_of i) e 0) (OrchDefs.sfile_ s') /\
    e = Z.of_N (step_exec_exit true (rc_of i) (Some (log_of i))) /\
    (e <> 0%Z <-> rc_of i <> 0 \/ failing_line (log_of i)) /\
    (forall timeout, timeout <> 0 ->
       (hfailure (html_status timeout (Z.to_N e) (log_of i)) = true <->
        rc_of i <> 0 \/ failing_line (log_of i))) /\
    (failing_line (log_of i) ->
     forall cfg fs r rs,
       ReportTypes.r_exit r = e -> Gen_Report.row_skipped (ReportTypes.r_skip r) = false ->
       ReportTypes.r_log r <> [] -> ReportDefs.f_log fs (ReportTypes.r_log r) = ReportDefs.FData (log_of i) ->
       let bl := file_blocks (ReportDefs.fl_log (ReportDefs.is_regress_quiet cfg (ReportTypes.r_name r))) (log_of i) in
       bl <> [] /\
       ReportDefs.steps_loop ReportTypes.Regress cfg fs (r :: rs) =
         match ReportDefs.steps_loop ReportTypes.Regress cfg fs rs with
         | ReportDefs.RErr => ReportDefs.RErr
         | ReportDefs.ROk ss =>
             ReportDefs.ROk (ReportDefs.mksec (ReportTypes.r_name r) 1 (DurationDefs.step_duration r)
                               (ReportTypes.r_log r) (10 :: render_from false 0 bl) :: ss)
         end /\
       (forall rows, let n := length (filter (fun x => negb (ReportTypes.r_exit x =? 0)%Z) rows) in
          ReportDefs.count_status (r :: rows) =
            Decimal.render_Z (Z.of_nat (S n)) ++ ReportDefs.str_failure ++
            (if Nat.ltb 1 (S n) then [115] else []))).
Proof. exact hence_recorded. Qed.
Print Assumptions C13_hence_recorded.

(* ---- the model against the source text (Gen_RegressLog.v) -------------------------------- *)

Theorem C13_source_pins : forall fl l,
  (isskipped l = gpred_fun GP_isskipped l /\ isfailed l = gpred_fun GP_isfailed l /\
   isxfailed l = gpred_fun GP_isxfailed l /\ isxpassed l = gpred_fun GP_isxpassed l) /\
  selected fl l = gen_selected fl l /\
  isxtrace l = gen_isxtrace l /\
  ismarker_regress l = gen_ismarker_regress l /\
  ismarker_subdir l = prefixb marker_subdir_needle l /\
  (exit_error = 2 /\ exit_none = 1 /\ exit_found = 0 /\ exit_usage = 1) /\
  (gen_flags_of_opts regress_failed_opts = fl_FP /\ gen_doprint regress_failed_opts = false) /\
  (forall exit log, hname (html_status ex_timeout exit log) = gen_html_status exit log) /\
  (forall s, hfailure s = existsb (beq (hname s)) failure_statuses) /\
  (forall opts, fNEWLINE (gen_flags_of_opts opts) = false).
Proof.
  exact (fun fl l => conj (tie_predicates l) (conj (tie_selected fl l) (conj (tie_isxtrace l)
    (conj (tie_ismarker_regress l) (conj (tie_ismarker_subdir l) (conj tie_exit_values
    (conj tie_regress_failed (conj tie_html_status (conj tie_html_failure cmdline_never_newline))))))))).
Qed.
Print Assumptions C13_source_pins.

(* ---- NUL, CR, long lines: what the model does ----------------------------------------------- *)

(* a line is cut at its first NUL (the rest of the line is invisible to every
   test and never printed), whatever the lengths of the parts; CR is an ordinary
   byte: keywords and "===>" still match, a test marker followed by CR is no marker *)
Theorem C13_nul_and_cr : forall a b rest l k,
  (nonl a -> nonul a -> nonl b -> clines (a ++ 0 :: b ++ 10 :: rest) = a :: clines rest) /\
  ismarker_regress (l ++ [13]) = false /\
  (ismarker_subdir l = true -> ismarker_subdir (l ++ [13]) = true) /\
  (infixb k l = true -> infixb k (l ++ [13]) = true).
Proof.
  exact (fun a b rest l k => conj (clines_nul_cut a b rest) (conj (crlf_marker_lost l)
           (conj (crlf_subdir_kept l) (crlf_keyword_kept k l)))).
Qed.
Print Assumptions C13_nul_and_cr.

(* ---- the last ties: closed by computation on the generated constants in THIS file ---------- *)

(* every switch of the trim loop matters: with the other value the loop is a
   different function (witness logs of two to four lines) *)
Theorem C13_trim_switches_matter :
  trim_with (mktrim 1 0 true false true 10 true) w_two_trailing <> trim w_two_trailing /\
  trim_with (mktrim 1 0 false true true 10 true) w_lead <> trim w_lead /\
  trim_with (mktrim 0 0 true true true 10 true) w_lead <> trim w_lead /\
  trim_with (mktrim 1 0 true true false 10 true) w_middle <> trim w_middle /\
  trim_with (mktrim 1 0 true true true 10 false) w_trailing <> trim w_trailing.
Proof. exact trim_variants_differ. Qed.
Print Assumptions C13_trim_switches_matter.

(* step_exec, the source as it is now: the check comes after the pipeline.  ASSUMING THE
   SHELL WAITS FOR THE PIPELINE'S LAST COMMAND (tee) before it goes on (POSIX sh
   2.9.2 "the shell shall wait for the last command specified in the pipeline to
   complete") the file then holds the complete log, which is what the model
   takes "after the pipeline" to mean: [seen] - what tee had written when the
   runner exited - is not read at all, so the quantification over it is over an
   unused variable and "for every tee schedule" is a property of the model's
   reading of the shell, not a theorem about bash or ksh.  What IS checked: the
   position of the check in util.sh (the translated switch; closed by [eq_refl]:
   should the check move back inside the pipeline, the translator flips the
   switch and this proof no longer checks) and, on the real step_exec under
   bash, the late-tee lane of the harness. *)
Theorem C13_hence_step_exec_holds_now : forall rc log seen,
  failing_line log ->
  step_exec_run step_exec_checks_inside_pipeline true rc log seen = 1.
Proof. exact (hence_step_exec_if_fixed eq_refl). Qed.
Print Assumptions C13_hence_step_exec_holds_now.

(* report.c gives regress_log_peek / regress_log_parse the flag sets of the Report model *)
Theorem C13_tie_report_flags :
  ReportDefs.fl_peek = flags_of_gflags report_peek_flags /\
  ReportDefs.fl_log true = flags_of_gflags report_log_flags /\
  ReportDefs.fl_log false = flags_of_gflags (report_log_flags ++ report_log_flags_unless_quiet).
Proof. exact (conj eq_refl (conj eq_refl eq_refl)). Qed.
Print Assumptions C13_tie_report_flags.

(* regress_log_trim: [gen_trim] is the loop of regress-log.c as the translator
   reads it on this run (whole body matched; initial xbeg / xend, leading skip,
   the `xend == 0` guard, the reset, the line terminator, the final cut as
   generated constants); the model [trim] of C13_trim IS that loop.  LAST on
   purpose: a variant of the body the translator knows (e.g. the guard dropped)
   breaks this theorem and nothing else; an unknown body makes it raise. *)
Theorem C13_tie_trim : forall file, trim file = gen_trim file.
Proof. exact (tie_trim_if eq_refl). Qed.
Print Assumptions C13_tie_trim.

(* non-vacuity: a log with a trace block, two markers, two selected lines *)
From Coq Require Import String.
Local Open Scope string_scope.
Example C13_example :
  let f := bs "+ make
==== t1 ====
ok
==== t2 ====
x FAILED
+ late
y SKIPPED
z" in
  let fl := mkflags true true false false false in
  fst (main fl true [Some f]) = 0%N /\
  file_blocks fl f = [[bs "==== t2 ===="; bs "x FAILED"]; [bs "+ late"; bs "y SKIPPED"]].
Proof. vm_compute. split; reflexivity. Qed.
