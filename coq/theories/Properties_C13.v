(* Properties_C13.v - regress log extraction is sound, complete and agrees
   with its exit status.  Only theorem statements, each closed by [exact] and
   followed by Print Assumptions.  Quantifiers: every selection of outcomes,
   every list of files, every byte content (any line length, NUL and CR bytes
   included) - no bound on sizes.

   [main] is the model of robsd-regress-log (RLDefs.v, tied to the binary by the
   correspondence check and to the source text by RLTie.v / Gen_RegressLog.v),
   [spec_main] the comprehension-style specification (RLSpec.v), [Blocks] the
   relational specification of the extracted blocks (RLLines.v).  The command
   line can never set REGRESS_LOG_NEWLINE (C13_source_pins, last conjunct), hence
   the hypothesis [fNEWLINE fl = false].

   Property text vs. what holds:
     - "output consists solely of lines of the log": plus ONE EMPTY LINE between
       consecutive blocks, which is not a log line (C13_lines says exactly where);
     - "Hence ... always classified as a failed regress run": true for
       regress_failed (C13_hence_regress_failed) and for step_exec when the
       examined file is the complete log (C13_hence_step_exec); step_exec used
       to read the file while tee was still writing it, which refuted the
       clause (C13_hence_step_exec_refuted, replayed on util.sh, repaired in
       /repo 604d158; C13_hence_step_exec_holds_now for the present source); FALSE for
       robsd-regress-html taken by itself (C13_html_exit0_never_failure), true
       for it composed with step_exec's exit status (C13_hence_html_composed). *)
From Robsd Require Import RegressLog.RLSpec RegressLog.RLProofs RegressLog.RLMarkers
  RegressLog.RLLines RegressLog.RLExit RegressLog.RLTrim RegressLog.RLCallDefs RegressLog.RLCallers RegressLog.RLTie.
From RobsdGen Require Import Gen_RegressLog.
Local Open Scope N_scope.

(* the command behaves exactly as the specification: same exit, same bytes *)
Theorem C13_main_refines_spec : forall fl doprint files,
  fNEWLINE fl = false -> main fl doprint files = spec_main fl doprint files.
Proof. exact main_refines_spec. Qed.
Print Assumptions C13_main_refines_spec.

(* exit 0 iff some line after the leading trace block of some file contains a
   keyword of a selected outcome; 1 iff none does (all files readable).  The
   right-hand side is spelled out on the bytes: [after_trace] = what is left
   after the longest prefix of lines starting with '+', [keyword_selected] =
   substring containment of FAILED / SKIPPED or DISABLED / EXPECTED_FAIL /
   UNEXPECTED_PASS for a selected outcome. *)
Theorem C13_exit_iff_match : forall fl doprint fs,
  fNEWLINE fl = false ->
  (fst (main fl doprint (map Some fs)) = 0 <->
     exists f rest l, In f fs /\ after_trace (clines f) rest /\ In l rest /\ keyword_selected fl l) /\
  (fst (main fl doprint (map Some fs)) = 1 <->
     ~ exists f rest l, In f fs /\ after_trace (clines f) rest /\ In l rest /\ keyword_selected fl l).
Proof. exact exit_spelled_out. Qed.
Print Assumptions C13_exit_iff_match.

(* exit 2 exactly for an unreadable file *)
Theorem C13_exit2_iff_unreadable : forall fl doprint files,
  fNEWLINE fl = false -> (fst (main fl doprint files) = 2 <-> In None files).
Proof. exact exit_two_iff. Qed.
Print Assumptions C13_exit2_iff_unreadable.

(* what the leading shell-trace block is: the longest prefix of '+' lines *)
Theorem C13_trace_block : forall ls,
  (forall rest, after_trace ls rest <-> rest = drop_trace ls) /\
  (exists tr, ls = tr ++ drop_trace ls /\ Forall (fun l => isxtrace l = true) tr /\
              untraced_head (drop_trace ls)) /\
  (forall l, isxtrace l = true <-> exists t, l = 43 :: t).
Proof. exact (fun ls => conj (after_trace_iff ls) (conj (drop_trace_spec ls) isxtrace_spec)). Qed.
Print Assumptions C13_trace_block.

(* what a marker is.  Test marker: "==== ====", or "==== x ====" where inside
   " x " no '=' directly follows a space ([sp_eq] = " =").  The source documents
   /^==== .* ====$/: that shape is neither sufficient ("==== a =b ====" is no
   marker) nor necessary ("==== ====" is one); it suffices when the name holds
   no '='.  Sub-directory marker: the prefix "===>". *)
Theorem C13_markers : forall l,
  (ismarker_regress l = true <->
     l = mk_regress ++ 32 :: mk_regress \/
     exists x, l = mk_regress ++ 32 :: x ++ 32 :: mk_regress /\ infixb sp_eq (32 :: x ++ [32]) = false) /\
  (ismarker_subdir l = true <-> exists t, l = mk_subdir ++ t) /\
  (forall x, ~ In 61 x -> ismarker_regress (mk_regress ++ 32 :: x ++ 32 :: mk_regress) = true) /\
  (exists x, ismarker_regress (mk_regress ++ 32 :: x ++ 32 :: mk_regress) = false).
Proof.
  exact (fun l => conj (ismarker_regress_spec l) (conj (ismarker_subdir_spec l)
           (conj marker_plain_name marker_regex_not_sufficient))).
Qed.
Print Assumptions C13_markers.

(* the blocks of one file as a relation on its lines, and that relation has
   exactly one solution, the one the specification computes *)
Theorem C13_blocks_determined : forall fl f bl,
  Blocks (selected fl) (drop_trace (clines f)) bl <-> bl = file_blocks fl f.
Proof. exact file_blocks_iff. Qed.
Print Assumptions C13_blocks_determined.

(* ANY list of readable files, line level: the printed text, read back line by
   line, is the blocks of all files in order with one empty line between
   consecutive blocks; the exit status says whether there is a block *)
Theorem C13_lines : forall fl fs,
  fNEWLINE fl = false ->
  exists bls : list (list (list bytes)),
    Forall2 (fun f bl => Blocks (selected fl) (drop_trace (clines f)) bl) fs bls /\
    getlines (snd (main fl true (map Some fs))) = with_separators (concat bls) /\
    snd (main fl true (map Some fs)) = unlines (with_separators (concat bls)) /\
    (forall dp, fst (main fl dp (map Some fs)) = 0 <-> concat bls <> []) /\
    (forall dp, fst (main fl dp (map Some fs)) = 1 <-> concat bls = []).
Proof. exact main_lines. Qed.
Print Assumptions C13_lines.

(* soundness and completeness, from the relation alone: the lines of the blocks
   are a subsequence of the lines offered (original order, nothing invented,
   nothing duplicated); the selected lines among them are exactly the selected
   lines offered, with multiplicity and in order; and each is the last line of
   its own block *)
Theorem C13_lines_sound_complete : forall (sel : bytes -> bool) Ls bls,
  Forall2 (Blocks sel) Ls bls ->
  sublist (concat (concat bls)) (concat Ls) /\
  filter sel (concat (concat bls)) = concat (map (filter sel) Ls) /\
  map (fun b => last b []) (concat bls) = concat (map (filter sel) Ls).
Proof. exact lines_sound_complete. Qed.
Print Assumptions C13_lines_sound_complete.

(* what a block reaches back to: it ends in its only selected line and holds
   no marker except possibly as its first line *)
Theorem C13_block_shape : forall sel L bl b,
  Blocks sel L bl -> In b bl ->
  exists kept l, b = kept ++ [l] /\ sel l = true /\ existsb sel kept = false /\
                 existsb ismarker (tl b) = false.
Proof. exact Blocks_shape. Qed.
Print Assumptions C13_block_shape.

Theorem C13_noprint_same_exit : forall fl files,
  fNEWLINE fl = false ->
  fst (main fl false files) = fst (main fl true files) /\ snd (main fl false files) = [].
Proof. exact noprint_same. Qed.
Print Assumptions C13_noprint_same_exit.

(* peek = 1 iff a selected line exists after the trace block, else 0; hence it agrees with the full parse *)
Theorem C13_peek_agrees : forall fl f,
  peek fl f = (if existsb (selected fl) (drop_trace (clines f)) then 1%nat else 0%nat) /\
  ((0 < peek fl f)%nat <-> (0 < fst (parse fl f []))%nat).
Proof. exact (fun fl f => conj (peek_spec fl f) (peek_agrees fl f)). Qed.
Print Assumptions C13_peek_agrees.

(* regress_log_trim (what robsd-regress-html shows for a log with nothing to
   extract): the lines after the leading trace block without the trailing block
   of trace lines, each followed by a newline; [strip_trailing ls] is the unique
   prefix of ls whose remainder is all trace lines and which does not end in one *)
Theorem C13_trim : forall file,
  trim file = unlines (strip_trailing (drop_trace (clines file))) /\
  getlines (trim file) = strip_trailing (drop_trace (clines file)) /\
  sublist (getlines (trim file)) (clines file) /\
  (forall ls keep t, ls = keep ++ t -> Forall (fun l => isxtrace l = true) t ->
     (forall d l, keep = d ++ [l] -> isxtrace l = false) -> keep = strip_trailing ls).
Proof.
  exact (fun file => conj (trim_refines_spec file) (conj (proj1 (trim_lines file))
           (conj (proj2 (trim_lines file)) strip_trailing_unique))).
Qed.
Print Assumptions C13_trim.

(* the executable oracles applied to the implementation accept every run of the model, and only those *)
Theorem C13_oracle_accepts_model : forall fl dp files,
  fNEWLINE fl = false ->
  spec_ok_main fl dp files (fst (main fl dp files)) (snd (main fl dp files)) = true /\
  (forall e o, spec_ok_main fl dp files e o = true <-> main fl dp files = (e, o)) /\
  (forall f, spec_ok_peek fl f (peek fl f) = true).
Proof.
  exact (fun fl dp files Hnl => conj (oracle_accepts_main fl dp files Hnl)
           (conj (fun e o => oracle_main_exact fl dp files e o Hnl) (oracle_accepts_peek fl))).
Qed.
Print Assumptions C13_oracle_accepts_model.

(* ---- the "Hence" clause, caller by caller ---------------------------------------------- *)

(* util-regress.sh regress_failed (robsd-regress-log -FPn): exact *)
Theorem C13_hence_regress_failed : forall log,
  regress_failed (Some log) = true <-> failing_line log.
Proof. exact regress_failed_iff. Qed.
Print Assumptions C13_hence_regress_failed.

(* util.sh step_exec on the log it examined: failed iff the runner failed or (regress mode and a failing line) *)
Theorem C13_hence_step_exec : forall regress rc seen,
  (step_exec_exit regress rc (Some seen) <> 0 <-> rc <> 0 \/ (regress = true /\ failing_line seen)) /\
  (regress = true -> failing_line seen -> step_exec_exit regress rc (Some seen) = 1) /\
  (regress = false -> step_exec_exit regress rc (Some seen) = rc) /\
  (~ failing_line seen -> step_exec_exit regress rc (Some seen) = rc).
Proof. exact step_exec_exit_spec. Qed.
Print Assumptions C13_hence_step_exec.

(* step_exec in full: [seen] = whatever part of the log tee had written when the
   runner exited, [step_exec_checks_inside_pipeline] = where util.sh examines
   the log, read from the source on every check.

   HISTORICAL PIN (defect found by this check, repaired in /repo 604d158): with
   the check inside the pipeline - the hypothesis below, FALSE of the present
   source - the clause held only when the whole log had reached the file and is
   refuted by a prefix (replayed on util.sh: findings/C13_step_exec_log_race.{sh,md,diff}).
   The statement that holds now is C13_hence_step_exec_holds_now below. *)
Theorem C13_hence_step_exec_refuted :
  step_exec_checks_inside_pipeline = true ->
  ((forall rc log, failing_line log ->
      step_exec_run step_exec_checks_inside_pipeline true rc log log = 1) /\
   exists log seen, prefix_of seen log /\ failing_line log /\
      step_exec_run step_exec_checks_inside_pipeline true 0 log seen = 0) /\
  ~ hence_step_exec_statement.
Proof. exact (fun H => conj (proj2 hence_step_exec_shipped H) (hence_step_exec_statement_false H)). Qed.
Print Assumptions C13_hence_step_exec_refuted.

(* the source as it is now: the check comes after the pipeline, so the clause
   holds for every schedule of tee.  Closed by [eq_refl] on the translated
   switch: should the check move back inside the pipeline, the translator flips
   the switch, this proof no longer checks and the late-tee lane of the harness
   produces the failing run. *)
Theorem C13_hence_step_exec_holds_now : forall rc log seen,
  failing_line log ->
  step_exec_run step_exec_checks_inside_pipeline true rc log seen = 1.
Proof. exact (hence_step_exec_if_fixed eq_refl). Qed.
Print Assumptions C13_hence_step_exec_holds_now.

(* regress-html by itself: a recorded exit status of 0 never gives a failure
   status, whatever the log holds - the clause is false for this caller ... *)
Theorem C13_html_exit0_never_failure :
  (forall log, hfailure (html_status ex_timeout 0 log) = false) /\
  (exists log, failing_line log /\ html_status 124 0 log = HPASS).
Proof. exact (conj html_exit0_never_failure_shipped html_pass_with_failed_line). Qed.
Print Assumptions C13_html_exit0_never_failure.

(* ... and true for it when the exit status is the one step_exec computed from the same log *)
Theorem C13_hence_html_composed : forall timeout rc log,
  failing_line log ->
  hfailure (html_status timeout (step_exec_exit true rc (Some log)) log) = true.
Proof. exact hence_html_composed. Qed.
Print Assumptions C13_hence_html_composed.

(* ---- the model against the source text (Gen_RegressLog.v) -------------------------------- *)

Theorem C13_source_pins : forall fl l,
  (isskipped l = gpred_fun GP_isskipped l /\ isfailed l = gpred_fun GP_isfailed l /\
   isxfailed l = gpred_fun GP_isxfailed l /\ isxpassed l = gpred_fun GP_isxpassed l) /\
  selected fl l = gen_selected fl l /\
  isxtrace l = gen_isxtrace l /\
  ismarker_regress l = gen_ismarker_regress l /\
  ismarker_subdir l = prefixb marker_subdir_needle l /\
  (exit_error = 2 /\ exit_none = 1 /\ exit_found = 0 /\ exit_usage = 1) /\
  (gen_flags_of_opts regress_failed_opts = fl_FP /\ gen_doprint regress_failed_opts = false) /\
  (forall exit log, hname (html_status ex_timeout exit log) = gen_html_status exit log) /\
  (forall s, hfailure s = existsb (beq (hname s)) failure_statuses) /\
  (forall opts, fNEWLINE (gen_flags_of_opts opts) = false).
Proof.
  exact (fun fl l => conj (tie_predicates l) (conj (tie_selected fl l) (conj (tie_isxtrace l)
    (conj (tie_ismarker_regress l) (conj (tie_ismarker_subdir l) (conj tie_exit_values
    (conj tie_regress_failed (conj tie_html_status (conj tie_html_failure cmdline_never_newline))))))))).
Qed.
Print Assumptions C13_source_pins.

(* ---- NUL, CR, long lines: what the model does ----------------------------------------------- *)

(* a line is cut at its first NUL (the rest of the line is invisible to every
   test and never printed), whatever the lengths of the parts; CR is an ordinary
   byte: keywords and "===>" still match, a test marker followed by CR is no marker *)
Theorem C13_nul_and_cr : forall a b rest l k,
  (nonl a -> nonul a -> nonl b -> clines (a ++ 0 :: b ++ 10 :: rest) = a :: clines rest) /\
  ismarker_regress (l ++ [13]) = false /\
  (ismarker_subdir l = true -> ismarker_subdir (l ++ [13]) = true) /\
  (infixb k l = true -> infixb k (l ++ [13]) = true).
Proof.
  exact (fun a b rest l k => conj (clines_nul_cut a b rest) (conj (crlf_marker_lost l)
           (conj (crlf_subdir_kept l) (crlf_keyword_kept k l)))).
Qed.
Print Assumptions C13_nul_and_cr.

(* non-vacuity: a log with a trace block, two markers, two selected lines *)
From Coq Require Import String.
Local Open Scope string_scope.
Example C13_example :
  let f := bs "+ make
==== t1 ====
ok
==== t2 ====
x FAILED
+ late
y SKIPPED
z" in
  let fl := mkflags true true false false false in
  fst (main fl true [Some f]) = 0%N /\
  file_blocks fl f = [[bs "==== t2 ===="; bs "x FAILED"]; [bs "+ late"; bs "y SKIPPED"]].
Proof. vm_compute. split; reflexivity. Qed.
