(* Properties_C01.v - step file writes round-trip.
   Model: StepDefs.v (step.c / robsd-step.c; field table, bounds, value check and the stdio result
   checks regenerated from the source by t_step.py), StepFault.v (a file system that accepts only the
   first k bytes of the rewrite).  Specification: StepSpec.v (abstract dictionary) and StepLatest.v
   (the most recent accepted write to an id that mentions a column).
   [rowdata] = a complete row with valid fields; [abs ds] = the abstract state of the rows [ds];
   [file_of ds] = header plus the serialised rows; [cw w] = a command's arguments as C strings.

   Statement (properties.jsonl C01) and where each clause is:
   (1) after any sequence of writes the file is readable and a read returns the most recently written
       value of each field (default when never written), rows ascending, other ids unchanged:
       C01_latest_value (dictionary, every argument list), C01_latest_value_read (robsd-step -R by
       position and by name), C01_dictionary_adequate, C01_other_ids_unchanged, C01_roundtrip_history;
   (2) a rejected write exits non-zero and leaves the file unchanged: C01_reject_unchanged,
       C01_reject_unchanged_any_fault;
   (3) exit 0 only if the file holds the new state, even when the file system refuses the write:
       C01_exit0_holds_state, C01_exit0_any_partial_write, C01_partial_write_view.
   Refuted, with the witnesses replayed on robsd-step:
   - a history containing a write the file system refused does not keep the earlier rows
     (C01_refused_write_forgets_rows_refuted; known finding refused-write-damages-file,
     findings/C01_refused_write_forgets_rows.md);
   - on a hand-made file holding '$' in a stored string, exit 0 does not mean that the file reads back
     as the rows asked for (C01_exit0_holds_state_refuted; guard [Forall okrow rows], which every file
     written by robsd-step satisfies).
   Repaired in /repo (17c91c8; findings/C01_step_key_renumbers.md): step=J with J different from the -i id
   used to be accepted and renumbered the row.  action_write now compares the id column with -i; the
   translator reads that test into the switch [step_key_checked], [write_cmd] = [write_cmd_with
   step_key_checked], and C01_write_refines_dictionary / C01_roundtrip_history / C01_latest_value_read hold
   for EVERY argument list by [eq_refl] on the switch: should the test disappear, the switch flips, these
   proofs no longer check and the harness reports signature step-key-renumbers-row.  The theorems about
   [write_cmd_with false] (C01_write_refines_dictionary_refuted, _partial, C01_renumbering_write_accepted)
   are the record of the defect: facts about the command as it shipped, independent of the switch.
   Arguments are C strings (argv), hence the [cstr] on the specification side. *)
From Robsd Require Import Step.StepSpec Step.StepRows Step.StepWrite Step.StepHistory Step.StepFault Step.StepExit0
  Step.StepRenumber Step.StepLatest Step.StepNameSpec Step.StepRead Step.StepOracle Step.StepOracle2 Step.StepExit0History Interp.InterpSpec.
From Robsd Require Import Lock.LockOps Lock.LockTie.
From RobsdGen Require Import Gen_Step Gen_Lock.
Local Open Scope N_scope.

(* a well-formed file reads back as exactly its rows *)
Theorem C01_parse_serialize : forall ds,
  Forall wfdata ds -> parse_file (file_of ds) = Some (map row_of ds).
Proof. exact parse_file_of. Qed.
Print Assumptions C01_parse_serialize.

(* ---- the dictionary specification means what it says ------------------------------------------------- *)

(* lookup after put: the record just put; other keys untouched; keys stay strictly ascending *)
Theorem C01_dictionary_adequate : forall id id' r s,
  alist_find id (alist_put id r s) = Some r /\
  (id' <> id -> alist_find id' (alist_put id r s) = alist_find id' s) /\
  (ascz (keys s) -> ascz (keys (alist_put id r s))) /\
  (forall k, In k (keys (alist_put id r s)) <-> k = id \/ In k (keys s)).
Proof.
  exact (fun id id' r s => conj (alist_find_put_same id r s)
          (conj (alist_find_put_other id id' r s)
          (conj (alist_put_asc id r s) (alist_put_keys_In id r s)))).
Qed.
Print Assumptions C01_dictionary_adequate.

(* key=value arguments: for every column the LAST mention wins, unmentioned columns keep their content *)
Theorem C01_repeated_keys_last_wins : forall r kvs r' f,
  length r = 9%nat -> apply_kvs r kvs = Some r' ->
  nth f r' None = match mentions kvs f with Some v => Some v | None => nth f r None end.
Proof. exact apply_kvs_last_wins. Qed.
Print Assumptions C01_repeated_keys_last_wins.

(* THE SENTENCE, on the dictionary, for EVERY history and argument list (step=... included):
   column f of id i holds the value of the most recent accepted write to i that mentions f, the
   documented default when none does, and there is no row when no write to i was accepted *)
Theorem C01_latest_value : forall ws id f,
  lookup (fold_left sstep ws []) id f = latest (tagged [] ws []) id f.
Proof. exact latest_value. Qed.
Print Assumptions C01_latest_value.

(* the documented defaults: delta 0, log empty, skip 0, the id itself; no default for the mandatory columns *)
Theorem C01_defaults_as_documented : forall id,
  map (default_field id) (seq 0 9) =
  [Some (VInt id); None; None; None; Some (VInt 0); Some (VStr []); None; None; Some (VInt 0)].
Proof. exact default_field_table. Qed.
Print Assumptions C01_defaults_as_documented.

(* rows of other ids unchanged by a command; a rejected command changes nothing; ascending ids *)
Theorem C01_other_ids_unchanged : forall s w id f,
  accepted_id s w <> Some id -> lookup (sstep s w) id f = lookup s id f.
Proof. exact other_ids_unchanged. Qed.
Print Assumptions C01_other_ids_unchanged.

Theorem C01_history_keys_ascending : forall ws, ascz (keys (fold_left sstep ws [])).
Proof. exact history_keys_ascending. Qed.
Print Assumptions C01_history_keys_ascending.

(* ---- robsd-step -W refines the dictionary ------------------------------------------------------------------ *)

(* one write, EVERY argument list (step=... included): accepted iff the specification accepts; then
   the file is the serialisation of the updated dictionary; otherwise exit 1 and the same bytes.
   Holds of the source as it stands, by [eq_refl] on the switch the translator reads from action_write *)
Theorem C01_write_refines_dictionary : forall ds file idarg kvs,
  Forall wfdata ds -> sorted ds -> reps ds file ->
  match spec_write (abs ds) (cstr idarg) (map cstr kvs) with
  | Some s' => exists ds', s' = abs ds' /\ Forall wfdata ds' /\ sorted ds' /\
                           write_cmd false (Some file) idarg kvs = (0, Some (file_of ds'))
  | None => write_cmd false (Some file) idarg kvs = (1, Some file)
  end.
Proof. exact (write_refines_checked eq_refl). Qed.
Print Assumptions C01_write_refines_dictionary.

(* every history from the empty file, EVERY argument list: the file on disk always represents the
   dictionary obtained by applying the accepted writes in order (again by the switch) *)
Theorem C01_roundtrip_history : forall ws,
  exists ds, Forall wfdata ds /\ sorted ds /\ reps ds (fold_left model_step ws []) /\
             abs ds = fold_left spec_step ws [].
Proof. exact (fun ws => roundtrip_history_gen ws (never_renumbers_checked eq_refl ws [])). Qed.
Print Assumptions C01_roundtrip_history.

(* HISTORICAL RECORD (defect repaired in /repo 17c91c8) - the command WITHOUT the id test,
   [write_cmd_with false], what robsd-step did until then.
   _partial: it refines the dictionary for every argument list outside the exact guard [renumbers] *)
Theorem C01_write_refines_dictionary_partial : forall ds file idarg kvs,
  Forall wfdata ds -> sorted ds -> reps ds file ->
  renumbers (abs ds) (cstr idarg) (map cstr kvs) = false ->
  match spec_write (abs ds) (cstr idarg) (map cstr kvs) with
  | Some s' => exists ds', s' = abs ds' /\ Forall wfdata ds' /\ sorted ds' /\
                           write_cmd_with false false (Some file) idarg kvs = (0, Some (file_of ds'))
  | None => write_cmd_with false false (Some file) idarg kvs = (1, Some file)
  end.
Proof. exact write_refines_unchecked. Qed.
Print Assumptions C01_write_refines_dictionary_partial.

(* _refuted: -i 1 step=5 is rejected by the specification and accepted by that command, which renumbers
   row 1; step=2 on id 5 then yields two rows with id 2 (witness replayed on the binary before the repair);
   with the test both commands exit 1 and ids 1, 2 stay *)
Theorem C01_write_refines_dictionary_refuted :
  let file2 := fold_left (model_step_with false) (firstn 2 rn_hist) [] in
  let file3 := fold_left (model_step_with false) (firstn 3 rn_hist) [] in
  let file4 := fold_left (model_step_with false) rn_hist [] in
  spec_write (fold_left spec_step (firstn 2 rn_hist) []) [49] [[115;116;101;112;61;53]] = None /\
  fst (write_cmd_with false false (Some file2) [49] [[115;116;101;112;61;53]]) = 0 /\
  omap (map row_id) (parse_file file3) = Some [2; 5]%Z /\
  omap (map row_id) (parse_file file4) = Some [2; 2]%Z /\
  fst (write_cmd_with true false (Some file2) [49] [[115;116;101;112;61;53]]) = 1 /\
  omap (map row_id) (parse_file (fold_left (model_step_with true) rn_hist [])) = Some [1; 2]%Z.
Proof. exact write_refines_refuted. Qed.
Print Assumptions C01_write_refines_dictionary_refuted.

(* exactly what happened inside the guard, for all files and arguments: the specification rejects,
   the command without the test exits 0 *)
Theorem C01_renumbering_write_accepted : forall ds file idarg kvs,
  Forall wfdata ds -> reps ds file ->
  renumbers (abs ds) (cstr idarg) (map cstr kvs) = true ->
  spec_write (abs ds) (cstr idarg) (map cstr kvs) = None /\
  fst (write_cmd_with false false (Some file) idarg kvs) = 0.
Proof. exact renumbers_exit0. Qed.
Print Assumptions C01_renumbering_write_accepted.

(* ---- robsd-step -R ---------------------------------------------------------------------------------------------- *)

(* reading column f of the row at position pos returns the dictionary's value *)
Theorem C01_read_by_position : forall ds file posarg pos fd,
  Forall wfdata ds -> reps ds file -> In fd fields ->
  strtonum id_min id_max (cstr posarg) = NumOk pos ->
  read_cmd (Some file) (ById posarg) (ref (fd_name fd) ++ [NL]) =
    match spec_read (abs ds) pos (fd_name fd) with
    | Some v => (0, v ++ [NL])
    | None => (1, [])
    end.
Proof. exact read_refines. Qed.
Print Assumptions C01_read_by_position.

(* reading by name (util.sh step_eval -n): the first row in ascending id order with that name *)
Theorem C01_read_by_name : forall ds file n fd,
  Forall wfdata ds -> reps ds file -> In fd fields ->
  read_cmd (Some file) (ByName n) (ref (fd_name fd) ++ [NL]) =
    match spec_read_name (abs ds) (cstr n) (fd_name fd) with
    | Some v => (0, v ++ [NL])
    | None => (1, [])
    end.
Proof. exact read_refines_by_name. Qed.
Print Assumptions C01_read_by_name.

(* the row of an id is at the position given by the number of rows with a smaller id *)
Theorem C01_position_of_id : forall id ds d,
  sorted ds -> find_data id ds = Some d -> nth_error ds (pos_of id ds) = Some d.
Proof. exact position_of_id. Qed.
Print Assumptions C01_position_of_id.

(* THE SENTENCE, on robsd-step: after ANY history of writes (by the switch, see above), the file holds rows
   in ascending id order; for every id and column: no row if no write to the id was ever accepted;
   otherwise reading the column at the id's position, or by the row's name, prints exactly the most
   recently written value (the default if never written) *)
Theorem C01_latest_value_read : forall ws,
  exists ds, Forall wfdata ds /\ sorted ds /\ reps ds (fold_left model_step ws []) /\
    forall id fd, In fd fields ->
      match latest (tagged [] (map cw ws) []) id (fd_index fd) with
      | None => find_data id ds = None
      | Some x =>
          exists d v, find_data id ds = Some d /\ x = Some v /\
            (forall posarg, strtonum id_min id_max (cstr posarg) = NumOk (Z.of_nat (S (pos_of id ds))) ->
               read_cmd (Some (fold_left model_step ws [])) (ById posarg) (ref (fd_name fd) ++ [NL]) =
                 (0, render_value v ++ [NL])) /\
            (forall n, first_named (cstr n) ds = Some d ->
               read_cmd (Some (fold_left model_step ws [])) (ByName n) (ref (fd_name fd) ++ [NL]) =
                 (0, render_value v ++ [NL]))
      end.
Proof. exact (fun ws => latest_value_read ws (never_renumbers_checked eq_refl ws [])). Qed.
Print Assumptions C01_latest_value_read.

(* ---- rejected writes ------------------------------------------------------------------------------------------------ *)

(* for EVERY file content (well-formed or not): a write that exits non-zero
   without a file system fault leaves the file byte-for-byte unchanged *)
Theorem C01_reject_unchanged : forall file idarg kvs,
  fst (write_cmd false file idarg kvs) <> 0 -> snd (write_cmd false file idarg kvs) = file.
Proof. exact reject_unchanged. Qed.
Print Assumptions C01_reject_unchanged.

(* a command that rejects its arguments never reaches the truncation: whatever the file system
   would do (nothing accepted, only the first k bytes accepted, the flush refused), exit 1 and the same bytes *)
Theorem C01_reject_unchanged_any_fault : forall file idarg kvs,
  fst (write_cmdk None file idarg kvs) <> 0 ->
  (forall fault, write_cmdk fault file idarg kvs = (1, file)) /\
  (fst (write_cmd false file idarg kvs) <> 0 -> forall fault, write_cmd fault file idarg kvs = (1, file)).
Proof.
  exact (fun file idarg kvs H =>
           conj (fun fault => reject_unchanged_any_fault fault file idarg kvs H)
                (fun H' fault => reject_unchanged_flush_fault fault file idarg kvs H')).
Qed.
Print Assumptions C01_reject_unchanged_any_fault.

(* the reason a late rejection (a new row lacking a mandatory column, found only when the row is
   serialised) cannot touch the file: in steps_write, as the source stands today (Gen_Lock), every row
   is sorted and serialised into memory BEFORE fopen("we") truncates the file *)
Theorem C01_serialise_before_truncate :
  write_path = [FSerialize; FPoint 3; FTruncate; FPoint 4; FWrite; FFlushClose; FPoint 5].
Proof. exact (proj1 (proj2 call_lists)). Qed.
Print Assumptions C01_serialise_before_truncate.

(* ---- exit 0 ---------------------------------------------------------------------------------------------------------------- *)

(* for every file whose stored strings hold no '$' (every file robsd-step wrote), EVERY argument list
   and the flush fault: exit 0 only without the fault, the arguments were acceptable, the file is header +
   the rows asked for ([spec_update]: first row with the id updated, or a new row appended) serialised in
   ascending id order, and it reads back as exactly these rows *)
Theorem C01_exit0_holds_state : forall fault content rows idarg kvs,
  parse_file content = Some rows -> Forall okrow rows ->
  fst (write_cmd fault (Some content) idarg kvs) = 0 ->
  fault = false /\
  exists id rs b,
    denote_id (cstr idarg) = Some id /\ spec_update rows id (map cstr kvs) = Some rs /\
    serialize_rows (sort_rows rs) = Some b /\
    snd (write_cmd fault (Some content) idarg kvs) = Some (header ++ b) /\
    parse_file (header ++ b) = Some (sort_rows rs).
Proof. exact exit0_flush_fault. Qed.
Print Assumptions C01_exit0_holds_state.

(* the same when the file system accepts only the first k bytes, for every k *)
Theorem C01_exit0_any_partial_write : forall fault content rows idarg kvs,
  parse_file content = Some rows -> Forall okrow rows ->
  fst (write_cmdk fault (Some content) idarg kvs) = 0 ->
  exists id rs b,
    denote_id (cstr idarg) = Some id /\ spec_update rows id (map cstr kvs) = Some rs /\
    serialize_rows (sort_rows rs) = Some b /\
    snd (write_cmdk fault (Some content) idarg kvs) = Some (header ++ b) /\
    parse_file (header ++ b) = Some (sort_rows rs).
Proof. exact exit0_any_fault. Qed.
Print Assumptions C01_exit0_any_partial_write.

(* CLAUSE 3 WITHOUT A HYPOTHESIS ON THE FILE: the guard [Forall okrow rows] is discharged for the producer.
   After ANY history of robsd-step -W commands from the empty file (every argument list; by the switch), for
   every next command and every refusal point (none, the first k bytes for any k, the flush): exit 0 only if
   the arguments were acceptable and the file is header + the rows asked for, and it reads back as these rows *)
Theorem C01_exit0_after_any_history : forall ws idarg kvs,
  (forall fault, fst (write_cmdk fault (Some (fold_left model_step ws [])) idarg kvs) = 0 ->
     exists ds id rs b,
       Forall wfdata ds /\ sorted ds /\ parse_file (fold_left model_step ws []) = Some (map row_of ds) /\
       denote_id (cstr idarg) = Some id /\ spec_update (map row_of ds) id (map cstr kvs) = Some rs /\
       serialize_rows (sort_rows rs) = Some b /\
       snd (write_cmdk fault (Some (fold_left model_step ws [])) idarg kvs) = Some (header ++ b) /\
       parse_file (header ++ b) = Some (sort_rows rs)) /\
  (forall fault, fst (write_cmd fault (Some (fold_left model_step ws [])) idarg kvs) = 0 ->
     fault = false /\
     exists ds id rs b,
       Forall wfdata ds /\ sorted ds /\ parse_file (fold_left model_step ws []) = Some (map row_of ds) /\
       denote_id (cstr idarg) = Some id /\ spec_update (map row_of ds) id (map cstr kvs) = Some rs /\
       serialize_rows (sort_rows rs) = Some b /\
       snd (write_cmd fault (Some (fold_left model_step ws [])) idarg kvs) = Some (header ++ b) /\
       parse_file (header ++ b) = Some (sort_rows rs)).
Proof.
  exact (fun ws idarg kvs =>
           conj (fun fault => exit0_after_history ws fault idarg kvs (never_renumbers_checked eq_refl ws []))
                (fun fault => exit0_flush_after_history ws fault idarg kvs (never_renumbers_checked eq_refl ws []))).
Qed.
Print Assumptions C01_exit0_after_any_history.

(* outside the guard (a hand-made file with name "${user}"): exit 0 and the file does NOT read back as
   the rows asked for *)
Theorem C01_exit0_holds_state_refuted :
  exists content rows idarg kvs rs b,
    parse_file content = Some rows /\
    write_cmd false (Some content) idarg kvs = (0, Some (header ++ b)) /\
    spec_update rows 2 (map cstr kvs) = Some rs /\
    parse_file (header ++ b) <> Some (sort_rows rs).
Proof. exact exit0_new_state_refuted. Qed.
Print Assumptions C01_exit0_holds_state_refuted.

(* what a partial write leaves: nothing changes when the arguments are rejected; otherwise the file
   is exactly the first k bytes of the new content and the command fails unless that is all of it *)
Theorem C01_partial_write_view : forall k content idarg kvs,
  match write_new content idarg kvs with
  | None => write_cmdk (Some k) (Some content) idarg kvs = (1, Some content)
  | Some new =>
      write_cmdk None (Some content) idarg kvs = (0, Some new) /\
      write_cmdk (Some k) (Some content) idarg kvs =
        (if (length new <=? k)%nat then 0 else 1, Some (firstn k new))
  end.
Proof. exact partial_write_view. Qed.
Print Assumptions C01_partial_write_view.

(* what the next command sees: an empty file is a valid step file without rows - every read fails;
   a cut on a row boundary is a well-formed file of the first j rows; a file that does not parse makes
   every later command fail and stay away from it *)
Theorem C01_after_refused_write :
  (forall sel t, read_cmd (Some []) sel t = (1, [])) /\
  (forall ds j, Forall wfdata ds ->
     firstn (length (file_of (firstn j ds))) (file_of ds) = file_of (firstn j ds) /\
     parse_file (file_of (firstn j ds)) = Some (map row_of (firstn j ds))) /\
  (forall fault content, parse_file content = None ->
     (forall idarg kvs, write_cmd fault (Some content) idarg kvs = (1, Some content)) /\
     (forall k idarg kvs, write_cmdk k (Some content) idarg kvs = (1, Some content)) /\
     (forall sel t, read_cmd (Some content) sel t = (1, []))).
Proof. exact (conj empty_file_reads_fail (conj cut_at_row_boundary unparsable_is_stuck)). Qed.
Print Assumptions C01_after_refused_write.

(* hence clause (1) does not survive a refused write in the history: ids 1 and 2 written, write 3
   refused entirely (exit 1, empty file), write 4 accepted: only id 4 is left, reading "one" fails.
   KNOWN FINDING refused-write-damages-file.  The harness recognises it by the CASE: a fault plan with
   k < length of the new content was injected into that very write, the command exited 1 and the file is
   exactly the first k bytes of the new content (c01.py refusal_class); any other damage by a failing
   write has its own signature (failed-write-damaged-file).
   MOST LIKELY TRIGGER (no full disk needed): C07's takedown sends SIGTERM to the process GROUP of the
   step; a `robsd-step -W` of that group (util.sh step_write) that is between fopen("we") and fclose dies
   there, the kernel drops its flock, and the file is left in exactly the k = 0 state (nothing has left
   stdio yet; for a file of several stdio blocks killed inside fclose: a block-aligned prefix).  The harness
   replays this on the real binary (lane `kill`: SIGTERM at the sync points step.before_truncate /
   step.after_truncate; outside C01's quantifier - a killed command reports no exit status - so counted,
   not judged; the bytes left are compared with the k = 0 state of [write_cmdk]).
   WHAT THE OTHERS EXPERIENCE (Properties_C02): a waiter blocked in flock gets the lock next and reads
   exactly [firstn k new] (C02_waiter_reads_cut); if that does not parse, every later command of the
   invocation exits 1 and the file never changes again under any schedule (C02_poisoned_run): one ENOSPC
   or one kill poisons the run; if it parses (k = 0, a row boundary) the next writer silently continues
   from a file that lacks rows. *)
Theorem C01_refused_write_forgets_rows_refuted :
  let f2 := fold_left model_step [([49], fw_full [111;110;101]); ([50], fw_full [116;119;111])] [] in
  let r3 := write_cmdk (Some 0%nat) (Some f2) [51] (fw_full [116;104;114;101;101]) in
  let r4 := write_cmdk None (snd r3) [52] (fw_full [102;111;117;114]) in
  omap (map row_id) (parse_file f2) = Some [1; 2]%Z /\
  r3 = (1, Some []) /\ fst r4 = 0 /\
  omap (map row_id) (match snd r4 with Some f => parse_file f | None => None end) = Some [4]%Z /\
  read_cmd (snd r4) (ByName [111;110;101]) (ref [110;97;109;101] ++ [NL]) = (1, []).
Proof. exact refused_write_forgets_rows. Qed.
Print Assumptions C01_refused_write_forgets_rows_refuted.

(* ---- the oracle of the harness ------------------------------------------------------------------------------------------ *)

(* [spec_ok_history], applied by the harness to what robsd-step did, accepts what the model does *)
Theorem C01_oracle_accepts_model : forall ws reads,
  Forall (fun q => In (snd q) fields /\ (id_min <= fst q <= id_max)%Z) reads ->
  spec_ok_history (model_obs_writes [] ws) (map (model_obs_read (fold_left model_step ws [])) reads) = true.
Proof. exact (fun ws reads => oracle_accepts_model ws reads (never_renumbers_checked eq_refl ws [])). Qed.
Print Assumptions C01_oracle_accepts_model.

(* and [spec_ok_names], the oracle for reads by name *)
Theorem C01_names_oracle_accepts_model : forall ws reads,
  Forall (fun q => In (snd q) fields) reads ->
  spec_ok_names (model_obs_writes [] ws) (map (model_obs_read_name (fold_left model_step ws [])) reads) = true.
Proof. exact (fun ws reads => names_oracle_accepts_model ws reads (never_renumbers_checked eq_refl ws [])). Qed.
Print Assumptions C01_names_oracle_accepts_model.

(* THE ORACLE THE HARNESS APPLIES NOW is two-sided ([spec_ok_history2], [spec_ok_names2]): a write the
   implementation accepted must be acceptable to the dictionary specification AND a write the specification
   accepts must have been accepted (exit 0); the reads then check that it was stored.  It accepts what the
   model does, on every history *)
Theorem C01_oracle2_accepts_model : forall ws reads nreads,
  Forall (fun q => In (snd q) fields /\ (id_min <= fst q <= id_max)%Z) reads ->
  Forall (fun q => In (snd q) fields) nreads ->
  spec_ok_history2 (model_obs_writes [] ws) (map (model_obs_read (fold_left model_step ws [])) reads) = true /\
  spec_ok_names2 (model_obs_writes [] ws) (map (model_obs_read_name (fold_left model_step ws [])) nreads) = true.
Proof.
  exact (fun ws reads nreads H1 H2 =>
           conj (oracle2_accepts_model ws reads (never_renumbers_checked eq_refl ws []) H1)
                (names_oracle2_accepts_model ws nreads (never_renumbers_checked eq_refl ws []) H2)).
Qed.
Print Assumptions C01_oracle2_accepts_model.

(* what "two-sided" means: it is at least as strict as the one-sided oracle; refusing ONE write that the
   specification accepts - anywhere in a history, whatever is read afterwards - makes it fail; and the
   command that refuses everything, which the one-sided oracle accepts, is rejected *)
Theorem C01_oracle_two_sided :
  (forall ws reads, spec_ok_history2 ws reads = true -> spec_ok_history ws reads = true) /\
  (forall ws nreads, spec_ok_names2 ws nreads = true -> spec_ok_names ws nreads = true) /\
  (forall pre s1 idarg kvs post reads,
     replay_writes2 [] pre = Some s1 -> spec_write s1 idarg kvs <> None ->
     spec_ok_history2 (pre ++ (idarg, kvs, false) :: post) reads = false /\
     (forall nreads, spec_ok_names2 (pre ++ (idarg, kvs, false) :: post) nreads = false)) /\
  (spec_ok_history [w_one] [(1%Z, [110;97;109;101], None)] = true /\
   spec_ok_history2 [w_one] [(1%Z, [110;97;109;101], None)] = false /\
   first_mismatch [] [w_one] 0 = Some (0%nat, true)).
Proof.
  exact (conj ok_history2_ok_history (conj ok_names2_ok_names
          (conj refusal_of_acceptable_write_fails reject_everything_witness))).
Qed.
Print Assumptions C01_oracle_two_sided.

(* ---- values ---------------------------------------------------------------------------------------------------------------- *)

(* integers survive printing and strtonum, at every magnitude the type holds *)
Theorem C01_integer_roundtrip : forall lo hi z,
  (lo <= z <= hi)%Z -> strtonum lo hi (render_Z z) = NumOk z.
Proof. exact DecimalProofs.strtonum_render. Qed.
Print Assumptions C01_integer_roundtrip.

(* the documented 64-bit range of integer columns is the range step.c passes to strtonum *)
Theorem C01_integer_bounds : i64_min = int_min /\ i64_max = int_max.
Proof. exact spec_bounds_are_source_bounds. Qed.
Print Assumptions C01_integer_bounds.

(* the documented table: what the translator read from step.c today *)
Theorem C01_table_as_documented :
  map fd_name fields = [[115; 116; 101; 112]; [110; 97; 109; 101]; [101; 120; 105; 116]; [100; 117; 114; 97; 116; 105; 111; 110];
                        [100; 101; 108; 116; 97]; [108; 111; 103]; [117; 115; 101; 114]; [116; 105; 109; 101]; [115; 107; 105; 112]] /\
  map fd_index fields = seq 0 9 /\
  map fd_type fields = [FInt; FStr; FInt; FInt; FInt; FStr; FStr; FInt; FInt] /\
  map fd_optional fields = [false; false; false; false; true; true; false; false; true] /\
  RobsdGen.Gen_Interp.depth_limit = 5%nat.
Proof. exact table_shape. Qed.
Print Assumptions C01_table_as_documented.

From Coq Require Import String.
Local Open Scope string_scope.
(* non-vacuity: three writes (new, new out of order with 64-bit extremes, partial update) *)
Example C01_example :
  let w1 := (bs "2", [bs "name=two"; bs "exit=0"; bs "duration=9223372036854775807"; bs "user=root"; bs "time=-9223372036854775808"]) in
  let w2 := (bs "1", [bs "name=one"; bs "exit=1"; bs "duration=5"; bs "user=build"; bs "time=7"; bs "log=001-one.log"]) in
  let w3 := (bs "2", [bs "exit=124"; bs "exit=3"]) in
  let bad := (bs "3", [bs "name=a,b"; bs "exit=0"; bs "duration=1"; bs "user=root"; bs "time=1"]) in
  fold_left model_step [w1; w2; bad; w3] []%list =
    bs "step,name,exit,duration,delta,log,user,time,skip
1,one,1,5,0,001-one.log,build,7,0
2,two,3,9223372036854775807,0,,root,-9223372036854775808,0
" /\ Forall (fun w => no_id_key (map cstr (snd w))) [w1; w2; bad; w3] /\
  latest (tagged []%list (map cw [w1; w2; bad; w3]) []%list) 2 2 = Some (Some (VInt 3)) /\
  latest (tagged []%list (map cw [w1; w2; bad; w3]) []%list) 2 4 = Some (Some (VInt 0)) /\
  latest (tagged []%list (map cw [w1; w2; bad; w3]) []%list) 3 1 = None.
Proof.
  split; [vm_compute; reflexivity|]. split.
  - repeat (apply Forall_cons; [apply no_id_keyb_spec; vm_compute; reflexivity|]). apply Forall_nil.
  - vm_compute. repeat split; reflexivity.
Qed.
