(* Properties_C01.v - step file writes round-trip.
   Model: StepDefs.v (step.c / robsd-step.c, field table and bounds regenerated from
   the source by t_step.py).  Specification: StepSpec.v (abstract dictionary).
   [rowdata] = a complete row with valid fields; [abs ds] = the abstract state
   of the rows [ds]; [file_of ds] = header plus the serialised rows.

   Full statement (properties.jsonl C01), all quantifiers unbounded:
   (1) after any sequence of write commands the file is readable and reading
       returns the most recently written value of each field, rows ascending,
       other rows unchanged;  (2) a rejected write leaves the file unchanged;
   (3) exit 0 only if the file holds the new state, even under a flush failure.
   Scope notes, visible here rather than hidden in a lemma:
   - key=value arguments that address the id column itself (step=...) are
     outside the quantifier (the id is given by -i; the orchestrator never does
     that): hypothesis [no_id_key];
   - arguments are C strings (argv), hence the [cstr] on the specification side. *)
From Robsd Require Import Step.StepSpec Step.StepRows Step.StepWrite Step.StepHistory Interp.InterpSpec.
From RobsdGen Require Import Gen_Step.
Local Open Scope N_scope.

(* a well-formed file reads back as exactly its rows *)
Theorem C01_parse_serialize : forall ds,
  Forall wfdata ds -> parse_file (file_of ds) = Some (map row_of ds).
Proof. exact parse_file_of. Qed.
Print Assumptions C01_parse_serialize.

(* one write: accepted iff the specification accepts; then the file is the
   serialisation of the updated dictionary (sorted, other rows untouched by
   [alist_put]); otherwise exit 1 and the same bytes *)
Theorem C01_write_refines_dictionary : forall ds file idarg kvs,
  Forall wfdata ds -> sorted ds -> reps ds file -> no_id_key (map cstr kvs) ->
  match spec_write (abs ds) (cstr idarg) (map cstr kvs) with
  | Some s' => exists ds', s' = abs ds' /\ Forall wfdata ds' /\ sorted ds' /\
                           write_cmd false (Some file) idarg kvs = (0, Some (file_of ds'))
  | None => write_cmd false (Some file) idarg kvs = (1, Some file)
  end.
Proof. exact write_refines. Qed.
Print Assumptions C01_write_refines_dictionary.

(* every history from the empty file: the file on disk always represents the
   dictionary obtained by applying the accepted writes in order *)
Theorem C01_roundtrip_history : forall ws,
  Forall (fun w => no_id_key (map cstr (snd w))) ws ->
  exists ds, Forall wfdata ds /\ sorted ds /\ reps ds (fold_left model_step ws []) /\
             abs ds = fold_left spec_step ws [].
Proof. exact roundtrip_history. Qed.
Print Assumptions C01_roundtrip_history.

(* reading field f of the row at position pos returns the dictionary's value *)
Theorem C01_read_returns_latest : forall ds file posarg pos fd,
  Forall wfdata ds -> reps ds file -> In fd fields ->
  strtonum id_min id_max (cstr posarg) = NumOk pos ->
  read_cmd (Some file) (ById posarg) (ref (fd_name fd) ++ [NL]) =
    match spec_read (abs ds) pos (fd_name fd) with
    | Some v => (0, v ++ [NL])
    | None => (1, [])
    end.
Proof. exact read_refines. Qed.
Print Assumptions C01_read_returns_latest.

(* for EVERY file content (well-formed or not): a write that exits non-zero
   without a file system fault leaves the file byte-for-byte unchanged *)
Theorem C01_reject_unchanged : forall file idarg kvs,
  fst (write_cmd false file idarg kvs) <> 0 -> snd (write_cmd false file idarg kvs) = file.
Proof. exact reject_unchanged. Qed.
Print Assumptions C01_reject_unchanged.

(* for every file and every fault: exit 0 only without a flush failure and with
   the newly serialised state in the file *)
Theorem C01_exit0_holds_state : forall fault file idarg kvs,
  fst (write_cmd fault file idarg kvs) = 0 ->
  fault = false /\ exists b, snd (write_cmd fault file idarg kvs) = Some (header ++ b).
Proof. exact exit0_only_without_fault. Qed.
Print Assumptions C01_exit0_holds_state.

(* integers survive printing and strtonum, at every magnitude the type holds *)
Theorem C01_integer_roundtrip : forall lo hi z,
  (lo <= z <= hi)%Z -> strtonum lo hi (render_Z z) = NumOk z.
Proof. exact DecimalProofs.strtonum_render. Qed.
Print Assumptions C01_integer_roundtrip.

(* the documented table: what the translator read from step.c today *)
Theorem C01_table_as_documented :
  map fd_name fields = [[115; 116; 101; 112]; [110; 97; 109; 101]; [101; 120; 105; 116]; [100; 117; 114; 97; 116; 105; 111; 110];
                        [100; 101; 108; 116; 97]; [108; 111; 103]; [117; 115; 101; 114]; [116; 105; 109; 101]; [115; 107; 105; 112]] /\
  map fd_index fields = seq 0 9 /\
  map fd_type fields = [FInt; FStr; FInt; FInt; FInt; FStr; FStr; FInt; FInt] /\
  map fd_optional fields = [false; false; false; false; true; true; false; false; true] /\
  RobsdGen.Gen_Interp.depth_limit = 5%nat.
Proof. exact table_shape. Qed.
Print Assumptions C01_table_as_documented.

From Coq Require Import String.
Local Open Scope string_scope.
(* non-vacuity: three writes (new, new out of order with 64-bit extremes, partial update) *)
Example C01_example :
  let w1 := (bs "2", [bs "name=two"; bs "exit=0"; bs "duration=9223372036854775807"; bs "user=root"; bs "time=-9223372036854775808"]) in
  let w2 := (bs "1", [bs "name=one"; bs "exit=1"; bs "duration=5"; bs "user=build"; bs "time=7"; bs "log=001-one.log"]) in
  let w3 := (bs "2", [bs "exit=124"; bs "exit=3"]) in
  let bad := (bs "3", [bs "name=a,b"; bs "exit=0"; bs "duration=1"; bs "user=root"; bs "time=1"]) in
  fold_left model_step [w1; w2; bad; w3] []%list =
    bs "step,name,exit,duration,delta,log,user,time,skip
1,one,1,5,0,001-one.log,build,7,0
2,two,3,9223372036854775807,0,,root,-9223372036854775808,0
" /\ Forall (fun w => no_id_key (map cstr (snd w))) [w1; w2; bad; w3].
Proof.
  split; [vm_compute; reflexivity|].
  repeat (apply Forall_cons; [apply no_id_keyb_spec; vm_compute; reflexivity|]). apply Forall_nil.
Qed.
