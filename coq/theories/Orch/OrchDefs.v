(* OrchDefs.v - the loop of robsd() (util.sh) with parallel steps, as a transition
   system, together with what step_exec_job does to the step file and the hook
   (C04, C11).  The main loop and the jobs move independently; a schedule says
   who moves next, moves that are not enabled are skipped.

   Contract of robsd-wait assumed (stand-in outside OpenBSD): "robsd-wait pids"
   returns once at least one of the pids is gone and prints those still
   running; "robsd-wait -a pids" returns once all are gone. *)
From Robsd Require Export Orch.ResumeDefs.
Local Open Scope Z_scope.

Record pstep := mkpstep { p_id : Z; p_name : bytes; p_par : bool; p_exit : Z }.

Inductive omode :=
| AtHead                    (* main loop about to look at the next step *)
| WaitSync (i : Z) (e : Z)  (* a synchronous step runs in the foreground *)
| OFailed                   (* a synchronous step failed: set -e ends the invocation *)
| ODone.                    (* the end step was recorded *)

Inductive jphase := JStarted | JRunning.   (* forked; in-flight record written and command running *)

Inductive ev :=
| EStart (i : Z) (par : bool) | EFinish (i : Z) (e : Z) | EHook (n : bytes) (e : Z) | EEnd.

Record ostate := mkostate {
  todo : list pstep;
  jobs : list Z;                      (* $_jobs: the pids the loop remembers *)
  running : list (Z * jphase);        (* every job (background or foreground) that has not finished *)
  mode : omode;
  sfile_ : sfile;                     (* the step file (ascending rows, C01) *)
  evlog : list ev;
}.

Definition is_running (s : ostate) (i : Z) : bool := existsb (fun x => fst x =? i) (running s).

Inductive action := AMain | AJob (i : Z).

Section Orch.
  Variable ncpu : nat.
  Variable exit_of : Z -> Z.          (* the exit status the command of step i gives *)
  Variable name_of : Z -> bytes.

  Definition main_step (s : ostate) : option ostate :=
    match mode s with
    | OFailed | ODone => None
    | WaitSync i e =>
        if is_running s i then None
        else Some (mkostate (todo s) (jobs s) (running s) (if e =? 0 then AtHead else OFailed) (sfile_ s) (evlog s))
    | AtHead =>
        match todo s with
        | [] => None
        | p :: rest =>
            if skipped (sfile_ s) (p_name p) then
              Some (mkostate rest (jobs s) (running s) AtHead (sfile_ s) (evlog s))
            else if p_par p then
              if Nat.eqb (length (jobs s)) ncpu then
                (* robsd-wait: needs one of the remembered jobs to be gone *)
                if forallb (is_running s) (jobs s) then None
                else Some (mkostate (todo s) (filter (is_running s) (jobs s)) (running s) AtHead (sfile_ s) (evlog s))
              else
                Some (mkostate rest (jobs s ++ [p_id p]) (running s ++ [(p_id p, JStarted)]) AtHead
                               (sfile_ s) (evlog s ++ [EStart (p_id p) true]))
            else
              match jobs s with
              | _ :: _ =>
                  (* robsd-wait -a: barrier *)
                  if existsb (is_running s) (jobs s) then None
                  else Some (mkostate (todo s) [] (running s) AtHead (sfile_ s) (evlog s))
              | [] =>
                  if beq (p_name p) END then
                    Some (mkostate rest [] (running s) ODone (upsert (mkrow (p_id p) (p_name p) 0 0) (sfile_ s))
                                   (evlog s ++ [EEnd]))
                  else
                    Some (mkostate rest [] (running s ++ [(p_id p, JStarted)]) (WaitSync (p_id p) (p_exit p))
                                   (sfile_ s) (evlog s ++ [EStart (p_id p) false]))
              end
        end
    end.

  Fixpoint set_phase (l : list (Z * jphase)) (i : Z) (ph : jphase) : list (Z * jphase) :=
    match l with
    | [] => []
    | (j, q) :: l' => if j =? i then (j, ph) :: l' else (j, q) :: set_phase l' i ph
    end.

  Fixpoint phase_of (l : list (Z * jphase)) (i : Z) : option jphase :=
    match l with
    | [] => None
    | (j, q) :: l' => if j =? i then Some q else phase_of l' i
    end.

  (* step_exec_job: first record (exit -1), run, second record + hook *)
  Definition job_step (s : ostate) (i : Z) : option ostate :=
    match phase_of (running s) i with
    | None => None
    | Some JStarted =>
        Some (mkostate (todo s) (jobs s) (set_phase (running s) i JRunning) (mode s)
                       (upsert (mkrow i (name_of i) (-1) 0) (sfile_ s)) (evlog s))
    | Some JRunning =>
        Some (mkostate (todo s) (jobs s) (filter (fun x => negb (fst x =? i)) (running s)) (mode s)
                       (upsert (mkrow i (name_of i) (exit_of i) 0) (sfile_ s))
                       (evlog s ++ [EFinish i (exit_of i); EHook (name_of i) (exit_of i)]))
    end.

  Definition ostep (s : ostate) (a : action) : option ostate :=
    match a with AMain => main_step s | AJob i => job_step s i end.

  Fixpoint orun (s : ostate) (sched : list action) : ostate :=
    match sched with
    | [] => s
    | a :: sched' => match ostep s a with Some s' => orun s' sched' | None => orun s sched' end
    end.

  Definition oinit (steps : list pstep) (f : sfile) : ostate :=
    mkostate steps [] [] AtHead f [].
End Orch.

(* trap_exit: what happens when the invocation ends in mode [m] with exit status
   err: report if a step failed or end was reached (and the build has steps),
   mail when detached, the end hook, lock release *)
Definition has_steps (f : sfile) : bool := existsb (fun r => negb (r_skip r =? 1)) f.
Definition has_end (f : sfile) : bool := existsb (fun r => beq (r_name r) END) f.

Record exit_effects := mkeff { e_report : bool; e_mail : bool; e_endhook : bool; e_status : Z }.

Definition trap_exit (m : omode) (f : sfile) (detached : bool) : exit_effects :=
  let err := match m with ODone => 0 | _ => 1 end in
  let rep := has_steps f && (negb (err =? 0) || has_end f) in
  mkeff rep (rep && detached) (has_end f) err.
