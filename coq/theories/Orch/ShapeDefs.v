(* ShapeDefs.v - the small statement language in which harness/t_orch.py writes down what it reads in util.sh:
   the body of the loop of robsd(), step_exec_job(), trap_exit(), the tests of lock_acquire() / lock_release()
   and the way robsd_hook() starts the hook.  The translator maps every statement group of the source text to
   ONE constructor, in the order in which it stands in the source (gen/Gen_Orch.v); it gives the statements no
   meaning.  Orch/ShapeSem.v gives them their meaning on the states of the transition system (OrchDefs.v) and
   Orch/OrchTie.v proves that the statement lists found in util.sh mean exactly main_step / job_step /
   trap_exit / invoke_end - the functions every C04 / C11 theorem is about.  Definitions only. *)
From Robsd Require Export Base.Bytes.
Local Open Scope Z_scope.

(* lock_acquire's refusal test *)
Inductive acquire_test :=
| AcqOwnerNonEmptyAndDifferent.   (* _owner="$(cat .running 2>/dev/null || :)"; [ -n "$_owner" ] && [ "$_owner" != "$_builddir" ] *)

(* lock_release's ownership test *)
Inductive release_test :=
| RelWholeFileEqual               (* echo "$_builddir" | cmp -s - .running *)
| RelFixedSubstring.              (* grep -qsF -- "$_builddir" .running : a known wrong variant (prefix-related names) *)

(* what the loop does with $_jobs when the job queue is full *)
Inductive queue_wait :=
| QWKeepStillRunning              (* _jobs="$(echo "$_jobs" | xargs "$ROBSDWAIT" | xargs)" : robsd-wait prints the pids still running *)
| QWDropOldest.                   (* a known wrong variant: robsd-wait's output dropped, the oldest pid forgotten *)

(* ---- the body of `steps -o N | while read -r _step _name _parallel; do ... done` in robsd() ------------------ *)
Inductive lstmt :=
| LSkipTest                       (* if step_eval -n "$_name" "$_steps" 2>/dev/null && step_skip; then continue; fi *)
| LQueueFull (q : queue_wait)     (* if [ "$(jobs_count "$_jobs")" -eq "$_ncpu" ]; then <q>; fi *)
| LForkJob                        (* step_exec_job ... -i "$_step" -n "$_name" &   _jobs="${_jobs}${_jobs:+ }${!}" *)
| LBarrier                        (* if [ -n "$_jobs" ]; then echo "$_jobs" | xargs "$ROBSDWAIT" -a; _jobs=""; fi *)
| LEnd                            (* if [ "$_name" = "end" ]; then ... step_write -t -s .. -n end -e 0 ...; return 0; fi *)
| LSyncJob                        (* step_exec_job ... -i "$_step" -n "$_name"     (foreground; set -e) *)
| LReboot                         (* if [ "$_name" = "reboot" ] && [ "$(config_value reboot)" -eq 1 ]; then return 0; fi *)
| LLockAlive.                     (* if ! lock_alive "$ROBSDDIR" "$_builddir"; then [ -z "$_jobs" ] || ... -a; return 1; fi *)

(* the loop body: statements before `if [ -n "$_parallel" ]`, its two branches, statements after its `fi` *)
Record loop_body := mkbody {
  lb_head : list lstmt;
  lb_par : list lstmt;
  lb_sync : list lstmt;
  lb_tail : list lstmt;
}.

(* ---- step_exec_job() after its argument loop ---------------------------------------------------------------- *)
Inductive jstmt :=
| JLogId                          (* _log="$(log_id -b "$_builddir" -n "$_name" -s "$_id")" *)
| JT0                             (* _t0="$(date '+%s')" *)
| JWriteInflight (e d : Z)        (* step_write -t -l "$_log" -s "$_id" -n "$_name" -e <e> -d <d> "$_steps" *)
| JExec                           (* step_exec -l "$_builddir/$_log" -s "$_name" || _exit="$?"     (_exit starts as 0) *)
| JT1                             (* _t1="$(date '+%s')" *)
| JDuration                       (* _d1="$((_t1 - _t0))" *)
| JDelta                          (* _d0="$(duration_prev "$_name" || :)"; _delta = _d1 - _d0 or 0 *)
| JWriteDone                      (* step_write -l "$_log" -s "$_id" -n "$_name" -e "$_exit" -d "$_d1" -a "$_delta" "$_steps" *)
| JHook                           (* robsd_hook -v "step-exit=$_exit" -v "step-name=$_name" *)
| JReturnIfNonzero.               (* case $_MODE: robsd-regress: regress_step_after .. || return 1; any other mode: [ "$_exit" -eq 0 ] || return 1 *)

(* ---- trap_exit() after its argument loop --------------------------------------------------------------------- *)
Inductive xstmt :=
| XKillStat                       (* [ -z "$_statpid" ] || kill "$_statpid" || : *)
| XReturnIfNoBuilddir             (* [ -n "$_builddir" ] || return "$_err" *)
| XReportMail                     (* if has_steps && { [ $_err -ne 0 ] || step_eval -n end; }; then
                                       if report -b .. && [ "$DETACH" -ne 0 ]; then sendmail <receiver> <report; fi; fi *)
| XEndHook                        (* if step_eval -n end "$_steps" 2>/dev/null; then robsd_hook step-exit=0 step-name=end; fi *)
| XLockRelease                    (* lock_release "$_robsddir" "$_builddir" || : *)
| XRemoveIfEmpty                  (* has_steps "$_steps" || rm -r "$_builddir" *)
| XReturnErr.                     (* return "$_err"     (_err="$?" is the first statement) *)

(* ---- robsd_hook(): what the hook process gets as standard input --------------------------------------------- *)
Inductive hook_stdin :=
| HookStdinInherited              (* "$ROBSDHOOK" ... "$@" || :            - inside the loop: the `steps |` pipe *)
| HookStdinNull.                  (* "$ROBSDHOOK" ... "$@" </dev/null || : *)

(* ---- the entry scripts (canvas, robsd, robsd-cross, robsd-ports, robsd-regress): what a step_next that FAILS leads to --- *)
Inductive resume_failure :=
| RFTrapOnBuilddir                (* trap ... EXIT first; _step="$(step_next ...)" fails under set -e: trap_exit runs on $BUILDDIR *)
| RFTrapLater                     (* step_next is asked before the trap is installed: the script just ends (a candidate patch, never in /repo) *)
| RFBuilddirCleared.              (* _step="$(step_next ...)" || { BUILDDIR=""; exit 1; } : trap_exit returns at once on the empty $BUILDDIR *)
