(* ShapeDefs.v - the vocabulary in which harness/t_orch.py describes the shape of the shell code that the
   orchestrator models transcribe (util.sh robsd(), step_exec_job, trap_exit, lock_acquire, lock_release).
   gen/Gen_Orch.v (regenerated from util.sh on every run) is written in these terms; Orch/OrchTie.v compares
   it with what the models implement. *)
From Robsd Require Export Base.Bytes.

(* lock_acquire's refusal test *)
Inductive acquire_test :=
| AcqOwnerNonEmptyAndDifferent.   (* _owner="$(cat .running 2>/dev/null || :)"; [ -n "$_owner" ] && [ "$_owner" != "$_builddir" ] *)

(* lock_release's ownership test *)
Inductive release_test :=
| RelWholeFileEqual               (* echo "$_builddir" | cmp -s - .running *)
| RelFixedSubstring.              (* grep -qsF -- "$_builddir" .running : a known wrong variant (prefix-related names) *)

(* what the loop does when the job queue is full *)
Inductive queue_wait :=
| QWKeepStillRunning              (* _jobs="$(echo "$_jobs" | xargs "$ROBSDWAIT" | xargs)" : robsd-wait prints the pids still running *)
| QWDropOldest.                   (* a known wrong variant: forget the oldest pid whatever finished *)

(* where the barrier (robsd-wait -a on every remembered job) stands *)
Inductive barrier_place :=
| BarrierBeforeEverySyncStep      (* first thing in the non-parallel branch: also before end is recorded *)
| BarrierAfterEndCheck.           (* a known wrong variant: end recorded while parallel steps still run *)

Record loop_shape := mkloop {
  ls_skip_first : bool;           (* step_eval -n name && step_skip => continue, before anything else *)
  ls_queue_full_is_eq_ncpu : bool;(* [ "$(jobs_count "$_jobs")" -eq "$_ncpu" ] *)
  ls_queue : queue_wait;
  ls_parallel_in_background : bool;   (* step_exec_job ... & ; _jobs="$_jobs $!" *)
  ls_barrier : barrier_place;
  ls_barrier_clears_jobs : bool;  (* _jobs="" after robsd-wait -a *)
  ls_end_recorded_then_return : bool; (* name = end: step_write -e 0; return 0 (hook left to the exit trap) *)
  ls_sync_in_foreground : bool;   (* step_exec_job ... without &, under set -e *)
}.

(* step_exec_job: in-flight record (-e -1), the command, completion record with the command's status, the
   hook with name and status, failure iff the status is non-zero (canvas mode) *)
Record job_shape := mkjob {
  js_first_record_exit : Z;
  js_exit_from_command : bool;
  js_second_record_then_hook : bool;
  js_returns_1_iff_nonzero : bool;
}.

(* trap_exit *)
Record exit_shape := mkexit {
  xs_report_iff_steps_and_err_or_end : bool;   (* has_steps && { [ $_err -ne 0 ] || step_eval -n end; } *)
  xs_mail_iff_report_and_detach : bool;        (* report -b ... && [ "$DETACH" -ne 0 ] => sendmail *)
  xs_endhook_iff_end_recorded : bool;          (* step_eval -n end => robsd_hook step-exit=0 step-name=end *)
  xs_release_then_remove_empty : bool;         (* lock_release ... || :; has_steps || rm -r builddir *)
  xs_returns_err : bool;
}.
