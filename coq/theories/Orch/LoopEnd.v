(* LoopEnd.v - the ways an invocation ends that the transition system's [terminal] states (ODone / OFailed) do not
   cover, and what canvas does between getopts and robsd().  Definitions only (extracted).
   fell_off     the `while read` loop of robsd() ran out of schedule lines without reaching the end step: robsd()
                returns 0 - WITHOUT the barrier - and the exit trap runs with status 0.  Reachable when end is
                skipped (or when something else ate the schedule: main_step_h).
   main_step_h  robsd_hook as a statement of step_exec_job: for a SYNCHRONOUS step the hook runs in the loop's own
                shell, so with HookStdinInherited its standard input is the pipe `steps -o N |`; a hook that reads
                its input to the end leaves nothing for `read`.  (A parallel step_exec_job runs as an asynchronous
                list: the shell gives it /dev/null.)
   start_file   canvas: skip records are written only `if [ "$_step" -eq 1 ]`. *)
From Robsd Require Export Orch.OrchSpec Orch.ShapeDefs.
Local Open Scope Z_scope.

Definition fell_off (s : ostate) : bool :=
  match mode s, todo s with AtHead, [] => true | _, _ => false end.

(* the status the shell is left with: robsd() returned 0 after end was recorded or after the loop ran out *)
Definition exit_mode (s : ostate) : omode := if fell_off s then ODone else mode s.

Definition trap_exit_of (s : ostate) (d : bool) : exit_effects := trap_exit (exit_mode s) (sfile_ s) d.

Definition main_step_h (hs : hook_stdin) (reads : Z -> bool) (ncpu : nat) (s : ostate) : option ostate :=
  match main_step ncpu s with
  | None => None
  | Some s' =>
      match mode s, hs with
      | WaitSync i _, HookStdinInherited =>
          if reads i then Some (mkostate [] (jobs s') (running s') (mode s') (sfile_ s') (evlog s')) else Some s'
      | _, _ => Some s'
      end
  end.

Definition ostep_h (hs : hook_stdin) (reads : Z -> bool) (ncpu : nat) (exit_of : Z -> Z) (name_of : Z -> bytes)
    (s : ostate) (a : action) : option ostate :=
  match a with AMain => main_step_h hs reads ncpu s | AJob i => job_step exit_of name_of s i end.

Fixpoint orun_h (hs : hook_stdin) (reads : Z -> bool) (ncpu : nat) (exit_of : Z -> Z) (name_of : Z -> bytes)
    (s : ostate) (sched : list action) : ostate :=
  match sched with
  | [] => s
  | a :: sched' => match ostep_h hs reads ncpu exit_of name_of s a with
                   | Some s' => orun_h hs reads ncpu exit_of name_of s' sched'
                   | None => orun_h hs reads ncpu exit_of name_of s sched'
                   end
  end.

(* steps -o k: the schedule from step k on *)
Definition psteps_from (k : Z) (steps : list pstep) : list pstep := filter (fun p => k <=? p_id p) steps.

(* canvas: the step file the loop starts from - one skip record per name of THIS invocation's skip set (configuration
   and -s options), but only when the invocation starts at step 1 *)
Definition start_file (k : Z) (steps : list pstep) (skip : list bytes) (f : sfile) : sfile :=
  if k =? 1 then
    fold_left (fun g n => match find_pstep steps n with
                          | Some p => upsert (mkrow (p_id p) n 0 1) g
                          | None => g
                          end) skip f
  else f.
