(* WrittenInv.v - what every writer of the step file keeps: a skip record carries exit 0.

   This is the hypothesis [skipped_exit0] under which C05 proves the status line of the report in
   the modes that count failures (regress, canvas).  It is discharged here for everything the
   orchestrator writes, in all modes: the skip records of the entry scripts (step_write -S ... -e N
   with N read from the four scripts by the translator: Gen_Shell.skip_record_exit), the
   sequential loop [orch] (ResumeDefs.v) and the loop with parallel steps [orun] (OrchDefs.v) under
   every schedule - and for any number of crashes and resumed runs, since the closure [written]
   restarts either loop from any file already written.

   Also: the boundary of C03 for parallel steps ([parallel_resume_skips_inflight]). *)
From Robsd Require Import Orch.OrchDefs Orch.ResumeSpec Orch.ResumeProofs Orch.ResumeExec.
From RobsdGen Require Import Gen_Shell.
From Coq Require Import Sorting.Sorted.
Local Open Scope Z_scope.

Definition skip0 (f : sfile) : Prop := forall r, In r f -> r_skip r = 1 -> r_exit r = 0.

Lemma skip0_upsert x f : skip0 f -> (r_skip x = 1 -> r_exit x = 0) -> skip0 (upsert x f).
Proof.
  intros Hf Hx r Hr. apply In_upsert_weak in Hr. destruct Hr as [->|Hr]; [exact Hx|apply (Hf r Hr)].
Qed.

Lemma skip0_upsert_run i n e f : skip0 f -> skip0 (upsert (mkrow i n e 0) f).
Proof. intros Hf. apply skip0_upsert; [exact Hf|cbn; intros H; discriminate H]. Qed.

(* the sequential loop *)
Lemma orch_skip0 steps : forall f g ex, skip0 f -> In (g, ex) (orch steps f) -> skip0 g.
Proof.
  induction steps as [|[[i name] e] rest IH]; intros f g ex Hf Hin; [destruct Hin|].
  cbn [orch] in Hin. destruct (skipped f name); [eapply IH; eauto|].
  destruct (beq name END).
  - destruct Hin as [Hin|[]]. injection Hin as <- <-. now apply skip0_upsert_run.
  - destruct Hin as [Hin|[Hin|Hin]].
    + injection Hin as <- <-. now apply skip0_upsert_run.
    + injection Hin as <- <-. now apply skip0_upsert_run, skip0_upsert_run.
    + destruct (e =? 0); [|destruct Hin]. apply in_map_iff in Hin.
      destruct Hin as [[g' ex'] [Heq Hin]]. injection Heq as <- <-.
      eapply IH; [|exact Hin]. now apply skip0_upsert_run, skip0_upsert_run.
Qed.

(* the loop with parallel steps: every transition either leaves the file alone or writes a record with
   skip = 0.  Stated on [ostep] as a whole so that it does not depend on the shape of the main loop. *)
Section Par.
  Variable ncpu : nat.
  Variable exit_of : Z -> Z.
  Variable name_of : Z -> bytes.

  Ltac split_matches H :=
    repeat match type of H with
           | context [match ?x with _ => _ end] => destruct x
           | context [if ?x then _ else _] => destruct x
           end.

  Lemma ostep_skip0 s a s' :
    skip0 (sfile_ s) -> ostep ncpu exit_of name_of s a = Some s' -> skip0 (sfile_ s').
  Proof.
    intros Hf H. destruct a as [|i]; cbn [ostep] in H.
    - unfold main_step in H. split_matches H; try discriminate H; injection H as <-; cbn [sfile_];
        first [exact Hf | now apply skip0_upsert_run].
    - unfold job_step in H. split_matches H; try discriminate H; injection H as <-; cbn [sfile_];
        first [exact Hf | now apply skip0_upsert_run].
  Qed.

  Lemma orun_skip0 sched : forall s, skip0 (sfile_ s) -> skip0 (sfile_ (orun ncpu exit_of name_of s sched)).
  Proof.
    induction sched as [|a sched IH]; intros s Hf; [exact Hf|]. cbn [orun].
    destruct (ostep ncpu exit_of name_of s a) as [s'|] eqn:E; [|now apply IH].
    apply IH. eapply ostep_skip0; eauto.
  Qed.
End Par.

(* everything that is ever written to a step file by the entry scripts and the two loops, across any
   number of invocations on the same build directory (fresh, killed at any point, resumed) *)
Inductive written : sfile -> Prop :=
| w_empty : written []                                                         (* build_init: empty file *)
| w_skip f i n : written f -> written (upsert (mkrow i n skip_record_exit 1) f) (* step_write -S *)
| w_seq f steps g ex : written f -> In (g, ex) (orch steps f) -> written g
| w_par f ncpu exit_of name_of steps sched :
    written f -> written (sfile_ (orun ncpu exit_of name_of (oinit steps f) sched)).

Theorem written_skip0 f : written f -> skip0 f.
Proof.
  induction 1 as [|f i n _ IH|f steps g ex _ IH Hin|f ncpu exit_of name_of steps sched _ IH].
  - intros r [].
  - apply skip0_upsert; [exact IH|]. intros _. reflexivity.
  - eapply orch_skip0; eauto.
  - apply orun_skip0. exact IH.
Qed.

(* the files of ResumeExec.reachv are written files *)
Lemma goodk_skip0 k f : goodk k f -> skip0 f.
Proof. intros G. exact (k_skip0 _ _ G). Qed.

(* ---- C03 and parallel steps: the boundary --------------------------------------------------------------
   Two parallel steps p1 (id 1) and p2 (id 2), ncpu = 2.  p1 is started and writes its in-flight record;
   p2 is started, runs and completes with exit 0; the invocation is killed while p1 still runs.  The file
   then reads  1,p1,-1  2,p2,0  and step_next answers 3: a resumed invocation starts at step 3, so the
   interrupted step p1 is NOT executed again - the clause "re-executes an interrupted step" holds for
   sequential invocations only (which is what the property says); the record with exit -1 stays in the
   file and is counted as a failure by the report. *)
Definition par_p1 : bytes := [112; 49]%N.
Definition par_p2 : bytes := [112; 50]%N.
Definition par_steps : list pstep :=
  [mkpstep 1 par_p1 true 0; mkpstep 2 par_p2 true 0; mkpstep 3 END false 0].
Definition par_sched : list action := [AMain; AMain; AJob 1; AJob 2; AJob 2].
Definition par_names (i : Z) : bytes := if i =? 1 then par_p1 else par_p2.
Definition par_crashed : ostate := orun 2 (fun _ => 0) par_names (oinit par_steps []) par_sched.

Theorem parallel_resume_skips_inflight :
  sfile_ par_crashed = [mkrow 1 par_p1 (-1) 0; mkrow 2 par_p2 0 0] /\
  running par_crashed = [(1, JRunning)] /\
  step_next (sfile_ par_crashed) = Some 3 /\
  ~ resume_ok (sfile_ par_crashed) 3 /\
  (forall steps g ex, StronglySorted (fun a b => sid a < sid b) steps ->
     In (g, ex) (orch (from_step 3 steps) (sfile_ par_crashed)) -> ~ In 1 ex).
Proof.
  split; [vm_compute; reflexivity|]. split; [vm_compute; reflexivity|]. split; [vm_compute; reflexivity|].
  split.
  - intros [Hlow _]. specialize (Hlow (mkrow 1 par_p1 (-1) 0)).
    assert (Hin : In (mkrow 1 par_p1 (-1) 0) (sfile_ par_crashed)) by (vm_compute; now left).
    destruct (Hlow Hin eq_refl ltac:(cbn; lia)) as [H _]. discriminate H.
  - intros steps g ex Hs Hin H1. apply (orch_ex_ids _ _ _ _ Hin) in H1.
    apply in_map_iff in H1. destruct H1 as [s [E Hs']].
    destruct (from_step_ge 3 steps Hs) as [Hge _]. rewrite Forall_forall in Hge.
    specialize (Hge s Hs'). lia.
Qed.
