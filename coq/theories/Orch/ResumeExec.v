(* ResumeExec.v - C03 at the level of what a resumed invocation EXECUTES, for schedules whose
   names may repeat and whose exit codes may change from one attempt to the next.

   ResumeProofs.v proves the invariant [good] for one fixed list of configured steps with
   distinct names and one fixed exit code per step ([wf_steps], [reach]).  Here:

   - the schedule enters only through its SKELETON (id, name): every fresh or resumed run may
     come with its own exit codes ("failed, repaired by the operator, resumed, now succeeds");
   - names may repeat (canvas and regress configurations are accepted with a repeated name):
     [wf_skel] only asks for ascending ids.  What NoDup was used for is replaced by an
     invariant of the files themselves ([k_live]: a record that is not a skip record never
     carries a name that is marked skipped);
   - [k_cover]: below a record that is not a skip record every configured step is marked
     skipped or has such a record - needed for "never starts beyond it";
   - [k_skip0]: skip records carry exit 0 (hypothesis [skipped_exit0] of C05's status theorem);
   - [resumed_run_executes], [resume_reexecutes]: the statements about the ids the resumed
     loop executes (the [ex] component of [orch]). *)
From Robsd Require Import Orch.ResumeDefs Orch.ResumeSpec Orch.ResumeProofs.
From Coq Require Import Sorting.Sorted.
Local Open Scope Z_scope.

Definition wf_skel (k : skel) : Prop := StronglySorted (fun a b => fst a < fst b) k.

(* ---- upsert and skipped without any assumption on the order of the rows ------------------- *)

Lemma In_upsert_weak x f r : In r (upsert x f) -> r = x \/ In r f.
Proof.
  induction f as [|y f IH]; cbn [upsert].
  - intros [<-|[]]. now left.
  - destruct (r_id x =? r_id y).
    + intros [<-|H]; [now left|right; now right].
    + destruct (r_id x <? r_id y).
      * intros [<-|H]; [now left|now right].
      * intros [<-|H]; [right; now left|]. destruct (IH H) as [->|H']; [now left|right; now right].
Qed.

Lemma In_upsert_new x f : In x (upsert x f).
Proof.
  induction f as [|y f IH]; cbn [upsert]; [now left|].
  destruct (r_id x =? r_id y); [now left|]. destruct (r_id x <? r_id y); [now left|now right].
Qed.

Lemma In_upsert_keep x f r : In r f -> r_id r <> r_id x -> In r (upsert x f).
Proof.
  induction f as [|y f IH]; [intros []|]. intros [->|Hin] Hne; cbn [upsert].
  - destruct (Z.eqb_spec (r_id x) (r_id r)); [congruence|].
    destruct (r_id x <? r_id r); [right|]; now left.
  - destruct (r_id x =? r_id y); [now right|]. destruct (r_id x <? r_id y); [right; now right|].
    right. now apply IH.
Qed.

(* rows that share the id of [x] share its name (the step file never renames an id) *)
Definition same_id_same_name (x : srow) (f : sfile) : Prop :=
  forall r, In r f -> r_id r = r_id x -> r_name r = r_name x.

Lemma skipped_upsert_other x f n :
  same_id_same_name x f -> r_name x <> n -> skipped (upsert x f) n = skipped f n.
Proof.
  intros Hc Hn. assert (Hx : beq (r_name x) n = false) by (destruct (beq_spec (r_name x) n); congruence).
  induction f as [|y f IH]; cbn [upsert skipped]; [now rewrite Hx|].
  destruct (Z.eqb_spec (r_id x) (r_id y)) as [E|E].
  - cbn [skipped]. rewrite Hx. rewrite (Hc y (or_introl eq_refl) (eq_sym E)), Hx. reflexivity.
  - destruct (r_id x <? r_id y); cbn [skipped]; [now rewrite Hx|].
    rewrite IH; [reflexivity|]. intros r Hr. apply Hc. now right.
Qed.

Lemma skipped_upsert_same x f :
  same_id_same_name x f -> r_skip x <> 1 -> skipped f (r_name x) = false ->
  skipped (upsert x f) (r_name x) = false.
Proof.
  intros Hc Hs. apply Z.eqb_neq in Hs.
  induction f as [|y f IH]; cbn [upsert skipped]; [now rewrite beq_refl|].
  destruct (Z.eqb_spec (r_id x) (r_id y)) as [E|E].
  - intros _. cbn [skipped]. now rewrite beq_refl.
  - destruct (r_id x <? r_id y); cbn [skipped]; [now rewrite beq_refl|].
    destruct (beq (r_name y) (r_name x)); [auto|]. apply IH. intros r Hr. apply Hc. now right.
Qed.

Lemma skipped_upsert x f :
  same_id_same_name x f -> r_skip x <> 1 -> skipped f (r_name x) = false ->
  forall n, skipped (upsert x f) n = skipped f n.
Proof.
  intros Hc Hs Hf n. destruct (beq_spec (r_name x) n) as [<-|Hn].
  - rewrite Hf. now apply skipped_upsert_same.
  - now apply skipped_upsert_other.
Qed.

(* ---- the skeleton ------------------------------------------------------------------------------ *)

Lemma skel_fun k i n n' : wf_skel k -> In (i, n) k -> In (i, n') k -> n = n'.
Proof.
  induction 1 as [|s k Hs IH Hall]; [intros []|]. rewrite Forall_forall in Hall.
  intros [->|H1] [E|H2].
  - congruence.
  - specialize (Hall _ H2). cbn in Hall. lia.
  - subst s. specialize (Hall _ H1). cbn in Hall. lia.
  - auto.
Qed.

Lemma skel_split_lt (done : skel) s0 rest :
  wf_skel (done ++ s0 :: rest) ->
  Forall (fun s => fst s < fst s0) done /\ Forall (fun s => fst s0 < fst s) rest /\ wf_skel (s0 :: rest).
Proof.
  induction done as [|d done IH]; cbn [app]; intros H.
  - inversion H; subst. repeat split; [constructor|assumption|exact H].
  - inversion H as [|? ? Hs Hall]; subst. destruct (IH Hs) as [H1 [H2 H3]].
    split; [|split; assumption]. constructor; [|exact H1].
    rewrite Forall_forall in Hall. apply (Hall s0). apply in_or_app. right. now left.
Qed.

Lemma skel_In_lt (done : skel) s0 rest s :
  wf_skel (done ++ s0 :: rest) -> In s (done ++ s0 :: rest) -> fst s < fst s0 -> In s done.
Proof.
  intros W Hin Hlt. destruct (skel_split_lt done s0 rest W) as [_ [H2 _]].
  apply in_app_or in Hin. destruct Hin as [Hin|[<-|Hin]]; [exact Hin|lia|].
  rewrite Forall_forall in H2. specialize (H2 _ Hin). lia.
Qed.

(* ---- the invariant ------------------------------------------------------------------------------- *)

Definition has_record (f : sfile) (j : Z) : Prop :=
  exists r, In r f /\ r_id r = j /\ nonskip r = true.

(* a configured step is accounted for: marked skipped, or it has a record that is not a skip record *)
Definition handled (f : sfile) (s : Z * bytes) : Prop :=
  skipped f (snd s) = true \/ has_record f (fst s).

Record goodk (k : skel) (f : sfile) : Prop := mkgoodk {
  k_asc : ids_asc f;
  k_names : forall r, In r f -> In (r_id r, r_name r) k;
  k_prefix : forall r1 r2, In r1 f -> In r2 f -> nonskip r1 = true -> nonskip r2 = true ->
               r_id r1 < r_id r2 -> r_exit r1 = 0 /\ beq (r_name r1) END = false;
  k_live : forall r, In r f -> nonskip r = true -> skipped f (r_name r) = false;
  k_cover : forall r s, In r f -> nonskip r = true -> In s k -> fst s < r_id r -> handled f s;
  k_skip0 : forall r, In r f -> r_skip r = 1 -> r_exit r = 0;
}.

Lemma goodk_good steps f : goodk (skel_of steps) f -> good steps f.
Proof.
  intros G. constructor; [apply (k_asc _ _ G)| |apply (k_prefix _ _ G)].
  intros r Hr. pose proof (k_names _ _ G r Hr) as H. apply in_map_iff in H.
  destruct H as [[[i n] e] [E H]]. cbn in E. injection E as -> ->. now exists e.
Qed.

Lemma goodk_same_name k f i name ex sk :
  wf_skel k -> goodk k f -> In (i, name) k -> same_id_same_name (mkrow i name ex sk) f.
Proof.
  intros W G Hk r Hr E. cbn [r_id r_name] in *. pose proof (k_names _ _ G r Hr) as H. rewrite E in H.
  apply (skel_fun k i _ _ W H Hk).
Qed.

Lemma handled_upsert f s i name ex :
  (forall n, skipped (upsert (mkrow i name ex 0) f) n = skipped f n) ->
  handled f s -> handled (upsert (mkrow i name ex 0) f) s.
Proof.
  intros Hsk [H|[r [Hr [E N]]]]; [left; now rewrite Hsk|right].
  destruct (Z.eq_dec (fst s) i) as [Ei|Ei].
  - exists (mkrow i name ex 0). split; [apply In_upsert_new|]. split; [now rewrite Ei|reflexivity].
  - exists r. split; [apply In_upsert_keep; [exact Hr|cbn [r_id]; lia]|]. now split.
Qed.

(* one robsd-step -W for the step at the head of what is left of the schedule *)
Lemma goodk_upsert k (done : skel) i name rest f ex :
  wf_skel k -> k = done ++ (i, name) :: rest -> goodk k f -> Forall (handled f) done ->
  bound f i -> below f i -> skipped f name = false ->
  let g := upsert (mkrow i name ex 0) f in
  goodk k g /\ (forall n, skipped g n = skipped f n) /\ Forall (handled g) done /\ has_record g i.
Proof.
  intros W Hk G Hd Hb Hl Hsk g.
  assert (Hin : In (i, name) k) by (rewrite Hk; apply in_or_app; right; now left).
  assert (Hconst : forall n, skipped g n = skipped f n).
  { apply skipped_upsert; [eapply goodk_same_name; eauto|cbn; lia|exact Hsk]. }
  assert (Hd' : Forall (handled g) done).
  { eapply Forall_impl; [|exact Hd]. intros s. now apply handled_upsert. }
  split; [|split; [exact Hconst|split; [exact Hd'|]]].
  - constructor.
    + apply upsert_asc, (k_asc _ _ G).
    + intros r Hr. apply In_upsert_weak in Hr. destruct Hr as [->|Hr]; [exact Hin|apply (k_names _ _ G r Hr)].
    + intros r1 r2 H1 H2 N1 N2 Hlt.
      apply In_upsert in H1; [|apply (k_asc _ _ G)]. apply In_upsert in H2; [|apply (k_asc _ _ G)].
      destruct H1 as [->|[H1 _]], H2 as [->|[H2 _]]; cbn [r_id r_exit r_name] in *.
      * lia.
      * specialize (Hb r2 H2 N2). lia.
      * apply (Hl r1 H1 N1 Hlt).
      * apply (k_prefix _ _ G r1 r2); auto.
    + intros r Hr N. rewrite Hconst. apply In_upsert_weak in Hr.
      destruct Hr as [->|Hr]; [exact Hsk|apply (k_live _ _ G r Hr N)].
    + intros r s Hr N Hs Hlt.
      assert (Hri : r_id r <= i).
      { apply In_upsert_weak in Hr. destruct Hr as [->|Hr]; [cbn; lia|apply (Hb r Hr N)]. }
      rewrite Forall_forall in Hd'. apply Hd'. rewrite Hk in W, Hs.
      apply (skel_In_lt done (i, name) rest s W Hs). cbn [fst]. lia.
    + intros r Hr Hs1. apply In_upsert_weak in Hr.
      destruct Hr as [->|Hr]; [cbn in Hs1; lia|apply (k_skip0 _ _ G r Hr Hs1)].
  - exists (mkrow i name ex 0). split; [apply In_upsert_new|]. split; reflexivity.
Qed.

(* a step marked skipped has no record that is not a skip record *)
Lemma skipped_no_record_k k f i name :
  wf_skel k -> goodk k f -> In (i, name) k -> skipped f name = true ->
  forall r, In r f -> nonskip r = true -> r_id r <> i.
Proof.
  intros W G Hk Hsk r Hr N E. pose proof (k_names _ _ G r Hr) as H. rewrite E in H.
  rewrite <- (skel_fun k i _ _ W H Hk) in Hsk. rewrite (k_live _ _ G r Hr N) in Hsk. discriminate.
Qed.

Theorem orch_goodk k : wf_skel k ->
  forall rest (done : skel) f, k = done ++ skel_of rest -> goodk k f -> Forall (handled f) done ->
  (match rest with s0 :: _ => bound f (sid s0) /\ below f (sid s0) | [] => True end) ->
  forall g ex, In (g, ex) (orch rest f) -> goodk k g.
Proof.
  intros W. induction rest as [|[[i name] e] rest IH]; intros done f Hk G Hd Hpre g ex Hin; [destruct Hin|].
  destruct Hpre as [Hb Hl]. unfold sid in Hb, Hl. cbn [fst] in Hb, Hl.
  cbn [skel_of map fst] in Hk. fold (skel_of rest) in Hk.
  assert (Hst : In (i, name) k) by (rewrite Hk; apply in_or_app; right; now left).
  assert (Hk' : k = (done ++ [(i, name)]) ++ skel_of rest) by (rewrite <- app_assoc; exact Hk).
  assert (Hnext : forall s1 rest', rest = s1 :: rest' -> i < sid s1).
  { intros s1 rest' ->. pose proof W as W'. rewrite Hk in W'.
    destruct (skel_split_lt done (i, name) (skel_of (s1 :: rest')) W') as [_ [H2 _]].
    inversion H2; subst. assumption. }
  cbn [orch] in Hin.
  destruct (skipped f name) eqn:Esk.
  - apply (IH (done ++ [(i, name)]) f Hk' G) with (ex := ex); [| |exact Hin].
    + apply Forall_app. split; [exact Hd|]. constructor; [|constructor]. left. exact Esk.
    + destruct rest as [|s1 rest']; [exact I|]. specialize (Hnext s1 rest' eq_refl).
      pose proof (skipped_no_record_k k f i name W G Hst Esk) as Hno. split.
      * intros r Hr N. specialize (Hb r Hr N). lia.
      * intros r Hr N Hlt. specialize (Hb r Hr N). specialize (Hno r Hr N). apply (Hl r Hr N). lia.
  - destruct (beq name END) eqn:Eend.
    + destruct Hin as [Hin|[]]. injection Hin as <- <-.
      apply (goodk_upsert k done i name (skel_of rest) f 0 W Hk G Hd Hb Hl Esk).
    + destruct (goodk_upsert k done i name (skel_of rest) f (-1) W Hk G Hd Hb Hl Esk) as [G1 [S1 [D1 _]]].
      set (f1 := upsert (mkrow i name (-1) 0) f) in *.
      assert (B1 : bound f1 i) by (apply bound_upsert; [apply (k_asc _ _ G)|exact Hb|lia]).
      assert (L1 : below f1 i) by (apply below_upsert_same; [apply (k_asc _ _ G)|exact Hl]).
      assert (E1 : skipped f1 name = false) by (rewrite S1; exact Esk).
      destruct (goodk_upsert k done i name (skel_of rest) f1 e W Hk G1 D1 B1 L1 E1) as [G2 [S2 [D2 R2]]].
      set (f2 := upsert (mkrow i name e 0) f1) in *.
      destruct Hin as [Hin|[Hin|Hin]].
      * injection Hin as <- <-. exact G1.
      * injection Hin as <- <-. exact G2.
      * destruct (Z.eqb_spec e 0) as [->|Ene]; [|destruct Hin].
        apply in_map_iff in Hin. destruct Hin as [[g' ex'] [Heq Hin]]. injection Heq as <- <-.
        apply (IH (done ++ [(i, name)]) f2 Hk' G2) with (ex := ex'); [| |exact Hin].
        -- apply Forall_app. split; [exact D2|]. constructor; [|constructor]. right. exact R2.
        -- destruct rest as [|s1 rest']; [exact I|]. specialize (Hnext s1 rest' eq_refl). split.
           ++ apply bound_upsert; [apply (k_asc _ _ G1)|exact B1|lia].
           ++ apply below_upsert_done; auto. apply (k_asc _ _ G1).
Qed.

(* ---- what the loop executes: facts that need no invariant ----------------------------------------- *)

Lemma orch_ex_ids rest : forall f g ex, In (g, ex) (orch rest f) -> incl ex (map sid rest).
Proof.
  induction rest as [|[[i name] e] rest IH]; intros f g ex Hin; [destruct Hin|].
  cbn [orch] in Hin. cbn [map]. unfold sid at 1. cbn [fst].
  destruct (skipped f name).
  - apply incl_tl. eapply IH. exact Hin.
  - destruct (beq name END).
    + destruct Hin as [Hin|[]]. injection Hin as <- <-. intros x [].
    + destruct Hin as [Hin|[Hin|Hin]].
      * injection Hin as <- <-. intros x [].
      * injection Hin as <- <-. intros x [<-|[]]. now left.
      * destruct (e =? 0); [|destruct Hin]. apply in_map_iff in Hin.
        destruct Hin as [[g' ex'] [Heq Hin]]. injection Heq as <- <-.
        intros x [<-|Hx]; [now left|right]. eapply IH; eauto.
Qed.

Lemma orch_ex_sorted rest : StronglySorted (fun a b => sid a < sid b) rest ->
  forall f g ex, In (g, ex) (orch rest f) -> StronglySorted Z.lt ex.
Proof.
  induction 1 as [|[[i name] e] rest Hs IH Hall]; intros f g ex Hin; [destruct Hin|].
  cbn [orch] in Hin.
  destruct (skipped f name); [eapply IH; exact Hin|].
  destruct (beq name END).
  - destruct Hin as [Hin|[]]. injection Hin as <- <-. constructor.
  - destruct Hin as [Hin|[Hin|Hin]].
    + injection Hin as <- <-. constructor.
    + injection Hin as <- <-. repeat constructor.
    + destruct (e =? 0); [|destruct Hin]. apply in_map_iff in Hin.
      destruct Hin as [[g' ex'] [Heq Hin]]. injection Heq as <- <-.
      constructor; [eapply IH; exact Hin|].
      apply Forall_forall. intros x Hx. apply (orch_ex_ids rest _ _ _ Hin) in Hx.
      apply in_map_iff in Hx. destruct Hx as [s [<- Hs']]. rewrite Forall_forall in Hall.
      apply (Hall s Hs').
Qed.

(* the first step executed: everything configured before it in what is left of the schedule is
   marked skipped *)
Lemma orch_first rest : forall f g i ex', In (g, i :: ex') (orch rest f) ->
  exists pre n e post, rest = pre ++ (i, n, e) :: post /\
    Forall (fun s => skipped f (sname s) = true) pre /\ skipped f n = false /\ beq n END = false.
Proof.
  induction rest as [|[[j name] e] rest IH]; intros f g i ex' Hin; [destruct Hin|].
  cbn [orch] in Hin. destruct (skipped f name) eqn:Esk.
  - destruct (IH f g i ex' Hin) as [pre [n [e' [post [-> [Hp [Hn He]]]]]]].
    exists ((j, name, e) :: pre), n, e', post. split; [reflexivity|]. split; [|now split].
    constructor; [exact Esk|exact Hp].
  - destruct (beq name END) eqn:Eend.
    + destruct Hin as [Hin|[]]. discriminate Hin.
    + assert (E : i = j).
      { destruct Hin as [Hin|[Hin|Hin]]; [discriminate Hin|now injection Hin|].
        destruct (e =? 0); [|destruct Hin]. apply in_map_iff in Hin.
        destruct Hin as [[g' ex''] [Heq _]]. now injection Heq. }
      subst j. exists [], name, e, rest. repeat split; [constructor|exact Esk|exact Eend].
Qed.

(* the schedule from step x on, for ascending ids *)
Lemma from_step_ge x steps : StronglySorted (fun a b => sid a < sid b) steps ->
  Forall (fun s => x <= sid s) (from_step x steps) /\
  StronglySorted (fun a b => sid a < sid b) (from_step x steps).
Proof.
  induction 1 as [|[[i n] e] steps Hs IH Hall]; [split; constructor|].
  cbn [from_step]. destruct (Z.ltb_spec i x); [exact IH|]. split; [|constructor; assumption].
  constructor; [exact H|]. eapply Forall_impl; [|exact Hall]. unfold sid. cbn. intros; lia.
Qed.

Lemma from_step_head x n e steps : StronglySorted (fun a b => sid a < sid b) steps ->
  In (x, n, e) steps -> exists rest, from_step x steps = (x, n, e) :: rest.
Proof.
  induction 1 as [|[[i n'] e'] steps Hs IH Hall]; [intros []|]. rewrite Forall_forall in Hall.
  cbn [from_step]. intros [E|Hin].
  - injection E as -> -> ->. rewrite Z.ltb_irrefl. now exists steps.
  - specialize (Hall _ Hin). unfold sid in Hall. cbn in Hall.
    destruct (Z.ltb_spec i x); [now apply IH|lia].
Qed.

Lemma wf_skel_steps steps : wf_skel (skel_of steps) -> StronglySorted (fun a b => sid a < sid b) steps.
Proof.
  unfold wf_skel, skel_of. induction steps as [|s steps IH]; [constructor|]. cbn [map]. intros H.
  inversion H as [|? ? Hs Hall]; subst. constructor; [auto|].
  rewrite Forall_forall in *. intros y Hy. apply (Hall (fst y)). now apply in_map.
Qed.

(* ---- the resume point against the invariant ----------------------------------------------------------- *)

Lemma step_next_witness f x : ids_asc f -> step_next f = Some x ->
  exists r, In r f /\ nonskip r = true /\ (forall r', In r' f -> nonskip r' = true -> r_id r' <= r_id r) /\
            (x = r_id r \/ x = r_id r + 1).
Proof.
  intros Ha. rewrite step_next_spec. unfold spec_resume.
  destruct (last_nonskipped f) as [r|] eqn:El; [|discriminate].
  destruct (last_nonskipped_max f r Ha El) as [Hin [N Hmax]].
  intros H. exists r. repeat split; auto.
  destruct (negb (r_exit r =? 0) || beq (r_name r) END); injection H as <-; [now left|now right].
Qed.

(* everything configured before the resume point is accounted for, and the loop may start there *)
Lemma resume_pre steps f x :
  wf_skel (skel_of steps) -> goodk (skel_of steps) f -> step_next f = Some x ->
  exists done, steps = done ++ from_step x steps /\ Forall (fun s => sid s < x) done /\
    Forall (handled f) (skel_of done) /\
    (match from_step x steps with s0 :: _ => bound f (sid s0) /\ below f (sid s0) | [] => True end).
Proof.
  intros W G Hx. destruct (from_step_suffix x steps) as [done [Hsplit [Hdone Hhead]]].
  exists done. split; [exact Hsplit|]. split; [exact Hdone|].
  destruct (step_next_witness f x (k_asc _ _ G) Hx) as [rl [Hrl [Nl [Hmax Hxl]]]].
  destruct (resume_point_ok steps f x (goodk_good _ _ G) Hx) as [Hlow Hhigh].
  split.
  - apply Forall_forall. intros s Hs. apply in_map_iff in Hs. destruct Hs as [c [<- Hc]].
    rewrite Forall_forall in Hdone. specialize (Hdone c Hc). unfold sid in Hdone.
    assert (Hk : In (fst c) (skel_of steps)).
    { unfold skel_of. apply in_map. rewrite Hsplit. apply in_or_app. now left. }
    destruct (Z_lt_ge_dec (fst (fst c)) (r_id rl)) as [Hlt|Hge].
    + apply (k_cover _ _ G rl (fst c) Hrl Nl Hk Hlt).
    + right. exists rl. repeat split; auto. lia.
  - destruct (from_step x steps) as [|s0 rest] eqn:Ef; [exact I|].
    assert (Hat : forall r, In r f -> nonskip r = true -> x <= r_id r -> r_id r = sid s0).
    { intros r Hr N Hge. destruct (Hhigh r Hr N Hge) as [E _].
      pose proof (k_names _ _ G r Hr) as Hst. apply in_map_iff in Hst.
      destruct Hst as [c [Ec Hc]]. rewrite Hsplit in Hc. apply in_app_or in Hc. destruct Hc as [Hc|Hc].
      - rewrite Forall_forall in Hdone. specialize (Hdone _ Hc). unfold sid in Hdone.
        rewrite Ec in Hdone. cbn in Hdone. lia.
      - destruct Hc as [->|Hc]; [unfold sid; rewrite Ec; reflexivity|].
        pose proof (wf_skel_steps steps W) as Hs. destruct (from_step_ge x steps Hs) as [_ Hs0].
        rewrite Ef in Hs0. inversion Hs0 as [|? ? _ Hall]; subst. rewrite Forall_forall in Hall.
        specialize (Hall _ Hc). unfold sid in *. rewrite Ec in Hall. cbn in Hall. lia. }
    split.
    + intros r Hr N. destruct (Z_lt_ge_dec (r_id r) x); [lia|]. rewrite (Hat r Hr N); lia.
    + intros r Hr N Hlt. destruct (Z_lt_ge_dec (r_id r) x) as [Hl|Hg]; [apply (Hlow r Hr N Hl)|].
      rewrite (Hat r Hr N) in Hlt; lia.
Qed.

(* ---- skip records written again by a resumed invocation ---------------------------------------------------
   The entry scripts write the skip records whenever the invocation starts at step 1 - also a resumed one
   whose resume point is 1, and then for ITS skip set (configuration plus -s options), which may differ from
   that of the first invocation. *)
Definition reskip (sk : skel) (f : sfile) : sfile :=
  fold_left (fun f s => upsert (mkrow (fst s) (snd s) 0 1) f) sk f.

Lemma asc_head f r : ids_asc f -> In r f -> (forall r', In r' f -> r_id r <= r_id r') -> exists tl, f = r :: tl.
Proof.
  intros Ha Hin Hmin. destruct f as [|y f]; [destruct Hin|]. destruct Hin as [->|Hin]; [now exists f|].
  inversion Ha as [|? ? _ Hall]; subst. rewrite Forall_forall in Hall. specialize (Hall r Hin).
  specialize (Hmin y (or_introl eq_refl)). lia.
Qed.

Lemma goodk_skip_upsert k f i n :
  wf_skel k -> (forall s, In s k -> 1 <= fst s) -> goodk k f ->
  (forall r, In r f -> nonskip r = true -> r_id r = 1) -> In (i, n) k ->
  goodk k (upsert (mkrow i n 0 1) f) /\
  (forall r, In r (upsert (mkrow i n 0 1) f) -> nonskip r = true -> r_id r = 1).
Proof.
  intros W Hge G H1 Hin. set (g := upsert (mkrow i n 0 1) f).
  assert (Hold : forall r, In r g -> nonskip r = true -> In r f /\ r_id r <> i).
  { intros r Hr N. apply In_upsert in Hr; [|apply (k_asc _ _ G)].
    destruct Hr as [->|Hr]; [discriminate N|exact Hr]. }
  assert (Hnames : forall r, In r g -> In (r_id r, r_name r) k).
  { intros r Hr. apply In_upsert_weak in Hr. destruct Hr as [->|Hr]; [exact Hin|apply (k_names _ _ G r Hr)]. }
  assert (Hasc : ids_asc g) by apply upsert_asc, (k_asc _ _ G).
  assert (Hone : forall r, In r g -> nonskip r = true -> r_id r = 1).
  { intros r Hr N. destruct (Hold r Hr N) as [Hf _]. now apply H1. }
  split; [|exact Hone]. constructor.
  - exact Hasc.
  - exact Hnames.
  - intros r1 r2 Hr1 Hr2 N1 N2 Hlt. rewrite (Hone r1 Hr1 N1), (Hone r2 Hr2 N2) in Hlt. lia.
  - intros r Hr N. destruct (asc_head g r Hasc Hr) as [tl E].
    + intros r' Hr'. rewrite (Hone r Hr N). apply (Hge _ (Hnames r' Hr')).
    + rewrite E. cbn [skipped]. rewrite beq_refl. unfold nonskip in N. now apply negb_true_iff in N.
  - intros r s Hr N Hs Hlt. rewrite (Hone r Hr N) in Hlt. specialize (Hge s Hs). lia.
  - intros r Hr Hs. apply In_upsert_weak in Hr. destruct Hr as [->|Hr]; [reflexivity|apply (k_skip0 _ _ G r Hr Hs)].
Qed.

Lemma goodk_reskip k sk : wf_skel k -> (forall s, In s k -> 1 <= fst s) -> incl sk k ->
  forall f, goodk k f -> (forall r, In r f -> nonskip r = true -> r_id r = 1) -> goodk k (reskip sk f).
Proof.
  intros W Hge. induction sk as [|[i n] sk IH]; intros Hsk f G H1; [exact G|].
  cbn [reskip fold_left fst snd]. fold (reskip sk (upsert (mkrow i n 0 1) f)).
  destruct (goodk_skip_upsert k f i n W Hge G H1 (Hsk _ (or_introl eq_refl))) as [G' H1'].
  apply IH; auto. intros s Hs. apply Hsk. now right.
Qed.

Lemma resume_at_first k f : (forall s, In s k -> 1 <= fst s) -> goodk k f -> step_next f = Some 1 ->
  forall r, In r f -> nonskip r = true -> r_id r = 1.
Proof.
  intros Hge G Hx r Hr N.
  destruct (step_next_witness f 1 (k_asc _ _ G) Hx) as [rl [Hrl [Nl [Hmax Hxl]]]].
  pose proof (Hge _ (k_names _ _ G rl Hrl)) as H1. pose proof (Hge _ (k_names _ _ G r Hr)) as H2.
  cbn [fst] in H1, H2. specialize (Hmax r Hr N). lia.
Qed.

(* ---- fresh runs, crashes and resumed runs, exit codes free at every attempt ------------------------------ *)

Section ReachV.
  Variable k : skel.
  Hypothesis W : wf_skel k.

  (* what the entry script writes before the loop (step_write -S ... -e 0): skip records only, exit 0 *)
  Definition skip_only0 (f : sfile) : Prop :=
    ids_asc f /\ (forall r, In r f -> r_skip r = 1 /\ r_exit r = 0) /\
    (forall r, In r f -> In (r_id r, r_name r) k).

  Lemma skip_only0_nonskip f r : skip_only0 f -> In r f -> nonskip r = true -> False.
  Proof. intros [_ [H _]] Hr N. destruct (H r Hr) as [E _]. unfold nonskip in N. rewrite E in N. discriminate. Qed.

  Lemma skip_only0_goodk f : skip_only0 f -> goodk k f.
  Proof.
    intros S. pose proof (fun r => skip_only0_nonskip f r S) as Hno. destruct S as [Ha [Hs Hn]]. constructor; auto.
    - intros r1 r2 H1 _ N1. exfalso. eapply Hno; eauto.
    - intros r Hr N. exfalso. eapply Hno; eauto.
    - intros r s Hr N. exfalso. eapply Hno; eauto.
    - intros r Hr _. apply (Hs r Hr).
  Qed.

  (* every file a crash (between two step-file writes) can leave: during a fresh run, or during a run
     resumed from such a file, any number of times; the steps of every run have the ids and names of the
     configuration and ANY exit codes *)
  Inductive reachv : sfile -> Prop :=
  | rv_init f : skip_only0 f -> reachv f
  | rv_fresh f steps g ex :
      skip_only0 f -> skel_of steps = k -> In (g, ex) (orch steps f) -> reachv g
  | rv_resume f x steps g ex :
      reachv f -> step_next f = Some x -> skel_of steps = k ->
      In (g, ex) (orch (from_step x steps) f) -> reachv g
  (* an invocation resumed at step 1 writes the skip records of ITS skip set [sk] first (ids start at 1);
     killed after that, or going on with the loop: rv_resume when the record of step 1 is still there,
     rv_fresh when it was turned into a skip record *)
  | rv_reskip f sk :
      reachv f -> step_next f = Some 1 -> (forall s, In s k -> 1 <= fst s) -> incl sk k ->
      reachv (reskip sk f).

  Theorem reachv_goodk f : reachv f -> goodk k f.
  Proof.
    induction 1 as [f Hs|f steps g ex Hs Hk Hin|f x steps g ex Hreach IH Hx Hk Hin|f sk Hreach IH Hx Hge Hsk].
    4: { apply goodk_reskip; auto. now apply (resume_at_first k). }
    - now apply skip_only0_goodk.
    - apply (orch_goodk k W steps [] f (eq_sym Hk) (skip_only0_goodk f Hs) (Forall_nil _)) with (ex := ex); [|exact Hin].
      destruct steps as [|s0 rest]; [exact I|].
      split; intros r Hr N; exfalso; eapply skip_only0_nonskip; eauto.
    - assert (W' : wf_skel (skel_of steps)) by (rewrite Hk; exact W).
      assert (IH' : goodk (skel_of steps) f) by (rewrite Hk; exact IH).
      destruct (resume_pre steps f x W' IH' Hx) as [done [Hsplit [_ [Hd Hpre]]]].
      apply (orch_goodk k W (from_step x steps) (skel_of done) f) with (ex := ex); auto.
      transitivity (skel_of (done ++ from_step x steps)); [rewrite <- Hsplit; exact (eq_sym Hk)|apply map_app].
  Qed.
End ReachV.

(* ---- what a resumed invocation executes -------------------------------------------------------------------- *)

(* a step completed successfully: it has a record that is not a skip record, with exit 0, and it is
   not the end step *)
Definition completed (f : sfile) (j : Z) : Prop :=
  exists r, In r f /\ r_id r = j /\ nonskip r = true /\ r_exit r = 0 /\ r_name r <> END.

Theorem resumed_run_executes steps f x g ex :
  wf_skel (skel_of steps) -> goodk (skel_of steps) f -> step_next f = Some x ->
  In (g, ex) (orch (from_step x steps) f) ->
  (* nothing before the resume point is executed; steps are executed in order, each at most once *)
  Forall (fun i => x <= i) ex /\ StronglySorted Z.lt ex /\
  (* a step that completed successfully is not executed again *)
  (forall j, completed f j -> ~ In j ex) /\
  (* the step whose record made x the resume point - failed or in flight - is the first one executed *)
  (forall r, In r f -> nonskip r = true -> r_id r = x -> r_name r <> END ->
     ex = [] \/ exists ex', ex = x :: ex') /\
  (* never starts beyond it: every configured step before the first executed one is marked skipped or
     completed successfully *)
  (forall i ex', ex = i :: ex' -> forall s, In s (skel_of steps) -> fst s < i ->
     skipped f (snd s) = true \/ completed f (fst s)).
Proof.
  intros W G Hx Hin.
  pose proof (wf_skel_steps steps W) as Hs.
  destruct (from_step_ge x steps Hs) as [Hge Hss].
  destruct (resume_point_ok steps f x (goodk_good _ _ G) Hx) as [Hlow Hhigh].
  assert (Hbeq : forall n, beq n END = false -> n <> END).
  { intros n E ->. rewrite beq_refl in E. discriminate. }
  assert (X1 : Forall (fun i => x <= i) ex).
  { apply Forall_forall. intros i Hi. apply (orch_ex_ids _ _ _ _ Hin) in Hi.
    apply in_map_iff in Hi. destruct Hi as [s [<- Hs']]. rewrite Forall_forall in Hge. now apply Hge. }
  split; [exact X1|]. split; [eapply orch_ex_sorted; eauto|]. split; [|split].
  - intros j [r [Hr [Ej [N [E0 Hne]]]]] Hj. rewrite Forall_forall in X1. specialize (X1 j Hj).
    destruct (Hhigh r Hr N ltac:(lia)) as [_ [H|H]]; congruence.
  - intros r Hr N Ex Hne.
    pose proof (k_names _ _ G r Hr) as Hk. apply in_map_iff in Hk. destruct Hk as [[[i n] e] [E Hc]].
    cbn in E. injection E as -> ->. rewrite Ex in Hc.
    destruct (from_step_head x (r_name r) e steps Hs Hc) as [rest Ef]. rewrite Ef in Hin.
    cbn [orch] in Hin. rewrite (k_live _ _ G r Hr N) in Hin.
    destruct (beq_spec (r_name r) END) as [E|_]; [contradiction|].
    destruct Hin as [Hin|[Hin|Hin]].
    + injection Hin as _ <-. now left.
    + injection Hin as _ <-. right. now exists [].
    + destruct (e =? 0); [|destruct Hin]. apply in_map_iff in Hin.
      destruct Hin as [[g' ex'] [Heq _]]. injection Heq as _ <-. right. now exists ex'.
  - intros i ex' -> s Hsk Hlt.
    destruct (orch_first _ _ _ _ _ Hin) as [pre [n [e [post [Ef [Hpre _]]]]]].
    destruct (resume_pre steps f x W G Hx) as [done [Hsplit [Hdone [Hd _]]]].
    assert (Hcase : In s (skel_of done) \/ In s (skel_of pre)).
    { rewrite Hsplit, Ef in Hsk. unfold skel_of in Hsk |- *. rewrite !map_app in Hsk. cbn [map fst] in Hsk.
      rewrite app_assoc in Hsk. rewrite <- map_app in Hsk.
      assert (W' : wf_skel (map fst (done ++ pre) ++ (i, n) :: map fst post)).
      { unfold wf_skel, skel_of in W. rewrite Hsplit, Ef in W. rewrite !map_app in W. cbn [map fst] in W.
        rewrite app_assoc in W. rewrite <- map_app in W. exact W. }
      pose proof (skel_In_lt _ _ _ s W' Hsk Hlt) as H. rewrite map_app in H. now apply in_app_or in H. }
    destruct Hcase as [Hc|Hc].
    + rewrite Forall_forall in Hd. destruct (Hd s Hc) as [H|[r [Hr [Ej N]]]]; [now left|right].
      apply in_map_iff in Hc. destruct Hc as [c [<- Hc]]. rewrite Forall_forall in Hdone.
      specialize (Hdone c Hc). unfold sid in Hdone.
      destruct (Hlow r Hr N ltac:(lia)) as [E0 En]. exists r. repeat split; auto.
    + left. apply in_map_iff in Hc. destruct Hc as [c [<- Hc]]. rewrite Forall_forall in Hpre.
      apply (Hpre c Hc).
Qed.

(* the resumed loop does start the interrupted or failed step again: it first rewrites its record as in
   flight, then records the new outcome, and only then goes on *)
Theorem resume_reexecutes steps f x r :
  wf_skel (skel_of steps) -> goodk (skel_of steps) f -> step_next f = Some x ->
  In r f -> nonskip r = true -> r_id r = x -> r_name r <> END ->
  exists e tl,
    In (x, r_name r, e) steps /\
    orch (from_step x steps) f =
      (upsert (mkrow x (r_name r) (-1) 0) f, []) ::
      (upsert (mkrow x (r_name r) e 0) (upsert (mkrow x (r_name r) (-1) 0) f), [x]) :: tl /\
    forall g ex, In (g, ex) tl -> exists ex', ex = x :: ex'.
Proof.
  intros W G Hx Hr N Ex Hne. pose proof (wf_skel_steps steps W) as Hs.
  pose proof (k_names _ _ G r Hr) as Hk. apply in_map_iff in Hk. destruct Hk as [[[i n] e] [E Hc]].
  cbn in E. injection E as -> ->. rewrite Ex in Hc.
  destruct (from_step_head x (r_name r) e steps Hs Hc) as [rest Ef]. rewrite Ef.
  cbn [orch]. rewrite (k_live _ _ G r Hr N).
  destruct (beq_spec (r_name r) END) as [E|_]; [contradiction|].
  eexists e, _. split; [exact Hc|]. split; [reflexivity|].
  intros g ex Hin. destruct (e =? 0); [|destruct Hin]. apply in_map_iff in Hin.
  destruct Hin as [[g' ex'] [Heq _]]. injection Heq as _ <-. now exists ex'.
Qed.

Lemma completedb_spec f j : completedb f j = true <-> completed f j.
Proof.
  unfold completedb, completed. rewrite existsb_exists. split.
  - intros [r [Hr H]]. repeat (apply andb_true_iff in H; destruct H as [H ?]).
    exists r. apply Z.eqb_eq in H. apply Z.eqb_eq in H1. apply negb_true_iff in H0.
    repeat split; auto. intros E. rewrite E, beq_refl in H0. discriminate.
  - intros [r [Hr [E [N [E0 Hne]]]]]. exists r. split; [exact Hr|].
    rewrite E, Z.eqb_refl, N, E0. cbn. destruct (beq_spec (r_name r) END); [contradiction|reflexivity].
Qed.

Theorem spec_ok_resumed_model steps f x g ex :
  wf_skel (skel_of steps) -> goodk (skel_of steps) f -> step_next f = Some x ->
  In (g, ex) (orch (from_step x steps) f) -> spec_ok_resumed (skel_of steps) f x ex = true.
Proof.
  intros W G Hx Hin.
  destruct (resumed_run_executes steps f x g ex W G Hx Hin) as [X1 [_ [X3 [X4 X5]]]].
  unfold spec_ok_resumed. repeat (apply andb_true_iff; split).
  - apply forallb_forall. intros i Hi. rewrite Forall_forall in X1. apply Z.leb_le. now apply X1.
  - apply forallb_forall. intros i Hi. apply negb_true_iff.
    destruct (completedb f i) eqn:E; [|reflexivity]. apply completedb_spec in E. elim (X3 i E Hi).
  - destruct ex as [|i ex']; [reflexivity|]. apply forallb_forall. intros s Hs.
    destruct (Z.ltb_spec (fst s) i) as [Hlt|Hge]; [|reflexivity]. cbn [negb orb].
    destruct (X5 i ex' eq_refl s Hs Hlt) as [H|H]; [now rewrite H|].
    apply completedb_spec in H. rewrite H. apply orb_true_r.
  - destruct (existsb _ f) eqn:E; [|reflexivity]. apply existsb_exists in E.
    destruct E as [r [Hr H]]. repeat (apply andb_true_iff in H; destruct H as [H ?]).
    apply Z.eqb_eq in H. apply negb_true_iff in H0.
    assert (Hne : r_name r <> END) by (intros E; rewrite E, beq_refl in H0; discriminate).
    destruct (X4 r Hr H1 H Hne) as [->|[ex' ->]]; [reflexivity|apply Z.eqb_refl].
Qed.

(* ---- the same, for every file a crash can leave ([reachv]) ----------------------------------------------------- *)

Lemma skel_of_default (k : skel) : skel_of (map (fun s => (s, 0)) k) = k.
Proof. unfold skel_of. rewrite map_map. cbn [fst]. apply map_id. Qed.

Theorem crash_resume_v k f x : wf_skel k -> reachv k f -> step_next f = Some x -> resume_ok f x.
Proof.
  intros W R. apply resume_point_ok with (steps := map (fun s => (s, 0)) k).
  apply goodk_good. rewrite skel_of_default. now apply reachv_goodk.
Qed.

Theorem resumed_run_executes_v k steps f x g ex :
  wf_skel k -> skel_of steps = k -> reachv k f -> step_next f = Some x ->
  In (g, ex) (orch (from_step x steps) f) ->
  Forall (fun i => x <= i) ex /\ StronglySorted Z.lt ex /\
  (forall j, completed f j -> ~ In j ex) /\
  (forall r, In r f -> nonskip r = true -> r_id r = x -> r_name r <> END ->
     ex = [] \/ exists ex', ex = x :: ex') /\
  (forall i ex', ex = i :: ex' -> forall s, In s k -> fst s < i ->
     skipped f (snd s) = true \/ completed f (fst s)).
Proof.
  intros W Hk R Hx Hin. subst k. apply (resumed_run_executes steps f x g ex W (reachv_goodk _ W f R) Hx Hin).
Qed.

Theorem resume_reexecutes_v k steps f x r :
  wf_skel k -> skel_of steps = k -> reachv k f -> step_next f = Some x ->
  In r f -> nonskip r = true -> r_id r = x -> r_name r <> END ->
  exists e tl,
    In (x, r_name r, e) steps /\
    orch (from_step x steps) f =
      (upsert (mkrow x (r_name r) (-1) 0) f, []) ::
      (upsert (mkrow x (r_name r) e 0) (upsert (mkrow x (r_name r) (-1) 0) f), [x]) :: tl /\
    forall g ex, In (g, ex) tl -> exists ex', ex = x :: ex'.
Proof.
  intros W Hk R Hx. subst k. apply (resume_reexecutes steps f x r W (reachv_goodk _ W f R) Hx).
Qed.

Theorem spec_ok_resumed_model_v k steps f x g ex :
  wf_skel k -> skel_of steps = k -> reachv k f -> step_next f = Some x ->
  In (g, ex) (orch (from_step x steps) f) -> spec_ok_resumed k f x ex = true.
Proof.
  intros W Hk R Hx Hin. subst k. apply (spec_ok_resumed_model steps f x g ex W (reachv_goodk _ W f R) Hx Hin).
Qed.
