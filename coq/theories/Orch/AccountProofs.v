(* AccountProofs.v - C11 on the transition system: the records, the hook calls, the report decision *)
From Robsd Require Import Orch.OrchDefs Orch.ResumeSpec Orch.ResumeProofs Orch.OrchProofs.
Local Open Scope Z_scope.

Lemma a_filter_out (l : list (Z * jphase)) i : forall j, In j (map fst (filter (fun x : Z * jphase => negb (fst x =? i)) l)) <-> In j (map fst l) /\ j <> i.
Proof.
  intros j. induction l as [|[k q] l IH]; cbn; [tauto|].
  destruct (Z.eqb_spec k i); cbn; rewrite IH; intuition congruence.
Qed.

Lemma a_set_phase (l : list (Z * jphase)) i ph : map fst (set_phase l i ph) = map fst l.
Proof.
  induction l as [|[j q] l IH]; [reflexivity|]. cbn [set_phase]. destruct (j =? i); cbn; [reflexivity|now rewrite IH].
Qed.

Lemma a_snoc {A} (l : list A) x : NoDup l -> ~ In x l -> NoDup (l ++ [x]).
Proof.
  induction 1 as [|y l Hy Hl IH]; intros Hx; cbn; [constructor; [intros []|constructor]|].
  constructor.
  - rewrite in_app_iff. intros [H|[H|[]]]; [contradiction|]. apply Hx. now left.
  - apply IH. intros H. apply Hx. now right.
Qed.

Lemma a_phase_In l i ph : phase_of l i = Some ph -> In i (map fst l).
Proof.
  induction l as [|[j q] l IH]; [discriminate|]. cbn [phase_of map fst].
  destruct (Z.eqb_spec j i); [intros _; now left|intros H; right; auto].
Qed.

Section Account.
  Variable ncpu : nat.
  Variable exit_of : Z -> Z.
  Variable name_of : Z -> bytes.

  Notation ostep := (ostep ncpu exit_of name_of).
  Notation main_step := (main_step ncpu).
  Notation job_step := (job_step exit_of name_of).
  Notation orun := (orun ncpu exit_of name_of).
  Notation OInv := (OInv ncpu exit_of).

  Definition started (s : ostate) (i : Z) : Prop := exists b, In (EStart i b) (evlog s).

  Fixpoint finishes (l : list ev) : list (Z * Z) :=
    match l with
    | [] => []
    | EFinish i e :: l' => (i, e) :: finishes l'
    | _ :: l' => finishes l'
    end.

  Fixpoint hooks (l : list ev) : list (bytes * Z) :=
    match l with
    | [] => []
    | EHook n e :: l' => (n, e) :: hooks l'
    | _ :: l' => hooks l'
    end.

  Lemma finishes_app a b : finishes (a ++ b) = finishes a ++ finishes b.
  Proof. induction a as [|x a IH]; [reflexivity|]. destruct x; cbn; rewrite ?IH; reflexivity. Qed.
  Lemma hooks_app a b : hooks (a ++ b) = hooks a ++ hooks b.
  Proof. induction a as [|x a IH]; [reflexivity|]. destruct x; cbn; rewrite ?IH; reflexivity. Qed.

  Record RInv (f0 : sfile) (s : ostate) : Prop := mkRInv {
    r_asc : ids_asc (sfile_ s);
    (* the record of a started step follows its progress *)
    r_rec : forall i, started s i ->
              match phase_of (running s) i with
              | Some JStarted => lookup (sfile_ s) i = lookup f0 i
              | Some JRunning => lookup (sfile_ s) i = Some (mkrow i (name_of i) (-1) 0)
              | None => lookup (sfile_ s) i = Some (mkrow i (name_of i) (exit_of i) 0) /\
                        In (i, exit_of i) (finishes (evlog s))
              end;
    (* records of steps that were not started are the initial ones, except the end record *)
    r_other : forall i, ~ started s i -> (forall p, In p (todo s) -> True) ->
                lookup (sfile_ s) i = lookup f0 i \/
                (mode s = ODone /\ exists r, lookup (sfile_ s) i = Some r /\ r_name r = END /\ r_exit r = 0 /\ r_skip r = 0);
    (* only running or finished steps are started; a running step has not finished *)
    r_run_started : forall i, In i (map fst (running s)) -> started s i /\ ~ In i (map fst (finishes (evlog s)));
    r_fin_once : NoDup (map fst (finishes (evlog s)));
    r_fin_started : forall i, In i (map fst (finishes (evlog s))) -> started s i;
    (* the hook is called exactly once per finished step, with its name and exit status *)
    r_hooks : hooks (evlog s) = map (fun x => (name_of (fst x), snd x)) (finishes (evlog s));
  }.

  Lemma phase_of_app l i ph j :
    phase_of (l ++ [(i, ph)]) j = match phase_of l j with Some q => Some q | None => if i =? j then Some ph else None end.
  Proof.
    induction l as [|[k q] l IH]; cbn; [destruct (i =? j); reflexivity|]. destruct (k =? j); [reflexivity|exact IH].
  Qed.

  Lemma phase_of_set l i ph j :
    phase_of (set_phase l i ph) j = match phase_of l j with Some q => if j =? i then Some ph else Some q | None => None end.
  Proof.
    induction l as [|[k q] l IH]; [reflexivity|]. cbn [set_phase phase_of].
    destruct (Z.eqb_spec k i) as [Eki|Hki]; cbn [phase_of].
    - destruct (Z.eqb_spec k j) as [Ekj|Hkj].
      + assert (E : j =? i = true) by (apply Z.eqb_eq; congruence). now rewrite E.
      + destruct (phase_of l j); [|reflexivity]. destruct (Z.eqb_spec j i); [congruence|reflexivity].
    - destruct (Z.eqb_spec k j) as [Ekj|Hkj]; [|exact IH].
      destruct (Z.eqb_spec j i); [congruence|reflexivity].
  Qed.

  Lemma phase_of_filter l i j :
    phase_of (filter (fun x : Z * jphase => negb (fst x =? i)) l) j = if j =? i then None else phase_of l j.
  Proof.
    induction l as [|[k q] l IH]; cbn; [destruct (j =? i); reflexivity|].
    destruct (Z.eqb_spec k i) as [Eki|Hki]; cbn.
    - rewrite IH. destruct (Z.eqb_spec j i) as [Eji|Hji]; [reflexivity|]. destruct (Z.eqb_spec k j); [congruence|reflexivity].
    - destruct (Z.eqb_spec k j) as [Ekj|Hkj]; [destruct (Z.eqb_spec j i); [congruence|reflexivity]|exact IH].
  Qed.

  Lemma phase_of_None l i : phase_of l i = None <-> ~ In i (map fst l).
  Proof.
    induction l as [|[k q] l IH]; cbn; [tauto|]. destruct (Z.eqb_spec k i); [split; [discriminate|intros H; elim H; now left]|].
    rewrite IH. tauto.
  Qed.

  Lemma rinv_init steps f : ids_asc f -> RInv f (oinit steps f).
  Proof.
    intros Ha. constructor; cbn; auto.
    - intros i [b []].
    - intros i [].
    - constructor.
    - intros i [].
  Qed.

  Lemma started_mono s s' i : (forall e, In e (evlog s) -> In e (evlog s')) -> started s i -> started s' i.
  Proof. intros H [b Hb]. exists b. auto. Qed.

  Lemma rinv_job f0 s i s' : OInv s -> RInv f0 s -> job_step s i = Some s' -> RInv f0 s'.
  Proof.
    intros I R H. unfold OrchDefs.job_step in H.
    destruct (phase_of (running s) i) as [[|]|] eqn:Ep; [| |discriminate]; injection H as <-.
    - (* first record *)
      constructor; cbn [todo jobs running mode sfile_ evlog].
      + apply upsert_asc, (r_asc f0 s R).
      + intros j Hj. rewrite phase_of_set. rewrite lookup_upsert by apply (r_asc f0 s R). cbn [r_id].
        pose proof (r_rec f0 s R j Hj) as Hr.
        destruct (Z.eqb_spec i j) as [<-|Hij].
        * rewrite Ep, Z.eqb_refl. reflexivity.
        * destruct (phase_of (running s) j) as [q|]; [|exact Hr].
          destruct (Z.eqb_spec j i); [congruence|]. exact Hr.
      + intros j Hj _. rewrite lookup_upsert by apply (r_asc f0 s R). cbn [r_id].
        destruct (Z.eqb_spec i j) as [<-|Hij]; [|apply (r_other f0 s R j Hj); auto].
        elim Hj. apply (r_run_started f0 s R i). eapply a_phase_In; eauto.
      + rewrite a_set_phase. apply (r_run_started f0 s R).
      + apply (r_fin_once f0 s R).
      + apply (r_fin_started f0 s R).
      + apply (r_hooks f0 s R).
    - (* completion record and hook *)
      assert (Hin : In i (map fst (running s))) by (eapply a_phase_In; eauto).
      destruct (r_run_started f0 s R i Hin) as [Hst Hnf].
      constructor; cbn [todo jobs running mode sfile_ evlog].
      + apply upsert_asc, (r_asc f0 s R).
      + intros j Hj. rewrite phase_of_filter. rewrite lookup_upsert by apply (r_asc f0 s R). cbn [r_id].
        rewrite finishes_app. cbn [finishes].
        destruct (Z.eqb_spec j i) as [->|Hji].
        * rewrite Z.eqb_refl. split; [reflexivity|]. apply in_or_app. right. now left.
        * destruct (Z.eqb_spec i j); [congruence|].
          assert (Hj' : started s j).
          { destruct Hj as [b Hb]. exists b. apply in_app_or in Hb. destruct Hb as [Hb|[Hb|[Hb|[]]]]; [exact Hb|discriminate|discriminate]. }
          pose proof (r_rec f0 s R j Hj') as Hr.
          destruct (phase_of (running s) j) as [[|]|]; auto.
          destruct Hr as [Hr1 Hr2]. split; [exact Hr1|]. apply in_or_app. now left.
      + intros j Hj _. rewrite lookup_upsert by apply (r_asc f0 s R). cbn [r_id].
        assert (Hj' : ~ started s j).
        { intros [b Hb]. apply Hj. exists b. apply in_or_app. now left. }
        destruct (Z.eqb_spec i j) as [<-|Hij]; [contradiction|]. apply (r_other f0 s R j Hj'); auto.
      + intros j Hj. apply a_filter_out in Hj. destruct Hj as [Hj Hne].
        destruct (r_run_started f0 s R j Hj) as [[b Hb] Hnfj]. split.
        * exists b. apply in_or_app. now left.
        * rewrite finishes_app, map_app. cbn. rewrite in_app_iff. intros [?|[?|[]]]; [contradiction|congruence].
      + rewrite finishes_app, map_app. cbn. apply a_snoc; [apply (r_fin_once f0 s R)|exact Hnf].
      + intros j Hj. rewrite finishes_app, map_app in Hj. cbn in Hj. apply in_app_or in Hj.
        destruct Hj as [Hj|[<-|[]]].
        * destruct (r_fin_started f0 s R j Hj) as [b Hb]. exists b. apply in_or_app. now left.
        * destruct Hst as [b Hb]. exists b. apply in_or_app. now left.
      + rewrite hooks_app, finishes_app, map_app. cbn. now rewrite (r_hooks f0 s R).
  Qed.

  Lemma rinv_main f0 s s' : OInv s -> RInv f0 s -> main_step s = Some s' -> RInv f0 s'.
  Proof.
    intros I R H. unfold OrchDefs.main_step in H.
    assert (Hleft : mode s <> ODone -> forall j, ~ started s j -> lookup (sfile_ s) j = lookup f0 j).
    { intros Hm j Hj. destruct (r_other f0 s R j Hj) as [?|[Hd _]]; auto. contradiction. }
    (* moves that touch neither the file nor the event log nor the running set *)
    assert (Hquiet : forall t j m, mode s <> ODone -> m <> ODone -> RInv f0 (mkostate t j (running s) m (sfile_ s) (evlog s))).
    { intros t j m Hm Hm'. constructor; unfold started; cbn [todo jobs running mode sfile_ evlog].
      - apply (r_asc f0 s R).
      - apply (r_rec f0 s R).
      - intros i Hi _. left. apply Hleft; auto.
      - apply (r_run_started f0 s R).
      - apply (r_fin_once f0 s R).
      - apply (r_fin_started f0 s R).
      - apply (r_hooks f0 s R). }
    (* starting step p *)
    assert (Hstart : forall p rest b j m, todo s = p :: rest -> mode s = AtHead -> m <> ODone ->
              RInv f0 (mkostate rest j (running s ++ [(p_id p, JStarted)]) m (sfile_ s) (evlog s ++ [EStart (p_id p) b]))).
    { intros p rest b j m Et Em Hm'.
      destruct (o_fresh _ _ s I p) as [Hfr [_ Hfe]]; [rewrite Et; now left|].
      assert (Hns : ~ started s (p_id p)) by (intros [b' Hb']; exact (Hfe b' Hb')).
      assert (Hmode : mode s <> ODone) by congruence.
      constructor; cbn [todo jobs running mode sfile_ evlog].
      - apply (r_asc f0 s R).
      - intros i [b' Hb']. rewrite phase_of_app. rewrite finishes_app. cbn [finishes]. rewrite app_nil_r. apply in_app_or in Hb'.
        destruct Hb' as [Hb'|[Hb'|[]]].
        + pose proof (r_rec f0 s R i (ex_intro _ b' Hb')) as Hr.
          destruct (phase_of (running s) i) as [q|] eqn:Eq; [exact Hr|].
          destruct (Z.eqb_spec (p_id p) i) as [E|E]; [|exact Hr].
          elim Hns. rewrite E. now exists b'.
        + injection Hb' as <- _. assert (Hn : phase_of (running s) (p_id p) = None) by (apply phase_of_None; exact Hfr).
          rewrite Hn, Z.eqb_refl. apply Hleft; auto.
      - intros i Hi _. left. apply Hleft; auto. intros [b' Hb']. apply Hi. exists b'. apply in_or_app. now left.
      - intros i Hi. rewrite map_app in Hi. cbn in Hi. apply in_app_or in Hi.
        rewrite finishes_app. cbn [finishes]. rewrite app_nil_r.
        destruct Hi as [Hi|[<-|[]]].
        + destruct (r_run_started f0 s R i Hi) as [[b' Hb'] Hnf]. split; [|exact Hnf]. exists b'. apply in_or_app. now left.
        + split; [exists b; apply in_or_app; right; now left|].
          intros Hf. apply Hns. apply (r_fin_started f0 s R _ Hf).
      - rewrite finishes_app. cbn. rewrite app_nil_r. apply (r_fin_once f0 s R).
      - intros i Hi. rewrite finishes_app in Hi. cbn in Hi. rewrite app_nil_r in Hi.
        destruct (r_fin_started f0 s R i Hi) as [b' Hb']. exists b'. apply in_or_app. now left.
      - rewrite hooks_app, finishes_app. cbn. rewrite !app_nil_r. apply (r_hooks f0 s R). }
    destruct (mode s) eqn:Em; try discriminate.
    - destruct (todo s) as [|p rest] eqn:Et; [discriminate|].
      destruct (skipped (sfile_ s) (p_name p)).
      + injection H as <-. apply Hquiet; discriminate.
      + destruct (p_par p).
        * destruct (Nat.eqb (length (jobs s)) ncpu).
          -- destruct (forallb (is_running s) (jobs s)); [discriminate|]. injection H as <-. apply Hquiet; discriminate.
          -- injection H as <-. apply Hstart; auto; discriminate.
        * destruct (jobs s) as [|j0 js] eqn:Ej.
          -- destruct (beq (p_name p) END) eqn:Eend.
             ++ injection H as <-.
                destruct (o_fresh _ _ s I p) as [Hfr [_ Hfe]]; [rewrite Et; now left|].
                assert (Hns : ~ started s (p_id p)) by (intros [b' Hb']; exact (Hfe b' Hb')).
                constructor; cbn [todo jobs running mode sfile_ evlog].
                ** apply upsert_asc, (r_asc f0 s R).
                ** intros i [b' Hb']. apply in_app_or in Hb'. destruct Hb' as [Hb'|[Hb'|[]]]; [|discriminate].
                   rewrite finishes_app. cbn [finishes]. rewrite app_nil_r.
                   rewrite lookup_upsert by apply (r_asc f0 s R). cbn [r_id].
                   destruct (Z.eqb_spec (p_id p) i) as [E|E]; [elim Hns; rewrite E; now exists b'|].
                   apply (r_rec f0 s R i (ex_intro _ b' Hb')).
                ** intros i Hi _. rewrite lookup_upsert by apply (r_asc f0 s R). cbn [r_id].
                   destruct (Z.eqb_spec (p_id p) i) as [E|E].
                   --- right. split; [reflexivity|]. eexists. split; [reflexivity|]. cbn. repeat split; auto. now apply beq_eq.
                   --- left. apply Hleft; [discriminate|]. intros [b' Hb']. apply Hi. exists b'. apply in_or_app. now left.
                ** intros i Hi. rewrite finishes_app. cbn. rewrite app_nil_r.
                   destruct (r_run_started f0 s R i Hi) as [[b' Hb'] Hnf]. split; [|exact Hnf]. exists b'. apply in_or_app. now left.
                ** rewrite finishes_app. cbn. rewrite app_nil_r. apply (r_fin_once f0 s R).
                ** intros i Hi. rewrite finishes_app in Hi. cbn in Hi. rewrite app_nil_r in Hi.
                   destruct (r_fin_started f0 s R i Hi) as [b' Hb']. exists b'. apply in_or_app. now left.
                ** rewrite hooks_app, finishes_app. cbn. rewrite !app_nil_r. apply (r_hooks f0 s R).
             ++ injection H as <-. apply Hstart; auto; discriminate.
          -- destruct (existsb (is_running s) (j0 :: js)); [discriminate|]. injection H as <-. apply Hquiet; discriminate.
    - destruct (is_running s i); [discriminate|]. injection H as <-.
      apply Hquiet; [discriminate|]. destruct (e =? 0); discriminate.
  Qed.

  Lemma rinv_step f0 s a s' : OInv s -> RInv f0 s -> ostep s a = Some s' -> RInv f0 s'.
  Proof. destruct a; [apply rinv_main|apply rinv_job]. Qed.

  Theorem rinv_run f0 sched : forall s, OInv s -> RInv f0 s -> OInv (orun s sched) /\ RInv f0 (orun s sched).
  Proof.
    induction sched as [|a sched IH]; intros s I R; [split; assumption|].
    cbn [OrchDefs.orun]. destruct (ostep s a) as [s'|] eqn:E; [|auto].
    apply IH; [eapply inv_step; eauto|eapply rinv_step; eauto].
  Qed.
End Account.

(* whether a step was started is decidable (the log is a finite list) *)
Lemma classic_started s i : started s i \/ ~ started s i.
Proof.
  unfold started. induction (evlog s) as [|e l IH].
  - right. intros [b []].
  - destruct IH as [[b Hb]|Hn]; [left; exists b; now right|].
    destruct e as [j b| | |].
    + destruct (Z.eq_dec j i) as [->|Hne]; [left; exists b; now left|].
      right. intros [b' [Hb'|Hb']]; [congruence|apply Hn; eauto].
    + right. intros [b' [Hb'|Hb']]; [discriminate|apply Hn; eauto].
    + right. intros [b' [Hb'|Hb']]; [discriminate|apply Hn; eauto].
    + right. intros [b' [Hb'|Hb']]; [discriminate|apply Hn; eauto].
Qed.

(* ---- statements for Properties_C04 / C11 ---------------------------------------------------------- *)
Section Reachable.
  Variable ncpu : nat.
  Variable exit_of : Z -> Z.
  Variable name_of : Z -> bytes.
  Variable steps : list pstep.
  Variable f0 : sfile.
  Hypothesis Hids : NoDup (map p_id steps).
  Hypothesis Hexit : forall p, In p steps -> p_exit p = exit_of (p_id p).
  Hypothesis Hasc : ids_asc f0.

  Definition oreach (s : ostate) : Prop := exists sched, s = orun ncpu exit_of name_of (oinit steps f0) sched.

  Lemma oreach_inv s : oreach s -> OInv ncpu exit_of s /\ RInv exit_of name_of f0 s.
  Proof.
    intros [sched ->]. apply rinv_run; [apply inv_init; assumption|apply rinv_init; assumption].
  Qed.

  Theorem one_record_real_exit s i :
    oreach s -> started s i -> ~ In i (map fst (running s)) ->
    lookup (sfile_ s) i = Some (mkrow i (name_of i) (exit_of i) 0) /\
    (forall r, In r (sfile_ s) -> r_id r = i -> r = mkrow i (name_of i) (exit_of i) 0) /\
    count_occ Z.eq_dec (map fst (finishes (evlog s))) i = 1%nat.
  Proof.
    intros Hr Hs Hn. destruct (oreach_inv s Hr) as [I R].
    pose proof (r_rec _ _ _ _ R i Hs) as H. apply (phase_of_None exit_of name_of) in Hn. rewrite Hn in H. destruct H as [H1 H2].
    split; [exact H1|]. split.
    - intros r Hin Hid. pose proof (In_lookup _ _ (r_asc _ _ _ _ R) Hin) as L. rewrite Hid in L. congruence.
    - apply (proj1 (NoDup_count_occ' Z.eq_dec _) (r_fin_once _ _ _ _ R)). apply in_map_iff. exists (i, exit_of i). auto.
  Qed.

  Theorem nothing_in_flight_at_the_end s :
    oreach s -> mode s = ODone \/ mode s = OFailed ->
    running s = [] /\
    forall r, In r (sfile_ s) ->
      (started s (r_id r) /\ r = mkrow (r_id r) (name_of (r_id r)) (exit_of (r_id r)) 0) \/
      (~ started s (r_id r) /\ (lookup f0 (r_id r) = Some r \/ (r_name r = END /\ r_exit r = 0 /\ r_skip r = 0))).
  Proof.
    intros Hr Hm. destruct (oreach_inv s Hr) as [I R].
    assert (Hrun : running s = []) by (apply (o_term_quiet _ _ _ I); tauto).
    split; [exact Hrun|]. intros r Hin.
    pose proof (In_lookup _ _ (r_asc _ _ _ _ R) Hin) as L.
    destruct (classic_started s (r_id r)) as [Hs|Hs].
    - left. split; [exact Hs|]. pose proof (r_rec _ _ _ _ R (r_id r) Hs) as H. rewrite Hrun in H. cbn in H.
      destruct H as [H _]. congruence.
    - right. split; [exact Hs|]. destruct (r_other _ _ _ _ R (r_id r) Hs) as [H|[_ [r' [H1 H2]]]]; [auto| |].
      + left. congruence.
      + right. rewrite L in H1. injection H1 as <-. exact H2.
  Qed.

  Theorem hook_once_per_step s :
    oreach s ->
    hooks (evlog s) = map (fun x => (name_of (fst x), snd x)) (finishes (evlog s)) /\
    NoDup (map fst (finishes (evlog s))) /\
    (forall i, In i (map fst (finishes (evlog s))) -> started s i) /\
    (mode s = ODone \/ mode s = OFailed -> forall i, started s i -> In (i, exit_of i) (finishes (evlog s))).
  Proof.
    intros Hr. destruct (oreach_inv s Hr) as [I R].
    split; [apply (r_hooks _ _ _ _ R)|]. split; [apply (r_fin_once _ _ _ _ R)|]. split; [apply (r_fin_started _ _ _ _ R)|].
    intros Hm i Hs. assert (Hrun : running s = []) by (apply (o_term_quiet _ _ _ I); tauto).
    pose proof (r_rec _ _ _ _ R i Hs) as H. rewrite Hrun in H. cbn in H. tauto.
  Qed.
End Reachable.

(* the lock and invocations started meanwhile: Orch/RunLock.v, Orch/RunLockProofs.v *)

(* trap_exit restated (the link to the records is AccountOracle.report_iff_failed_record_or_end) *)
Lemma report_decision m f d :
  e_report (trap_exit m f d) = has_steps f && (negb (match m with ODone => true | _ => false end) || has_end f) /\
  e_mail (trap_exit m f d) = e_report (trap_exit m f d) && d /\
  (e_status (trap_exit m f d) = 0 <-> m = ODone).
Proof.
  unfold trap_exit. destruct m; cbn; repeat split; try reflexivity; try discriminate; auto.
Qed.
