(* ReportBridge.v - the step files the sequential orchestrator can leave (C03: [good]) meet the
   hypothesis under which the report's status line is proved correct in the sequential modes
   (C05: [reachable_seq]).  The two developments use different row records; [to_report]
   forgets the id and fills the fields the status does not read. *)
From Robsd Require Import Orch.ResumeSpec Orch.ResumeProofs Report.ReportTypes Report.ReportSpec.
From Coq Require Import Sorting.Sorted.
Local Open Scope Z_scope.

Definition to_report (r : ResumeDefs.srow) : ReportTypes.srow :=
  mksrow (ResumeDefs.r_name r) (ResumeDefs.r_exit r) 0 0 [] 0 (ResumeDefs.r_skip r).

Lemma asc_app_lt (a : sfile) (r : ResumeDefs.srow) (b : sfile) :
  ids_asc (a ++ r :: b) -> forall x, In x b -> ResumeDefs.r_id r < ResumeDefs.r_id x.
Proof.
  induction a as [|y a IH]; cbn [app]; intros H x Hx.
  - inversion H as [|? ? _ Hall]; subst. rewrite Forall_forall in Hall. now apply Hall.
  - inversion H; subst. now apply IH.
Qed.

Theorem good_meets_report_hypothesis steps f :
  good steps f -> reachable_seq (map to_report f).
Proof.
  intros G a r b Hsplit Hfail x Hx.
  apply map_eq_app in Hsplit. destruct Hsplit as [fa [fb' [Hf [Ha Hb]]]].
  destruct fb' as [|r0 fb]; [discriminate|]. cbn [map] in Hb. injection Hb as Hr Hb. subst a r b.
  apply in_map_iff in Hx. destruct Hx as [x0 [<- Hx0]].
  cbn [to_report ReportTypes.r_skip].
  (* r0 is failing: not skipped, exit <> 0; x0 comes later (larger id); if x0 were not skipped,
     [good] would force r0 to have succeeded *)
  unfold failing, nonskipped in Hfail. cbn [to_report ReportTypes.r_skip ReportTypes.r_exit] in Hfail.
  apply andb_true_iff in Hfail. destruct Hfail as [Hns Hex].
  destruct (Z.eqb_spec (ResumeDefs.r_skip x0) 1) as [E|E]; [exact E|exfalso].
  assert (Hlt : ResumeDefs.r_id r0 < ResumeDefs.r_id x0).
  { apply (asc_app_lt fa r0 fb); [rewrite <- Hf; apply (g_asc _ _ G)|exact Hx0]. }
  assert (Hin0 : In r0 f) by (rewrite Hf; apply in_or_app; right; now left).
  assert (Hinx : In x0 f) by (rewrite Hf; apply in_or_app; right; now right).
  assert (N0 : ResumeSpec.nonskip r0 = true) by exact Hns.
  assert (Nx : ResumeSpec.nonskip x0 = true) by (unfold ResumeSpec.nonskip; apply negb_true_iff; now apply Z.eqb_neq).
  destruct (g_prefix _ _ G r0 x0 Hin0 Hinx N0 Nx Hlt) as [H0 _].
  apply negb_true_iff, Z.eqb_neq in Hex. contradiction.
Qed.

(* ---- the same rows, seen by the orchestrator and by the report ----------------------------------------
   Both developments read the rows of ONE step file (C01's model: Step/StepDefs.row).  The report reads
   name, exit, duration, delta, log, time, skip ([view], Report/ReportTypes.v); the orchestrator models
   read step, name, exit, skip ([orch_view]).  The status theorem of C05 is composed here with what C03
   proves about the files the orchestrator leaves, on the same list of rows. *)
From Robsd Require Import Orch.ResumeExec Orch.WrittenInv Report.ReportProofs.
From Coq Require Import String.

Definition fn_step := Eval vm_compute in bs "step"%string.

Definition orch_view (st : StepDefs.row) : ResumeDefs.srow :=
  mkrow (geti st fn_step) (gets st fn_name) (geti st fn_exit) (geti st fn_skip).

(* the status hypotheses read the exit and skip fields only *)
Definition es (r : ReportTypes.srow) : Z * Z := (ReportTypes.r_exit r, ReportTypes.r_skip r).

Lemma reachable_seqb_ext rows : forall rows', map es rows = map es rows' -> reachable_seqb rows = reachable_seqb rows'.
Proof.
  assert (Hall : forall a b : list ReportTypes.srow, map es a = map es b ->
            forallb (fun x => negb (nonskipped x)) a = forallb (fun x => negb (nonskipped x)) b).
  { induction a as [|x a IH]; intros [|y b] E; try discriminate E; [reflexivity|].
    cbn [map es] in E. injection E as _ Hsk Htl. cbn [forallb]. rewrite (IH b Htl). unfold nonskipped.
    rewrite Hsk. reflexivity. }
  induction rows as [|r rs IH]; intros [|r' rs'] E; try discriminate E; [reflexivity|].
  cbn [map es] in E. injection E as Hex Hsk Htl. cbn [reachable_seqb]. rewrite (IH rs' Htl), (Hall rs rs' Htl).
  unfold failing, nonskipped. rewrite Hex, Hsk. reflexivity.
Qed.

Lemma reachable_seq_ext rows rows' : map es rows = map es rows' -> reachable_seq rows -> reachable_seq rows'.
Proof. intros E H. apply reachable_seqb_iff. rewrite <- (reachable_seqb_ext rows rows' E). now apply reachable_seqb_iff. Qed.

Lemma skipped_exit0_of_skip0 (rows : list StepDefs.row) :
  skip0 (map orch_view rows) -> skipped_exit0 (map view rows).
Proof.
  intros H r Hr Hs. apply in_map_iff in Hr. destruct Hr as [st [<- Hst]].
  apply (H (orch_view st)); [now apply in_map|exact Hs].
Qed.

Lemma reachable_seq_of_goodk k (rows : list StepDefs.row) :
  goodk k (map orch_view rows) -> reachable_seq (map view rows).
Proof.
  intros G. apply (reachable_seq_ext (map to_report (map orch_view rows))).
  - rewrite !map_map. reflexivity.
  - apply (good_meets_report_hypothesis (map (fun s => (s, 0)) k)). apply goodk_good.
    unfold skel_of. rewrite map_map. cbn [fst]. rewrite map_id. exact G.
Qed.

(* the files reachable by crashes and resumed runs of the sequential loop are written files *)
Lemma skip_rows_written f :
  ids_asc f -> (forall r, In r f -> ResumeDefs.r_skip r = 1 /\ ResumeDefs.r_exit r = 0) -> written f.
Proof.
  induction 1 as [|x f Hs IH Hx]; intros H; [constructor|].
  assert (E : x :: f = upsert x f).
  { destruct f as [|y f]; [reflexivity|]. cbn [upsert]. inversion Hx; subst.
    destruct (Z.eqb_spec (ResumeDefs.r_id x) (ResumeDefs.r_id y)); [lia|].
    destruct (Z.ltb_spec (ResumeDefs.r_id x) (ResumeDefs.r_id y)); [reflexivity|lia]. }
  rewrite E. destruct (H x (or_introl eq_refl)) as [E1 E2]. destruct x as [i n e s]. cbn in E1, E2. subst e s.
  apply (w_skip f i n). apply IH. intros r Hr. apply H. now right.
Qed.

Lemma reachv_written k f : reachv k f -> written f.
Proof.
  induction 1 as [f [Ha [Hs _]]|f steps g ex [Ha [Hs _]] _ Hin|f x steps g ex _ IH _ _ Hin|f sk _ IH _ _ _].
  - now apply skip_rows_written.
  - eapply w_seq; [|exact Hin]. now apply skip_rows_written.
  - eapply w_seq; eauto.
  - revert f IH. induction sk as [|[i n] sk IHs]; intros f Hf; [exact Hf|].
    cbn [reskip fold_left fst snd]. apply IHs. apply (w_skip f i n Hf).
Qed.

(* C05's status theorem without its two hypotheses, for the step files the orchestrator produces:
   any mode that counts failures (regress, canvas) with any writer history [written] - entry scripts,
   sequential and parallel loop, any schedule, crashes and resumed runs; the sequential modes with any
   crash/resume history of the sequential loop [reachv], exit codes free at every attempt *)
Theorem status_orchestrated m (rows : list StepDefs.row) :
  (counting m = true -> written (map orch_view rows)) ->
  (counting m = false -> exists k, wf_skel k /\ reachv k (map orch_view rows)) ->
  let rr := map view rows in
  report_status m rr = spec_status m rr /\
  (report_status m rr = str_ok <->
     (forall r, In r rr -> ReportTypes.r_skip r <> 1 -> ReportTypes.r_exit r = 0)) /\
  (forall f fs, failures rr = f :: fs ->
     if counting m then report_status m rr = count_text (List.length (f :: fs))
     else fs = [] /\ report_status m rr = (str_failed_in ++ ReportTypes.r_name f)%list).
Proof.
  intros Hc Hs rr. apply status_ok_iff.
  - intros E. apply skipped_exit0_of_skip0, written_skip0, Hc, E.
  - intros E. destruct (Hs E) as [k [W R]]. apply (reachable_seq_of_goodk k). now apply reachv_goodk.
Qed.
