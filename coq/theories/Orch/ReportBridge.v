(* ReportBridge.v - the step files the sequential orchestrator can leave (C03: [good]) meet the
   hypothesis under which the report's status line is proved correct in the sequential modes
   (C05: [reachable_seq]).  The two developments use different row records; [to_report]
   forgets the id and fills the fields the status does not read. *)
From Robsd Require Import Orch.ResumeSpec Orch.ResumeProofs Report.ReportTypes Report.ReportSpec.
From Coq Require Import Sorting.Sorted.
Local Open Scope Z_scope.

Definition to_report (r : ResumeDefs.srow) : ReportTypes.srow :=
  mksrow (ResumeDefs.r_name r) (ResumeDefs.r_exit r) 0 0 [] 0 (ResumeDefs.r_skip r).

Lemma asc_app_lt (a : sfile) (r : ResumeDefs.srow) (b : sfile) :
  ids_asc (a ++ r :: b) -> forall x, In x b -> ResumeDefs.r_id r < ResumeDefs.r_id x.
Proof.
  induction a as [|y a IH]; cbn [app]; intros H x Hx.
  - inversion H as [|? ? _ Hall]; subst. rewrite Forall_forall in Hall. now apply Hall.
  - inversion H; subst. now apply IH.
Qed.

Theorem good_meets_report_hypothesis steps f :
  good steps f -> reachable_seq (map to_report f).
Proof.
  intros G a r b Hsplit Hfail x Hx.
  apply map_eq_app in Hsplit. destruct Hsplit as [fa [fb' [Hf [Ha Hb]]]].
  destruct fb' as [|r0 fb]; [discriminate|]. cbn [map] in Hb. injection Hb as Hr Hb. subst a r b.
  apply in_map_iff in Hx. destruct Hx as [x0 [<- Hx0]].
  cbn [to_report ReportTypes.r_skip].
  (* r0 is failing: not skipped, exit <> 0; x0 comes later (larger id); if x0 were not skipped,
     [good] would force r0 to have succeeded *)
  unfold failing, nonskipped in Hfail. cbn [to_report ReportTypes.r_skip ReportTypes.r_exit] in Hfail.
  apply andb_true_iff in Hfail. destruct Hfail as [Hns Hex].
  destruct (Z.eqb_spec (ResumeDefs.r_skip x0) 1) as [E|E]; [exact E|exfalso].
  assert (Hlt : ResumeDefs.r_id r0 < ResumeDefs.r_id x0).
  { apply (asc_app_lt fa r0 fb); [rewrite <- Hf; apply (g_asc _ _ G)|exact Hx0]. }
  assert (Hin0 : In r0 f) by (rewrite Hf; apply in_or_app; right; now left).
  assert (Hinx : In x0 f) by (rewrite Hf; apply in_or_app; right; now right).
  assert (N0 : ResumeSpec.nonskip r0 = true) by exact Hns.
  assert (Nx : ResumeSpec.nonskip x0 = true) by (unfold ResumeSpec.nonskip; apply negb_true_iff; now apply Z.eqb_neq).
  destruct (g_prefix _ _ G r0 x0 Hin0 Hinx N0 Nx Hlt) as [H0 _].
  apply negb_true_iff, Z.eqb_neq in Hex. contradiction.
Qed.
