(* ResumeDamaged.v - C03 x C01: `canvas -r <dir>` on a step file that robsd-step cannot read (emptied or cut short:
   what the C01 known finding refused-write-damages-file leaves) or that holds nothing but skip records.
   The entry scripts install the EXIT trap BEFORE they call step_next; step_next fails ("cannot find next step"),
   set -e ends the script, and trap_exit - has_steps false - runs `rm -r` on the build directory the operator
   wanted to resume.  In the invocation model (RunLock.v) an unreadable step file is a file with no readable row:
   every step_eval on it fails, exactly as on the empty list. *)
From Robsd Require Import Orch.RunLock Orch.RunLockProofs Orch.ResumeSpec Orch.ResumeProofs.
Local Open Scope Z_scope.

(* resuming fails when nothing but skipped steps is recorded (the property's clause) ... *)
Theorem step_next_fails_without_steps f : has_steps f = false -> step_next f = None.
Proof.
  unfold step_next, has_steps. intros H.
  assert (Hall : forall r, In r (rev f) -> r_skip r =? 1 = true).
  { intros r Hr. apply in_rev in Hr. destruct (r_skip r =? 1) eqn:E; [reflexivity|]. exfalso.
    assert (existsb (fun r => negb (r_skip r =? 1)) f = true) by (apply existsb_exists; exists r; split; [exact Hr|now rewrite E]).
    congruence. }
  induction (rev f) as [|r l IH]; [reflexivity|]. cbn. rewrite (Hall r (or_introl eq_refl)). apply IH.
  intros x Hx. apply Hall. now right.
Qed.

(* ... and the exit trap of that failed attempt removes the directory: logs, report and all *)
Theorem failed_resume_removes_the_build_directory w b d f :
  dir_find (iw_dirs w) b = Some f -> has_steps f = false ->
  let w' := fst (invoke_end REL w b OFailed d) in
  step_next f = None /\ dir_find (iw_dirs w') b = None /\ snd (invoke_end REL w b OFailed d) = 1.
Proof.
  intros Hd Hs. split; [now apply step_next_fails_without_steps|].
  unfold invoke_end. rewrite Hd, Hs. cbn [fst snd iw_dirs]. split; [|reflexivity].
  rewrite dir_find_remove, beq_refl. reflexivity.
Qed.

(* a directory whose step file holds a step is never removed by an exit trap *)
Theorem exit_trap_keeps_directories_with_steps t w b m d f :
  dir_find (iw_dirs w) b = Some f -> has_steps f = true ->
  dir_find (iw_dirs (fst (invoke_end t w b m d))) b = Some f.
Proof. intros Hd Hs. unfold invoke_end. rewrite Hd, Hs. cbn [fst iw_dirs]. exact Hd. Qed.

(* what a resume attempt whose step_next fails does to the world, by the form of the entry scripts (ShapeDefs.resume_failure):
   with the trap installed first and $BUILDDIR left as it is, the script ends through the exit trap on that directory (status 1,
   [invoke_end] with OFailed); with the trap installed later the script just ends; with $BUILDDIR cleared before `exit 1` the
   trap returns on its first test ([ -n "$_builddir" ] || return) - in both of these nothing is touched *)
Definition failed_resume (rf : resume_failure) (w : iworld) (b : bytes) (d : bool) : iworld :=
  match rf with
  | RFTrapOnBuilddir => fst (invoke_end REL w b OFailed d)
  | RFTrapLater => w
  | RFBuilddirCleared => w
  end.

Theorem failed_resume_trap_on_builddir_removes w b d f :
  dir_find (iw_dirs w) b = Some f -> has_steps f = false ->
  step_next f = None /\ dir_find (iw_dirs (failed_resume RFTrapOnBuilddir w b d)) b = None.
Proof. intros Hd Hs. destruct (failed_resume_removes_the_build_directory w b d f Hd Hs) as [A [B _]]. split; [exact A|exact B]. Qed.

Theorem failed_resume_otherwise_keeps rf w b d : rf <> RFTrapOnBuilddir -> failed_resume rf w b d = w.
Proof. destruct rf; [intros H; now elim H|reflexivity|reflexivity]. Qed.
