(* TraceMeaning.v - what it MEANS for the C04 checker (OrchSpec.check_trace) to accept a sequence of step
   starts and ends, stated on the sequence itself and independent of any model: configuration order with
   nothing skipped over, skipped steps never start, each step at most once, the barrier before a
   synchronous step, earlier synchronous steps finished before a parallel one, the ncpu bound, nothing
   starts after a synchronous step failed.  Orch/TraceOracle.v proves that the checker accepts every run
   of the transition system, so these are theorems about every run. *)
From Robsd Require Import Orch.OrchSpec.
Local Open Scope Z_scope.

Lemma check_trace_app cfg skip ncpu t a b :
  check_trace cfg skip ncpu t (a ++ b) =
  match check_trace cfg skip ncpu t a with Some t' => check_trace cfg skip ncpu t' b | None => None end.
Proof.
  revert t. induction a as [|x a IH]; intros t; [reflexivity|]. cbn [app check_trace].
  destruct x as [n|n e].
  - destruct (start_ok cfg skip ncpu t n); [apply IH|reflexivity].
  - destruct (mem_name n (t_running t)); [apply IH|reflexivity].
Qed.

Lemma mem_name_In n l : mem_name n l = true <-> In n l.
Proof.
  unfold mem_name. rewrite existsb_exists. split.
  - intros [x [Hin Hx]]. apply beq_eq in Hx. now subst.
  - intros H. exists n. split; [exact H|apply beq_refl].
Qed.

Definition is_start (x : tev) : bool := match x with TStart _ => true | _ => false end.
Definition is_end (x : tev) : bool := match x with TEnd _ _ => true | _ => false end.
Definition nstarts (tr : list tev) : nat := length (filter is_start tr).
Definition nends (tr : list tev) : nat := length (filter is_end tr).

Lemma remove_name_length n l : mem_name n l = true -> S (length (remove_name n l)) = length l.
Proof.
  induction l as [|x l IH]; [discriminate|]. cbn [mem_name existsb remove_name].
  destruct (beq_spec x n) as [->|Hx].
  - intros _. reflexivity.
  - intros H. assert (E : beq n x = false) by (destruct (beq_spec n x); congruence). rewrite E in H. cbn in H.
    cbn [length]. f_equal. now apply IH.
Qed.

Lemma remove_name_keeps n m l : In m l -> m <> n -> In m (remove_name n l).
Proof.
  induction l as [|x l IH]; [intros []|]. cbn [remove_name]. intros [->|H] Hne.
  - destruct (beq_spec m n); [contradiction|now left].
  - destruct (beq x n); [exact H|right; auto].
Qed.

Section Meaning.
  Variable cfg : list pstep.
  Variable skip : list bytes.
  Variable ncpu : nat.
  Notation chk := (check_trace cfg skip ncpu).
  Definition t_init : tstate := mkt [] [] [] false.

  (* what the checker's state records about the sequence it has read *)
  Record J (tr : list tev) (t : tstate) : Prop := mkJ {
    j_started : forall m, In m (t_started t) <-> In (TStart m) tr;
    j_ended : forall m, In m (t_ended t) <-> exists e, In (TEnd m e) tr;
    j_running : forall m, In (TStart m) tr -> In m (t_running t) \/ exists e, In (TEnd m e) tr;
    j_count : (length (t_running t) + nends tr = nstarts tr)%nat;
  }.

  Lemma J_holds tr : forall t, chk t_init tr = Some t -> J tr t.
  Proof.
    induction tr as [|x tr IH] using rev_ind; intros t H.
    - injection H as <-. constructor; cbn; try tauto; try reflexivity. intros m. split; [intros []|intros [e []]].
    - rewrite check_trace_app in H. destruct (chk t_init tr) as [tm|] eqn:Hm; [|discriminate].
      specialize (IH tm eq_refl). destruct IH as [Js Je Jr Jc]. cbn [check_trace] in H.
      destruct x as [n|n e].
      + destruct (start_ok cfg skip ncpu tm n); [|discriminate]. injection H as <-.
        constructor; cbn [t_running t_started t_ended t_syncfailed filter is_start is_end length].
        * intros m. rewrite in_app_iff. cbn. rewrite <- Js. intuition congruence.
        * intros m. rewrite Je. split; intros [e He]; exists e; [apply in_or_app; now left|].
          apply in_app_or in He. destruct He as [He|[He|[]]]; [exact He|discriminate].
        * intros m Hin. apply in_app_or in Hin. destruct Hin as [Hin|[Hin|[]]].
          -- destruct (Jr m Hin) as [?|[e He]]; [left; now right|right; exists e; apply in_or_app; now left].
          -- injection Hin as ->. left. now left.
        * unfold nstarts, nends in *. rewrite !filter_app, !app_length. cbn. lia.
      + destruct (mem_name n (t_running tm)) eqn:Hmem; [|discriminate]. injection H as <-.
        constructor; cbn [t_running t_started t_ended t_syncfailed filter is_start is_end length].
        * intros m. rewrite in_app_iff. cbn. rewrite <- Js. intuition congruence.
        * intros m. split.
          -- intros [<-|Hin]; [exists e; apply in_or_app; right; now left|].
             apply Je in Hin. destruct Hin as [e' He']. exists e'. apply in_or_app. now left.
          -- intros [e' He']. apply in_app_or in He'. destruct He' as [He'|[He'|[]]].
             ++ right. apply Je. eauto.
             ++ injection He' as -> _. now left.
        * intros m Hin. apply in_app_or in Hin. destruct Hin as [Hin|[Hin|[]]]; [|discriminate].
          destruct (Jr m Hin) as [Hr|[e' He']]; [|right; exists e'; apply in_or_app; now left].
          destruct (beq_spec m n) as [->|Hne]; [right; exists e; apply in_or_app; right; now left|].
          left. now apply remove_name_keeps.
        * pose proof (remove_name_length n _ Hmem). unfold nstarts, nends in *. rewrite !filter_app, !app_length. cbn. lia.
  Qed.

  Lemma chk_split t tr1 x tr2 t' :
    chk t (tr1 ++ x :: tr2) = Some t' -> exists tm, chk t tr1 = Some tm /\ chk tm (x :: tr2) = Some t'.
  Proof.
    rewrite check_trace_app. destruct (chk t tr1) as [tm|]; [|discriminate]. intros H. exists tm. auto.
  Qed.

  (* ---- every start in an accepted sequence obeys the rules of C04 ------------------------------------------ *)
  Theorem accepted_start tr1 n tr2 t :
    chk t_init (tr1 ++ TStart n :: tr2) = Some t ->
    exists p, find_pstep cfg n = Some p /\
      (* a configured step that is neither skipped nor the end step, started for the first time *)
      mem_name n skip = false /\ n <> END /\ ~ In (TStart n) tr1 /\
      (* configuration order, nothing skipped over: every earlier step is skipped or was started before *)
      (forall q, In q (before cfg n) -> mem_name (p_name q) skip = true \/ In (TStart (p_name q)) tr1) /\
      (* every earlier synchronous step has finished *)
      (forall q, In q (before cfg n) -> p_par q = false ->
                 mem_name (p_name q) skip = true \/ exists e, In (TEnd (p_name q) e) tr1) /\
      (* a synchronous step starts behind a barrier: every step started before it has ended *)
      (p_par p = false -> forall m, In (TStart m) tr1 -> exists e, In (TEnd m e) tr1) /\
      (* a parallel step starts only when fewer than ncpu steps are running *)
      (p_par p = true -> (nstarts tr1 - nends tr1 < ncpu)%nat).
  Proof.
    intros H. destruct (chk_split _ _ _ _ _ H) as [tm [H1 H2]]. destruct (J_holds tr1 tm H1) as [Js Je Jr Jc].
    cbn [check_trace] in H2. destruct (start_ok cfg skip ncpu tm n) eqn:Hok; [|discriminate]. clear H2.
    unfold start_ok in Hok. destruct (find_pstep cfg n) as [p|]; [|discriminate]. exists p. split; [reflexivity|].
    repeat (apply andb_true_iff in Hok; destruct Hok as [Hok ?]).
    apply negb_true_iff in Hok.
    repeat match goal with Hx : negb _ = true |- _ => apply negb_true_iff in Hx end.
    rewrite forallb_forall in *.
    split; [exact Hok|]. split; [intros ->; rewrite beq_refl in *; discriminate|].
    split; [intros Hin; apply Js in Hin; apply mem_name_In in Hin; congruence|].
    split; [|split; [|split]].
    - intros q Hq. match goal with Hx : forall x, In x _ -> mem_name _ skip || mem_name _ (t_started tm) = true |- _ => specialize (Hx q Hq); apply orb_true_iff in Hx; destruct Hx as [Hx|Hx] end; [now left|].
      right. apply Js. now apply mem_name_In.
    - intros q Hq Hpar. match goal with Hx : forall x, In x _ -> p_par _ || _ || _ = true |- _ => specialize (Hx q Hq); rewrite Hpar in Hx; cbn [orb] in Hx; apply orb_true_iff in Hx; destruct Hx as [Hx|Hx] end; [now left|].
      right. apply Je. now apply mem_name_In.
    - intros Hpar m Hm. match goal with Hx : (if p_par p then _ else _) = true |- _ => rewrite Hpar in Hx; destruct (t_running tm) eqn:Er; [|discriminate] end.
      destruct (Jr m Hm) as [[]|He]. exact He.
    - intros Hpar. match goal with Hx : (if p_par p then _ else _) = true |- _ => rewrite Hpar in Hx; apply Nat.leb_le in Hx end. lia.
  Qed.

  (* ---- every end is the end of a step that was running ---------------------------------------------------- *)
  Theorem accepted_end tr1 n e tr2 t :
    chk t_init (tr1 ++ TEnd n e :: tr2) = Some t -> In (TStart n) tr1.
  Proof.
    intros H. destruct (chk_split _ _ _ _ _ H) as [tm [H1 H2]]. destruct (J_holds tr1 tm H1) as [Js Je Jr Jc].
    cbn [check_trace] in H2. destruct (mem_name n (t_running tm)) eqn:Hmem; [|discriminate].
    (* running names are started names *)
    assert (Hsub : forall tr t0, chk t_init tr = Some t0 -> forall m, In m (t_running t0) -> In (TStart m) tr).
    { clear. induction tr as [|x tr IH] using rev_ind; intros t0 H m Hm.
      - injection H as <-. destruct Hm.
      - rewrite check_trace_app in H. destruct (chk t_init tr) as [tm|] eqn:E; [|discriminate]. cbn [check_trace] in H.
        destruct x as [n|n e].
        + destruct (start_ok cfg skip ncpu tm n); [|discriminate]. injection H as <-. cbn in Hm.
          apply in_or_app. destruct Hm as [->|Hm]; [right; now left|left; eauto].
        + destruct (mem_name n (t_running tm)); [|discriminate]. injection H as <-. cbn in Hm.
          apply in_or_app. left. apply (IH tm eq_refl). clear - Hm.
          induction (t_running tm) as [|y l IHl]; [destruct Hm|]. cbn in Hm. destruct (beq y n); [now right|].
          destruct Hm as [->|Hm]; [now left|right; auto]. }
    apply (Hsub tr1 tm H1). now apply mem_name_In.
  Qed.

  (* ---- after a synchronous step has ended with a non-zero status nothing starts any more ------------------- *)
  Lemma failed_blocks_starts tr : forall t t', t_syncfailed t = true -> chk t tr = Some t' ->
    t_syncfailed t' = true /\ forall m, ~ In (TStart m) tr.
  Proof.
    induction tr as [|x tr IH]; intros t t' Hf H.
    - injection H as <-. split; [exact Hf|intros m []].
    - cbn [check_trace] in H. destruct x as [n|n e].
      + unfold start_ok in H. destruct (find_pstep cfg n); [|discriminate]. rewrite Hf in H.
        rewrite !andb_false_r in H. cbn in H. rewrite ?andb_false_r in H. discriminate.
      + destruct (mem_name n (t_running t)); [|discriminate].
        apply IH in H; [|cbn; rewrite Hf; reflexivity]. destruct H as [H1 H2]. split; [exact H1|].
        intros m [Hm|Hm]; [discriminate|exact (H2 m Hm)].
  Qed.

  Theorem accepted_stops_after_sync_failure tr1 n e tr2 t p :
    chk t_init (tr1 ++ TEnd n e :: tr2) = Some t ->
    find_pstep cfg n = Some p -> p_par p = false -> e <> 0 ->
    t_syncfailed t = true /\ forall m, ~ In (TStart m) tr2.
  Proof.
    intros H Hp Hpar He. destruct (chk_split _ _ _ _ _ H) as [tm [H1 H2]].
    cbn [check_trace] in H2. destruct (mem_name n (t_running tm)); [|discriminate].
    rewrite Hp, Hpar in H2. cbn [negb andb] in H2.
    apply failed_blocks_starts in H2; [exact H2|]. cbn.
    destruct (Z.eqb_spec e 0); [contradiction|]. apply orb_true_r.
  Qed.

  (* the failure flag is raised only by such an end *)
  Theorem syncfailed_has_cause tr : forall t, chk t_init tr = Some t -> t_syncfailed t = true ->
    exists n e p, In (TEnd n e) tr /\ find_pstep cfg n = Some p /\ p_par p = false /\ e <> 0.
  Proof.
    induction tr as [|x tr IH] using rev_ind; intros t H Hf.
    - injection H as <-. discriminate.
    - rewrite check_trace_app in H. destruct (chk t_init tr) as [tm|] eqn:E; [|discriminate]. cbn [check_trace] in H.
      destruct x as [n|n e].
      + destruct (start_ok cfg skip ncpu tm n); [|discriminate]. injection H as <-. cbn in Hf.
        destruct (IH tm eq_refl Hf) as [n' [e' [p' [A B]]]]. exists n', e', p'. split; [apply in_or_app; now left|exact B].
      + destruct (mem_name n (t_running tm)); [|discriminate]. injection H as <-. cbn in Hf.
        apply orb_true_iff in Hf. destruct Hf as [Hf|Hf].
        * destruct (IH tm eq_refl Hf) as [n' [e' [p' [A B]]]]. exists n', e', p'. split; [apply in_or_app; now left|exact B].
        * destruct (find_pstep cfg n) as [p|] eqn:Ep; [|discriminate]. apply andb_true_iff in Hf. destruct Hf as [H1 H2].
          apply negb_true_iff in H1, H2. exists n, e, p. split; [apply in_or_app; right; now left|].
          repeat split; auto. intros ->. discriminate.
  Qed.
End Meaning.

(* ---- the whole oracle: exit status, end record, completeness ------------------------------------------------- *)
Theorem spec_ok_trace_meaning cfg skip ncpu tr exit endrec :
  spec_ok_trace cfg skip ncpu tr exit endrec = true ->
  exists t, check_trace cfg skip ncpu (t_init) tr = Some t /\
    (* the exit status is non-zero exactly when a synchronous step failed *)
    (exit <> 0 <-> t_syncfailed t = true) /\
    (* end is recorded exactly when none failed *)
    (endrec = true <-> t_syncfailed t = false) /\
    (* and then every step that is not skipped ran to its end *)
    (endrec = true -> forall p, In p cfg -> p_name p = END \/ mem_name (p_name p) skip = true \/ exists e, In (TEnd (p_name p) e) tr) /\
    (* nothing is left running: every started step has ended *)
    (forall m, In (TStart m) tr -> exists e, In (TEnd m e) tr).
Proof.
  unfold spec_ok_trace. fold t_init. destruct (check_trace cfg skip ncpu t_init tr) as [t|] eqn:Hc; [|discriminate].
  intros H. repeat (apply andb_true_iff in H; destruct H as [H ?]).
  exists t. split; [reflexivity|]. destruct (J_holds cfg skip ncpu tr t Hc) as [Js Je Jr Jc].
  apply eqb_prop in H. match goal with Hx : Bool.eqb endrec _ = true |- _ => apply eqb_prop in Hx; rename Hx into Hend end.
  split; [|split; [|split]].
  - rewrite <- H. destruct (Z.eqb_spec exit 0); cbn; split; congruence.
  - rewrite Hend. destruct (t_syncfailed t); cbn; split; congruence.
  - intros He p Hp. rewrite He in Hend. destruct (t_syncfailed t); [discriminate|]. cbn [orb] in *.
    match goal with Hx : forallb _ cfg = true |- _ => rewrite forallb_forall in Hx; specialize (Hx p Hp); rename Hx into Hall end.
    apply orb_true_iff in Hall. destruct Hall as [Hall|Hall]; [apply orb_true_iff in Hall; destruct Hall as [Hall|Hall]|].
    + left. now apply beq_eq.
    + right. now left.
    + right. right. apply Je. now apply mem_name_In.
  - intros m Hm. destruct (t_running t) eqn:Er; [|discriminate]. destruct (Jr m Hm) as [Hin|He]; [|exact He].
    try rewrite Er in Hin. destruct Hin.
Qed.
