(* RunLock.v - the lock file of util.sh (lock_acquire / lock_release) and what an invocation does around the
   loop: build_init, lock_acquire, the steps, and the exit trap (report decision, lock_release, removal of an
   empty build directory) - ONE model for the invocation that runs and for the invocations started meanwhile.
   Definitions only (extracted; the harness runs the real lock_acquire / lock_release against them).

   .running is [None] when the file does not exist, [Some c] when it holds the line c (echo adds the
   newline; "$(cat ...)" and cmp see the same thing for names without a newline).  ASSUMED: lock_acquire is
   atomic (the shell's cat-then-echo is not: two invocations started within that window both proceed). *)
From Robsd Require Export Orch.OrchDefs Orch.ShapeDefs.
Local Open Scope Z_scope.

Definition lockf := option bytes.

(* lock_acquire root builddir: refuse when the file names somebody else; an empty or missing file, or one that
   names us already (an earlier run aborted prematurely), is taken *)
Definition lock_acquire (a : acquire_test) (l : lockf) (b : bytes) : lockf * bool :=
  match a with
  | AcqOwnerNonEmptyAndDifferent =>
      let owner := match l with Some c => c | None => [] end in      (* "$(cat .running 2>/dev/null || :)" *)
      if negb (beq owner []) && negb (beq owner b) then (l, false) else (Some b, true)
  end.

Definition owns (t : release_test) (l : lockf) (b : bytes) : bool :=
  match l with
  | None => false                                      (* cmp / grep on a missing file fail *)
  | Some c => match t with
              | RelWholeFileEqual => beq c b           (* echo "$b" | cmp -s - .running *)
              | RelFixedSubstring => infixb b c        (* grep -qsF -- "$b" .running *)
              end
  end.

(* lock_release root builddir: remove the file if we own it *)
Definition lock_release (t : release_test) (l : lockf) (b : bytes) : lockf * bool :=
  if owns t l b then (None, true) else (l, false).

(* ---- invocations ---------------------------------------------------------------------------------------- *)
Record iworld := mkiworld {
  iw_lock : lockf;
  iw_dirs : list (bytes * sfile);      (* the build directories under the root, with their step files *)
  iw_reports : list bytes;             (* build directories in which a report was (re)written *)
  iw_mails : nat;
}.

Fixpoint dir_find (d : list (bytes * sfile)) (b : bytes) : option sfile :=
  match d with
  | [] => None
  | (n, f) :: d' => if beq n b then Some f else dir_find d' b
  end.

Fixpoint dir_set (d : list (bytes * sfile)) (b : bytes) (f : sfile) : list (bytes * sfile) :=
  match d with
  | [] => [(b, f)]
  | (n, g) :: d' => if beq n b then (n, f) :: d' else (n, g) :: dir_set d' b f
  end.

Fixpoint dir_remove (d : list (bytes * sfile)) (b : bytes) : list (bytes * sfile) :=
  match d with
  | [] => []
  | (n, g) :: d' => if beq n b then dir_remove d' b else (n, g) :: dir_remove d' b
  end.

(* build_init: the directory and an empty step file unless they exist *)
Definition build_init (w : iworld) (b : bytes) : iworld :=
  match dir_find (iw_dirs w) b with
  | Some _ => w
  | None => mkiworld (iw_lock w) (dir_set (iw_dirs w) b []) (iw_reports w) (iw_mails w)
  end.

(* canvas up to the first step: build_init; lock_acquire (set -e: a refusal ends the script with status 1) *)
Definition invoke_begin (a : acquire_test) (w : iworld) (b : bytes) : iworld * bool :=
  let w1 := build_init w b in
  let (l, ok) := lock_acquire a (iw_lock w1) b in
  (mkiworld l (iw_dirs w1) (iw_reports w1) (iw_mails w1), ok).

(* the exit trap of the invocation of build directory b that ends in mode m *)
Definition invoke_end (t : release_test) (w : iworld) (b : bytes) (m : omode) (detached : bool) : iworld * Z :=
  let f := match dir_find (iw_dirs w) b with Some f => f | None => [] end in
  let eff := trap_exit m f detached in
  let reports := if e_report eff then b :: iw_reports w else iw_reports w in
  let mails := if e_mail eff then S (iw_mails w) else iw_mails w in
  let l := fst (lock_release t (iw_lock w) b) in
  let dirs := if has_steps f then iw_dirs w else dir_remove (iw_dirs w) b in
  (mkiworld l dirs reports mails, e_status eff).

(* an invocation started while another may hold the lock: refused (exit trap with a non-zero status), or it
   takes the lock and runs *)
Definition attempt (a : acquire_test) (t : release_test) (w : iworld) (b : bytes) (detached : bool) : iworld * option Z :=
  let (w1, ok) := invoke_begin a w b in
  if ok then (w1, None)                                  (* it holds the lock now and goes on to its steps *)
  else let (w2, st) := invoke_end t w1 b OFailed detached in (w2, Some st).

(* ---- the running invocation together with invocations started meanwhile ----------------------------------- *)
Inductive wact := WOrch (x : action) | WOther (b' : bytes) (detached' : bool).

Record wstate := mkwstate { ws_world : iworld; ws_orch : ostate; ws_refused : list (bytes * option Z) }.

Section Combined.
  Variable ncpu : nat.
  Variable exit_of : Z -> Z.
  Variable name_of : Z -> bytes.
  Variable acq : acquire_test.
  Variable rel : release_test.
  Variable b : bytes.                     (* the build directory of the invocation that runs *)

  (* the orchestrator's moves rewrite the step file of b; an invocation started meanwhile does whatever
     [attempt] says *)
  Definition wstep (ws : wstate) (x : wact) : wstate :=
    match x with
    | WOrch a =>
        match ostep ncpu exit_of name_of (ws_orch ws) a with
        | Some s' => mkwstate (mkiworld (iw_lock (ws_world ws)) (dir_set (iw_dirs (ws_world ws)) b (sfile_ s'))
                                         (iw_reports (ws_world ws)) (iw_mails (ws_world ws))) s' (ws_refused ws)
        | None => ws
        end
    | WOther b' d' =>
        let (w', st) := attempt acq rel (ws_world ws) b' d' in
        mkwstate w' (ws_orch ws) (ws_refused ws ++ [(b', st)])
    end.

  Definition wrun (ws : wstate) (l : list wact) : wstate := fold_left wstep l ws.

  (* the whole life of the invocation: begin; the step file the loop starts from ([f0]: the skip records canvas
     writes right after lock_acquire when fresh, the file found when resuming); the interleaved run; the exit trap *)
  Definition invocation (w : iworld) (steps : list pstep) (f0 : sfile) (l : list wact) (detached : bool)
      : option (wstate * iworld * Z) :=
    let (w1, ok) := invoke_begin acq w b in
    if ok then
      let w1' := mkiworld (iw_lock w1) (dir_set (iw_dirs w1) b f0) (iw_reports w1) (iw_mails w1) in
      let ws := wrun (mkwstate w1' (oinit steps f0) []) l in
      let (w2, st) := invoke_end rel (ws_world ws) b (mode (ws_orch ws)) detached in
      Some (ws, w2, st)
    else None.
End Combined.
