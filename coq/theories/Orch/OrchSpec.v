(* OrchSpec.v - what C04 demands of an observed invocation, as a checker over the
   sequence of step starts and ends (independent of the transition system), and
   what C11 demands of what is left behind. *)
From Robsd Require Export Orch.OrchDefs.
Local Open Scope Z_scope.

Inductive tev := TStart (n : bytes) | TEnd (n : bytes) (e : Z).

Fixpoint find_pstep (cfg : list pstep) (n : bytes) : option pstep :=
  match cfg with
  | [] => None
  | p :: cfg' => if beq (p_name p) n then Some p else find_pstep cfg' n
  end.

Definition mem_name (n : bytes) (l : list bytes) : bool := existsb (beq n) l.

Fixpoint remove_name (n : bytes) (l : list bytes) : list bytes :=
  match l with
  | [] => []
  | x :: l' => if beq x n then l' else x :: remove_name n l'
  end.

(* the steps before [n] in configuration order *)
Fixpoint before (cfg : list pstep) (n : bytes) : list pstep :=
  match cfg with
  | [] => []
  | p :: cfg' => if beq (p_name p) n then [] else p :: before cfg' n
  end.

Record tstate := mkt {
  t_running : list bytes; t_started : list bytes; t_ended : list bytes; t_syncfailed : bool }.

Definition start_ok (cfg : list pstep) (skip : list bytes) (ncpu : nat) (t : tstate) (n : bytes) : bool :=
  match find_pstep cfg n with
  | None => false
  | Some p =>
      negb (mem_name n skip) && negb (mem_name n (t_started t)) && negb (t_syncfailed t) &&
      negb (beq n END) &&
      (* nothing is skipped over: every earlier non-skipped step has been started *)
      forallb (fun q => mem_name (p_name q) skip || mem_name (p_name q) (t_started t)) (before cfg n) &&
      (* every earlier synchronous step has finished *)
      forallb (fun q => p_par q || mem_name (p_name q) skip || mem_name (p_name q) (t_ended t)) (before cfg n) &&
      (if p_par p
       then Nat.leb (S (length (t_running t))) ncpu          (* at most ncpu parallel steps at once *)
       else match t_running t with [] => true | _ => false end)   (* barrier: nothing else runs *)
  end.

Fixpoint check_trace (cfg : list pstep) (skip : list bytes) (ncpu : nat) (t : tstate) (tr : list tev) : option tstate :=
  match tr with
  | [] => Some t
  | TStart n :: tr' =>
      if start_ok cfg skip ncpu t n
      then check_trace cfg skip ncpu (mkt (n :: t_running t) (n :: t_started t) (t_ended t) (t_syncfailed t)) tr'
      else None
  | TEnd n e :: tr' =>
      if mem_name n (t_running t) then
        let failed := match find_pstep cfg n with
                      | Some p => negb (p_par p) && negb (e =? 0)
                      | None => false end in
        check_trace cfg skip ncpu (mkt (remove_name n (t_running t)) (t_started t) (n :: t_ended t)
                                       (t_syncfailed t || failed)) tr'
      else None
  end.

(* the whole invocation: the trace is orderly; the exit status is non-zero iff a
   synchronous step failed; end is recorded iff none failed - and then every
   non-skipped step ran to its end *)
Definition spec_ok_trace (cfg : list pstep) (skip : list bytes) (ncpu : nat) (tr : list tev)
    (exit : Z) (end_recorded : bool) : bool :=
  match check_trace cfg skip ncpu (mkt [] [] [] false) tr with
  | None => false
  | Some t =>
      Bool.eqb (negb (exit =? 0)) (t_syncfailed t) &&
      Bool.eqb end_recorded (negb (t_syncfailed t)) &&
      (t_syncfailed t ||
       forallb (fun p => beq (p_name p) END || mem_name (p_name p) skip || mem_name (p_name p) (t_ended t)) cfg) &&
      match t_running t with [] => true | _ => false end
  end.

(* C11: what must be left behind when the invocation has ended (not killed) *)
Record leftovers := mkleft {
  l_rows : sfile;                    (* final step file *)
  l_logs : list (Z * bool);          (* per record id: does its own log file exist and hold the step's output *)
  l_hooks : list (bytes * Z);        (* hook invocations: step name, exit *)
  l_lock_during : bool;              (* the lock named this invocation while it ran *)
  l_lock_after : bool;               (* lock file still present afterwards *)
  l_report : bool; l_mails : nat; l_detached : bool;
}.

Definition count_hook (h : list (bytes * Z)) (n : bytes) (e : Z) : nat :=
  length (filter (fun x => beq (fst x) n && (snd x =? e)) h).

Definition spec_ok_account (cfg : list pstep) (skip : list bytes) (executed : list bytes) (l : leftovers) : bool :=
  (* every executed step: exactly one record with its real exit status, not in flight, its own log *)
  forallb (fun n => match find_pstep cfg n with
                    | None => false
                    | Some p =>
                        match filter (fun r => beq (r_name r) n) (l_rows l) with
                        | [r] => (r_exit r =? p_exit p) && (r_skip r =? 0) && (r_id r =? p_id p) &&
                                 existsb (fun x => (fst x =? p_id p) && snd x) (l_logs l) &&
                                 Nat.eqb (count_hook (l_hooks l) n (p_exit p)) 1
                        | _ => false
                        end
                    end) executed &&
  (* skipped steps: a skip record, never executed, no hook *)
  forallb (fun n => negb (mem_name n executed) &&
                    match filter (fun r => beq (r_name r) n) (l_rows l) with
                    | [r] => (r_skip r =? 1)
                    | _ => false
                    end &&
                    Nat.eqb (length (filter (fun x => beq (fst x) n) (l_hooks l))) 0) skip &&
  (* nothing left in flight, no record of a step that did not run *)
  forallb (fun r => negb (r_exit r =? -1) &&
                    (mem_name (r_name r) executed || mem_name (r_name r) skip || beq (r_name r) END)) (l_rows l) &&
  (* hook: once per executed step and once for end, nothing else *)
  Nat.eqb (length (l_hooks l)) (length executed + (if has_end (l_rows l) then 1 else 0)) &&
  Bool.eqb (has_end (l_rows l)) (Nat.eqb (count_hook (l_hooks l) END 0) 1) &&
  (* lock *)
  l_lock_during l && negb (l_lock_after l) &&
  (* report iff a step failed or end was reached; mailed once when detached *)
  (let failed := existsb (fun r => negb (r_skip r =? 1) && negb (r_exit r =? 0)) (l_rows l) in
   let want := has_steps (l_rows l) && (failed || has_end (l_rows l)) in
   Bool.eqb (l_report l) want &&
   Nat.eqb (l_mails l) (if want && l_detached l then 1 else 0)).
