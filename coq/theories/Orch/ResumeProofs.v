From Robsd Require Import Orch.ResumeDefs Orch.ResumeSpec.
From Coq Require Import Sorting.Sorted.
Local Open Scope Z_scope.

Lemma next_from_rev_filter l :
  next_from_rev l =
  match filter nonskip l with
  | [] => None
  | r :: _ => if negb (r_exit r =? 0) || beq (r_name r) END then Some (r_id r) else Some (r_id r + 1)
  end.
Proof.
  induction l as [|r l IH]; [reflexivity|]. cbn [next_from_rev filter]. unfold nonskip at 1.
  destruct (r_skip r =? 1); cbn [negb]; [exact IH|].
  destruct (r_exit r =? 0); cbn [negb orb]; [|reflexivity]. destruct (beq (r_name r) END); reflexivity.
Qed.

Lemma filter_rev {A} (p : A -> bool) l : filter p (rev l) = rev (filter p l).
Proof.
  induction l as [|x l IH]; [reflexivity|]. cbn [rev filter]. rewrite filter_app, IH. cbn [filter].
  destruct (p x); [reflexivity|]. now rewrite app_nil_r.
Qed.

Theorem step_next_spec f : step_next f = spec_resume f.
Proof.
  unfold step_next, spec_resume, last_nonskipped. rewrite next_from_rev_filter, filter_rev.
  destruct (rev (filter nonskip f)); reflexivity.
Qed.

(* ---- files the sequential orchestrator can leave behind ----------------------------- *)

Definition ids_asc (f : sfile) : Prop := StronglySorted (fun a b => r_id a < r_id b) f.

Fixpoint lookup (f : sfile) (i : Z) : option srow :=
  match f with
  | [] => None
  | x :: f' => if r_id x =? i then Some x else lookup f' i
  end.

Lemma lookup_In f i r : lookup f i = Some r -> In r f /\ r_id r = i.
Proof.
  induction f as [|x f IH]; [discriminate|]. cbn [lookup]. destruct (Z.eqb_spec (r_id x) i).
  - intros H. injection H as <-. split; [now left|assumption].
  - intros H. destruct (IH H). split; [now right|assumption].
Qed.

Lemma In_lookup f r : ids_asc f -> In r f -> lookup f (r_id r) = Some r.
Proof.
  induction 1 as [|x f Hs IH Hx]; [intros []|]. intros [->|Hin]; cbn [lookup].
  - now rewrite Z.eqb_refl.
  - destruct (Z.eqb_spec (r_id x) (r_id r)) as [E|E]; [|auto].
    rewrite Forall_forall in Hx. specialize (Hx r Hin). lia.
Qed.

Lemma upsert_asc r f : ids_asc f -> ids_asc (upsert r f).
Proof.
  induction 1 as [|x f Hs IH Hx]; cbn [upsert]; [repeat constructor|].
  destruct (Z.eqb_spec (r_id r) (r_id x)) as [E|E].
  - constructor; [exact Hs|]. rewrite E. exact Hx.
  - destruct (Z.ltb_spec (r_id r) (r_id x)).
    + constructor; [constructor; assumption|]. constructor; [assumption|].
      eapply Forall_impl; [|exact Hx]. cbn. intros; lia.
    + constructor; [exact IH|].
      assert (Hall : Forall (fun b => r_id x < r_id b) (r :: f)) by (constructor; [lia|exact Hx]).
      clear IH Hs Hx. revert Hall. generalize (r_id x). intros z Hall.
      induction f as [|y f IHf]; cbn [upsert].
      * inversion Hall; subst. constructor; auto.
      * inversion Hall as [|? ? Hr Hrest]; subst. inversion Hrest as [|? ? Hy Hf]; subst.
        destruct (r_id r =? r_id y); [constructor; auto|].
        destruct (r_id r <? r_id y); [repeat constructor; auto|].
        constructor; [exact Hy|]. apply IHf. constructor; assumption.
Qed.

Lemma lookup_upsert r f i :
  ids_asc f -> lookup (upsert r f) i = if r_id r =? i then Some r else lookup f i.
Proof.
  induction 1 as [|x f Hs IH Hx]; cbn [upsert lookup].
  - destruct (r_id r =? i); reflexivity.
  - destruct (Z.eqb_spec (r_id r) (r_id x)) as [E|E]; cbn [lookup].
    + rewrite <- E. destruct (Z.eqb_spec (r_id r) i); reflexivity.
    + destruct (Z.ltb_spec (r_id r) (r_id x)); cbn [lookup].
      * destruct (Z.eqb_spec (r_id r) i); reflexivity.
      * rewrite IH. destruct (Z.eqb_spec (r_id x) i) as [E2|E2]; [|reflexivity].
        destruct (Z.eqb_spec (r_id r) i); [lia|reflexivity].
Qed.

(* the schedule: ascending ids, distinct names *)
Definition sid (s : cstep) : Z := fst (fst s).
Definition sname (s : cstep) : bytes := snd (fst s).
Definition wf_steps (steps : list cstep) : Prop :=
  StronglySorted (fun a b => sid a < sid b) steps /\ NoDup (map sname steps).

(* what the orchestrator can leave: every non-skipped record except the one
   with the largest id belongs to a step that completed successfully and is not
   the end step; the records carry the names of their steps *)
Record good (steps : list cstep) (f : sfile) : Prop := mkgood {
  g_asc : ids_asc f;
  g_names : forall r, In r f -> exists e, In (r_id r, r_name r, e) steps;
  g_prefix : forall r1 r2, In r1 f -> In r2 f -> nonskip r1 = true -> nonskip r2 = true ->
               r_id r1 < r_id r2 -> r_exit r1 = 0 /\ beq (r_name r1) END = false;
}.

(* what resuming at [x] means for the recorded steps *)
Definition resume_ok (f : sfile) (x : Z) : Prop :=
  (* never re-executes the steps before it: every non-skipped record below x completed successfully *)
  (forall r, In r f -> nonskip r = true -> r_id r < x -> r_exit r = 0 /\ beq (r_name r) END = false) /\
  (* re-executes an interrupted or failed step, and never starts beyond it:
     a non-skipped record at or above x is the record AT x, and it failed, was in flight, or is end *)
  (forall r, In r f -> nonskip r = true -> x <= r_id r ->
     r_id r = x /\ (r_exit r <> 0 \/ r_name r = END)).

Lemma last_nonskipped_max f r :
  ids_asc f -> last_nonskipped f = Some r ->
  In r f /\ nonskip r = true /\ forall r', In r' f -> nonskip r' = true -> r_id r' <= r_id r.
Proof.
  unfold last_nonskipped. intros Hs H.
  destruct (rev (filter nonskip f)) as [|x l] eqn:E; [discriminate|]. injection H as ->.
  assert (Hf : filter nonskip f = rev l ++ [r]).
  { rewrite <- (rev_involutive (filter nonskip f)), E. reflexivity. }
  assert (Hin : In r (filter nonskip f)) by (rewrite Hf; apply in_or_app; right; now left).
  apply filter_In in Hin. destruct Hin as [Hin Hns]. split; [exact Hin|]. split; [exact Hns|].
  intros r' Hin' Hns'.
  assert (Hin2 : In r' (filter nonskip f)) by (apply filter_In; auto).
  rewrite Hf in Hin2. apply in_app_or in Hin2. destruct Hin2 as [Hin2|[->|[]]]; [|lia].
  (* r' occurs before r in an ascending list *)
  assert (Hsf : StronglySorted (fun a b => r_id a < r_id b) (filter nonskip f)).
  { clear -Hs. induction Hs as [|x f Hs IH Hx]; cbn [filter]; [constructor|].
    destruct (nonskip x); [|exact IH]. constructor; [exact IH|].
    apply Forall_forall. intros y Hy. apply filter_In in Hy. rewrite Forall_forall in Hx. apply Hx. tauto. }
  rewrite Hf in Hsf. clear -Hsf Hin2.
  generalize dependent (rev l). intros m. induction m as [|y l' IH]; intros Hin2 Hsf; [destruct Hin2|].
  cbn [app] in Hsf. inversion Hsf as [|? ? Hs' Hy]; subst.
  destruct Hin2 as [->|Hin2]; [|now apply IH].
  rewrite Forall_forall in Hy. assert (In r (l' ++ [r])) by (apply in_or_app; right; now left).
  specialize (Hy r H). lia.
Qed.

Theorem resume_point_ok steps f x :
  good steps f -> step_next f = Some x -> resume_ok f x.
Proof.
  intros G. rewrite step_next_spec. unfold spec_resume.
  destruct (last_nonskipped f) as [r|] eqn:El; [|discriminate].
  destruct (last_nonskipped_max f r (g_asc _ _ G) El) as [Hin [Hns Hmax]].
  assert (Hbelow : forall r', In r' f -> nonskip r' = true -> r_id r' < r_id r -> r_exit r' = 0 /\ beq (r_name r') END = false).
  { intros r' Hin' Hns' Hlt. apply (g_prefix _ _ G r' r); auto. }
  assert (Huniq : forall r', In r' f -> r_id r' = r_id r -> r' = r).
  { intros r' Hin' E. pose proof (In_lookup f r' (g_asc _ _ G) Hin') as H1.
    pose proof (In_lookup f r (g_asc _ _ G) Hin) as H2. rewrite E in H1. congruence. }
  destruct (negb (r_exit r =? 0) || beq (r_name r) END) eqn:Ec; intros H; injection H as <-.
  - split.
    + intros r' Hin' Hns' Hlt. apply (Hbelow r' Hin' Hns' Hlt).
    + intros r' Hin' Hns' Hge. pose proof (Hmax r' Hin' Hns').
      assert (E : r_id r' = r_id r) by lia. split; [exact E|]. rewrite (Huniq r' Hin' E).
      apply orb_true_iff in Ec. destruct Ec as [Ec|Ec].
      * left. apply negb_true_iff, Z.eqb_neq in Ec. exact Ec.
      * right. now apply beq_eq.
  - apply orb_false_iff in Ec. destruct Ec as [Ec1 Ec2]. apply negb_false_iff, Z.eqb_eq in Ec1.
    split.
    + intros r' Hin' Hns' Hlt. pose proof (Hmax r' Hin' Hns').
      destruct (Z.eq_dec (r_id r') (r_id r)) as [E|E]; [rewrite (Huniq r' Hin' E); split; assumption|].
      apply (Hbelow r' Hin' Hns'). lia.
    + intros r' Hin' Hns' Hge. pose proof (Hmax r' Hin' Hns'). lia.
Qed.

Theorem skip_only_fails f : (forall r, In r f -> nonskip r = false) -> step_next f = None.
Proof.
  intros H. rewrite step_next_spec. unfold spec_resume, last_nonskipped.
  assert (E : filter nonskip f = []).
  { induction f as [|x f IH]; [reflexivity|]. cbn [filter]. rewrite (H x) by now left.
    apply IH. intros r Hr. apply H. now right. }
  now rewrite E.
Qed.

(* ---- the orchestrator keeps the file good ------------------------------------------------ *)

Definition bound (f : sfile) (i : Z) : Prop :=
  forall r, In r f -> nonskip r = true -> r_id r <= i.
Definition below (f : sfile) (i : Z) : Prop :=
  forall r, In r f -> nonskip r = true -> r_id r < i -> r_exit r = 0 /\ beq (r_name r) END = false.

Lemma In_upsert x f r :
  ids_asc f -> In r (upsert x f) -> r = x \/ (In r f /\ r_id r <> r_id x).
Proof.
  intros Hs Hin. pose proof (In_lookup _ _ (upsert_asc x f Hs) Hin) as H.
  rewrite lookup_upsert in H by exact Hs.
  destruct (Z.eqb_spec (r_id x) (r_id r)) as [E|E].
  - left. congruence.
  - right. apply lookup_In in H. split; [tauto|lia].
Qed.

Lemma good_upsert steps f i name ex :
  good steps f -> bound f i -> below f i -> (exists e0, In (i, name, e0) steps) ->
  good steps (upsert (mkrow i name ex 0) f).
Proof.
  intros G Hb Hl Hst. constructor.
  - apply upsert_asc, (g_asc _ _ G).
  - intros r Hin. apply In_upsert in Hin; [|apply (g_asc _ _ G)].
    destruct Hin as [->|[Hin _]]; [exact Hst|apply (g_names _ _ G r Hin)].
  - intros r1 r2 H1 H2 N1 N2 Hlt.
    apply In_upsert in H1; [|apply (g_asc _ _ G)]. apply In_upsert in H2; [|apply (g_asc _ _ G)].
    destruct H1 as [->|[H1 _]], H2 as [->|[H2 _]]; cbn [r_id r_exit r_name] in *.
    + lia.
    + specialize (Hb r2 H2 N2). lia.
    + apply (Hl r1 H1 N1 Hlt).
    + apply (g_prefix _ _ G r1 r2); auto.
Qed.

Lemma bound_upsert f i name ex j :
  ids_asc f -> bound f i -> i <= j -> bound (upsert (mkrow i name ex 0) f) j.
Proof.
  intros Hs Hb Hij r Hin Hns. apply In_upsert in Hin; [|exact Hs].
  destruct Hin as [->|[Hin _]]; cbn [r_id]; [lia|]. specialize (Hb r Hin Hns). lia.
Qed.

Lemma below_upsert_same f i name ex :
  ids_asc f -> below f i -> below (upsert (mkrow i name ex 0) f) i.
Proof.
  intros Hs Hl r Hin Hns Hlt. apply In_upsert in Hin; [|exact Hs].
  destruct Hin as [->|[Hin _]]; cbn [r_id] in *; [lia|]. apply (Hl r Hin Hns Hlt).
Qed.

Lemma below_upsert_done f i name j :
  ids_asc f -> bound f i -> below f i -> i < j -> beq name END = false ->
  below (upsert (mkrow i name 0 0) f) j.
Proof.
  intros Hs Hb Hl Hij Hne r Hin Hns Hlt. apply In_upsert in Hin; [|exact Hs].
  destruct Hin as [->|[Hin Hid]]; cbn [r_id r_exit r_name] in *; [split; [reflexivity|exact Hne]|].
  specialize (Hb r Hin Hns). apply (Hl r Hin Hns). lia.
Qed.

(* a step whose name is marked skipped has no non-skipped record *)
Lemma skipped_no_record steps f i name e :
  wf_steps steps -> good steps f -> In (i, name, e) steps -> skipped f name = true ->
  forall r, In r f -> nonskip r = true -> r_id r <> i.
Proof.
  intros [Hids Hnames] G Hst Hsk r Hin Hns E.
  destruct (g_names _ _ G r Hin) as [e' Hr]. rewrite E in Hr.
  (* the step with id i is unique, so r carries [name] *)
  assert (Hn : r_name r = name).
  { clear -Hids Hst Hr. induction Hids as [|s steps Hs IH Hall]; [destruct Hst|].
    rewrite Forall_forall in Hall.
    destruct Hst as [->|Hst], Hr as [Hr|Hr].
    - now injection Hr.
    - specialize (Hall _ Hr). unfold sid in Hall. cbn in Hall. lia.
    - subst s. specialize (Hall _ Hst). unfold sid in Hall. cbn in Hall. lia.
    - auto. }
  (* the first record with that name is skipped; names identify records *)
  assert (Hfirst : forall f0, (forall r0, In r0 f0 -> r_name r0 = name -> r0 = r) -> In r f0 ->
                     skipped f0 name = true -> False).
  { intros f0. induction f0 as [|y f0 IH]; intros Hu Hin0 Hs0; [destruct Hin0|].
    cbn [skipped] in Hs0. destruct (beq_spec (r_name y) name) as [Ey|Ey].
    - assert (y = r) by (apply Hu; [now left|exact Ey]). subst y.
      unfold nonskip in Hns. rewrite Hs0 in Hns. discriminate.
    - destruct Hin0 as [->|Hin0]; [congruence|].
      apply IH; auto. intros r0 H0 H1. apply Hu; [now right|exact H1]. }
  apply (Hfirst f); auto.
  intros r0 Hin0 Hname0. destruct (g_names _ _ G r0 Hin0) as [e0 H0]. rewrite Hname0 in H0.
  (* same name => same step => same id => same record *)
  assert (Hid : r_id r0 = i).
  { clear -Hnames Hst H0. induction steps as [|s steps IH]; [destruct Hst|].
    cbn [map] in Hnames. inversion Hnames as [|? ? Hnotin Hnd]; subst.
    destruct Hst as [->|Hst], H0 as [H0|H0].
    - now injection H0.
    - elim Hnotin. cbn. apply in_map_iff. exists (r_id r0, name, e0). split; [reflexivity|exact H0].
    - subst s. elim Hnotin. cbn. apply in_map_iff. exists (i, name, e). split; [reflexivity|exact Hst].
    - auto. }
  pose proof (In_lookup f r0 (g_asc _ _ G) Hin0) as L0. pose proof (In_lookup f r (g_asc _ _ G) Hin) as L1.
  rewrite Hid in L0. rewrite E in L1. congruence.
Qed.

Theorem orch_good steps : wf_steps steps ->
  forall rest done f, steps = done ++ rest -> good steps f ->
  (match rest with s0 :: _ => bound f (sid s0) /\ below f (sid s0) | [] => True end) ->
  forall g ex, In (g, ex) (orch rest f) -> good steps g.
Proof.
  intros W. induction rest as [|[[i name] e] rest IH]; intros done f Hsplit G Hpre g ex Hin; [destruct Hin|].
  destruct Hpre as [Hb Hl]. unfold sid in Hb, Hl. cbn [fst] in Hb, Hl.
  assert (Hst : In (i, name, e) steps) by (rewrite Hsplit; apply in_or_app; right; now left).
  assert (Hnext : forall s1 rest', rest = s1 :: rest' -> i < sid s1).
  { intros s1 rest' ->. destruct W as [Hids _]. rewrite Hsplit in Hids.
    clear -Hids. induction done as [|d done IHd]; cbn [app] in Hids.
    - inversion Hids as [|? ? _ Hall]; subst. inversion Hall; subst. assumption.
    - inversion Hids; subst. auto. }
  assert (Hsplit' : steps = (done ++ [(i, name, e)]) ++ rest) by (rewrite <- app_assoc; exact Hsplit).
  cbn [orch] in Hin.
  destruct (skipped f name) eqn:Esk.
  - (* skipped: nothing written *)
    apply (IH (done ++ [(i, name, e)]) f Hsplit' G) with (ex := ex); [|exact Hin].
    destruct rest as [|s1 rest']; [exact I|]. specialize (Hnext s1 rest' eq_refl).
    pose proof (skipped_no_record steps f i name e W G Hst Esk) as Hno.
    split.
    + intros r Hr Hns. specialize (Hb r Hr Hns). lia.
    + intros r Hr Hns Hlt. specialize (Hb r Hr Hns). specialize (Hno r Hr Hns). apply (Hl r Hr Hns). lia.
  - destruct (beq name END) eqn:Eend.
    + (* the end step *)
      destruct Hin as [Hin|[]]. injection Hin as <- <-.
      apply good_upsert; eauto.
    + set (f1 := upsert (mkrow i name (-1) 0) f) in *.
      set (f2 := upsert (mkrow i name e 0) f1) in *.
      assert (G1 : good steps f1) by (apply good_upsert; eauto).
      assert (B1 : bound f1 i) by (apply bound_upsert; [apply (g_asc _ _ G)|exact Hb|lia]).
      assert (L1 : below f1 i) by (apply below_upsert_same; [apply (g_asc _ _ G)|exact Hl]).
      assert (G2 : good steps f2) by (apply good_upsert; eauto).
      destruct Hin as [Hin|[Hin|Hin]].
      * injection Hin as <- <-. exact G1.
      * injection Hin as <- <-. exact G2.
      * destruct (Z.eqb_spec e 0) as [->|Ene]; [|destruct Hin].
        apply in_map_iff in Hin. destruct Hin as [[g' ex'] [Heq Hin]]. injection Heq as <- <-.
        apply (IH (done ++ [(i, name, 0)]) f2 Hsplit' G2) with (ex := ex'); [|exact Hin].
        destruct rest as [|s1 rest']; [exact I|]. specialize (Hnext s1 rest' eq_refl).
        split.
        -- apply bound_upsert; [apply (g_asc _ _ G1)|exact B1|lia].
        -- apply below_upsert_done; auto. apply (g_asc _ _ G1).
Qed.

(* ---- fresh runs, crashes and resumed runs ---------------------------------------------------- *)

Lemma from_step_suffix r steps :
  exists done, steps = done ++ from_step r steps /\ Forall (fun s => sid s < r) done /\
               match from_step r steps with s0 :: _ => r <= sid s0 | [] => True end.
Proof.
  induction steps as [|[[i n] e] steps IH]; [exists []; repeat split; constructor|].
  cbn [from_step]. destruct (Z.ltb_spec i r).
  - destruct IH as [done [H1 [H2 H3]]]. exists ((i, n, e) :: done). split; [cbn; now rewrite <- H1|].
    split; [constructor; [exact H|exact H2]|exact H3].
  - exists []. repeat split; [constructor|exact H].
Qed.

Section Reach.
  Variable steps : list cstep.
  Hypothesis W : wf_steps steps.

  (* what canvas writes before the loop: records of skipped steps only *)
  Definition skip_only (f : sfile) : Prop :=
    ids_asc f /\ (forall r, In r f -> nonskip r = false) /\
    (forall r, In r f -> exists e, In (r_id r, r_name r, e) steps).

  Lemma skip_only_good f : skip_only f -> good steps f.
  Proof.
    intros [Ha [Hs Hn]]. constructor; auto.
    intros r1 r2 H1 _ N1. rewrite (Hs r1 H1) in N1. discriminate.
  Qed.

  (* every file a crash can leave: during a fresh run, or during a run resumed
     from such a file, any number of times *)
  Inductive reach : sfile -> Prop :=
  | reach_init f : skip_only f -> reach f
  | reach_fresh f g ex : skip_only f -> In (g, ex) (orch steps f) -> reach g
  | reach_resume f x g ex :
      reach f -> step_next f = Some x -> In (g, ex) (orch (from_step x steps) f) -> reach g.

  Theorem reach_good f : reach f -> good steps f.
  Proof.
    induction 1 as [f Hs|f g ex Hs Hin|f x g ex Hreach IH Hx Hin].
    - now apply skip_only_good.
    - apply (orch_good steps W steps [] f eq_refl (skip_only_good f Hs)) with (ex := ex); [|exact Hin].
      destruct steps as [|s0 rest]; [exact I|]. destruct Hs as [_ [Hns _]].
      split; intros r Hr N; rewrite (Hns r Hr) in N; discriminate.
    - destruct (from_step_suffix x steps) as [done [Hsplit [Hdone Hhead]]].
      apply (orch_good steps W (from_step x steps) done f Hsplit IH) with (ex := ex); [|exact Hin].
      destruct (from_step x steps) as [|s0 rest] eqn:Ef; [exact I|].
      destruct (resume_point_ok steps f x IH Hx) as [Hlow Hhigh].
      (* a non-skipped record at or above x sits exactly at x, and x is then the id of s0 *)
      assert (Hat : forall r, In r f -> nonskip r = true -> x <= r_id r -> r_id r = sid s0).
      { intros r Hr N Hge. destruct (Hhigh r Hr N Hge) as [E _].
        destruct (g_names _ _ IH r Hr) as [e Hst]. rewrite Hsplit in Hst.
        apply in_app_or in Hst. destruct Hst as [Hst|Hst].
        - rewrite Forall_forall in Hdone. specialize (Hdone _ Hst). unfold sid in Hdone. cbn in Hdone. lia.
        - destruct Hst as [->|Hst]; [reflexivity|].
          destruct W as [Hids _]. rewrite Hsplit in Hids.
          assert (Hs0 : StronglySorted (fun a b => sid a < sid b) (s0 :: rest)).
          { clear -Hids. induction done; cbn in Hids; [exact Hids|]. inversion Hids; auto. }
          inversion Hs0 as [|? ? _ Hall]; subst. rewrite Forall_forall in Hall.
          specialize (Hall _ Hst). unfold sid in *. cbn in Hall. lia. }
      split.
      + intros r Hr N. destruct (Z_lt_ge_dec (r_id r) x); [lia|]. rewrite (Hat r Hr N); lia.
      + intros r Hr N Hlt. destruct (Z_lt_ge_dec (r_id r) x) as [Hl|Hg]; [apply (Hlow r Hr N Hl)|].
        rewrite (Hat r Hr N) in Hlt; lia.
  Qed.

  Theorem crash_resume f x : reach f -> step_next f = Some x -> resume_ok f x.
  Proof. intros R. apply resume_point_ok with (steps := steps). now apply reach_good. Qed.
End Reach.

Lemma resume_okb_spec f x : resume_okb f x = true <-> resume_ok f x.
Proof.
  unfold resume_okb, resume_ok. rewrite forallb_forall. split.
  - intros H. split.
    + intros r Hin Hns Hlt. specialize (H r Hin). rewrite Hns in H. cbn [negb orb] in H.
      destruct (Z.ltb_spec (r_id r) x); [|lia]. apply andb_true_iff in H. destruct H as [H1 H2].
      apply Z.eqb_eq in H1. apply negb_true_iff in H2. auto.
    + intros r Hin Hns Hge. specialize (H r Hin). rewrite Hns in H. cbn [negb orb] in H.
      destruct (Z.ltb_spec (r_id r) x); [lia|]. apply andb_true_iff in H. destruct H as [H1 H2].
      apply Z.eqb_eq in H1. split; [exact H1|]. apply orb_true_iff in H2. destruct H2 as [H2|H2].
      * left. apply negb_true_iff, Z.eqb_neq in H2. exact H2.
      * right. now apply beq_eq.
  - intros [H1 H2] r Hin. destruct (nonskip r) eqn:Hns; [|reflexivity]. cbn [negb orb].
    destruct (Z.ltb_spec (r_id r) x) as [Hlt|Hge].
    + destruct (H1 r Hin Hns Hlt) as [E1 E2]. rewrite E1, E2. reflexivity.
    + destruct (H2 r Hin Hns Hge) as [E [E2|E2]]; rewrite E, Z.eqb_refl; cbn [andb].
      * apply orb_true_iff. left. apply negb_true_iff, Z.eqb_neq. exact E2.
      * apply orb_true_iff. right. now apply beq_eq.
Qed.
