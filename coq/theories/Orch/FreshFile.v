(* FreshFile.v - the step file a fresh invocation starts from: canvas writes one skip record per name of
   the skip set (step_write -S -t -s "$(step_id name)" -n name -e 0 -d 0) before the loop; robsd-step keeps
   the rows in ascending id order (C01).  [skip_file] is that file; it satisfies the hypotheses under which
   the trace oracle (C04) and the accounting oracle (C11) are proved to accept every run. *)
From Coq Require Import Sorted.
From Robsd Require Import Orch.OrchSpec Orch.ResumeSpec Orch.ResumeProofs Orch.TraceMeaning Orch.TraceOracle.
Local Open Scope Z_scope.

Definition skip_file (steps : list pstep) (skip : list bytes) : sfile :=
  map (fun p => mkrow (p_id p) (p_name p) 0 1) (filter (fun p => mem_name (p_name p) skip) steps).

(* step ids ascend along the configuration (they are 1, 2, ...: robsd-step -L numbers them) *)
Definition ids_ascending (steps : list pstep) : Prop := StronglySorted (fun a b => p_id a < p_id b) steps.

Lemma ids_ascending_nodup steps : ids_ascending steps -> NoDup (map p_id steps).
Proof.
  induction 1 as [|x l Hs IH Hx]; cbn; constructor; [|exact IH].
  intros Hin. apply in_map_iff in Hin. destruct Hin as [y [E Hy]]. rewrite Forall_forall in Hx. specialize (Hx y Hy). lia.
Qed.

Lemma skip_file_asc steps skip : ids_ascending steps -> ids_asc (skip_file steps skip).
Proof.
  unfold skip_file, ids_asc. induction 1 as [|x l Hs IH Hx]; cbn; [constructor|].
  destruct (mem_name (p_name x) skip); [|exact IH]. cbn. constructor; [exact IH|].
  apply Forall_forall. intros r Hr. apply in_map_iff in Hr. destruct Hr as [p [<- Hp]]. apply filter_In in Hp.
  rewrite Forall_forall in Hx. cbn. apply Hx. tauto.
Qed.

Section Fresh.
  Variable steps : list pstep.
  Variable skip : list bytes.
  Hypothesis Hsub : forall n, In n skip -> exists p, In p steps /\ p_name p = n.   (* step_id fails otherwise *)
  Hypothesis Hnoendskip : ~ In END skip.

  Lemma skip_file_rows r : In r (skip_file steps skip) ->
    r_skip r = 1 /\ r_exit r <> -1 /\ In (r_name r) skip /\ exists p, In p steps /\ r_id r = p_id p /\ r_name r = p_name p.
  Proof.
    unfold skip_file. intros Hr. apply in_map_iff in Hr. destruct Hr as [p [<- Hp]]. apply filter_In in Hp. destruct Hp as [Hp Hm].
    cbn. repeat split; [discriminate|now apply mem_name_In|]. exists p. auto.
  Qed.

  Lemma skip_file_complete n : In n skip -> exists r, In r (skip_file steps skip) /\ r_name r = n.
  Proof.
    intros Hn. destruct (Hsub n Hn) as [p [Hp <-]]. exists (mkrow (p_id p) (p_name p) 0 1). split; [|reflexivity].
    unfold skip_file. apply in_map_iff. exists p. split; [reflexivity|]. apply filter_In. split; [exact Hp|now apply mem_name_In].
  Qed.

  Lemma skip_file_noend : has_end (skip_file steps skip) = false.
  Proof.
    destruct (has_end (skip_file steps skip)) eqn:E; [|reflexivity]. apply has_end_In in E. destruct E as [r [Hr Hn]].
    destruct (skip_file_rows r Hr) as [_ [_ [Hin _]]]. rewrite Hn in Hin. contradiction.
  Qed.
End Fresh.
