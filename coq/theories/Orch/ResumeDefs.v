(* ResumeDefs.v - step_next (util.sh) and the sequential orchestrator loop
   (robsd() for synchronous steps, step_exec_job's two records per step) on an
   abstract step file: rows (id, name, exit, skip) in ascending id order, which
   is what C01 guarantees robsd-step keeps.  Definitions only. *)
From Robsd Require Export Base.Bytes.
Local Open Scope Z_scope.

Record srow := mkrow { r_id : Z; r_name : bytes; r_exit : Z; r_skip : Z }.
Definition sfile := list srow.                 (* ascending ids *)

Definition END : bytes := [101; 110; 100]%N.

(* step_next: walk the rows from the last one (step_eval -1, -2, ...), pass over
   rows with skip = 1, decide on the first other row; fail when the rows run out *)
Fixpoint next_from_rev (rows_rev : list srow) : option Z :=
  match rows_rev with
  | [] => None
  | r :: rest =>
      if r_skip r =? 1 then next_from_rev rest
      else if negb (r_exit r =? 0) then Some (r_id r)
      else if beq (r_name r) END then Some (r_id r)
      else Some (r_id r + 1)
  end.

Definition step_next (f : sfile) : option Z := next_from_rev (rev f).

(* robsd-step -W on the abstract file: replace the row with that id or insert in order *)
Fixpoint upsert (r : srow) (f : sfile) : sfile :=
  match f with
  | [] => [r]
  | x :: f' => if r_id r =? r_id x then r :: f'
               else if r_id r <? r_id x then r :: f
               else x :: upsert r f'
  end.

(* step_eval -n name && step_skip: the first row with that name has skip = 1 *)
Fixpoint skipped (f : sfile) (name : bytes) : bool :=
  match f with
  | [] => false
  | x :: f' => if beq (r_name x) name then r_skip x =? 1 else skipped f' name
  end.

(* a configured step: id (its 1-based position in the schedule), name, the exit
   status its command will give *)
Definition cstep := (Z * bytes * Z)%type.

(* the loop of robsd() over synchronous steps from the given suffix of the
   schedule: the step files after each successive robsd-step -W, and the ids
   executed.  A crash leaves one of these files (or the initial one). *)
Fixpoint orch (steps : list cstep) (f : sfile) : list (sfile * list Z) :=
  match steps with
  | [] => []
  | (i, name, e) :: rest =>
      if skipped f name then orch rest f
      else if beq name END then [(upsert (mkrow i name 0 0) f, [])]
      else
        let f1 := upsert (mkrow i name (-1) 0) f in
        let f2 := upsert (mkrow i name e 0) f1 in
        (f1, []) :: (f2, [i]) ::
        (if e =? 0 then map (fun '(g, ex) => (g, i :: ex)) (orch rest f2) else [])
  end.

(* the schedule from step r on *)
Fixpoint from_step (r : Z) (steps : list cstep) : list cstep :=
  match steps with
  | [] => []
  | (i, n, e) :: rest => if i <? r then from_step r rest else steps
  end.
