(* LoopEndProofs.v - C04 / C11 statements about the ends of an invocation that the [terminal] states do not cover,
   each as the property's reading with a `_refuted` witness for the code as it is and the `_partial` guard:
   (1) the loop never runs out of schedule lines - PROVED when end is configured and not skipped
       (fell_off_unreachable), so that under that guard every ended invocation is a [terminal] state and the
       oracle theorems cover every end; REFUTED for skip { "end" } (three witnesses: end hook on a failed build;
       report, end hook and status 0 with end skipped; exit trap while a parallel step is still in flight);
   (2) a hook that reads its standard input swallows the rest of the schedule (HookStdinInherited), not with
       HookStdinNull;
   (3) -s on a resume at step >= 2 is ignored (start_file);
   (4) an in-flight record of a parallel step below the resume point stays in flight when the resumed invocation
       ends normally. *)
From Coq Require Import Sorted.
From Robsd Require Import Orch.OrchSpec Orch.ResumeSpec Orch.ResumeProofs Orch.OrchProofs Orch.AccountProofs
  Orch.OrchSteps Orch.TraceMeaning Orch.TraceOracle Orch.AccountOracle Orch.FreshFile Orch.Statements Orch.LoopEnd.
Local Open Scope Z_scope.

(* ---- (1) ---------------------------------------------------------------------------------------------------- *)
Section FellOff.
  Variable ncpu : nat.
  Variable exit_of : Z -> Z.
  Variable name_of : Z -> bytes.
  Variable steps : list pstep.
  Variable f0 : sfile.
  Hypothesis Hcfg : wf_cfg exit_of name_of steps.
  Hypothesis Hfile : file_of_cfg steps f0.
  Hypothesis Hend : exists p, In p steps /\ p_name p = END.
  Hypothesis Hnoskip : skipped f0 END = false.

  Theorem fell_off_unreachable s : oreach ncpu exit_of name_of steps f0 s -> fell_off s = false.
  Proof.
    intros Hr. destruct Hcfg as [Hids [Hnames [Hexit [Hname Hendsync]]]]. destruct Hfile as [Hasc Hf0].
    destruct (PA_inv ncpu exit_of name_of steps f0 Hids Hnames Hexit Hname Hendsync Hasc Hf0 s Hr)
      as [done [Esp [Hdone [Hst _]]]].
    unfold fell_off. destruct (mode s) eqn:Em; try reflexivity. destruct (todo s) eqn:Et; [|reflexivity].
    exfalso. rewrite app_nil_r in Esp. subst done. destruct Hend as [p [Hp Hpn]].
    destruct (Hdone p Hp) as [Hs|[Hs|[_ Hm]]].
    - rewrite Hpn, Hnoskip in Hs. discriminate.
    - destruct (Hst _ _ Hs) as [q [Hq [Hqi [_ [Hqn _]]]]].
      rewrite (same_id_same_step steps q p Hids Hq Hp Hqi) in Hqn. contradiction.
    - discriminate.
  Qed.

  (* hence: whatever state the invocation is in when the shell leaves robsd() normally, it is a terminal one *)
  Corollary ended_is_terminal s : oreach ncpu exit_of name_of steps f0 s ->
    exit_mode s = mode s /\ forall d, trap_exit_of s d = trap_exit (mode s) (sfile_ s) d.
  Proof.
    intros Hr. unfold trap_exit_of, exit_mode. rewrite (fell_off_unreachable s Hr). split; [reflexivity|reflexivity].
  Qed.
End FellOff.

(* the same for a fresh invocation, in terms of the configuration and the skip set *)
Theorem fell_off_unreachable_fresh ncpu exit_of name_of steps skip :
  wf_cfg exit_of name_of steps -> fresh_ok steps skip -> (exists p, In p steps /\ p_name p = END) ->
  forall s, oreach ncpu exit_of name_of steps (skip_file steps skip) s -> fell_off s = false.
Proof.
  intros Hcfg [Hsorted [Hsub Hne]] Hend.
  pose proof Hcfg as [Hids [Hnames _]].
  apply (fell_off_unreachable ncpu exit_of name_of steps (skip_file steps skip) Hcfg); [|exact Hend|].
  - split; [now apply skip_file_asc|]. apply (Hf0cfg steps (skip_file steps skip) skip Hids). apply (skip_file_rows steps skip).
  - destruct (skipped (skip_file steps skip) END) eqn:E; [|reflexivity]. exfalso.
    apply (skipped_all_skip (skip_file steps skip) END) in E.
    + destruct E as [r [Hr Hn]]. destruct (skip_file_rows steps skip r Hr) as [_ [_ [Hin _]]]. rewrite Hn in Hin. contradiction.
    + intros r Hr. now destruct (skip_file_rows steps skip r Hr).
Qed.

(* witnesses with end in the skip set.  Every other hypothesis of the oracle theorems holds. *)
Definition se_A : bytes := [97]%N.
Definition se_P : bytes := [112]%N.
Definition se_steps1 : list pstep := [mkpstep 1 se_A false 2; mkpstep 2 END false 0].
Definition se_steps2 : list pstep := [mkpstep 1 se_A false 0; mkpstep 2 se_P true 3; mkpstep 3 END false 0].
Definition se_ex1 (i : Z) : Z := if i =? 1 then 2 else 0.
Definition se_nm1 (i : Z) : bytes := if i =? 1 then se_A else END.
Definition se_ex2 (i : Z) : Z := if i =? 2 then 3 else 0.
Definition se_nm2 (i : Z) : bytes := if i =? 1 then se_A else if i =? 2 then se_P else END.

Lemma se_wf1 : wf_cfg se_ex1 se_nm1 se_steps1 /\ end_last se_steps1 /\ ids_ascending se_steps1 /\
  (forall n, In n [END] -> exists p, In p se_steps1 /\ p_name p = n).
Proof.
  assert (Hin : forall p, In p se_steps1 -> p = mkpstep 1 se_A false 2 \/ p = mkpstep 2 END false 0)
    by (intros p [<-|[<-|[]]]; auto).
  split; [|split; [|split]].
  - repeat split.
    + cbn. repeat constructor; cbn; intuition discriminate.
    + cbn. repeat constructor; cbn; intuition discriminate.
    + intros p Hp. destruct (Hin p Hp) as [->| ->]; reflexivity.
    + intros p Hp. destruct (Hin p Hp) as [->| ->]; reflexivity.
    + intros p Hp. destruct (Hin p Hp) as [->| ->]; [discriminate|reflexivity].
  - intros d p r E Hn. destruct d as [|x d]; cbn in E.
    + injection E as <- <-. discriminate.
    + injection E as <- E. destruct d as [|y d]; cbn in E; [now injection E as _ <-|].
      injection E as _ E. destruct d; discriminate.
  - repeat constructor; cbn; lia.
  - intros n [<-|[]]. exists (mkpstep 2 END false 0). split; [right; now left|reflexivity].
Qed.

(* (a) a FAILED build with end skipped: the end hook still runs, for a step that is skipped, and the accounting
   oracle (skipped steps get no hook) rejects what is left *)
Theorem skip_end_hook_on_failed_build :
  let s := orun 1 se_ex1 se_nm1 (oinit se_steps1 (skip_file se_steps1 [END])) [AMain; AJob 1; AJob 1; AMain] in
  mode s = OFailed /\ sfile_ s = [mkrow 1 se_A 2 0; mkrow 2 END 0 1] /\
  e_status (trap_exit_of s false) = 1 /\ e_endhook (trap_exit_of s false) = true /\
  final_hooks s false = [(se_A, 2); (END, 0)] /\
  spec_ok_account se_steps1 [END] (executed se_nm1 s) (leftovers_of s false true false) = false.
Proof. vm_compute. repeat split; reflexivity. Qed.

(* (b) a successful build with end skipped: the loop runs out of lines, the shell exits 0, "end reached": report and
   end hook - but the state is not a terminal one of the transition system (no end step was recorded by the loop) *)
Theorem skip_end_loop_runs_out :
  let steps := [mkpstep 1 se_A false 0; mkpstep 2 END false 0] in
  let s := orun 1 (fun _ => 0) se_nm1 (oinit steps (skip_file steps [END])) [AMain; AJob 1; AJob 1; AMain; AMain] in
  fell_off s = true /\ mode s = AtHead /\ sfile_ s = [mkrow 1 se_A 0 0; mkrow 2 END 0 1] /\
  e_status (trap_exit_of s true) = 0 /\ e_report (trap_exit_of s true) = true /\ e_mail (trap_exit_of s true) = true /\
  e_endhook (trap_exit_of s true) = true.
Proof. vm_compute. repeat split; reflexivity. Qed.

(* (c) end skipped and the last step parallel: the loop runs out of lines WITHOUT the barrier; the exit trap (report,
   end hook, lock release) runs while p is in flight: its record still says -1, and its failure comes too late *)
Theorem skip_end_exit_trap_while_parallel_step_runs :
  let s := orun 2 se_ex2 se_nm2 (oinit se_steps2 (skip_file se_steps2 [END]))
             [AMain; AJob 1; AJob 1; AMain; AMain; AJob 2; AMain] in
  fell_off s = true /\ running s = [(2, JRunning)] /\
  sfile_ s = [mkrow 1 se_A 0 0; mkrow 2 se_P (-1) 0; mkrow 3 END 0 1] /\
  e_status (trap_exit_of s false) = 0 /\ e_report (trap_exit_of s false) = true /\ e_endhook (trap_exit_of s false) = true /\
  failing_record (sfile_ (orun 2 se_ex2 se_nm2 s [AJob 2])) = true.
Proof. vm_compute. repeat split; reflexivity. Qed.

(* ---- (2) a hook that reads its standard input ----------------------------------------------------------------- *)
Theorem hook_stdin_null_is_the_model reads ncpu s : main_step_h HookStdinNull reads ncpu s = main_step ncpu s.
Proof. unfold main_step_h. destruct (main_step ncpu s); [|reflexivity]. destruct (mode s); reflexivity. Qed.

Theorem hook_not_reading_is_the_model hs ncpu s : main_step_h hs (fun _ => false) ncpu s = main_step ncpu s.
Proof. unfold main_step_h. destruct (main_step ncpu s); [|reflexivity]. destruct (mode s); destruct hs; reflexivity. Qed.

Theorem orun_h_null reads ncpu exit_of name_of sched : forall s,
  orun_h HookStdinNull reads ncpu exit_of name_of s sched = orun ncpu exit_of name_of s sched.
Proof.
  induction sched as [|a sched IH]; intros s; cbn [orun_h orun]; [reflexivity|].
  assert (E : ostep_h HookStdinNull reads ncpu exit_of name_of s a = ostep ncpu exit_of name_of s a)
    by (destruct a; cbn; [apply hook_stdin_null_is_the_model|reflexivity]).
  rewrite E. destruct (ostep ncpu exit_of name_of s a); apply IH.
Qed.

Definition hk_B : bytes := [98]%N.
Definition hk_C : bytes := [99]%N.
Definition hk_steps : list pstep := [mkpstep 1 se_A false 0; mkpstep 2 hk_B false 0; mkpstep 3 hk_C false 0; mkpstep 4 END false 0].
Definition hk_nm (i : Z) : bytes := if i =? 1 then se_A else if i =? 2 then hk_B else if i =? 3 then hk_C else END.

(* a, b, c, end; no step fails; the hook reads its input: after a the schedule is gone - exit status 0, no end
   record, no report, b and c never started; the trace oracle (end recorded iff no synchronous step failed) rejects *)
Theorem hook_reading_stdin_swallows_schedule :
  let s := orun_h HookStdinInherited (fun _ => true) 1 (fun _ => 0) hk_nm (oinit hk_steps []) [AMain; AJob 1; AJob 1; AMain; AMain] in
  fell_off s = true /\ sfile_ s = [mkrow 1 se_A 0 0] /\ executed hk_nm s = [se_A] /\
  e_status (trap_exit_of s true) = 0 /\ e_report (trap_exit_of s true) = false /\ has_end (sfile_ s) = false /\
  spec_ok_trace hk_steps [] 1 (tev_of hk_nm (evlog s)) (e_status (trap_exit_of s true)) (has_end (sfile_ s)) = false.
Proof. vm_compute. repeat split; reflexivity. Qed.

(* ---- (3) -s on a resume ----------------------------------------------------------------------------------------- *)
(* at step 1 the names of the invocation's skip set get their skip records ... *)
Theorem start_file_at_1_skips :
  skipped (start_file 1 hk_steps [hk_C] []) hk_C = true.
Proof. vm_compute. reflexivity. Qed.

(* ... at any later step they do not: a failed at b, resumed with -s c: step_next answers 2, the file is left as it
   is, and c is started *)
Theorem command_line_skip_ignored_on_resume :
  let f := [mkrow 1 se_A 0 0; mkrow 2 hk_B 1 0] in
  let f0 := start_file 2 hk_steps [hk_C] f in
  let s := orun 1 (fun _ => 0) hk_nm (oinit (psteps_from 2 hk_steps) f0) [AMain; AJob 2; AJob 2; AMain; AMain] in
  step_next f = Some 2 /\ f0 = f /\ skipped f0 hk_C = false /\ In hk_C (executed hk_nm s).
Proof. vm_compute. repeat split; try reflexivity. right. now left. Qed.

(* ---- (4) the in-flight record of a parallel step below the resume point ------------------------------------------ *)
Definition pr_steps : list pstep := [mkpstep 1 se_A true 0; mkpstep 2 se_P true 0; mkpstep 3 hk_C false 0; mkpstep 4 END false 0].
Definition pr_nm (i : Z) : bytes := if i =? 1 then se_A else if i =? 2 then se_P else if i =? 3 then hk_C else END.

(* killed with 1 in flight and 2 completed; resumed: step_next answers 3; the resumed invocation runs c and end and
   ends with status 0 - and record 1 still says -1 *)
Theorem inflight_parallel_record_left_after_resume :
  let f := [mkrow 1 se_A (-1) 0; mkrow 2 se_P 0 0] in
  let s := orun 2 (fun _ => 0) pr_nm (oinit (psteps_from 3 pr_steps) f) [AMain; AJob 3; AJob 3; AMain; AMain] in
  step_next f = Some 3 /\ mode s = ODone /\ running s = [] /\ e_status (trap_exit_of s false) = 0 /\
  In (mkrow 1 se_A (-1) 0) (sfile_ s).
Proof. vm_compute. repeat split; try reflexivity. now left. Qed.

(* the guard: when every in-flight record of the initial file belongs to a step this invocation starts (the sequential
   case: step_next points at the in-flight record), no record is in flight once it has ended *)
Theorem no_inflight_when_resumed_at_the_inflight_step ncpu exit_of name_of steps f0 :
  NoDup (map p_id steps) -> (forall p, In p steps -> p_exit p = exit_of (p_id p)) -> ids_asc f0 ->
  (forall i, exit_of i <> -1) ->
  forall s, oreach ncpu exit_of name_of steps f0 s -> mode s = ODone \/ mode s = OFailed ->
  (forall r, In r f0 -> r_exit r = -1 -> started s (r_id r)) ->
  forall r, In r (sfile_ s) -> r_exit r <> -1.
Proof.
  intros Hids Hexit Hasc Hcode s Hr Ht Hcov r Hin E.
  destruct (nothing_in_flight_at_the_end ncpu exit_of name_of steps f0 Hids Hexit Hasc s Hr Ht) as [_ H].
  destruct (H r Hin) as [[_ Er]|[Hns [Hl|[_ [Ee _]]]]].
  - rewrite Er in E. cbn in E. now apply (Hcode (r_id r)).
  - apply Hns, Hcov; [|exact E]. now apply lookup_In with (i := r_id r).
  - rewrite Ee in E. discriminate.
Qed.
