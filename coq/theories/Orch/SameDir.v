(* SameDir.v - C11 "a second invocation started meanwhile is refused without touching the first", read for EVERY
   build directory the second invocation may name - in particular the directory of the invocation that is running
   (canvas -r <that directory>).  lock_acquire lets exactly that case pass (the owner equals the build directory:
   "We could already be owning the lock if the previous run was aborted prematurely"), so the full statement is
   REFUTED; the refusal theorems of RunLockProofs.v are the `_partial` under the guard o <> b'.
   Also: what a REFUSED resume of an older directory does to that directory (report, mail, end hook again). *)
From Robsd Require Import Orch.RunLock Orch.RunLockProofs Orch.ResumeSpec Orch.ResumeProofs.
Local Open Scope Z_scope.

(* the second invocation names the running one's directory: it is not refused; lock, directories, reports and mail
   are as they were - it goes on to its steps *)
Theorem attempt_same_dir_not_refused w b d f :
  iw_lock w = Some b -> dir_find (iw_dirs w) b = Some f -> attempt ACQ REL w b d = (w, None).
Proof.
  intros Hl Hd. unfold attempt, invoke_begin, build_init. rewrite Hd, Hl, (acquire_free (Some b) b) by (right; now right).
  destruct w as [l ds rs m]. cbn in *. now subst l.
Qed.

(* the property's reading - for every w, o <> [], b', d': attempt .. w b' d' is refused (Some 1) leaving lock and the
   other directories alone - fails *)
Theorem second_invocation_refused_for_every_directory_refuted :
  exists w o b' d', iw_lock w = Some o /\ o <> [] /\ snd (attempt ACQ REL w b' d') = None.
Proof.
  exists (mkiworld (Some [100]%N) [([100]%N, [mkrow 1 [97]%N (-1) 0])] [] 0), [100]%N, [100]%N, false.
  split; [reflexivity|]. split; [discriminate|]. reflexivity.
Qed.

(* which step it then runs: step_next of a file whose last record is in flight is that very step *)
Theorem step_next_of_inflight_tail f i n : step_next (f ++ [mkrow i n (-1) 0]) = Some i.
Proof. unfold step_next. rewrite rev_app_distr. reflexivity. Qed.

(* and its exit trap releases the lock although the first invocation still runs *)
Theorem same_dir_exit_releases_the_lock w b m d :
  iw_lock w = Some b -> iw_lock (fst (invoke_end REL w b m d)) = None.
Proof. intros Hl. unfold invoke_end. cbn [fst iw_lock]. rewrite Hl, release_owner. reflexivity. Qed.

(* the whole sequence on the combined model: the running invocation b holds the lock with its first step in flight;
   `canvas -r b` passes lock_acquire, would start at the in-flight step, and when it ends the lock is gone while the
   first invocation's step is still running *)
Theorem same_dir_resume_witness :
  let b := [100]%N in
  let steps := [mkpstep 1 [97]%N false 0; mkpstep 2 END false 0] in
  let nm := fun i : Z => if i =? 1 then [97]%N else END in
  let w0 := mkiworld None [] [] 0 in
  let ws := wrun 1 (fun _ => 0) nm ACQ REL b
              (mkwstate (begun b w0 []) (oinit steps []) []) [WOrch AMain; WOrch (AJob 1); WOther b false] in
  iw_lock (ws_world ws) = Some b /\ running (ws_orch ws) = [(1, JRunning)] /\
  ws_refused ws = [(b, None)] /\
  (exists f, dir_find (iw_dirs (ws_world ws)) b = Some f /\ step_next f = Some 1) /\
  iw_lock (fst (invoke_end REL (ws_world ws) b OFailed false)) = None.
Proof. vm_compute. split; [reflexivity|]. split; [reflexivity|]. split; [reflexivity|]. split; [eexists; split; reflexivity|reflexivity]. Qed.

(* ---- a refused resume of an OLDER directory ------------------------------------------------------------------- *)
(* refused, lock and every other directory untouched (attempt_refused_untouched) - but the exit trap of the refused
   invocation runs with a non-zero status on the OLD directory: its report is written again, mailed again when in
   the background, and its end hook runs again when it has an end record *)
Theorem refused_resume_side_effects w o b' d' f :
  iw_lock w = Some o -> o <> [] -> o <> b' -> dir_find (iw_dirs w) b' = Some f -> has_steps f = true ->
  let w' := fst (attempt ACQ REL w b' d') in
  snd (attempt ACQ REL w b' d') = Some 1 /\
  iw_reports w' = b' :: iw_reports w /\
  iw_mails w' = (if d' then S (iw_mails w) else iw_mails w) /\
  e_endhook (trap_exit OFailed f d') = has_end f.
Proof.
  intros Hl Ho Hob Hd Hs. unfold attempt, invoke_begin, build_init. rewrite Hd, Hl, (acquire_refused o b' Ho Hob).
  unfold invoke_end. cbn [iw_dirs iw_lock iw_reports iw_mails fst snd]. rewrite Hd.
  unfold trap_exit. rewrite Hs. cbn [e_report e_mail e_status e_endhook andb orb negb Z.eqb fst snd iw_reports iw_mails].
  repeat split; try (destruct d'; reflexivity).
Qed.

(* "mailed once": a finished invocation that was mailed once is mailed a second time by a refused canvas -r *)
Theorem refused_resume_mails_again :
  exists w o b' f, iw_lock w = Some o /\ o <> [] /\ o <> b' /\ dir_find (iw_dirs w) b' = Some f /\ has_end f = true /\
    iw_mails w = 1%nat /\ iw_mails (fst (attempt ACQ REL w b' true)) = 2%nat /\
    e_endhook (trap_exit OFailed f true) = true.
Proof.
  exists (mkiworld (Some [50]%N) [([49]%N, [mkrow 1 [97]%N 0 0; mkrow 2 END 0 0])] [[49]%N] 1), [50]%N, [49]%N,
         [mkrow 1 [97]%N 0 0; mkrow 2 END 0 0].
  repeat split; try discriminate.
Qed.
