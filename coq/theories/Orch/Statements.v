(* Statements.v - the hypotheses of the C04 / C11 theorems as named predicates on the configuration and on the
   initial step file, and the theorems of TraceOracle / AccountOracle / FreshFile / RunLockProofs restated
   with them (what Properties_C04.v and Properties_C11.v quote). *)
From Coq Require Import Sorted.
From Robsd Require Import Orch.OrchSpec Orch.ResumeSpec Orch.ResumeProofs Orch.OrchProofs Orch.AccountProofs
  Orch.OrchSteps Orch.TraceMeaning Orch.TraceOracle Orch.AccountOracle Orch.FreshFile Orch.RunLock Orch.RunLockProofs.
Local Open Scope Z_scope.

(* a configuration as robsd-step -L lists it: distinct ids and names; [exit_of] / [name_of] are the exit status
   and the name of the step with that id; end is a synchronous step *)
Definition wf_cfg (exit_of : Z -> Z) (name_of : Z -> bytes) (steps : list pstep) : Prop :=
  NoDup (map p_id steps) /\ NoDup (map p_name steps) /\
  (forall p, In p steps -> p_exit p = exit_of (p_id p)) /\
  (forall p, In p steps -> name_of (p_id p) = p_name p) /\
  (forall p, In p steps -> p_name p = END -> p_par p = false).

(* end, if configured, is the last step *)
Definition end_last (steps : list pstep) : Prop := forall d p r, steps = d ++ p :: r -> p_name p = END -> r = [].

(* the initial step file belongs to this configuration: ascending ids, and a row with the id of a configured
   step carries that step's name (skip records of a fresh invocation; the file a resumed invocation finds) *)
Definition file_of_cfg (steps : list pstep) (f0 : sfile) : Prop :=
  ids_asc f0 /\ forall r p, In r f0 -> In p steps -> r_id r = p_id p -> r_name r = p_name p.

(* the skip set handed to the checker is the one the step file encodes *)
Definition skip_agrees (steps : list pstep) (f0 : sfile) (skip : list bytes) : Prop :=
  forall p, In p steps -> mem_name (p_name p) skip = skipped f0 (p_name p).

Definition terminal (s : ostate) : Prop := mode s = ODone \/ mode s = OFailed.

Section S.
  Variable ncpu : nat.
  Variable exit_of : Z -> Z.
  Variable name_of : Z -> bytes.
  Variable steps : list pstep.
  Variable f0 : sfile.
  Variable skip : list bytes.
  Hypothesis Hcfg : wf_cfg exit_of name_of steps.
  Hypothesis Hfile : file_of_cfg steps f0.

  Notation oreach := (oreach ncpu exit_of name_of steps f0).

  Let Hids := proj1 Hcfg.
  Let Hnames := proj1 (proj2 Hcfg).
  Let Hexit := proj1 (proj2 (proj2 Hcfg)).
  Let Hname := proj1 (proj2 (proj2 (proj2 Hcfg))).
  Let Hendsync := proj2 (proj2 (proj2 (proj2 Hcfg))).
  Let Hasc := proj1 Hfile.
  Let Hf0cfg := proj2 Hfile.

  Theorem S_check_trace_accepts : skip_agrees steps f0 skip -> forall s, oreach s ->
    exists t, check_trace steps skip ncpu t_init (tev_of name_of (evlog s)) = Some t.
  Proof. intros Hs. exact (check_trace_accepts ncpu exit_of name_of steps f0 skip Hids Hnames Hexit Hname Hendsync Hasc Hf0cfg Hs). Qed.

  Theorem S_spec_ok_trace_accepts : skip_agrees steps f0 skip -> has_end f0 = false -> end_last steps ->
    forall s d, oreach s -> terminal s ->
    spec_ok_trace steps skip ncpu (tev_of name_of (evlog s)) (e_status (trap_exit (mode s) (sfile_ s) d)) (has_end (sfile_ s)) = true.
  Proof. intros Hs Hn Hl. exact (spec_ok_trace_accepts ncpu exit_of name_of steps f0 skip Hids Hnames Hexit Hname Hendsync Hasc Hf0cfg Hs Hn Hl). Qed.

  Theorem S_failed_iff_failing_sync s : oreach s ->
    (mode s = OFailed -> exists i, In (EStart i false) (evlog s) /\ In (EFinish i (exit_of i)) (evlog s) /\ exit_of i <> 0) /\
    (forall i e, In (EStart i false) (evlog s) -> In (EFinish i e) (evlog s) -> e <> 0 -> mode s = OFailed \/ mode s = WaitSync i e).
  Proof.
    intros Hr. split.
    - exact (failed_has_failing_sync ncpu exit_of name_of steps f0 Hids Hexit Hasc s Hr).
    - intros i e. exact (failing_sync_fails ncpu exit_of name_of steps f0 Hids Hexit Hasc s i e Hr).
  Qed.

  Theorem S_stop_after_sync_failure : skip_agrees steps f0 skip -> forall s l1 i e l2 d,
    oreach s -> evlog s = l1 ++ EFinish i e :: l2 -> In (EStart i false) (evlog s) -> e <> 0 ->
    (forall j b, ~ In (EStart j b) l2) /\
    (terminal s -> mode s = OFailed /\ e_status (trap_exit (mode s) (sfile_ s) d) = 1).
  Proof. intros Hs. exact (stop_after_sync_failure ncpu exit_of name_of steps f0 skip Hids Hnames Hexit Hname Hendsync Hasc Hf0cfg Hs). Qed.
End S.

(* ---- a fresh invocation: everything in terms of the configuration and the skip set ---------------------------- *)
Definition fresh_ok (steps : list pstep) (skip : list bytes) : Prop :=
  ids_ascending steps /\ (forall n, In n skip -> exists p, In p steps /\ p_name p = n) /\ ~ In END skip.

Section Fresh.
  Variable ncpu : nat.
  Variable exit_of : Z -> Z.
  Variable name_of : Z -> bytes.
  Variable steps : list pstep.
  Variable skip : list bytes.
  Hypothesis Hcfg : wf_cfg exit_of name_of steps.
  Hypothesis Hlast : end_last steps.
  Hypothesis Hfresh : fresh_ok steps skip.

  Let f0 := skip_file steps skip.
  Notation oreach := (oreach ncpu exit_of name_of steps f0).

  Let Hids := proj1 Hcfg.
  Let Hnames := proj1 (proj2 Hcfg).
  Let Hexit := proj1 (proj2 (proj2 Hcfg)).
  Let Hname := proj1 (proj2 (proj2 (proj2 Hcfg))).
  Let Hendsync := proj2 (proj2 (proj2 (proj2 Hcfg))).
  Let Hsorted := proj1 Hfresh.
  Let Hsub := proj1 (proj2 Hfresh).
  Let Hnoendskip := proj2 (proj2 Hfresh).
  Let Hasc := skip_file_asc steps skip Hsorted.
  Let Hrows := skip_file_rows steps skip.
  Let Hskiprows := skip_file_complete steps skip Hsub.
  Let Hnoend := skip_file_noend steps skip Hnoendskip.

  Theorem F_trace_oracle s d : oreach s -> terminal s ->
    spec_ok_trace steps skip ncpu (tev_of name_of (evlog s)) (e_status (trap_exit (mode s) (sfile_ s) d)) (has_end (sfile_ s)) = true.
  Proof.
    exact (spec_ok_trace_accepts ncpu exit_of name_of steps f0 skip Hids Hnames Hexit Hname Hendsync Hasc
             (Hf0cfg steps f0 skip Hids Hrows)
             (Hskip steps f0 skip Hrows Hskiprows) Hnoend Hlast s d).
  Qed.

  Theorem F_account_oracle : (forall p, In p steps -> p_exit p <> -1) -> forall s d, oreach s -> terminal s ->
    spec_ok_account steps skip (executed name_of s) (leftovers_of s d true false) = true.
  Proof.
    intros Hcode.
    exact (spec_ok_account_accepts ncpu exit_of name_of steps f0 skip Hids Hnames Hexit Hname Hendsync Hcode Hasc Hrows Hskiprows Hnoend).
  Qed.

  Theorem F_skipped_never_run s p : oreach s -> In p steps -> In (p_name p) skip ->
    ~ started s (p_id p) /\ lookup (sfile_ s) (p_id p) = Some (mkrow (p_id p) (p_name p) 0 1) /\
    (forall e, ~ In (p_name p, e) (hooks (evlog s))).
  Proof.
    intros Hr Hp Hin.
    assert (Hsk : skipped f0 (p_name p) = true).
    { rewrite <- (Hskip steps f0 skip Hrows Hskiprows p Hp). now apply mem_name_In. }
    destruct (skipped_never_run_keep_record ncpu exit_of name_of steps f0 skip Hids Hnames Hexit Hname Hendsync Hasc Hrows Hnoend s p Hr Hp Hsk)
      as [A [B C]].
    split; [exact A|]. split; [|exact C]. rewrite B.
    assert (Hrow : In (mkrow (p_id p) (p_name p) 0 1) f0).
    { unfold f0, skip_file. apply in_map_iff. exists p. split; [reflexivity|]. apply filter_In. split; [exact Hp|now apply mem_name_In]. }
    exact (In_lookup f0 _ Hasc Hrow).
  Qed.

  Theorem F_report_decision s d : oreach s -> terminal s ->
    e_report (trap_exit (mode s) (sfile_ s) d) = has_steps (sfile_ s) && (failing_record (sfile_ s) || has_end (sfile_ s)) /\
    e_mail (trap_exit (mode s) (sfile_ s) d) = e_report (trap_exit (mode s) (sfile_ s) d) && d /\
    e_endhook (trap_exit (mode s) (sfile_ s) d) = has_end (sfile_ s) /\
    (e_status (trap_exit (mode s) (sfile_ s) d) = 0 <-> has_end (sfile_ s) = true) /\
    (e_status (trap_exit (mode s) (sfile_ s) d) <> 0 <->
       exists i, In (EStart i false) (evlog s) /\ In (EFinish i (exit_of i)) (evlog s) /\ exit_of i <> 0).
  Proof.
    exact (report_iff_failed_record_or_end ncpu exit_of name_of steps f0 skip Hids Hnames Hexit Hname Hendsync Hasc Hrows Hnoend s d).
  Qed.

  Theorem F_parallel_failure_exit_zero s d i : oreach s -> mode s = ODone -> In (EStart i true) (evlog s) -> exit_of i <> 0 ->
    e_status (trap_exit (mode s) (sfile_ s) d) = 0 /\ e_report (trap_exit (mode s) (sfile_ s) d) = true /\
    lookup (sfile_ s) i = Some (mkrow i (name_of i) (exit_of i) 0) /\ failing_record (sfile_ s) = true.
  Proof.
    exact (parallel_failure_exit_zero ncpu exit_of name_of steps f0 skip Hids Hnames Hexit Hname Hendsync Hasc Hrows Hnoend s d i).
  Qed.

  (* ---- the whole invocation: lock, interleaved other invocations, the run, the exit trap - accounted for ------ *)
  Definition lock_names (b : bytes) (l : lockf) : bool := match l with Some c => beq c b | None => false end.
  Definition lock_present (l : lockf) : bool := match l with Some _ => true | None => false end.

  Theorem F_invocation_accounted b w l d :
    (forall p, In p steps -> p_exit p <> -1) ->
    b <> [] -> lock_free_for (iw_lock w) b -> (forall b' d', In (WOther b' d') l -> b' <> b) ->
    exists ws w2 st,
      invocation ncpu exit_of name_of ACQ REL b w steps f0 l d = Some (ws, w2, st) /\
      oreach (ws_orch ws) /\
      (* the lock named this invocation at every point of the run and is gone afterwards *)
      (forall l1 l2, l = l1 ++ l2 ->
         lock_names b (iw_lock (ws_world (wrun ncpu exit_of name_of ACQ REL b
                                            (mkwstate (begun b w f0) (oinit steps f0) []) l1))) = true) /\
      lock_present (iw_lock w2) = false /\
      (* every invocation started meanwhile was refused *)
      ws_refused ws = map (fun x => (x, Some 1)) (others l) /\
      (* and when the run has ended the accounting oracle accepts what is left, with the lock bits taken from
         this very model *)
      (terminal (ws_orch ws) ->
         st = e_status (trap_exit (mode (ws_orch ws)) (sfile_ (ws_orch ws)) d) /\
         spec_ok_account steps skip (executed name_of (ws_orch ws))
           (leftovers_of (ws_orch ws) d (lock_names b (iw_lock (ws_world ws))) (lock_present (iw_lock w2))) = true).
  Proof.
    intros Hcode Hb Hfree Hl.
    destruct (invocation_lock_follows_run ncpu exit_of name_of b Hb w steps f0 l d Hfree Hl)
      as [ws [w2 [st [Hinv [Ho [Hdur [Href [Hafter [Hst _]]]]]]]]].
    exists ws, w2, st. split; [exact Hinv|].
    assert (Hr : oreach (ws_orch ws)) by (exists (orch_actions l); exact Ho).
    split; [exact Hr|]. split; [|split; [now rewrite Hafter|split; [exact Href|]]].
    - intros l1 l2 E. destruct (Hdur l1 l2 E) as [A _]. cbn zeta in A. rewrite A. cbn. apply beq_refl.
    - intros Ht. split; [exact Hst|].
      destruct (Hdur l [] (eq_sym (app_nil_r l))) as [A _]. cbn zeta in A.
      assert (E : ws_world ws = ws_world (wrun ncpu exit_of name_of ACQ REL b (mkwstate (begun b w f0) (oinit steps f0) []) l)).
      { unfold invocation in Hinv. unfold begun.
        destruct (invoke_begin ACQ w b) as [w1 ok]. destruct ok; [|discriminate]. cbn [fst].
        destruct (invoke_end REL _ b _ d) as [w2' st'] in Hinv. now injection Hinv as <- _ _. }
      rewrite E, A, Hafter. cbn [lock_names lock_present]. rewrite beq_refl.
      now apply F_account_oracle.
  Qed.
End Fresh.

(* ---- why the trace oracle theorem needs "no end record in the initial file" ----------------------------------- *)
Theorem stale_end_record_witness :
  exists ncpu exit_of name_of steps f0 skip s,
    wf_cfg exit_of name_of steps /\ file_of_cfg steps f0 /\ skip_agrees steps f0 skip /\ end_last steps /\
    has_end f0 = true /\
    oreach ncpu exit_of name_of steps f0 s /\ terminal s /\
    spec_ok_trace steps skip ncpu (tev_of name_of (evlog s))
                  (e_status (trap_exit (mode s) (sfile_ s) false)) (has_end (sfile_ s)) = false.
Proof.
  set (A := [97]%N).
  set (steps := [mkpstep 1 A false 2; mkpstep 2 END false 0]).
  set (ex := fun i : Z => if i =? 1 then 2 else 0).
  set (nm := fun i : Z => if i =? 1 then A else END).
  set (f0 := [mkrow 2 END 0 0]).
  exists 1%nat, ex, nm, steps, f0, [], (orun 1 ex nm (oinit steps f0) [AMain; AJob 1; AJob 1; AMain]).
  assert (Hin : forall p, In p steps -> p = mkpstep 1 A false 2 \/ p = mkpstep 2 END false 0).
  { intros p [<-|[<-|[]]]; auto. }
  split; [|split; [|split; [|split; [|split; [|split; [|split]]]]]].
  - repeat split.
    + cbn. repeat constructor; cbn; intuition discriminate.
    + cbn. repeat constructor; cbn; intuition discriminate.
    + intros p Hp. destruct (Hin p Hp) as [->| ->]; reflexivity.
    + intros p Hp. destruct (Hin p Hp) as [->| ->]; reflexivity.
    + intros p Hp. destruct (Hin p Hp) as [->| ->]; [discriminate|reflexivity].
  - split; [repeat constructor|]. intros r p [<-|[]] Hp E. destruct (Hin p Hp) as [->| ->]; [discriminate|reflexivity].
  - intros p Hp. destruct (Hin p Hp) as [->| ->]; reflexivity.
  - intros d p r E Hn.
    destruct d as [|x d]; cbn in E.
    + injection E as <- <-. discriminate.
    + injection E as <- E. destruct d as [|y d]; cbn in E; [now injection E as _ <-|].
      injection E as _ E. destruct d; discriminate.
  - reflexivity.
  - eexists. reflexivity.
  - right. reflexivity.
  - vm_compute. reflexivity.
Qed.
