(* AccountOracle.v - the property-shaped checker of C11 (OrchSpec.spec_ok_account) accepts what every
   terminal reachable state of the transition system leaves behind (records, hook calls incl. the end hook,
   report and mail decision), for a fresh invocation: the initial step file holds exactly the skip records.
   Also: skipped steps never run and keep their skip record; the report decision in terms of the records.
   NOT in the model: the content of log files (the l_logs component is "every record's log is fine") and
   the lock (Orch/RunLockProofs.v; the two lock bits are parameters here). *)
From Coq Require Import Permutation.
From Robsd Require Import Orch.OrchSpec Orch.ResumeSpec Orch.ResumeProofs Orch.OrchProofs Orch.AccountProofs
  Orch.OrchSteps Orch.TraceMeaning Orch.TraceOracle.
Local Open Scope Z_scope.

(* the names of the steps that were executed, in start order (what the harness reads off the probe trace) *)
Definition executed (name_of : Z -> bytes) (s : ostate) : list bytes := map name_of (start_ids (evlog s)).

(* every hook call of the invocation: one per finished step (step_exec_job), then the end hook of trap_exit *)
Definition final_hooks (s : ostate) (d : bool) : list (bytes * Z) :=
  hooks (evlog s) ++ (if e_endhook (trap_exit (mode s) (sfile_ s) d) then [(END, 0)] else []).

Definition leftovers_of (s : ostate) (d lock_during lock_after : bool) : leftovers :=
  let eff := trap_exit (mode s) (sfile_ s) d in
  mkleft (sfile_ s) (map (fun r => (r_id r, true)) (sfile_ s)) (final_hooks s d) lock_during lock_after
         (e_report eff) (if e_mail eff then 1%nat else 0%nat) d.

Definition failing_record (f : sfile) : bool := existsb (fun r => negb (r_skip r =? 1) && negb (r_exit r =? 0)) f.

Lemma filter_unique (f : sfile) i r n :
  ids_asc f -> lookup f i = Some r -> r_name r = n -> (forall x, In x f -> r_name x = n -> r_id x = i) ->
  filter (fun x => beq (r_name x) n) f = [r].
Proof.
  induction 1 as [|x f Hs IH Hx]; [discriminate|]. cbn [lookup filter]. intros Hl Hn Hid.
  destruct (Z.eqb_spec (r_id x) i) as [E|E].
  - injection Hl as ->. rewrite Hn, beq_refl. f_equal.
    assert (Hno : forall y, In y f -> beq (r_name y) n = false).
    { intros y Hy. destruct (beq_spec (r_name y) n) as [Ey|Ey]; [|reflexivity].
      rewrite Forall_forall in Hx. specialize (Hx y Hy). specialize (Hid y (or_intror Hy) Ey). lia. }
    clear - Hno. induction f as [|y f IHf]; [reflexivity|]. cbn. rewrite (Hno y (or_introl eq_refl)). apply IHf. intros z Hz. apply Hno. now right.
  - destruct (beq_spec (r_name x) n) as [Ex|Ex]; [elim E; apply Hid; [now left|exact Ex]|].
    apply IH; auto. intros y Hy. apply Hid. now right.
Qed.

Section Account.
  Variable ncpu : nat.
  Variable exit_of : Z -> Z.
  Variable name_of : Z -> bytes.
  Variable steps : list pstep.
  Variable f0 : sfile.
  Variable skip : list bytes.
  Hypothesis Hids : NoDup (map p_id steps).
  Hypothesis Hnames : NoDup (map p_name steps).
  Hypothesis Hexit : forall p, In p steps -> p_exit p = exit_of (p_id p).
  Hypothesis Hname : forall p, In p steps -> name_of (p_id p) = p_name p.
  Hypothesis Hendsync : forall p, In p steps -> p_name p = END -> p_par p = false.
  (* an exit status is never the in-flight marker *)
  Hypothesis Hexitcode : forall p, In p steps -> p_exit p <> -1.
  (* a fresh invocation: the step file holds exactly the skip records canvas wrote (step_write -S -e 0),
     one per name of the skip set, each for a configured step; the end step is not among them *)
  Hypothesis Hasc : ids_asc f0.
  Hypothesis Hrows : forall r, In r f0 -> r_skip r = 1 /\ r_exit r <> -1 /\ In (r_name r) skip /\
                                           exists p, In p steps /\ r_id r = p_id p /\ r_name r = p_name p.
  Hypothesis Hskiprows : forall n, In n skip -> exists r, In r f0 /\ r_name r = n.
  Hypothesis Hnoend : has_end f0 = false.

  Notation oreach := (oreach ncpu exit_of name_of steps f0).
  Notation IND := (oreach_ind ncpu exit_of name_of steps f0 Hids Hexit Hasc).
  Notation INV := (oreach_inv ncpu exit_of name_of steps f0 Hids Hexit Hasc).

  Lemma Hf0cfg : forall r p, In r f0 -> In p steps -> r_id r = p_id p -> r_name r = p_name p.
  Proof.
    intros r p Hr Hp E. destruct (Hrows r Hr) as [_ [_ [_ [q [Hq [Hi Hn]]]]]].
    rewrite Hn. f_equal. apply (same_id_same_step steps q p Hids Hq Hp). congruence.
  Qed.

  Lemma skipped_all_skip (f : sfile) n : (forall r, In r f -> r_skip r = 1) -> (skipped f n = true <-> exists r, In r f /\ r_name r = n).
  Proof.
    induction f as [|x f IH]; intros H; cbn [skipped].
    - split; [discriminate|intros [r [[] _]]].
    - destruct (beq_spec (r_name x) n) as [E|E].
      + rewrite (H x (or_introl eq_refl)). split; [intros _; exists x; split; [now left|exact E]|reflexivity].
      + rewrite IH by (intros r Hr; apply H; now right). split; intros [r [Hr Hn]]; exists r; split; auto.
        * now right.
        * destruct Hr as [<-|Hr]; [contradiction|exact Hr].
  Qed.

  Lemma Hskip : forall p, In p steps -> mem_name (p_name p) skip = skipped f0 (p_name p).
  Proof.
    intros p Hp. destruct (skipped f0 (p_name p)) eqn:E.
    - apply skipped_all_skip in E; [|intros r Hr; apply (Hrows r Hr)]. destruct E as [r [Hr Hn]].
      apply mem_name_In. rewrite <- Hn. apply (Hrows r Hr).
    - apply mem_name_false. intros Hin. destruct (Hskiprows _ Hin) as [r [Hr Hn]].
      assert (skipped f0 (p_name p) = true); [|congruence].
      apply skipped_all_skip; [intros x Hx; apply (Hrows x Hx)|]. eauto.
  Qed.

  Notation PAI := (PA_inv ncpu exit_of name_of steps f0 Hids Hnames Hexit Hname Hendsync Hasc Hf0cfg).
  Notation PBI := (PB_inv ncpu exit_of name_of steps f0 Hids Hexit Hasc).
  Notation ENDI := (end_iff_done ncpu exit_of name_of steps f0 Hids Hnames Hexit Hname Hendsync Hasc Hf0cfg Hnoend).

  (* ---- every record is the record of a configured step --------------------------------------------------- *)
  Definition RowsCfg (s : ostate) : Prop :=
    forall r, In r (sfile_ s) -> exists p, In p steps /\ r_id r = p_id p /\ r_name r = p_name p.

  Lemma rows_of_cfg : forall s, oreach s -> RowsCfg s.
  Proof.
    apply IND; unfold RowsCfg.
    - intros r Hr. destruct (Hrows r Hr) as [_ [_ [_ H]]]. exact H.
    - intros s s' Hr Hr' IH Hm.
      destruct Hm as [Em Em' Erun Ef Eev Htodo Hjobs|p rest Em Et Esk Epar Hlen ->|p rest Em Et Esk Epar Ej Erun Eend ->
                     |p rest Em Et Esk Epar Ej Erun Eend ->|i e Em Hnr ->]; cbn [sfile_]; auto.
      + now rewrite Ef.
      + intros r Hin. apply In_upsert_cases in Hin. destruct Hin as [->|Hin]; [|auto].
        exists p. cbn. repeat split; auto. destruct (PAI s Hr) as [done [Esp _]]. rewrite Esp, Et. apply in_or_app. right. now left.
    - intros s i s' Hr Hr' IH Hj.
      assert (Hq : forall ph, phase_of (running s) i = Some ph -> exists q, In q steps /\ i = p_id q /\ name_of i = p_name q).
      { intros ph Hph. destruct (INV s Hr) as [I R]. apply a_phase_In in Hph.
        destruct (r_run_started _ _ _ _ R i Hph) as [[b Hb] _].
        destruct (PAI s Hr) as [done [Esp [_ [Hst _]]]]. destruct (Hst i b Hb) as [q [Hq [Hqi _]]].
        assert (In q steps) by (rewrite Esp; apply in_or_app; now left).
        exists q. repeat split; auto. rewrite <- Hqi. now apply Hname. }
      destruct Hj as [Hph ->|Hph ->]; cbn [sfile_]; intros r Hin; apply In_upsert_cases in Hin;
        (destruct Hin as [->|Hin]; [cbn; exact (Hq _ Hph)|auto]).
  Qed.

  (* ---- skipped steps never run and keep their skip record (C11 clause "skipped steps") -------------------- *)
  Theorem skipped_never_run_keep_record s p :
    oreach s -> In p steps -> skipped f0 (p_name p) = true ->
    ~ started s (p_id p) /\ lookup (sfile_ s) (p_id p) = lookup f0 (p_id p) /\
    (forall e, ~ In (p_name p, e) (hooks (evlog s))).
  Proof.
    intros Hr Hp Hsk. destruct (INV s Hr) as [I R]. destruct (PAI s Hr) as [done [Esp [_ [Hst [_ [_ Hd]]]]]].
    assert (Hns : ~ started s (p_id p)).
    { intros [b Hb]. destruct (Hst _ b Hb) as [q [Hq [Hqi [_ [_ Hqs]]]]].
      assert (In q steps) by (rewrite Esp; apply in_or_app; now left).
      rewrite (same_id_same_step steps q p Hids) in Hqs; auto. congruence. }
    split; [exact Hns|]. split.
    - destruct (r_other _ _ _ _ R (p_id p) Hns) as [?|[Hm [r [Hl [Hn _]]]]]; [auto|assumption|].
      exfalso. destruct (Hd Hm) as [dd [pe [_ [Hpe Hpes]]]].
      apply lookup_In in Hl. destruct Hl as [Hin Hid].
      destruct (rows_of_cfg s Hr r Hin) as [q [Hq [Hqi Hqn]]].
      rewrite (same_id_same_step steps q p Hids) in Hqn by (auto; congruence). congruence.
    - intros e Hin. rewrite (r_hooks _ _ _ _ R) in Hin. apply in_map_iff in Hin. destruct Hin as [[j e'] [Heq Hin]]. cbn in Heq.
      injection Heq as Hn _.
      assert (Hj : In j (map fst (finishes (evlog s)))) by (apply in_map_iff; exists (j, e'); auto).
      destruct (r_fin_started _ _ _ _ R j Hj) as [b Hb]. destruct (Hst _ b Hb) as [q [Hq [Hqi [_ [_ Hqs]]]]].
      assert (Hqin : In q steps) by (rewrite Esp; apply in_or_app; now left).
      assert (q = p). { apply (same_name_same_step steps q p Hnames Hqin Hp). rewrite <- Hn, <- Hqi. symmetry. now apply Hname. }
      subst q. congruence.
  Qed.

  (* ---- the report decision in terms of the records (C11 clause "report") --------------------------------- *)

  (* when the invocation has ended, it is in its failed mode exactly when some record of a step that is not
     skipped carries a non-zero exit status AND no end record exists *)
  Lemma terminal_failed_record s :
    oreach s -> mode s = OFailed -> failing_record (sfile_ s) = true.
  Proof.
    intros Hr Hm. destruct (INV s Hr) as [I R]. destruct (PBI s Hr) as [_ [_ [Hf _]]].
    destruct (Hf Hm) as [i [A [B C]]].
    pose proof (r_rec _ _ _ _ R i (ex_intro _ false A)) as Hrec.
    assert (Hrun : running s = []) by (apply (o_term_quiet _ _ s I); tauto). rewrite Hrun in Hrec. cbn in Hrec.
    destruct Hrec as [Hl _]. apply lookup_In in Hl. destruct Hl as [Hin _].
    apply existsb_exists. eexists. split; [exact Hin|]. cbn. destruct (Z.eqb_spec (exit_of i) 0); [contradiction|reflexivity].
  Qed.

  Theorem report_iff_failed_record_or_end s d :
    oreach s -> mode s = ODone \/ mode s = OFailed ->
    e_report (trap_exit (mode s) (sfile_ s) d) = has_steps (sfile_ s) && (failing_record (sfile_ s) || has_end (sfile_ s)) /\
    e_mail (trap_exit (mode s) (sfile_ s) d) = e_report (trap_exit (mode s) (sfile_ s) d) && d /\
    e_endhook (trap_exit (mode s) (sfile_ s) d) = has_end (sfile_ s) /\
    (e_status (trap_exit (mode s) (sfile_ s) d) = 0 <-> has_end (sfile_ s) = true) /\
    (e_status (trap_exit (mode s) (sfile_ s) d) <> 0 <->
       exists i, In (EStart i false) (evlog s) /\ In (EFinish i (exit_of i)) (evlog s) /\ exit_of i <> 0).
  Proof.
    intros Hr Hterm. pose proof (ENDI s Hr) as He. destruct Hterm as [Hm|Hm]; rewrite Hm; unfold trap_exit; cbn.
    - assert (E : has_end (sfile_ s) = true) by (now apply He). rewrite E, orb_true_r. repeat split; auto; try discriminate.
      + intros H; now elim H.
      + intros [i [A [B C]]]. destruct (INV s Hr) as [I R]. destruct (o_sync_ok _ _ s I i A) as [?|[?|?]]; congruence.
    - assert (E : has_end (sfile_ s) = false). { destruct (has_end (sfile_ s)); [|reflexivity]. destruct He as [He _]. specialize (He eq_refl). congruence. }
      rewrite E, (terminal_failed_record s Hr Hm). repeat split; auto; try discriminate.
      intros _. exact (failed_has_failing_sync ncpu exit_of name_of steps f0 Hids Hexit Hasc s Hr Hm).
  Qed.

  (* a failing PARALLEL step alone does not make the invocation fail: when end is reached the exit status is 0
     whatever the parallel steps returned - and a report exists (robsd behaves the same, see the harness) *)
  Theorem parallel_failure_exit_zero s d i :
    oreach s -> mode s = ODone -> In (EStart i true) (evlog s) -> exit_of i <> 0 ->
    e_status (trap_exit (mode s) (sfile_ s) d) = 0 /\ e_report (trap_exit (mode s) (sfile_ s) d) = true /\
    lookup (sfile_ s) i = Some (mkrow i (name_of i) (exit_of i) 0) /\ failing_record (sfile_ s) = true.
  Proof.
    intros Hr Hm Hs He. destruct (INV s Hr) as [I R].
    assert (Hrun : running s = []) by (apply (o_term_quiet _ _ s I); tauto).
    pose proof (r_rec _ _ _ _ R i (ex_intro _ true Hs)) as Hrec. rewrite Hrun in Hrec. cbn in Hrec. destruct Hrec as [Hl _].
    assert (Hfail : failing_record (sfile_ s) = true).
    { apply lookup_In in Hl. destruct Hl as [Hin _]. apply existsb_exists. eexists. split; [exact Hin|]. cbn.
      destruct (Z.eqb_spec (exit_of i) 0); [contradiction|reflexivity]. }
    destruct (report_iff_failed_record_or_end s d Hr (or_introl Hm)) as [Hrep _].
    rewrite Hm in *. split; [reflexivity|]. split; [|split; [exact Hl|exact Hfail]].
    rewrite Hrep, Hfail. cbn. rewrite andb_true_r. apply existsb_exists.
    apply lookup_In in Hl. destruct Hl as [Hin _]. eexists. split; [exact Hin|reflexivity].
  Qed.

  (* ---- the accounting oracle ------------------------------------------------------------------------------ *)
  Lemma count_hook_app h1 h2 n e : count_hook (h1 ++ h2) n e = (count_hook h1 n e + count_hook h2 n e)%nat.
  Proof. unfold count_hook. now rewrite filter_app, app_length. Qed.

  Lemma count_named_zero (l : list (Z * Z)) n e :
    (forall j e', In (j, e') l -> name_of j <> n) ->
    count_hook (map (fun x => (name_of (fst x), snd x)) l) n e = 0%nat.
  Proof.
    unfold count_hook. induction l as [|[j e'] l IH]; [reflexivity|]. intros H. cbn.
    destruct (beq_spec (name_of j) n) as [E|E]; [elim (H j e' (or_introl eq_refl) E)|]. cbn.
    apply IH. intros k e'' Hk. apply (H k e''). now right.
  Qed.

  Lemma count_named_one (l : list (Z * Z)) i e :
    NoDup (map fst l) -> In (i, e) l -> (forall j e', In (j, e') l -> name_of j = name_of i -> j = i) ->
    count_hook (map (fun x => (name_of (fst x), snd x)) l) (name_of i) e = 1%nat.
  Proof.
    induction l as [|[j e'] l IH]; [intros _ []|]. intros Hnd Hin Hinj. inversion Hnd as [|? ? Hj Hl]; subst.
    change (map (fun x : Z * Z => (name_of (fst x), snd x)) ((j, e') :: l)) with
      ([(name_of j, e')] ++ map (fun x : Z * Z => (name_of (fst x), snd x)) l).
    rewrite count_hook_app.
    destruct Hin as [Hin|Hin].
    - injection Hin as -> ->. unfold count_hook at 1. cbn. rewrite beq_refl, Z.eqb_refl. cbn.
      rewrite count_named_zero; [reflexivity|]. intros k e'' Hk E.
      assert (k = i) by (apply (Hinj k e''); [now right|exact E]). subst k.
      apply Hj. apply in_map_iff. exists (i, e''). auto.
    - assert (Hne : j <> i). { intros ->. apply Hj. apply in_map_iff. exists (i, e). auto. }
      unfold count_hook at 1. cbn.
      destruct (beq_spec (name_of j) (name_of i)) as [E|E]; [elim Hne; apply (Hinj j e'); [now left|exact E]|]. cbn.
      apply IH; auto. intros k e'' Hk. apply (Hinj k e''). now right.
  Qed.

  Lemma count_hook_end_other n e : n <> END -> count_hook [(END, 0)] n e = 0%nat.
  Proof.
    intros H. unfold count_hook. cbn [filter fst snd]. destruct (beq_spec END n) as [E|E]; [congruence|reflexivity].
  Qed.

  Theorem spec_ok_account_accepts s d :
    oreach s -> mode s = ODone \/ mode s = OFailed ->
    spec_ok_account steps skip (executed name_of s) (leftovers_of s d true false) = true.
  Proof.
    intros Hr Hterm. destruct (INV s Hr) as [I R].
    destruct (PAI s Hr) as [done [Esp [Hdone [Hst [_ [_ Hd]]]]]]. destruct (PBI s Hr) as [_ [_ [_ Hsnd]]].
    pose proof (ENDI s Hr) as Hend.
    assert (Hrun : running s = []) by (apply (o_term_quiet _ _ s I); tauto).
    pose proof (nothing_in_flight_at_the_end ncpu exit_of name_of steps f0 Hids Hexit Hasc s Hr Hterm) as [_ Hrowsend].
    (* a started step: its configured step, its record, its finish *)
    assert (Hstarted : forall i b, In (EStart i b) (evlog s) ->
              exists q, In q steps /\ p_id q = i /\ name_of i = p_name q /\ p_name q <> END /\ skipped f0 (p_name q) = false /\
                        lookup (sfile_ s) i = Some (mkrow i (name_of i) (exit_of i) 0) /\ In (i, exit_of i) (finishes (evlog s))).
    { intros i b Hb. destruct (Hst i b Hb) as [q [Hq [Hqi [_ [Hqe Hqs]]]]].
      assert (Hqin : In q steps) by (rewrite Esp; apply in_or_app; now left).
      pose proof (r_rec _ _ _ _ R i (ex_intro _ b Hb)) as Hrec. rewrite Hrun in Hrec. cbn in Hrec.
      exists q. repeat split; auto; try tauto. rewrite <- Hqi. now apply Hname. }
    (* rows with the name of a configured step have its id *)
    assert (Hnameid : forall q x, In q steps -> In x (sfile_ s) -> r_name x = p_name q -> r_id x = p_id q).
    { intros q x Hq Hx E. destruct (rows_of_cfg s Hr x Hx) as [q' [Hq' [Hi Hn]]].
      rewrite (same_name_same_step steps q' q Hnames Hq' Hq) in Hi; congruence. }
    assert (Hhooknames : forall n e, In (n, e) (hooks (evlog s)) -> exists i b, In (EStart i b) (evlog s) /\ name_of i = n /\ In (i, e) (finishes (evlog s))).
    { intros n e Hin. rewrite (r_hooks _ _ _ _ R) in Hin. apply in_map_iff in Hin. destruct Hin as [[j e'] [Heq Hin]]. cbn in Heq.
      injection Heq as <- <-. assert (Hj : In j (map fst (finishes (evlog s)))) by (apply in_map_iff; exists (j, e'); auto).
      destruct (r_fin_started _ _ _ _ R j Hj) as [b Hb]. exists j, b. auto. }
    assert (Hinj : forall i b, In (EStart i b) (evlog s) -> forall j e', In (j, e') (finishes (evlog s)) -> name_of j = name_of i -> j = i).
    { intros i b Hb j e' Hj E. assert (Hj' : In j (map fst (finishes (evlog s)))) by (apply in_map_iff; exists (j, e'); auto).
      destruct (r_fin_started _ _ _ _ R j Hj') as [b' Hb'].
      exact (started_name_inj ncpu exit_of name_of steps f0 Hids Hnames Hexit Hname Hendsync Hasc Hf0cfg s j i b' b Hr Hb' Hb E). }
    unfold spec_ok_account, leftovers_of.
    cbn [l_rows l_logs l_hooks l_lock_during l_lock_after l_report l_mails l_detached].
    repeat (apply andb_true_iff; split).
    - (* every executed step *)
      apply forallb_forall. intros n Hn. unfold executed in Hn. apply in_map_iff in Hn. destruct Hn as [i [<- Hi]].
      apply In_start_ids in Hi. destruct Hi as [b Hb].
      destruct (Hstarted i b Hb) as [q [Hq [Hqi [Hqn [Hqe [Hqs [Hl Hfin]]]]]]].
      rewrite Hqn, (find_pstep_In steps q Hnames Hq).
      rewrite (filter_unique (sfile_ s) i _ (p_name q) (r_asc _ _ _ _ R) Hl); [|cbn; exact Hqn|intros x Hx E; rewrite <- Hqi; now apply Hnameid].
      cbn [r_exit r_skip r_id]. rewrite (Hexit q Hq), Hqi, !Z.eqb_refl. cbn [andb].
      apply andb_true_iff. split.
      + apply existsb_exists. exists (i, true). split; [|cbn; now rewrite Z.eqb_refl].
        apply lookup_In in Hl. destruct Hl as [Hin _]. apply in_map_iff. eexists. split; [|exact Hin]. reflexivity.
      + apply Nat.eqb_eq. unfold final_hooks. rewrite count_hook_app, (r_hooks _ _ _ _ R), <- Hqn.
        rewrite (count_named_one _ i (exit_of i) (r_fin_once _ _ _ _ R) Hfin (Hinj i b Hb)).
        destruct (e_endhook _); [|reflexivity]. rewrite count_hook_end_other; [reflexivity|congruence].
    - (* every skipped step *)
      apply forallb_forall. intros n Hn. destruct (Hskiprows n Hn) as [r0 [Hr0 Hr0n]].
      destruct (Hrows r0 Hr0) as [Hsk1 [_ [_ [p [Hp [Hpi Hpn]]]]]].
      assert (Hskp : skipped f0 (p_name p) = true).
      { apply skipped_all_skip; [intros x Hx; apply (Hrows x Hx)|]. exists r0. split; auto. }
      destruct (skipped_never_run_keep_record s p Hr Hp Hskp) as [Hns [Hlk Hnohook]].
      assert (Hpn' : p_name p = n) by congruence.
      repeat (apply andb_true_iff; split).
      + apply negb_true_iff, mem_name_false. unfold executed. intros Hin. apply in_map_iff in Hin. destruct Hin as [i [Ei Hi]].
        apply In_start_ids in Hi. destruct Hi as [b Hb]. destruct (Hstarted i b Hb) as [q [Hq [Hqi [Hqn [_ [Hqs _]]]]]].
        assert (q = p) by (apply (same_name_same_step steps q p Hnames Hq Hp); congruence). subst q. congruence.
      + rewrite (filter_unique (sfile_ s) (p_id p) r0 n (r_asc _ _ _ _ R)); auto.
        * rewrite Hsk1. reflexivity.
        * rewrite Hlk, <- Hpi. now apply In_lookup.
        * intros x Hx E. apply Hnameid; auto. congruence.
      + apply Nat.eqb_eq. unfold final_hooks. rewrite filter_app, app_length.
        assert (H1 : filter (fun x : bytes * Z => beq (fst x) n) (hooks (evlog s)) = []).
        { clear - Hnohook Hpn'. revert Hnohook. generalize (hooks (evlog s)). intros l Hno.
          induction l as [|[m e] l IHl]; [reflexivity|]. cbn [filter fst].
          destruct (beq_spec m n) as [E|E].
          - subst m. elim (Hno e). rewrite Hpn'. now left.
          - apply IHl. intros e' He'. apply (Hno e'). now right. }
        rewrite H1. cbn [trap_exit e_endhook length Nat.add]. destruct (has_end (sfile_ s)) eqn:He; [|reflexivity]. cbn [filter fst].
        destruct (beq_spec END n) as [E|E]; [|reflexivity].
        exfalso. assert (Hm' : mode s = ODone) by (apply Hend; first [reflexivity|exact He]).
        destruct (Hd Hm') as [dd [pe [_ [Hpe Hpes]]]]. congruence.
    - (* every record *)
      apply forallb_forall. intros r Hin. destruct (Hrowsend r Hin) as [[[b Hb] Hrow]|[Hns [Hl|[Hn [He Hs]]]]].
      + destruct (Hstarted _ b Hb) as [q [Hq [Hqi [Hqn _]]]]. rewrite Hrow. cbn [r_exit r_name].
        apply andb_true_iff. split.
        * rewrite <- Hqi, <- (Hexit q Hq). apply negb_true_iff. destruct (Z.eqb_spec (p_exit q) (-1)); [elim (Hexitcode q Hq); assumption|reflexivity].
        * apply orb_true_iff. left. apply orb_true_iff. left. apply mem_name_In. unfold executed. apply in_map. apply In_start_ids. eauto.
      + apply lookup_In in Hl. destruct Hl as [Hin0 _]. destruct (Hrows r Hin0) as [_ [Hex [Hsk _]]].
        apply andb_true_iff. split; [apply negb_true_iff; destruct (Z.eqb_spec (r_exit r) (-1)); [contradiction|reflexivity]|].
        apply orb_true_iff. left. apply orb_true_iff. right. now apply mem_name_In.
      + rewrite He, Hn, beq_refl. cbn. apply orb_true_r.
    - (* the number of hook calls *)
      apply Nat.eqb_eq. unfold final_hooks. rewrite app_length. cbn [trap_exit e_endhook].
      assert (Hlen : length (hooks (evlog s)) = length (executed name_of s)).
      { rewrite (r_hooks _ _ _ _ R). unfold executed. rewrite !map_length. rewrite <- (map_length fst).
        apply Nat.le_antisymm; apply NoDup_incl_length; auto; try apply (r_fin_once _ _ _ _ R).
        - intros i Hi. apply In_start_ids. apply (r_fin_started _ _ _ _ R i Hi).
        - intros i Hi. apply In_start_ids in Hi. destruct Hi as [b Hb]. destruct (Hstarted i b Hb) as [q [_ [_ [_ [_ [_ [_ Hf]]]]]]].
          apply in_map_iff. exists (i, exit_of i). auto. }
      rewrite Hlen. destruct (has_end (sfile_ s)); reflexivity.
    - (* the end hook *)
      unfold final_hooks. rewrite count_hook_app. cbn [trap_exit e_endhook].
      assert (H0 : count_hook (hooks (evlog s)) END 0 = 0%nat).
      { rewrite (r_hooks _ _ _ _ R). apply count_named_zero. intros j e' Hj E.
        assert (Hj' : In j (map fst (finishes (evlog s)))) by (apply in_map_iff; exists (j, e'); auto).
        destruct (r_fin_started _ _ _ _ R j Hj') as [b Hb]. destruct (Hstarted j b Hb) as [q [_ [_ [Hqn [Hqe _]]]]]. congruence. }
      rewrite H0. destruct (has_end (sfile_ s)); reflexivity.
    - reflexivity.
    - reflexivity.
    - (* report *)
      destruct (report_iff_failed_record_or_end s d Hr Hterm) as [Hrep _].
      fold (failing_record (sfile_ s)). rewrite Hrep. apply eqb_reflx.
    - (* mail *)
      destruct (report_iff_failed_record_or_end s d Hr Hterm) as [Hrep [Hmail _]].
      fold (failing_record (sfile_ s)). rewrite Hmail, Hrep. apply Nat.eqb_eq.
      destruct (has_steps (sfile_ s) && (failing_record (sfile_ s) || has_end (sfile_ s)) && d); reflexivity.
  Qed.
End Account.
