(* TraceOracle.v - the property-shaped checker of C04 (OrchSpec.check_trace / spec_ok_trace) accepts the
   event log of EVERY reachable state of the transition system of OrchDefs.v (C04), together with
   what acceptance means (no start after a failed synchronous step, ...).  The invariants PA, PB, PC
   relate the checker's own state (names running / started / ended, "a synchronous step failed") to
   the orchestrator's state. *)
From Coq Require Import Permutation.
From Robsd Require Import Orch.OrchSpec Orch.ResumeSpec Orch.ResumeProofs Orch.OrchProofs Orch.AccountProofs Orch.OrchSteps Orch.TraceMeaning.
Local Open Scope Z_scope.

(* the observation the harness makes of a run: starts and ends by step name *)
Fixpoint tev_of (name_of : Z -> bytes) (l : list ev) : list tev :=
  match l with
  | [] => []
  | EStart i _ :: l' => TStart (name_of i) :: tev_of name_of l'
  | EFinish i e :: l' => TEnd (name_of i) e :: tev_of name_of l'
  | _ :: l' => tev_of name_of l'
  end.

Fixpoint start_ids (l : list ev) : list Z :=
  match l with
  | [] => []
  | EStart i _ :: l' => i :: start_ids l'
  | _ :: l' => start_ids l'
  end.

Lemma tev_of_app nm a b : tev_of nm (a ++ b) = tev_of nm a ++ tev_of nm b.
Proof. induction a as [|x a IH]; [reflexivity|]. destruct x; cbn; rewrite ?IH; reflexivity. Qed.

Lemma start_ids_app a b : start_ids (a ++ b) = start_ids a ++ start_ids b.
Proof. induction a as [|x a IH]; [reflexivity|]. destruct x; cbn; rewrite ?IH; reflexivity. Qed.

Lemma In_start_ids l i : In i (start_ids l) <-> exists b, In (EStart i b) l.
Proof.
  induction l as [|x l IH]; cbn; [split; [intros []|intros [b []]]|].
  destruct x as [j b| | |]; cbn; rewrite ?IH.
  - split.
    + intros [->|[b' H]]; [exists b; now left|exists b'; now right].
    + intros [b' [H|H]]; [injection H as -> _; now left|right; now exists b'].
  - split; [intros [b' H]; exists b'; now right|intros [b' [H|H]]; [discriminate|now exists b']].
  - split; [intros [b' H]; exists b'; now right|intros [b' [H|H]]; [discriminate|now exists b']].
  - split; [intros [b' H]; exists b'; now right|intros [b' [H|H]]; [discriminate|now exists b']].
Qed.

Lemma In_finishes l i e : In (i, e) (finishes l) <-> In (EFinish i e) l.
Proof.
  induction l as [|x l IH]; cbn; [tauto|].
  destruct x as [j b|j e'| |]; cbn; rewrite ?IH.
  - split; [intros H; now right|intros [H|H]; [discriminate|exact H]].
  - split; [intros [H|H]; [injection H as -> ->; now left|now right]|intros [H|H]; [injection H as -> ->; now left|now right]].
  - split; [intros H; now right|intros [H|H]; [discriminate|exact H]].
  - split; [intros H; now right|intros [H|H]; [discriminate|exact H]].
Qed.

Lemma mem_name_false n l : mem_name n l = false <-> ~ In n l.
Proof. rewrite <- mem_name_In. destruct (mem_name n l); split; congruence. Qed.

(* ---- configurations: lists of steps with distinct ids and names ------------------------------------- *)
Lemma same_id_same_step (steps : list pstep) p q :
  NoDup (map p_id steps) -> In p steps -> In q steps -> p_id p = p_id q -> p = q.
Proof.
  induction steps as [|x l IH]; [intros _ []|]. cbn. intros Hn Hp Hq E. inversion Hn as [|? ? Hx Hl]; subst.
  destruct Hp as [->|Hp], Hq as [->|Hq]; auto.
  - elim Hx. rewrite E. now apply in_map.
  - elim Hx. rewrite <- E. now apply in_map.
Qed.

Lemma same_name_same_step (steps : list pstep) p q :
  NoDup (map p_name steps) -> In p steps -> In q steps -> p_name p = p_name q -> p = q.
Proof.
  induction steps as [|x l IH]; [intros _ []|]. cbn. intros Hn Hp Hq E. inversion Hn as [|? ? Hx Hl]; subst.
  destruct Hp as [->|Hp], Hq as [->|Hq]; auto.
  - elim Hx. rewrite E. now apply in_map.
  - elim Hx. rewrite <- E. now apply in_map.
Qed.

Lemma find_pstep_In (steps : list pstep) p :
  NoDup (map p_name steps) -> In p steps -> find_pstep steps (p_name p) = Some p.
Proof.
  induction steps as [|x l IH]; [intros _ []|]. cbn. intros Hn Hp. inversion Hn as [|? ? Hx Hl]; subst.
  destruct (beq_spec (p_name x) (p_name p)) as [E|E].
  - destruct Hp as [->|Hp]; [reflexivity|]. elim Hx. rewrite E. now apply in_map.
  - destruct Hp as [->|Hp]; [congruence|auto].
Qed.

Lemma before_split (d : list pstep) p rest :
  NoDup (map p_name (d ++ p :: rest)) -> before (d ++ p :: rest) (p_name p) = d.
Proof.
  induction d as [|x d IH]; cbn.
  - intros _. now rewrite beq_refl.
  - intros Hn. inversion Hn as [|? ? Hx Hl]; subst.
    destruct (beq_spec (p_name x) (p_name p)) as [E|E].
    + elim Hx. rewrite E, map_app. apply in_or_app. right. now left.
    + now rewrite IH.
Qed.

(* ---- the step file under the orchestrator's writes --------------------------------------------------- *)
Lemma skipped_upsert_other r f n :
  r_name r <> n -> (forall x, In x f -> r_id x = r_id r -> r_name x <> n) ->
  skipped (upsert r f) n = skipped f n.
Proof.
  intros Hr. induction f as [|x f IH]; intros Hx; cbn [upsert skipped].
  - destruct (beq_spec (r_name r) n); [contradiction|reflexivity].
  - destruct (Z.eqb_spec (r_id r) (r_id x)) as [E|E]; cbn [skipped].
    + destruct (beq_spec (r_name r) n); [contradiction|].
      destruct (beq_spec (r_name x) n) as [E2|E2]; [|reflexivity].
      elim (Hx x); auto. now left.
    + destruct (r_id r <? r_id x); cbn [skipped].
      * destruct (beq_spec (r_name r) n); [contradiction|reflexivity].
      * destruct (beq (r_name x) n); [reflexivity|]. apply IH. intros y Hy. apply Hx. now right.
Qed.

Lemma In_upsert_cases r x f : In r (upsert x f) -> r = x \/ In r f.
Proof.
  induction f as [|y f IH]; cbn [upsert].
  - intros [<-|[]]. now left.
  - destruct (r_id x =? r_id y).
    + intros [<-|Hr]; [now left|right; now right].
    + destruct (r_id x <? r_id y).
      * intros [<-|Hr]; [now left|right; exact Hr].
      * intros [<-|Hr]; [right; now left|]. destruct (IH Hr); [now left|right; now right].
Qed.

Lemma has_end_upsert r f :
  has_end (upsert r f) = true -> r_name r = END \/ has_end f = true.
Proof.
  unfold has_end. induction f as [|x f IH]; cbn [upsert existsb].
  - rewrite orb_false_r. intros H. left. now apply beq_eq.
  - destruct (r_id r =? r_id x); cbn [existsb].
    + intros H. apply orb_true_iff in H. destruct H as [H|H]; [left; now apply beq_eq|right; rewrite H; apply orb_true_r].
    + destruct (r_id r <? r_id x); cbn [existsb].
      * intros H. apply orb_true_iff in H. destruct H as [H|H]; [left; now apply beq_eq|right; exact H].
      * intros H. apply orb_true_iff in H. destruct H as [H|H]; [right; now rewrite H|].
        destruct (IH H) as [?|H2]; [now left|right; rewrite H2; apply orb_true_r].
Qed.

Lemma has_end_In f : has_end f = true <-> exists r, In r f /\ r_name r = END.
Proof.
  unfold has_end. rewrite existsb_exists. split; intros [r [H1 H2]]; exists r; split; auto; now apply beq_eq.
Qed.

Lemma NoDup_app_disjoint {A} (a b : list A) x : NoDup (a ++ b) -> In x a -> In x b -> False.
Proof.
  induction a as [|y a IH]; [intros _ []|]. cbn. intros Hn Ha Hb. inversion Hn as [|? ? Hy Hr]; subst.
  destruct Ha as [->|Ha]; [apply Hy, in_or_app; now right|auto].
Qed.

Section Oracle.
  Variable ncpu : nat.
  Variable exit_of : Z -> Z.
  Variable name_of : Z -> bytes.
  Variable steps : list pstep.
  Variable f0 : sfile.
  Variable skip : list bytes.
  Hypothesis Hids : NoDup (map p_id steps).
  Hypothesis Hnames : NoDup (map p_name steps).
  Hypothesis Hexit : forall p, In p steps -> p_exit p = exit_of (p_id p).
  Hypothesis Hname : forall p, In p steps -> name_of (p_id p) = p_name p.
  (* the end step is a synchronous step (conf-canvas.c appends it that way) *)
  Hypothesis Hendsync : forall p, In p steps -> p_name p = END -> p_par p = false.
  (* the initial step file: ascending ids, its rows with the id of a configured step carry that step's name
     (skip records of a fresh invocation; the file of an earlier invocation of the same configuration) *)
  Hypothesis Hasc : ids_asc f0.
  Hypothesis Hf0cfg : forall r p, In r f0 -> In p steps -> r_id r = p_id p -> r_name r = p_name p.
  (* the skip set handed to the checker is the one the step file encodes *)
  Hypothesis Hskip : forall p, In p steps -> mem_name (p_name p) skip = skipped f0 (p_name p).

  Notation oreach := (oreach ncpu exit_of name_of steps f0).
  Notation IND := (oreach_ind ncpu exit_of name_of steps f0 Hids Hexit Hasc).
  Notation INV := (oreach_inv ncpu exit_of name_of steps f0 Hids Hexit Hasc).

  (* ---- PA: where the loop is in the configuration, which steps were started, the skip decisions ----- *)
  Definition PA (s : ostate) : Prop :=
    exists done, steps = done ++ todo s /\
      (forall q, In q done -> skipped f0 (p_name q) = true \/ In (EStart (p_id q) (p_par q)) (evlog s) \/
                              (p_name q = END /\ mode s = ODone)) /\
      (forall i b, In (EStart i b) (evlog s) ->
         exists q, In q done /\ p_id q = i /\ p_par q = b /\ p_name q <> END /\ skipped f0 (p_name q) = false) /\
      (forall q, In q (todo s) -> skipped (sfile_ s) (p_name q) = skipped f0 (p_name q)) /\
      (forall r p, In r (sfile_ s) -> In p steps -> r_id r = p_id p -> r_name r = p_name p) /\
      (mode s = ODone -> exists d p, steps = d ++ p :: todo s /\ p_name p = END /\ skipped f0 (p_name p) = false).

  Lemma split_names d p rest q :
    steps = d ++ p :: rest -> In q rest -> p_name p <> p_name q.
  Proof.
    intros E Hq Heq. pose proof Hnames as Hn. rewrite E, map_app in Hn. cbn in Hn.
    apply NoDup_remove_2 in Hn. apply Hn. apply in_or_app. right. rewrite Heq. now apply in_map.
  Qed.

  Lemma split_names2 d rest q q' :
    steps = d ++ rest -> In q d -> In q' rest -> p_name q <> p_name q'.
  Proof.
    intros E Hq Hq' Heq. pose proof Hnames as Hn. rewrite E, map_app in Hn.
    apply (NoDup_app_disjoint _ _ (p_name q) Hn); [now apply in_map|rewrite Heq; now apply in_map].
  Qed.

  (* writing the record of configured step q keeps the skip decision of every other configured step *)
  Lemma upsert_keeps f q e k :
    In q steps ->
    (forall r p, In r f -> In p steps -> r_id r = p_id p -> r_name r = p_name p) ->
    (forall r p, In r (upsert (mkrow (p_id q) (p_name q) e k) f) -> In p steps -> r_id r = p_id p -> r_name r = p_name p) /\
    (forall q', In q' steps -> p_name q' <> p_name q ->
                skipped (upsert (mkrow (p_id q) (p_name q) e k) f) (p_name q') = skipped f (p_name q')).
  Proof.
    intros Hq Hf. split.
    - intros r p Hr Hp E.
      pose proof (In_upsert_cases _ _ _ Hr) as Hcase.
      destruct Hcase as [->|Hin]; [|eauto]. cbn in *.
      now rewrite (same_id_same_step steps q p Hids Hq Hp E).
    - intros q' Hq' Hne. apply skipped_upsert_other; cbn [r_name r_id].
      + congruence.
      + intros x Hx Ex. rewrite (Hf x q Hx Hq Ex). congruence.
  Qed.

  Lemma PA_inv : forall s, oreach s -> PA s.
  Proof.
    apply IND.
    - exists []. cbn. repeat split; try (intros; contradiction); try discriminate; auto.
    - intros s s' Hr Hr' [done [Esp [Hdone [Hst [Hstab [Hfc Hd]]]]]] Hm.
      destruct (INV s Hr) as [I R].
      destruct Hm as [Em Em' Erun Ef Eev Htodo Hjobs|p rest Em Et Esk Epar Hlen ->|p rest Em Et Esk Epar Ej Erun Eend ->
                     |p rest Em Et Esk Epar Ej Erun Eend ->|i e Em Hnr ->].
      + (* quiet *)
        destruct Htodo as [Etodo|[p [Et Esk]]].
        * exists done. rewrite Etodo, Ef, Eev, Em'. repeat split; auto; try discriminate.
          intros q Hq. destruct (Hdone q Hq) as [?|[?|[_ Hx]]]; auto. congruence.
        * exists (done ++ [p]). rewrite <- app_assoc. cbn [app]. rewrite <- Et, Ef, Eev, Em'.
          assert (Hp : skipped f0 (p_name p) = true).
          { rewrite <- Hstab; [exact Esk|rewrite Et; now left]. }
          repeat split; auto; try discriminate.
          -- intros q Hq. apply in_app_or in Hq. destruct Hq as [Hq|[<-|[]]]; [|now left].
             destruct (Hdone q Hq) as [?|[?|[_ Hx]]]; auto. congruence.
          -- intros i b Hi. destruct (Hst i b Hi) as [q [Hq Hrest]]. exists q. split; [apply in_or_app; now left|exact Hrest].
          -- intros q Hq. apply Hstab. rewrite Et. now right.
      + (* a parallel step starts *)
        assert (Hp0 : skipped f0 (p_name p) = false) by (rewrite <- Hstab; [exact Esk|rewrite Et; now left]).
        assert (Hpin : In p steps) by (rewrite Esp, Et; apply in_or_app; right; now left).
        exists (done ++ [p]). cbn [todo mode sfile_ evlog]. rewrite <- app_assoc. cbn [app]. rewrite <- Et.
        repeat split; auto; try discriminate.
        * intros q Hq. apply in_app_or in Hq. destruct Hq as [Hq|[<-|[]]].
          -- destruct (Hdone q Hq) as [?|[?|[_ Hx]]]; [now left|right; left; apply in_or_app; now left|congruence].
          -- right. left. apply in_or_app. right. rewrite Epar. now left.
        * intros i b Hi. apply in_app_or in Hi. destruct Hi as [Hi|[Hi|[]]].
          -- destruct (Hst i b Hi) as [q [Hq Hrest]]. exists q. split; [apply in_or_app; now left|exact Hrest].
          -- injection Hi as <- <-. exists p. split; [apply in_or_app; right; now left|]. repeat split; auto.
             intros Hend. rewrite (Hendsync p Hpin Hend) in Epar. discriminate.
        * intros q Hq. apply Hstab. rewrite Et. now right.
      + (* a synchronous step starts *)
        assert (Hp0 : skipped f0 (p_name p) = false) by (rewrite <- Hstab; [exact Esk|rewrite Et; now left]).
        exists (done ++ [p]). cbn [todo mode sfile_ evlog]. rewrite <- app_assoc. cbn [app]. rewrite <- Et.
        repeat split; auto; try discriminate.
        * intros q Hq. apply in_app_or in Hq. destruct Hq as [Hq|[<-|[]]].
          -- destruct (Hdone q Hq) as [?|[?|[_ Hx]]]; [now left|right; left; apply in_or_app; now left|congruence].
          -- right. left. apply in_or_app. right. rewrite Epar. now left.
        * intros i b Hi. apply in_app_or in Hi. destruct Hi as [Hi|[Hi|[]]].
          -- destruct (Hst i b Hi) as [q [Hq Hrest]]. exists q. split; [apply in_or_app; now left|exact Hrest].
          -- injection Hi as <- <-. exists p. split; [apply in_or_app; right; now left|]. repeat split; auto.
             intros Hend. apply beq_eq in Hend. congruence.
        * intros q Hq. apply Hstab. rewrite Et. now right.
      + (* end *)
        assert (Hp0 : skipped f0 (p_name p) = false) by (rewrite <- Hstab; [exact Esk|rewrite Et; now left]).
        assert (Hpin : In p steps) by (rewrite Esp, Et; apply in_or_app; right; now left).
        destruct (upsert_keeps (sfile_ s) p 0 0 Hpin Hfc) as [Hfc' Hsk'].
        exists (done ++ [p]). cbn [todo mode sfile_ evlog]. rewrite <- app_assoc. cbn [app]. rewrite <- Et.
        split; [exact Esp|]. split; [|split; [|split; [|split]]].
        * intros q Hq. apply in_app_or in Hq. destruct Hq as [Hq|[<-|[]]].
          -- destruct (Hdone q Hq) as [?|[?|[_ Hx]]]; [now left|right; left; apply in_or_app; now left|congruence].
          -- right. right. split; [now apply beq_eq|reflexivity].
        * intros i b Hi. apply in_app_or in Hi. destruct Hi as [Hi|[Hi|[]]]; [|discriminate].
          destruct (Hst i b Hi) as [q [Hq Hrest]]. exists q. split; [apply in_or_app; now left|exact Hrest].
        * intros q Hq. rewrite Hsk'.
          -- apply Hstab. rewrite Et. now right.
          -- rewrite Esp, Et. apply in_or_app. right. now right.
          -- intros E. apply (split_names done p rest q); [now rewrite <- Et|exact Hq|now symmetry].
        * exact Hfc'.
        * intros _. exists done, p. rewrite <- Et. split; [exact Esp|]. split; [now apply beq_eq|exact Hp0].
      + (* the foreground job is gone *)
        exists done. cbn [todo mode sfile_ evlog]. repeat split; auto.
        * intros q Hq. destruct (Hdone q Hq) as [?|[?|[_ Hx]]]; auto. congruence.
        * destruct (e =? 0); discriminate.
    - intros s i s' Hr Hr' [done [Esp [Hdone [Hst [Hstab [Hfc Hd]]]]]] Hj.
      destruct (INV s Hr) as [I R].
      assert (Hq : forall ph, phase_of (running s) i = Some ph ->
                exists q, In q done /\ In q steps /\ p_id q = i /\ name_of i = p_name q).
      { intros ph Hph. apply a_phase_In in Hph. destruct (r_run_started _ _ _ _ R i Hph) as [[b Hb] _].
        destruct (Hst i b Hb) as [q [Hq1 [Hq2 _]]]. exists q.
        assert (In q steps) by (rewrite Esp; apply in_or_app; now left).
        repeat split; auto. rewrite <- Hq2. now apply Hname. }
      assert (Hup : forall e, (exists ph, phase_of (running s) i = Some ph) ->
                (forall r p, In r (upsert (mkrow i (name_of i) e 0) (sfile_ s)) -> In p steps -> r_id r = p_id p -> r_name r = p_name p) /\
                (forall q', In q' (todo s) -> skipped (upsert (mkrow i (name_of i) e 0) (sfile_ s)) (p_name q') = skipped f0 (p_name q'))).
      { intros e [ph Hph]. destruct (Hq ph Hph) as [q [Hq1 [Hq2 [Hq3 Hq4]]]]. rewrite Hq4, <- Hq3.
        destruct (upsert_keeps (sfile_ s) q e 0 Hq2 Hfc) as [A B]. split; [exact A|].
        intros q' Hq'. rewrite B; [now apply Hstab|rewrite Esp; apply in_or_app; now right|].
        intros E. apply (split_names2 done (todo s) q q' Esp Hq1 Hq'). now symmetry. }
      destruct Hj as [Hph ->|Hph ->]; cbn [todo mode sfile_ evlog].
      + destruct (Hup (-1) (ex_intro _ _ Hph)) as [A B]. exists done. repeat split; auto.
      + destruct (Hup (exit_of i) (ex_intro _ _ Hph)) as [A B]. exists done. split; [exact Esp|]. split; [|split; [|split; [|split]]]; auto.
        * intros q Hq'. destruct (Hdone q Hq') as [?|[?|?]]; auto. right. left. apply in_or_app. now left.
        * intros j b Hjb. apply in_app_or in Hjb. destruct Hjb as [Hjb|[Hjb|[Hjb|[]]]]; [auto|discriminate|discriminate].
  Qed.

  (* ---- PB: a started synchronous step is the foreground job or has finished; what OFailed means ------ *)
  Definition PB (s : ostate) : Prop :=
    (forall i, In (EStart i false) (evlog s) -> mode s = WaitSync i (exit_of i) \/ In (i, exit_of i) (finishes (evlog s))) /\
    (forall i e, mode s = WaitSync i e -> In (EStart i false) (evlog s) /\ e = exit_of i) /\
    (mode s = OFailed -> exists i, In (EStart i false) (evlog s) /\ In (i, exit_of i) (finishes (evlog s)) /\ exit_of i <> 0) /\
    NoDup (start_ids (evlog s)).

  Lemma PB_inv : forall s, oreach s -> PB s.
  Proof.
    apply IND.
    - cbn. repeat split; try (intros; contradiction); try discriminate. constructor.
    - intros s s' Hr Hr' [Hw [Hm1 [Hf Hnd]]] Hm.
      destruct (INV s Hr) as [I R].
      assert (Hfresh : forall p rest b, todo s = p :: rest -> NoDup (start_ids (evlog s ++ [EStart (p_id p) b]))).
      { intros p rest b Et. rewrite start_ids_app. cbn. apply a_snoc; [exact Hnd|].
        intros Hin. apply In_start_ids in Hin. destruct Hin as [b' Hb'].
        destruct (o_fresh _ _ s I p) as [_ [_ C]]; [rewrite Et; now left|]. exact (C b' Hb'). }
      destruct Hm as [Em Em' Erun Ef Eev Htodo Hjobs|p rest Em Et Esk Epar Hlen ->|p rest Em Et Esk Epar Ej Erun Eend ->
                     |p rest Em Et Esk Epar Ej Erun Eend ->|i e Em Hnr ->]; unfold PB; cbn [todo mode sfile_ evlog].
      + rewrite Eev, Em'. split; [|split; [|split]]; auto; try discriminate.
        intros i Hi. destruct (Hw i Hi) as [Hx|?]; [congruence|now right].
      + split; [|split; [|split]]; try discriminate; eauto.
        intros i Hi. apply in_app_or in Hi. destruct Hi as [Hi|[Hi|[]]]; [|discriminate].
        rewrite finishes_app. destruct (Hw i Hi) as [Hx|?]; [congruence|]. right. apply in_or_app. now left.
      + assert (Hpe : p_exit p = exit_of (p_id p)) by (apply (o_todo_exit _ _ s I p); rewrite Et; now left).
        split; [|split; [|split]]; try discriminate; eauto.
        * intros i Hi. apply in_app_or in Hi. destruct Hi as [Hi|[Hi|[]]].
          -- rewrite finishes_app. destruct (Hw i Hi) as [Hx|?]; [congruence|]. right. apply in_or_app. now left.
          -- injection Hi as <-. left. now rewrite Hpe.
        * intros i e Hx. injection Hx as <- <-. split; [apply in_or_app; right; now left|exact Hpe].
      + split; [|split; [|split]]; try discriminate.
        * intros i Hi. apply in_app_or in Hi. destruct Hi as [Hi|[Hi|[]]]; [|discriminate].
          rewrite finishes_app. destruct (Hw i Hi) as [Hx|?]; [congruence|]. right. apply in_or_app. now left.
        * rewrite start_ids_app. cbn. now rewrite app_nil_r.
      + destruct (Hm1 i e Em) as [Hst He].
        assert (Hfin : In (i, exit_of i) (finishes (evlog s))).
        { pose proof (r_rec _ _ _ _ R i (ex_intro _ false Hst)) as H.
          assert (Hn : phase_of (running s) i = None).
          { apply (phase_of_None exit_of name_of). intros Hin. apply (is_running_In s i) in Hin. congruence. }
          rewrite Hn in H. tauto. }
        split; [|split; [|split]]; auto.
        * intros j Hj. destruct (Hw j Hj) as [Hx|?]; [|now right]. rewrite Em in Hx. injection Hx as <- _. now right.
        * intros j e0 Hx. destruct (e =? 0); discriminate.
        * intros Hx. destruct (Z.eqb_spec e 0) as [E0|E0]; [discriminate|]. exists i. repeat split; auto. congruence.
    - intros s i s' Hr Hr' [Hw [Hm1 [Hf Hnd]]] Hj.
      destruct Hj as [Hph ->|Hph ->]; unfold PB; cbn [todo mode sfile_ evlog]; [exact (conj Hw (conj Hm1 (conj Hf Hnd)))|].
      split; [|split; [|split]].
      + intros j Hjb. apply in_app_or in Hjb. destruct Hjb as [Hjb|[Hjb|[Hjb|[]]]]; [|discriminate|discriminate].
        rewrite finishes_app. destruct (Hw j Hjb) as [?|?]; [now left|right; apply in_or_app; now left].
      + intros j e Hx. destruct (Hm1 j e Hx) as [A B]. split; [apply in_or_app; now left|exact B].
      + intros Hx. destruct (Hf Hx) as [j [A [B C]]]. exists j. rewrite finishes_app.
        repeat split; auto; apply in_or_app; now left.
      + rewrite start_ids_app. cbn. now rewrite app_nil_r.
  Qed.

  (* ---- what OFailed means (replaces the placeholder failed_has_failing_sync of OrchProofs.v) ----------- *)

  (* the invocation is in its failed mode only because a synchronous step that was started has finished
     with a non-zero status ... *)
  Theorem failed_has_failing_sync s :
    oreach s -> mode s = OFailed ->
    exists i, In (EStart i false) (evlog s) /\ In (EFinish i (exit_of i)) (evlog s) /\ exit_of i <> 0.
  Proof.
    intros Hr Hm. destruct (PB_inv s Hr) as [_ [_ [Hf _]]]. destruct (Hf Hm) as [i [A [B C]]].
    exists i. repeat split; auto. now apply In_finishes.
  Qed.

  (* ... and conversely: once a synchronous step has finished with a non-zero status the loop is in its
     failed mode, or still about to notice (the foreground wait for exactly that step) *)
  Lemma fin_unique (l : list (Z * Z)) i e e' : NoDup (map fst l) -> In (i, e) l -> In (i, e') l -> e = e'.
  Proof.
    induction l as [|[j x] l IH]; [intros _ []|]. cbn. intros Hnd H1 H2. inversion Hnd as [|? ? Hx Hl]; subst.
    destruct H1 as [H1|H1], H2 as [H2|H2].
    - congruence.
    - injection H1 as -> ->. elim Hx. apply in_map_iff. exists (i, e'). auto.
    - injection H2 as -> ->. elim Hx. apply in_map_iff. exists (i, e). auto.
    - auto.
  Qed.

  (* every finish event carries the real exit status of its step *)
  Lemma finish_real_exit s i e : oreach s -> In (EFinish i e) (evlog s) -> e = exit_of i.
  Proof.
    intros Hr Hf. destruct (INV s Hr) as [I R]. apply In_finishes in Hf.
    assert (Hin : In i (map fst (finishes (evlog s)))) by (apply in_map_iff; exists (i, e); auto).
    pose proof (r_rec _ _ _ _ R i (r_fin_started _ _ _ _ R i Hin)) as Hrec.
    destruct (phase_of (running s) i) as [ph|] eqn:Eph.
    - apply a_phase_In in Eph. destruct (r_run_started _ _ _ _ R i Eph) as [_ Hnf]. contradiction.
    - destruct Hrec as [_ Hrec]. exact (fin_unique _ i e (exit_of i) (r_fin_once _ _ _ _ R) Hf Hrec).
  Qed.

  Theorem failing_sync_fails s i e :
    oreach s -> In (EStart i false) (evlog s) -> In (EFinish i e) (evlog s) -> e <> 0 ->
    mode s = OFailed \/ mode s = WaitSync i e.
  Proof.
    intros Hr Hs Hf He. destruct (INV s Hr) as [I R].
    rewrite (finish_real_exit s i e Hr Hf) in *.
    destruct (o_sync_ok _ _ s I i Hs) as [?|[?|?]]; [contradiction|now right|now left].
  Qed.

  (* ---- PC: the checker accepts the log so far, and its state is the orchestrator's ----------------------- *)
  Notation t0 := t_init.

  Definition sync_failed_in (l : list ev) : Prop :=
    exists i, In (EStart i false) l /\ In i (map fst (finishes l)) /\ exit_of i <> 0.

  Definition PC (s : ostate) : Prop :=
    exists t, check_trace steps skip ncpu t0 (tev_of name_of (evlog s)) = Some t /\
      Permutation (t_running t) (map name_of (rids s)) /\
      t_started t = rev (map name_of (start_ids (evlog s))) /\
      t_ended t = rev (map (fun x => name_of (fst x)) (finishes (evlog s))) /\
      (t_syncfailed t = true <-> sync_failed_in (evlog s)).

  Lemma remove_name_perm n (l l' : list bytes) : Permutation l l' -> Permutation (remove_name n l) (remove_name n l').
  Proof.
    induction 1 as [|x l l' Hp IH|x y l|l l' l'' H1 IH1 H2 IH2]; cbn [remove_name].
    - constructor.
    - destruct (beq x n); [exact Hp|now constructor].
    - destruct (beq_spec y n) as [Ey|Ey], (beq_spec x n) as [Ex|Ex].
      + subst. apply Permutation_refl.
      + apply Permutation_refl.
      + apply Permutation_refl.
      + apply perm_swap.
    - eapply Permutation_trans; eauto.
  Qed.

  Lemma remove_name_map (l : list (Z * jphase)) i :
    NoDup (map fst l) -> (forall j, In j (map fst l) -> name_of j = name_of i -> j = i) ->
    remove_name (name_of i) (map name_of (map fst l)) =
    map name_of (map fst (filter (fun x : Z * jphase => negb (fst x =? i)) l)).
  Proof.
    induction l as [|[j ph] l IH]; [reflexivity|]. cbn [map fst remove_name filter]. intros Hnd Hinj.
    inversion Hnd as [|? ? Hj Hl]; subst.
    destruct (beq_spec (name_of j) (name_of i)) as [E|E].
    - assert (j = i) by (apply Hinj; [now left|exact E]). subst j. rewrite Z.eqb_refl. cbn [negb].
      (* i does not occur in the rest *)
      clear IH Hinj Hnd. induction l as [|[k q] l IHl]; [reflexivity|]. cbn [map fst filter] in *.
      destruct (Z.eqb_spec k i) as [->|Hk]; [elim Hj; now left|]. cbn [negb map fst]. f_equal.
      apply IHl; [intros H; apply Hj; now right|now inversion Hl].
    - destruct (Z.eqb_spec j i) as [->|Hji]; [congruence|]. cbn [negb map fst]. f_equal.
      apply IH; [exact Hl|]. intros k Hk. apply Hinj. now right.
  Qed.

  (* the name of a started step identifies it *)
  Lemma started_name_inj s i j b b' :
    oreach s -> In (EStart i b) (evlog s) -> In (EStart j b') (evlog s) -> name_of i = name_of j -> i = j.
  Proof.
    intros Hr Hi Hj E. destruct (PA_inv s Hr) as [done [Esp [_ [Hst _]]]].
    destruct (Hst i b Hi) as [q [Hq [Hqi _]]]. destruct (Hst j b' Hj) as [q' [Hq' [Hqj _]]].
    assert (In q steps) by (rewrite Esp; apply in_or_app; now left).
    assert (In q' steps) by (rewrite Esp; apply in_or_app; now left).
    rewrite <- Hqi, <- Hqj in *. rewrite !Hname in E by assumption.
    now rewrite (same_name_same_step steps q q' Hnames).
  Qed.

  Lemma sync_failed_mode s : oreach s -> sync_failed_in (evlog s) -> mode s <> AtHead.
  Proof.
    intros Hr [i [A [B C]]] Em. destruct (INV s Hr) as [I R].
    destruct (o_sync_ok _ _ s I i A) as [?|[?|?]]; congruence.
  Qed.

  (* the checker's start condition holds whenever the loop starts the step at the head of its schedule *)
  Lemma start_ok_head s t p rest :
    oreach s -> mode s = AtHead -> todo s = p :: rest -> skipped (sfile_ s) (p_name p) = false ->
    beq (p_name p) END = false ->
    (if p_par p then length (jobs s) <> ncpu else running s = []) ->
    Permutation (t_running t) (map name_of (rids s)) ->
    t_started t = rev (map name_of (start_ids (evlog s))) ->
    t_ended t = rev (map (fun x => name_of (fst x)) (finishes (evlog s))) ->
    (t_syncfailed t = true <-> sync_failed_in (evlog s)) ->
    start_ok steps skip ncpu t (p_name p) = true.
  Proof.
    intros Hr Em Et Esk Eend Hcond Hperm Hstd Hend Hsf.
    destruct (INV s Hr) as [I R]. destruct (PA_inv s Hr) as [done [Esp [Hdone [Hst [Hstab [Hfc _]]]]]].
    destruct (PB_inv s Hr) as [Hw _].
    assert (Hpin : In p steps) by (rewrite Esp, Et; apply in_or_app; right; now left).
    unfold start_ok. rewrite (find_pstep_In steps p Hnames Hpin).
    assert (H1 : mem_name (p_name p) skip = false).
    { rewrite (Hskip p Hpin), <- Hstab; [exact Esk|rewrite Et; now left]. }
    assert (H2 : mem_name (p_name p) (t_started t) = false).
    { apply mem_name_false. rewrite Hstd, <- in_rev. intros Hin. apply in_map_iff in Hin. destruct Hin as [i [Ei Hi]].
      apply In_start_ids in Hi. destruct Hi as [b Hb]. destruct (Hst i b Hb) as [q [Hq [Hqi _]]].
      assert (Hqs : In q steps) by (rewrite Esp; apply in_or_app; now left).
      assert (q = p). { apply (same_name_same_step steps q p Hnames Hqs Hpin). rewrite <- Ei, <- Hqi. symmetry. now apply Hname. }
      subst q. destruct (o_fresh _ _ s I p) as [_ [_ C]]; [rewrite Et; now left|]. apply (C b). now rewrite Hqi. }
    assert (H3 : t_syncfailed t = false).
    { apply not_true_is_false. intros E. apply Hsf in E. elim (sync_failed_mode s Hr E Em). }
    assert (Hbefore : before steps (p_name p) = done).
    { rewrite Esp, Et. apply before_split. rewrite <- Et, <- Esp. exact Hnames. }
    assert (H5 : forallb (fun q => mem_name (p_name q) skip || mem_name (p_name q) (t_started t)) done = true).
    { apply forallb_forall. intros q Hq. assert (Hqs : In q steps) by (rewrite Esp; apply in_or_app; now left).
      destruct (Hdone q Hq) as [Hs|[Hs|[_ Hx]]]; [|apply orb_true_iff; right|congruence].
      - rewrite (Hskip q Hqs), Hs. reflexivity.
      - apply mem_name_In. rewrite Hstd, <- in_rev. apply in_map_iff. exists (p_id q). split; [now apply Hname|].
        apply In_start_ids. eauto. }
    assert (H6 : forallb (fun q => p_par q || mem_name (p_name q) skip || mem_name (p_name q) (t_ended t)) done = true).
    { apply forallb_forall. intros q Hq. assert (Hqs : In q steps) by (rewrite Esp; apply in_or_app; now left).
      destruct (p_par q) eqn:Eq; [reflexivity|]. cbn [orb].
      destruct (Hdone q Hq) as [Hs|[Hs|[_ Hx]]]; [|apply orb_true_iff; right|congruence].
      - rewrite (Hskip q Hqs), Hs. reflexivity.
      - rewrite Eq in Hs. destruct (Hw _ Hs) as [Hx|Hfin]; [congruence|].
        apply mem_name_In. rewrite Hend, <- in_rev. apply in_map_iff. exists (p_id q, exit_of (p_id q)). split; [now apply Hname|exact Hfin]. }
    rewrite H1, H2, H3, Eend, Hbefore, H5, H6. cbn [negb andb].
    destruct (p_par p).
    - apply Nat.leb_le. rewrite (Permutation_length Hperm), map_length.
      pose proof (o_jobs_le _ _ s I).
      assert ((length (rids s) <= length (jobs s))%nat); [|lia].
      apply NoDup_incl_length; [apply (o_nodup_run _ _ s I)|]. intros k Hk. now apply (athead_running_in_jobs ncpu exit_of s I Em).
    - unfold rids in Hperm. rewrite Hcond in Hperm. cbn in Hperm. apply Permutation_sym, Permutation_nil in Hperm. now rewrite Hperm.
  Qed.

  Lemma sync_failed_app_nofin l x : finishes [x] = [] -> (forall i, x <> EStart i false) ->
    (sync_failed_in (l ++ [x]) <-> sync_failed_in l).
  Proof.
    intros Hx Hs. unfold sync_failed_in. split; intros [i [A [B C]]]; exists i.
    - rewrite finishes_app, Hx, app_nil_r in B. apply in_app_or in A. destruct A as [A|[A|[]]]; [auto|]. elim (Hs i). congruence.
    - rewrite finishes_app, Hx, app_nil_r. repeat split; auto. apply in_or_app. now left.
  Qed.

  Lemma PC_inv : forall s, oreach s -> PC s.
  Proof.
    apply IND.
    - exists t0. cbn. repeat split; auto; try discriminate. intros [i [[] _]].
    - intros s s' Hr Hr' [t [Hck [Hperm [Hstd [Hend Hsf]]]]] Hm.
      destruct (INV s Hr) as [I R].
      destruct Hm as [Em Em' Erun Ef Eev Htodo Hjobs|p rest Em Et Esk Epar Hlen ->|p rest Em Et Esk Epar Ej Erun Eend ->
                     |p rest Em Et Esk Epar Ej Erun Eend ->|i e Em Hnr ->]; unfold PC, rids; cbn [todo mode sfile_ evlog running].
      + exists t. rewrite Eev, Erun. auto.
      + (* parallel start *)
        assert (Hpin : In p steps).
        { destruct (PA_inv s Hr) as [done [Esp _]]. rewrite Esp, Et. apply in_or_app. right. now left. }
        assert (Eend : beq (p_name p) END = false).
        { destruct (beq_spec (p_name p) END) as [E|E]; [|reflexivity]. rewrite (Hendsync p Hpin E) in Epar. discriminate. }
        assert (Hok : start_ok steps skip ncpu t (p_name p) = true).
        { apply (start_ok_head s t p rest); auto. now rewrite Epar. }
        exists (mkt (p_name p :: t_running t) (p_name p :: t_started t) (t_ended t) (t_syncfailed t)).
        rewrite tev_of_app, check_trace_app, Hck. cbn [tev_of check_trace]. rewrite (Hname p Hpin), Hok.
        split; [reflexivity|]. cbn [t_running t_started t_ended t_syncfailed].
        rewrite !map_app, start_ids_app, finishes_app, map_app, rev_app_distr. cbn [map fst start_ids finishes rev app].
        rewrite (Hname p Hpin), app_nil_r. repeat split; auto.
        * apply Permutation_cons_app. now rewrite app_nil_r.
        * now rewrite Hstd.
        * intros H. apply sync_failed_app_nofin; [reflexivity|discriminate|now apply Hsf].
        * intros H. apply Hsf. revert H. apply sync_failed_app_nofin; [reflexivity|discriminate].
      + (* synchronous start *)
        assert (Hpin : In p steps).
        { destruct (PA_inv s Hr) as [done [Esp _]]. rewrite Esp, Et. apply in_or_app. right. now left. }
        assert (Hok : start_ok steps skip ncpu t (p_name p) = true).
        { apply (start_ok_head s t p rest); auto. now rewrite Epar. }
        exists (mkt (p_name p :: t_running t) (p_name p :: t_started t) (t_ended t) (t_syncfailed t)).
        rewrite tev_of_app, check_trace_app, Hck. cbn [tev_of check_trace]. rewrite (Hname p Hpin), Hok.
        split; [reflexivity|]. cbn [t_running t_started t_ended t_syncfailed].
        rewrite !map_app, start_ids_app, finishes_app, map_app, rev_app_distr. cbn [map fst start_ids finishes rev app].
        rewrite (Hname p Hpin), app_nil_r. repeat split; auto.
        * apply Permutation_cons_app. now rewrite app_nil_r.
        * now rewrite Hstd.
        * (* the step that starts now has not finished, so it is not the failing one *)
          intros H. apply Hsf in H. destruct H as [i [A [B C]]]. exists i. rewrite finishes_app. cbn. rewrite app_nil_r.
          repeat split; auto. apply in_or_app. now left.
        * intros [i [A [B C]]]. apply Hsf. exists i. rewrite finishes_app in B. cbn in B. rewrite app_nil_r in B.
          repeat split; auto. apply in_app_or in A. destruct A as [A|[A|[]]]; [exact A|]. injection A as <-.
          destruct (o_fresh _ _ s I p) as [_ [_ Cf]]; [rewrite Et; now left|].
          destruct (r_fin_started _ _ _ _ R _ B) as [b Hb]. elim (Cf b Hb).
      + (* end *)
        exists t. rewrite tev_of_app. cbn [tev_of]. rewrite app_nil_r, start_ids_app, finishes_app. cbn. rewrite !app_nil_r.
        repeat split; auto.
        * intros H. apply sync_failed_app_nofin; [reflexivity|discriminate|now apply Hsf].
        * intros H. apply Hsf. revert H. apply sync_failed_app_nofin; [reflexivity|discriminate].
      + exists t. auto.
    - intros s i s' Hr Hr' [t [Hck [Hperm [Hstd [Hend Hsf]]]]] Hj.
      destruct (INV s Hr) as [I R].
      destruct Hj as [Hph ->|Hph ->]; unfold PC, rids; cbn [todo mode sfile_ evlog running].
      + exists t. rewrite a_set_phase. auto.
      + assert (Hin : In i (map fst (running s))) by (eapply a_phase_In; eauto).
        destruct (r_run_started _ _ _ _ R i Hin) as [[b Hb] Hnf].
        destruct (PA_inv s Hr) as [done [Esp [_ [Hst _]]]].
        destruct (Hst i b Hb) as [q [Hq [Hqi [Hqb _]]]].
        assert (Hqs : In q steps) by (rewrite Esp; apply in_or_app; now left).
        assert (Hnm : name_of i = p_name q) by (rewrite <- Hqi; now apply Hname).
        assert (Hmem : mem_name (name_of i) (t_running t) = true).
        { apply mem_name_In. apply (Permutation_in _ (Permutation_sym Hperm)). now apply in_map. }
        exists (mkt (remove_name (name_of i) (t_running t)) (t_started t) (name_of i :: t_ended t)
                    (t_syncfailed t || (negb (p_par q) && negb (exit_of i =? 0)))).
        rewrite tev_of_app, check_trace_app, Hck. cbn [tev_of check_trace]. rewrite Hmem.
        replace (find_pstep steps (name_of i)) with (Some q) by (rewrite Hnm; symmetry; now apply find_pstep_In).
        split; [reflexivity|]. cbn [t_running t_started t_ended t_syncfailed].
        assert (E1 : start_ids (evlog s ++ [EFinish i (exit_of i); EHook (name_of i) (exit_of i)]) = start_ids (evlog s))
          by (rewrite start_ids_app; cbn; apply app_nil_r).
        assert (E2 : finishes (evlog s ++ [EFinish i (exit_of i); EHook (name_of i) (exit_of i)]) = finishes (evlog s) ++ [(i, exit_of i)])
          by (rewrite finishes_app; reflexivity).
        rewrite E1, E2.
        split; [|split; [exact Hstd|split; [rewrite map_app, rev_app_distr, Hend; reflexivity|]]].
        * unfold rids in Hperm. eapply Permutation_trans; [apply remove_name_perm, Hperm|]. rewrite remove_name_map; [apply Permutation_refl|apply (o_nodup_run _ _ s I)|].
          intros j Hj E. destruct (r_run_started _ _ _ _ R j Hj) as [[b' Hb'] _]. exact (started_name_inj s j i b' b Hr Hb' Hb E).
        * split.
          -- intros H. apply orb_true_iff in H. destruct H as [H|H].
             ++ apply Hsf in H. destruct H as [j [A [B C]]]. exists j. rewrite finishes_app, map_app.
                repeat split; auto; apply in_or_app; now left.
             ++ apply andb_true_iff in H. destruct H as [H1 H2]. apply negb_true_iff in H1, H2. exists i.
                rewrite finishes_app, map_app. split; [|split].
                ** apply in_or_app. left. rewrite <- H1, Hqb. exact Hb.
                ** apply in_or_app. right. now left.
                ** intros E0. rewrite E0 in H2. discriminate.
          -- intros [j [A [B C]]]. apply orb_true_iff.
             apply in_app_or in A. destruct A as [A|[A|[A|[]]]]; [|discriminate|discriminate].
             rewrite finishes_app, map_app in B. apply in_app_or in B. destruct B as [B|[<-|[]]].
             ++ left. apply Hsf. exists j. auto.
             ++ right. destruct (Hst i false A) as [q' [Hq' [Hqi' [Hqb' _]]]].
                assert (In q' steps) by (rewrite Esp; apply in_or_app; now left).
                assert (q' = q) by (apply (same_id_same_step steps q' q Hids); auto; congruence). subst q'.
                rewrite Hqb'. destruct (Z.eqb_spec (exit_of i) 0); [contradiction|reflexivity].
  Qed.

  (* ---- the checker accepts every reachable state's log ... ------------------------------------------------ *)
  Theorem check_trace_accepts s :
    oreach s -> exists t, check_trace steps skip ncpu t0 (tev_of name_of (evlog s)) = Some t.
  Proof. intros Hr. destruct (PC_inv s Hr) as [t [H _]]. eauto. Qed.

  Lemma In_tev_start l j b : In (EStart j b) l -> In (TStart (name_of j)) (tev_of name_of l).
  Proof.
    induction l as [|x l IH]; [intros []|]. intros [->|H]; [now left|]. destruct x; cbn; auto.
  Qed.

  (* clause 6 of C04 on the event log itself: once a synchronous step has finished with a non-zero status no
     step is started any more, whatever the schedule does afterwards; and when the invocation has ended it
     has ended in its failed mode, with a non-zero exit status *)
  Theorem stop_after_sync_failure s l1 i e l2 d :
    oreach s -> evlog s = l1 ++ EFinish i e :: l2 -> In (EStart i false) (evlog s) -> e <> 0 ->
    (forall j b, ~ In (EStart j b) l2) /\
    (mode s = ODone \/ mode s = OFailed -> mode s = OFailed /\ e_status (trap_exit (mode s) (sfile_ s) d) = 1).
  Proof.
    intros Hr Hev Hs He. split.
    - destruct (check_trace_accepts s Hr) as [t Hck]. rewrite Hev, tev_of_app in Hck. cbn [tev_of] in Hck.
      destruct (PA_inv s Hr) as [done [Esp [_ [Hst _]]]]. destruct (Hst i false Hs) as [q [Hq [Hqi [Hqb _]]]].
      assert (Hqs : In q steps) by (rewrite Esp; apply in_or_app; now left).
      assert (Hf : find_pstep steps (name_of i) = Some q).
      { rewrite <- Hqi, (Hname q Hqs). now apply find_pstep_In. }
      destruct (accepted_stops_after_sync_failure steps skip ncpu _ _ _ _ t q Hck Hf Hqb He) as [_ Hno].
      intros j b Hin. exact (Hno _ (In_tev_start l2 j b Hin)).
    - intros Hterm.
      assert (Hfin : In (EFinish i e) (evlog s)) by (rewrite Hev; apply in_or_app; right; now left).
      destruct (failing_sync_fails s i e Hr Hs Hfin He) as [Hm|Hm]; [|destruct Hterm; congruence].
      split; [exact Hm|]. rewrite Hm. reflexivity.
  Qed.

  (* ... and the whole oracle every terminal one, when the initial file has no end record and end is the
     last configured step *)
  Hypothesis Hnoend : has_end f0 = false.
  Hypothesis Hendlast : forall d p r, steps = d ++ p :: r -> p_name p = END -> r = [].

  Lemma end_iff_done : forall s, oreach s -> (has_end (sfile_ s) = true <-> mode s = ODone).
  Proof.
    apply IND.
    - unfold oinit. cbn [sfile_ mode]. rewrite Hnoend. split; discriminate.
    - intros s s' Hr Hr' IH Hm.
      destruct Hm as [Em Em' Erun Ef Eev Htodo Hjobs|p rest Em Et Esk Epar Hlen ->|p rest Em Et Esk Epar Ej Erun Eend ->
                     |p rest Em Et Esk Epar Ej Erun Eend ->|i e Em Hnr ->]; cbn [todo mode sfile_ evlog running].
      + rewrite Ef, Em'. rewrite IH, Em. split; discriminate.
      + rewrite IH, Em. split; discriminate.
      + rewrite IH, Em. split; discriminate.
      + split; [reflexivity|]. intros _. apply has_end_In. exists (mkrow (p_id p) (p_name p) 0 0). split; [|now apply beq_eq].
        destruct (INV s Hr) as [I R].
        apply lookup_In with (i := p_id p). rewrite lookup_upsert by apply (r_asc _ _ _ _ R). cbn. now rewrite Z.eqb_refl.
      + rewrite IH, Em. split; [discriminate|]. destruct (e =? 0); discriminate.
    - intros s i s' Hr Hr' IH Hj.
      assert (Hne : (exists ph, phase_of (running s) i = Some ph) -> name_of i <> END).
      { intros [ph Hph]. destruct (INV s Hr) as [I R]. apply a_phase_In in Hph.
        destruct (r_run_started _ _ _ _ R i Hph) as [[b Hb] _].
        destruct (PA_inv s Hr) as [done [Esp [_ [Hst _]]]]. destruct (Hst i b Hb) as [q [Hq [Hqi [_ [Hqe _]]]]].
        assert (In q steps) by (rewrite Esp; apply in_or_app; now left).
        rewrite <- Hqi, Hname; auto. }
      destruct Hj as [Hph ->|Hph ->]; cbn [todo mode sfile_ evlog running]; rewrite <- IH;
        (split; intros H;
         [apply has_end_upsert in H; destruct H as [H|H]; [elim (Hne (ex_intro _ _ Hph) H)|exact H]
         |exfalso; apply IH in H; destruct (INV s Hr) as [I R];
          destruct (o_term_quiet _ _ s I (or_intror H)) as [Hrun _]; rewrite Hrun in Hph; discriminate]).
  Qed.

  Theorem spec_ok_trace_accepts s d :
    oreach s -> mode s = ODone \/ mode s = OFailed ->
    spec_ok_trace steps skip ncpu (tev_of name_of (evlog s))
                  (e_status (trap_exit (mode s) (sfile_ s) d)) (has_end (sfile_ s)) = true.
  Proof.
    intros Hr Hterm. destruct (INV s Hr) as [I R]. destruct (PC_inv s Hr) as [t [Hck [Hperm [Hstd [Hend Hsf]]]]].
    unfold spec_ok_trace. fold t_init. rewrite Hck.
    assert (Hq : running s = []) by (apply (o_term_quiet _ _ s I); tauto).
    assert (Hrun0 : t_running t = []).
    { unfold rids in Hperm. rewrite Hq in Hperm. cbn in Hperm. now apply Permutation_sym, Permutation_nil in Hperm. }
    rewrite Hrun0.
    destruct Hterm as [Hm|Hm].
    - (* end reached *)
      assert (Hsf0 : t_syncfailed t = false).
      { apply not_true_is_false. intros E. apply Hsf in E. destruct E as [i [A [B C]]].
        destruct (o_sync_ok _ _ s I i A) as [?|[?|?]]; congruence. }
      assert (He : has_end (sfile_ s) = true) by (now apply end_iff_done).
      rewrite Hm, He, Hsf0. cbn.
      rewrite andb_true_r. apply forallb_forall. intros q Hq'.
      destruct (PA_inv s Hr) as [done [Esp [Hdone [Hst [_ [_ Hd]]]]]].
      destruct (Hd Hm) as [dd [pe [Esp' [Hpe _]]]].
      pose proof (Hendlast dd pe (todo s) Esp' Hpe) as Hnil. rewrite Hnil, app_nil_r in Esp.
      rewrite Esp in Hq'. destruct (Hdone q Hq') as [Hs|[Hs|[Hs _]]].
      + assert (Hqs : In q steps) by (now rewrite Esp). rewrite (Hskip q Hqs), Hs. apply orb_true_iff. left. apply orb_true_r.
      + apply orb_true_iff. right. apply mem_name_In. rewrite Hend, <- in_rev.
        assert (Hstq : started s (p_id q)) by (exists (p_par q); exact Hs).
        pose proof (r_rec _ _ _ _ R (p_id q) Hstq) as Hrec. rewrite Hq in Hrec. cbn in Hrec. destruct Hrec as [_ Hrec].
        apply in_map_iff. exists (p_id q, exit_of (p_id q)). split; [apply Hname; now rewrite Esp|exact Hrec].
      + apply beq_eq in Hs. now rewrite Hs.
    - (* a synchronous step failed *)
      assert (Hsf1 : t_syncfailed t = true).
      { apply Hsf. destruct (PB_inv s Hr) as [_ [_ [Hf _]]]. destruct (Hf Hm) as [i [A [B C]]]. exists i. repeat split; auto.
        apply in_map_iff. exists (i, exit_of i). auto. }
      assert (He : has_end (sfile_ s) = false).
      { destruct (has_end (sfile_ s)) eqn:E; [|reflexivity]. apply end_iff_done in E; [congruence|exact Hr]. }
      rewrite Hm, He, Hsf1. reflexivity.
  Qed.
End Oracle.
