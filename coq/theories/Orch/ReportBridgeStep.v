(* ReportBridgeStep.v - the orchestrator's view of a row of C01's step file model ([orch_view],
   Orch/ReportBridge.v) is the projection [proj_row] under which Orch/StepBridge.v proves that the
   robsd-step -W call of step_write is an [upsert]: the composed status theorem of C05, the writer model
   of C03/C04/C11 and the dictionary of C01 speak about the same rows. *)
From Robsd Require Import Orch.ReportBridge Orch.StepBridge Report.ReportTypes.
Local Open Scope Z_scope.

Theorem orch_view_is_proj_row st : orch_view st = proj_row (geti st fn_step, st).
Proof.
  unfold orch_view, proj_row, geti, gets, get_field. cbn [fst snd].
  vm_compute (find_field Gen_Step.fields fn_name). vm_compute (find_field Gen_Step.fields fn_exit).
  vm_compute (find_field Gen_Step.fields fn_skip). cbn [StepTypes.fd_index].
  f_equal.
  - destruct (nth_error st 1) as [[[|]|]|]; reflexivity.
  - destruct (nth_error st 2) as [[[|]|]|]; reflexivity.
  - destruct (nth_error st 8) as [[[|]|]|]; reflexivity.
Qed.
