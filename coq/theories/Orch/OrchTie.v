(* OrchTie.v - the tie between the statement lists harness/t_orch.py reads in util.sh and the transition system:
   the interpretation (Orch/ShapeSem.v) of the modelled lists IS main_step / job_step / trap_exit / invoke_end,
   for every state; a different list means something else (witnesses for the two seeded variants of the loop);
   and the duration step_exec_job records is non-negative when the clock does not step back. *)
From Robsd Require Import Orch.ShapeSem Orch.ModelShape Orch.OrchProofs.
Local Open Scope Z_scope.

Theorem loop_tie ncpu b jb s : b = modelled_body -> jb = modelled_job ->
  loop_of_shape ncpu b jb s = main_step ncpu s.
Proof.
  intros -> ->. destruct s as [td jbs rn md sf ev]. unfold loop_of_shape, main_step. cbn [mode todo].
  destruct md as [|i e| |]; [|cbn [jobs running todo sfile_ evlog]|reflexivity|reflexivity].
  2:{ match goal with |- (if ?c then _ else _) = _ => destruct c end; [reflexivity|]. destruct (e =? 0); reflexivity. }
  destruct td as [|p rest]; [reflexivity|].
  unfold run_body, modelled_body. cbn [lb_head lb_par lb_sync lb_tail run_block exec_l sfile_ jobs running todo evlog].
  destruct (skipped sf (p_name p)); [reflexivity|].
  destruct (p_par p).
  - cbn [run_block exec_l sfile_ jobs running todo evlog].
    destruct (Nat.eqb (length jbs) ncpu); [|reflexivity].
    destruct (forallb _ jbs); reflexivity.
  - cbn [run_block exec_l sfile_ jobs running todo evlog].
    destruct jbs as [|j jbs].
    + destruct (beq (p_name p) END); reflexivity.
    + destruct (existsb _ (j :: jbs)); reflexivity.
Qed.

Theorem job_tie exit_of name_of jb s i : jb = modelled_job ->
  job_of_shape exit_of name_of jb s i = job_step exit_of name_of s i.
Proof.
  intros ->. unfold job_of_shape, job_step, modelled_job. cbn [split_exec].
  destruct (phase_of (running s) i) as [[|]|]; [| |reflexivity].
  - reflexivity.
  - cbn [fold_left job_effect fst snd]. now rewrite <- app_assoc.
Qed.

Theorem step_tie ncpu exit_of name_of b jb s a : b = modelled_body -> jb = modelled_job ->
  step_of_shape ncpu exit_of name_of b jb s a = ostep ncpu exit_of name_of s a.
Proof. intros Hb Hj. destruct a; cbn; [now apply loop_tie|now apply job_tie]. Qed.

(* every run under every schedule *)
Theorem run_tie ncpu exit_of name_of b jb sched : b = modelled_body -> jb = modelled_job ->
  forall s, run_of_shape ncpu exit_of name_of b jb s sched = orun ncpu exit_of name_of s sched.
Proof.
  intros Hb Hj. induction sched as [|a sched IH]; intros s; cbn [run_of_shape orun]; [reflexivity|].
  rewrite (step_tie ncpu exit_of name_of b jb s a Hb Hj). destruct (ostep ncpu exit_of name_of s a); apply IH.
Qed.

Theorem exit_tie xb m f d : xb = modelled_exit -> exit_of_shape xb m f d = trap_exit m f d.
Proof. intros ->. reflexivity. Qed.

Theorem invoke_end_tie xb t w b m d : xb = modelled_exit -> invoke_end_of_shape xb t w b m d = invoke_end t w b m d.
Proof.
  intros ->. unfold invoke_end_of_shape, invoke_end. rewrite (exit_tie modelled_exit m _ d eq_refl).
  cbn [modelled_exit fold_left world_effect iw_lock iw_dirs iw_reports iw_mails].
  destruct (has_steps _); reflexivity.
Qed.

(* ---- other lists mean other things -------------------------------------------------------------------------- *)
Definition three_par : list pstep := [mkpstep 1 [112; 49]%N true 0; mkpstep 2 [112; 50]%N true 0; mkpstep 3 [112; 51]%N true 0].

(* the queue-full branch that forgets the OLDEST pid (seeded change C04): p1, p2 started with ncpu = 2, p2
   finishes, the loop forgets p1 and starts p3 - three entries, p1 and p3 run, but only p3 is remembered; after
   one more round three parallel steps would run.  Here: the remembered jobs no longer cover the running ones *)
Theorem drop_oldest_is_not_the_model :
  let b := mkbody [LSkipTest] [LQueueFull QWDropOldest; LForkJob] [LBarrier; LEnd; LSyncJob] [LReboot; LLockAlive] in
  let sched := [AMain; AMain; AJob 1; AJob 2; AJob 2; AJob 2; AMain; AMain] in
  let s := run_of_shape 2 (fun _ => 0) (fun _ => []) b modelled_job (oinit three_par []) sched in
  let s' := orun 2 (fun _ => 0) (fun _ => []) (oinit three_par []) sched in
  jobs s = [2; 3] /\ map fst (running s) = [1; 3] /\ jobs s' = [1; 3] /\ map fst (running s') = [1; 3].
Proof. vm_compute. repeat split; reflexivity. Qed.

(* end tested before the barrier (seeded change C11-2): end is recorded while a parallel step still runs *)
Theorem end_before_barrier_is_not_the_model :
  let steps := [mkpstep 1 [112]%N true 0; mkpstep 2 END false 0] in
  let b := mkbody [LSkipTest] [LQueueFull QWKeepStillRunning; LForkJob] [LEnd; LBarrier; LSyncJob] [LReboot; LLockAlive] in
  let sched := [AMain; AMain] in
  let s := run_of_shape 2 (fun _ => 0) (fun _ => []) b modelled_job (oinit steps []) sched in
  let s' := orun 2 (fun _ => 0) (fun _ => []) (oinit steps []) sched in
  mode s = ODone /\ map fst (running s) = [1] /\ mode s' = AtHead.
Proof. vm_compute. repeat split; reflexivity. Qed.

(* without `return 1` a failing synchronous step does not stop the loop *)
Theorem no_return_is_not_the_model :
  let steps := [mkpstep 1 [97]%N false 2; mkpstep 2 END false 0] in
  let jb := [JLogId; JT0; JWriteInflight (-1) (-1); JExec; JT1; JDuration; JDelta; JWriteDone; JHook] in
  let sched := [AMain; AJob 1; AJob 1; AMain; AMain] in
  let ex := fun i : Z => if i =? 1 then 2 else 0 in
  mode (run_of_shape 1 ex (fun _ => []) modelled_body jb (oinit steps []) sched) = ODone /\
  mode (orun 1 ex (fun _ => []) (oinit steps []) sched) = OFailed.
Proof. vm_compute. split; reflexivity. Qed.

(* ---- the duration clause of C11 ------------------------------------------------------------------------------ *)
Definition monotone (clock : nat -> Z) : Prop := forall a b, (a <= b)%nat -> clock a <= clock b.
Definition increasing (at_ : nat -> nat) : Prop := forall a b, (a < b)%nat -> (at_ a < at_ b)%nat.

(* _t0 is read before the step runs and _t1 after it, so with a clock that never steps back the recorded duration
   is not negative *)
Theorem duration_nonneg jb clock at_ d : jb = modelled_job ->
  monotone clock -> increasing at_ -> duration_of_shape jb clock at_ = Some d -> 0 <= d.
Proof.
  intros -> Hm Hi. unfold duration_of_shape, modelled_job. cbn [index_of is_T0 is_T1 is_Duration is_WriteDone].
  cbn. intros E. injection E as <-.
  assert (H : (at_ 1 <= at_ 4)%nat) by (apply Nat.lt_le_incl, Hi; lia).
  specialize (Hm _ _ H). lia.
Qed.

(* ... and it IS negative when the clock is set back while the step runs (date '+%s' is wall-clock time) *)
Theorem duration_negative_when_clock_steps_back :
  exists clock at_ d, increasing at_ /\ ~ monotone clock /\
    duration_of_shape modelled_job clock at_ = Some d /\ d < 0.
Proof.
  exists (fun t => if Nat.leb t 2 then 1000 else 400), (fun k => k), (-600).
  split; [intros a b H; exact H|]. split.
  - intros Hm. specialize (Hm 1%nat 4%nat). cbn in Hm. lia.
  - split; [reflexivity|lia].
Qed.

(* reading the clock in the other order would negate it: why the order of the two reads is part of the tie *)
Theorem duration_needs_t0_first :
  let jb := [JLogId; JT1; JWriteInflight (-1) (-1); JExec; JT0; JDuration; JDelta; JWriteDone; JHook; JReturnIfNonzero] in
  exists clock at_ d, monotone clock /\ increasing at_ /\ duration_of_shape jb clock at_ = Some d /\ d < 0.
Proof.
  exists (fun t => Z.of_nat t), (fun k => k), (-3). split; [intros a b H; lia|]. split; [intros a b H; exact H|].
  split; [reflexivity|lia].
Qed.
