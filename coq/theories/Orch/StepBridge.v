(* StepBridge.v - ties the abstract step file of the orchestrator models (Orch/ResumeDefs.v: rows
   (id, name, exit, skip) and [upsert]) to the step file model of C01: the robsd-step -W
   invocation that util.sh step_write builds denotes, in the dictionary specification of C01
   (StepSpec.spec_write), exactly an [upsert] of the projected row.  Together with
   C01_write_refines_dictionary this is why the orchestrator proofs may treat a record write
   as one atomic upsert on rows kept in ascending id order. *)
From Robsd Require Import Orch.ResumeDefs Step.StepSpec Step.StepRows Step.StepWrite Step.StepLex Base.DecimalProofs.
From RobsdGen Require Import Gen_Step.
Local Open Scope N_scope.

(* what step_write passes after "--": name, exit, duration, delta, [log], user, [time], skip *)
Definition kv (k : bytes) (v : bytes) : bytes := k ++ 61 :: v.
Definition k_name := [110; 97; 109; 101].
Definition k_exit := [101; 120; 105; 116].
Definition k_duration := [100; 117; 114; 97; 116; 105; 111; 110].
Definition k_delta := [100; 101; 108; 116; 97].
Definition k_log := [108; 111; 103].
Definition k_user := [117; 115; 101; 114].
Definition k_time := [116; 105; 109; 101].
Definition k_skip := [115; 107; 105; 112].

Definition step_write_kvs (name : bytes) (exit duration delta : Z) (log : bytes) (user : bytes) (time : option Z) (skip : Z)
  : list bytes :=
  [kv k_name name; kv k_exit (render_Z exit); kv k_duration (render_Z duration); kv k_delta (render_Z delta)] ++
  (match log with [] => [] | _ => [kv k_log log] end) ++
  [kv k_user user] ++
  (match time with Some t => [kv k_time (render_Z t)] | None => [] end) ++
  [kv k_skip (render_Z skip)].

(* projection of a C01 record to the orchestrator's row *)
Definition proj_row (x : Z * record) : srow :=
  let r := snd x in
  mkrow (fst x)
        (match nth_error r 1 with Some (Some (VStr s)) => s | _ => [] end)
        (match nth_error r 2 with Some (Some (VInt z)) => z | _ => 0%Z end)
        (match nth_error r 8 with Some (Some (VInt z)) => z | _ => 0%Z end).

Lemma proj_put id r s :
  map proj_row (alist_put id r s) = upsert (proj_row (id, r)) (map proj_row s).
Proof.
  induction s as [|[i x] s IH]; [reflexivity|].
  cbn [alist_put map upsert]. change (r_id (proj_row (id, r))) with id. change (r_id (proj_row (i, x))) with i.
  destruct (id =? i)%Z; [reflexivity|]. destruct (id <? i)%Z; [reflexivity|].
  cbn [map]. now rewrite IH.
Qed.

Lemma split_eq_kv k v : ~ In 61 k -> split_eq (kv k v) = Some (k, v).
Proof.
  unfold kv. induction k as [|c k IH]; intros H; [reflexivity|].
  cbn [app split_eq]. destruct (N.eqb_spec c 61) as [->|Hc]; [elim H; now left|].
  rewrite IH; [reflexivity|]. intros Hin. apply H. now right.
Qed.

Local Opaque render_Z strtonum.

Definition i64 (z : Z) : Prop := (i64_min <= z <= i64_max)%Z.

Lemma denote_int k fd z :
  ~ In 61 k -> find_field fields k = Some fd -> fd_type fd = FInt -> i64 z ->
  denote (kv k (render_Z z)) = Some (fd, VInt z).
Proof.
  intros Hk Hf Ht Hz. unfold denote. rewrite split_eq_kv by exact Hk. rewrite Hf, Ht.
  rewrite strtonum_render by exact Hz. reflexivity.
Qed.

Lemma denote_str k fd v :
  ~ In 61 k -> find_field fields k = Some fd -> fd_type fd = FStr -> representable fd v = true ->
  denote (kv k v) = Some (fd, VStr v).
Proof.
  intros Hk Hf Ht Hr. unfold denote. rewrite split_eq_kv by exact Hk. now rewrite Hf, Ht, Hr.
Qed.

(* a new step: the record written by step_write -t ... (in-flight or completion or skip record) *)
Theorem step_write_new_row (s : astate) id name exit duration delta log user time skip :
  alist_find id s = None ->
  (id_min <= id <= id_max)%Z -> id <> 0%Z ->
  i64 exit -> i64 duration -> i64 delta -> i64 time -> i64 skip ->
  representable (nth 1 fields (mkfdef [] FStr 1 false [])) name = true ->
  representable (nth 5 fields (mkfdef [] FStr 5 true [])) log = true ->
  representable (nth 6 fields (mkfdef [] FStr 6 false [])) user = true ->
  exists r, spec_write s (render_Z id) (step_write_kvs name exit duration delta log user (Some time) skip) = Some (alist_put id r s) /\
            proj_row (id, r) = mkrow id name exit skip /\
            length r = 9%nat /\ nth_error r 0 = Some (Some (VInt id)) /\ nth_error r 7 = Some (Some (VInt time)).
Proof.
  intros Hfind Hid Hnz He Hd Hdl Ht Hs Rn Rl Ru.
  assert (nk : forall k, existsb (N.eqb 61) k = false -> ~ In 61 k).
  { intros k H Hin. assert (existsb (N.eqb 61) k = true) by (apply existsb_exists; exists 61; split; [exact Hin|reflexivity]). congruence. }
  unfold spec_write, denote_id. rewrite strtonum_render by exact Hid.
  destruct (Z.eqb_spec id 0); [contradiction|]. rewrite Hfind.
  unfold step_write_kvs.
  assert (Hcons : forall l, match (kv k_name name :: l) with [] => @None astate | _ :: _ => None end = None) by reflexivity.
  cbn [app].
  rewrite default_record_eq. cbn [set_nth].
  assert (Dn := denote_str k_name (nth 1 fields (mkfdef [] FStr 1 false [])) name (nk k_name eq_refl) eq_refl eq_refl Rn).
  assert (De := denote_int k_exit (nth 2 fields (mkfdef [] FStr 2 false [])) exit (nk k_exit eq_refl) eq_refl eq_refl He).
  assert (Dd := denote_int k_duration (nth 3 fields (mkfdef [] FStr 3 false [])) duration (nk k_duration eq_refl) eq_refl eq_refl Hd).
  assert (Ddl := denote_int k_delta (nth 4 fields (mkfdef [] FStr 4 false [])) delta (nk k_delta eq_refl) eq_refl eq_refl Hdl).
  assert (Dl := denote_str k_log (nth 5 fields (mkfdef [] FStr 5 true [])) log (nk k_log eq_refl) eq_refl eq_refl Rl).
  assert (Du := denote_str k_user (nth 6 fields (mkfdef [] FStr 6 false [])) user (nk k_user eq_refl) eq_refl eq_refl Ru).
  assert (Dt := denote_int k_time (nth 7 fields (mkfdef [] FStr 7 false [])) time (nk k_time eq_refl) eq_refl eq_refl Ht).
  assert (Ds := denote_int k_skip (nth 8 fields (mkfdef [] FStr 8 false [])) skip (nk k_skip eq_refl) eq_refl eq_refl Hs).
  destruct log as [|c l].
  - cbn [app apply_kvs]. rewrite Dn, De, Dd, Ddl, Du, Dt, Ds. cbn [fd_index nth fields set_nth].
    cbn [complete keeps_id forallb fields fd_index nth_error andb]. rewrite Z.eqb_refl.
    eexists. split; [reflexivity|]. cbn. auto.
  - cbn [app apply_kvs]. rewrite Dn, De, Dd, Ddl, Dl, Du, Dt, Ds. cbn [fd_index nth fields set_nth].
    cbn [complete keeps_id forallb fields fd_index nth_error andb]. rewrite Z.eqb_refl.
    eexists. split; [reflexivity|]. cbn. auto.
Qed.

Corollary step_write_row_upsert (s : astate) id name exit duration delta log user time skip :
  alist_find id s = None ->
  (id_min <= id <= id_max)%Z -> id <> 0%Z ->
  i64 exit -> i64 duration -> i64 delta -> i64 time -> i64 skip ->
  representable (nth 1 fields (mkfdef [] FStr 1 false [])) name = true ->
  representable (nth 5 fields (mkfdef [] FStr 5 true [])) log = true ->
  representable (nth 6 fields (mkfdef [] FStr 6 false [])) user = true ->
  exists r, spec_write s (render_Z id) (step_write_kvs name exit duration delta log user (Some time) skip) = Some (alist_put id r s) /\
            map proj_row (alist_put id r s) = upsert (mkrow id name exit skip) (map proj_row s).
Proof.
  intros Hf Hid Hnz He Hd Hdl Ht Hs Rn Rl Ru.
  destruct (step_write_new_row s id name exit duration delta log user time skip Hf Hid Hnz He Hd Hdl Ht Hs Rn Rl Ru) as [r [H1 [H2 _]]].
  exists r. split; [exact H1|]. rewrite proj_put, H2. reflexivity.
Qed.

(* ---- the UPDATE case: the completion record of step_exec_job ------------------------------------------------
   step_write -l log -s id -n name -e exit -d duration -a delta (no -t): every key but [time] is passed again.
   On a record that exists the dictionary specification keeps the fields that are not passed - here the start
   time written by the in-flight record - and the orchestrator's row (id, name, exit, skip) is replaced. *)
Lemma alist_find_put id r s : alist_find id (alist_put id r s) = Some r.
Proof.
  induction s as [|[i x] s IH]; cbn [alist_put alist_find].
  - now rewrite Z.eqb_refl.
  - destruct (Z.eqb_spec id i) as [->|Hne]; cbn [alist_find]; [now rewrite Z.eqb_refl|].
    destruct (id <? i)%Z; cbn [alist_find]; [now rewrite Z.eqb_refl|].
    destruct (Z.eqb_spec i id); [congruence|exact IH].
Qed.

Theorem step_write_update_row (s : astate) id r0 tm name exit duration delta log user skip :
  alist_find id s = Some r0 ->
  length r0 = 9%nat -> nth_error r0 0 = Some (Some (VInt id)) -> nth_error r0 7 = Some (Some tm) ->
  (id_min <= id <= id_max)%Z -> id <> 0%Z -> log <> [] ->
  i64 exit -> i64 duration -> i64 delta -> i64 skip ->
  representable (nth 1 fields (mkfdef [] FStr 1 false [])) name = true ->
  representable (nth 5 fields (mkfdef [] FStr 5 true [])) log = true ->
  representable (nth 6 fields (mkfdef [] FStr 6 false [])) user = true ->
  exists r, spec_write s (render_Z id) (step_write_kvs name exit duration delta log user None skip) = Some (alist_put id r s) /\
            proj_row (id, r) = mkrow id name exit skip /\
            nth_error r 7 = Some (Some tm) /\
            nth_error r 0 = Some (Some (VInt id)) /\ length r = 9%nat /\
            map proj_row (alist_put id r s) = upsert (mkrow id name exit skip) (map proj_row s).
Proof.
  intros Hfind Hlen H0 H7 Hid Hnz Hlog He Hd Hdl Hs Rn Rl Ru.
  assert (nk : forall k, existsb (N.eqb 61) k = false -> ~ In 61 k).
  { intros k H Hin. assert (existsb (N.eqb 61) k = true) by (apply existsb_exists; exists 61; split; [exact Hin|reflexivity]). congruence. }
  destruct r0 as [|a0 [|a1 [|a2 [|a3 [|a4 [|a5 [|a6 [|a7 [|a8 [|? ?]]]]]]]]]]; try discriminate Hlen.
  cbn in H0, H7. injection H0 as ->. injection H7 as ->.
  unfold spec_write, denote_id. rewrite strtonum_render by exact Hid.
  destruct (Z.eqb_spec id 0); [contradiction|]. rewrite Hfind.
  unfold step_write_kvs. cbn [app].
  assert (Dn := denote_str k_name (nth 1 fields (mkfdef [] FStr 1 false [])) name (nk k_name eq_refl) eq_refl eq_refl Rn).
  assert (De := denote_int k_exit (nth 2 fields (mkfdef [] FStr 2 false [])) exit (nk k_exit eq_refl) eq_refl eq_refl He).
  assert (Dd := denote_int k_duration (nth 3 fields (mkfdef [] FStr 3 false [])) duration (nk k_duration eq_refl) eq_refl eq_refl Hd).
  assert (Ddl := denote_int k_delta (nth 4 fields (mkfdef [] FStr 4 false [])) delta (nk k_delta eq_refl) eq_refl eq_refl Hdl).
  assert (Dl := denote_str k_log (nth 5 fields (mkfdef [] FStr 5 true [])) log (nk k_log eq_refl) eq_refl eq_refl Rl).
  assert (Du := denote_str k_user (nth 6 fields (mkfdef [] FStr 6 false [])) user (nk k_user eq_refl) eq_refl eq_refl Ru).
  assert (Ds := denote_int k_skip (nth 8 fields (mkfdef [] FStr 8 false [])) skip (nk k_skip eq_refl) eq_refl eq_refl Hs).
  destruct log as [|c l]; [now elim Hlog|].
  - cbn [app apply_kvs]. rewrite Dn, De, Dd, Ddl, Dl, Du, Ds. cbn [fd_index nth fields set_nth].
    cbn [complete keeps_id forallb fields fd_index nth_error andb]. rewrite Z.eqb_refl.
    eexists. split; [reflexivity|]. rewrite proj_put. cbn. auto 10.
Qed.

(* step_exec_job as a whole on the dictionary: the in-flight record of a step that has no record yet, then its
   completion record.  Both writes are accepted; on the orchestrator's rows they are the two upserts of
   OrchDefs.job_step; the start time of the first write survives the second. *)
Theorem step_exec_job_two_writes (s : astate) id name log user time exit duration delta :
  alist_find id s = None ->
  (id_min <= id <= id_max)%Z -> id <> 0%Z -> log <> [] ->
  i64 exit -> i64 duration -> i64 delta -> i64 time ->
  representable (nth 1 fields (mkfdef [] FStr 1 false [])) name = true ->
  representable (nth 5 fields (mkfdef [] FStr 5 true [])) log = true ->
  representable (nth 6 fields (mkfdef [] FStr 6 false [])) user = true ->
  exists r1 r2,
    spec_write s (render_Z id) (step_write_kvs name (-1) (-1) 0 log user (Some time) 0) = Some (alist_put id r1 s) /\
    spec_write (alist_put id r1 s) (render_Z id) (step_write_kvs name exit duration delta log user None 0)
      = Some (alist_put id r2 (alist_put id r1 s)) /\
    map proj_row (alist_put id r1 s) = upsert (mkrow id name (-1) 0) (map proj_row s) /\
    map proj_row (alist_put id r2 (alist_put id r1 s)) = upsert (mkrow id name exit 0) (upsert (mkrow id name (-1) 0) (map proj_row s)) /\
    nth_error r2 7 = Some (Some (VInt time)).
Proof.
  intros Hf Hid Hnz Hlog He Hd Hdl Ht Rn Rl Ru.
  assert (Hm1 : i64 (-1)) by (unfold i64, i64_min, i64_max; lia).
  assert (H00 : i64 0) by (unfold i64, i64_min, i64_max; lia).
  destruct (step_write_new_row s id name (-1) (-1) 0 log user time 0 Hf Hid Hnz Hm1 Hm1 H00 Ht H00 Rn Rl Ru)
    as [r1 [W1 [P1 [L1 [I1 T1]]]]].
  destruct (step_write_update_row (alist_put id r1 s) id r1 (VInt time) name exit duration delta log user 0
              (alist_find_put id r1 s) L1 I1 T1 Hid Hnz Hlog He Hd Hdl H00 Rn Rl Ru) as [r2 [W2 [P2 [T2 [_ [_ U2]]]]]].
  exists r1, r2. split; [exact W1|]. split; [exact W2|]. split; [now rewrite proj_put, P1|]. split; [|exact T2].
  rewrite U2, proj_put, P1. reflexivity.
Qed.
