(* StepBridge.v - ties the abstract step file of the orchestrator models (Orch/ResumeDefs.v: rows
   (id, name, exit, skip) and [upsert]) to the step file model of C01: the robsd-step -W
   invocation that util.sh step_write builds denotes, in the dictionary specification of C01
   (StepSpec.spec_write), exactly an [upsert] of the projected row.  Together with
   C01_write_refines_dictionary this is why the orchestrator proofs may treat a record write
   as one atomic upsert on rows kept in ascending id order. *)
From Robsd Require Import Orch.ResumeDefs Step.StepSpec Step.StepRows Step.StepWrite Step.StepLex Base.DecimalProofs.
From RobsdGen Require Import Gen_Step.
Local Open Scope N_scope.

(* what step_write passes after "--": name, exit, duration, delta, [log], user, [time], skip *)
Definition kv (k : bytes) (v : bytes) : bytes := k ++ 61 :: v.
Definition k_name := [110; 97; 109; 101].
Definition k_exit := [101; 120; 105; 116].
Definition k_duration := [100; 117; 114; 97; 116; 105; 111; 110].
Definition k_delta := [100; 101; 108; 116; 97].
Definition k_log := [108; 111; 103].
Definition k_user := [117; 115; 101; 114].
Definition k_time := [116; 105; 109; 101].
Definition k_skip := [115; 107; 105; 112].

Definition step_write_kvs (name : bytes) (exit duration delta : Z) (log : bytes) (user : bytes) (time : option Z) (skip : Z)
  : list bytes :=
  [kv k_name name; kv k_exit (render_Z exit); kv k_duration (render_Z duration); kv k_delta (render_Z delta)] ++
  (match log with [] => [] | _ => [kv k_log log] end) ++
  [kv k_user user] ++
  (match time with Some t => [kv k_time (render_Z t)] | None => [] end) ++
  [kv k_skip (render_Z skip)].

(* projection of a C01 record to the orchestrator's row *)
Definition proj_row (x : Z * record) : srow :=
  let r := snd x in
  mkrow (fst x)
        (match nth_error r 1 with Some (Some (VStr s)) => s | _ => [] end)
        (match nth_error r 2 with Some (Some (VInt z)) => z | _ => 0%Z end)
        (match nth_error r 8 with Some (Some (VInt z)) => z | _ => 0%Z end).

Lemma proj_put id r s :
  map proj_row (alist_put id r s) = upsert (proj_row (id, r)) (map proj_row s).
Proof.
  induction s as [|[i x] s IH]; [reflexivity|].
  cbn [alist_put map upsert]. change (r_id (proj_row (id, r))) with id. change (r_id (proj_row (i, x))) with i.
  destruct (id =? i)%Z; [reflexivity|]. destruct (id <? i)%Z; [reflexivity|].
  cbn [map]. now rewrite IH.
Qed.

Lemma split_eq_kv k v : ~ In 61 k -> split_eq (kv k v) = Some (k, v).
Proof.
  unfold kv. induction k as [|c k IH]; intros H; [reflexivity|].
  cbn [app split_eq]. destruct (N.eqb_spec c 61) as [->|Hc]; [elim H; now left|].
  rewrite IH; [reflexivity|]. intros Hin. apply H. now right.
Qed.

Local Opaque render_Z strtonum.

Definition i64 (z : Z) : Prop := (i64_min <= z <= i64_max)%Z.

Lemma denote_int k fd z :
  ~ In 61 k -> find_field fields k = Some fd -> fd_type fd = FInt -> i64 z ->
  denote (kv k (render_Z z)) = Some (fd, VInt z).
Proof.
  intros Hk Hf Ht Hz. unfold denote. rewrite split_eq_kv by exact Hk. rewrite Hf, Ht.
  rewrite strtonum_render by exact Hz. reflexivity.
Qed.

Lemma denote_str k fd v :
  ~ In 61 k -> find_field fields k = Some fd -> fd_type fd = FStr -> representable fd v = true ->
  denote (kv k v) = Some (fd, VStr v).
Proof.
  intros Hk Hf Ht Hr. unfold denote. rewrite split_eq_kv by exact Hk. now rewrite Hf, Ht, Hr.
Qed.

(* a new step: the record written by step_write -t ... (in-flight or completion or skip record) *)
Theorem step_write_new_row (s : astate) id name exit duration delta log user time skip :
  alist_find id s = None ->
  (id_min <= id <= id_max)%Z -> id <> 0%Z ->
  i64 exit -> i64 duration -> i64 delta -> i64 time -> i64 skip ->
  representable (nth 1 fields (mkfdef [] FStr 1 false [])) name = true ->
  representable (nth 5 fields (mkfdef [] FStr 5 true [])) log = true ->
  representable (nth 6 fields (mkfdef [] FStr 6 false [])) user = true ->
  exists r, spec_write s (render_Z id) (step_write_kvs name exit duration delta log user (Some time) skip) = Some (alist_put id r s) /\
            proj_row (id, r) = mkrow id name exit skip.
Proof.
  intros Hfind Hid Hnz He Hd Hdl Ht Hs Rn Rl Ru.
  assert (nk : forall k, existsb (N.eqb 61) k = false -> ~ In 61 k).
  { intros k H Hin. assert (existsb (N.eqb 61) k = true) by (apply existsb_exists; exists 61; split; [exact Hin|reflexivity]). congruence. }
  unfold spec_write, denote_id. rewrite strtonum_render by exact Hid.
  destruct (Z.eqb_spec id 0); [contradiction|]. rewrite Hfind.
  unfold step_write_kvs.
  assert (Hcons : forall l, match (kv k_name name :: l) with [] => @None astate | _ :: _ => None end = None) by reflexivity.
  cbn [app].
  rewrite default_record_eq. cbn [set_nth].
  assert (Dn := denote_str k_name (nth 1 fields (mkfdef [] FStr 1 false [])) name (nk k_name eq_refl) eq_refl eq_refl Rn).
  assert (De := denote_int k_exit (nth 2 fields (mkfdef [] FStr 2 false [])) exit (nk k_exit eq_refl) eq_refl eq_refl He).
  assert (Dd := denote_int k_duration (nth 3 fields (mkfdef [] FStr 3 false [])) duration (nk k_duration eq_refl) eq_refl eq_refl Hd).
  assert (Ddl := denote_int k_delta (nth 4 fields (mkfdef [] FStr 4 false [])) delta (nk k_delta eq_refl) eq_refl eq_refl Hdl).
  assert (Dl := denote_str k_log (nth 5 fields (mkfdef [] FStr 5 true [])) log (nk k_log eq_refl) eq_refl eq_refl Rl).
  assert (Du := denote_str k_user (nth 6 fields (mkfdef [] FStr 6 false [])) user (nk k_user eq_refl) eq_refl eq_refl Ru).
  assert (Dt := denote_int k_time (nth 7 fields (mkfdef [] FStr 7 false [])) time (nk k_time eq_refl) eq_refl eq_refl Ht).
  assert (Ds := denote_int k_skip (nth 8 fields (mkfdef [] FStr 8 false [])) skip (nk k_skip eq_refl) eq_refl eq_refl Hs).
  destruct log as [|c l].
  - cbn [app apply_kvs]. rewrite Dn, De, Dd, Ddl, Du, Dt, Ds. cbn [fd_index nth fields set_nth].
    cbn [complete keeps_id forallb fields fd_index nth_error andb]. rewrite Z.eqb_refl.
    eexists. split; [reflexivity|]. reflexivity.
  - cbn [app apply_kvs]. rewrite Dn, De, Dd, Ddl, Dl, Du, Dt, Ds. cbn [fd_index nth fields set_nth].
    cbn [complete keeps_id forallb fields fd_index nth_error andb]. rewrite Z.eqb_refl.
    eexists. split; [reflexivity|]. reflexivity.
Qed.

Corollary step_write_row_upsert (s : astate) id name exit duration delta log user time skip :
  alist_find id s = None ->
  (id_min <= id <= id_max)%Z -> id <> 0%Z ->
  i64 exit -> i64 duration -> i64 delta -> i64 time -> i64 skip ->
  representable (nth 1 fields (mkfdef [] FStr 1 false [])) name = true ->
  representable (nth 5 fields (mkfdef [] FStr 5 true [])) log = true ->
  representable (nth 6 fields (mkfdef [] FStr 6 false [])) user = true ->
  exists r, spec_write s (render_Z id) (step_write_kvs name exit duration delta log user (Some time) skip) = Some (alist_put id r s) /\
            map proj_row (alist_put id r s) = upsert (mkrow id name exit skip) (map proj_row s).
Proof.
  intros Hf Hid Hnz He Hd Hdl Ht Hs Rn Rl Ru.
  destruct (step_write_new_row s id name exit duration delta log user time skip Hf Hid Hnz He Hd Hdl Ht Hs Rn Rl Ru) as [r [H1 H2]].
  exists r. split; [exact H1|]. rewrite proj_put, H2. reflexivity.
Qed.
