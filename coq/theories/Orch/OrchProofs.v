From Robsd Require Import Orch.OrchDefs.
Local Open Scope Z_scope.

Section OrchProofs.
  Variable ncpu : nat.
  Variable exit_of : Z -> Z.
  Variable name_of : Z -> bytes.

  Notation ostep := (ostep ncpu exit_of name_of).
  Notation main_step := (main_step ncpu).
  Notation job_step := (job_step exit_of name_of).
  Notation orun := (orun ncpu exit_of name_of).

  Definition rids (s : ostate) : list Z := map fst (running s).

  (* the foreground job, if any *)
  Definition fg (s : ostate) : list Z := match mode s with WaitSync i _ => [i] | _ => [] end.

  Record OInv (s : ostate) : Prop := mkOInv {
    o_nodup_run : NoDup (rids s);
    o_nodup_jobs : NoDup (jobs s);
    o_jobs_le : (length (jobs s) <= ncpu)%nat;
    o_run_incl : forall i, In i (rids s) -> In i (jobs s) \/ In i (fg s);
    o_fg_nojobs : forall i e, mode s = WaitSync i e -> jobs s = [];
    o_term_quiet : mode s = OFailed \/ mode s = ODone -> running s = [] /\ jobs s = [];
    (* every started step that is not in the todo list any more is not started again:
       ids of todo are fresh *)
    o_fresh : forall p, In p (todo s) -> ~ In (p_id p) (rids s) /\ ~ In (p_id p) (jobs s) /\
                                        forall b, ~ In (EStart (p_id p) b) (evlog s);
    o_todo_nodup : NoDup (map p_id (todo s));
    (* a synchronous step that was started succeeded, unless it is the one in the foreground or the run failed *)
    o_sync_ok : forall i, In (EStart i false) (evlog s) ->
                  exit_of i = 0 \/ mode s = WaitSync i (exit_of i) \/ mode s = OFailed;
    o_todo_exit : forall p, In p (todo s) -> p_exit p = exit_of (p_id p);
  }.

  Lemma is_running_In s i : is_running s i = true <-> In i (rids s).
  Proof.
    unfold is_running, rids. rewrite existsb_exists. split.
    - intros [[j ph] [Hin Hj]]. cbn in Hj. apply Z.eqb_eq in Hj. subst. now apply (in_map fst) in Hin.
    - intros Hin. apply in_map_iff in Hin. destruct Hin as [[j ph] [<- Hin]]. exists (j, ph). split; [exact Hin|apply Z.eqb_refl].
  Qed.

  Lemma rids_set_phase (l : list (Z * jphase)) i ph : map fst (set_phase l i ph) = map fst l.
  Proof.
    induction l as [|[j q] l IH]; [reflexivity|]. cbn [set_phase]. destruct (j =? i); cbn; [reflexivity|now rewrite IH].
  Qed.

  Lemma rids_filter_out (l : list (Z * jphase)) i : forall j, In j (map fst (filter (fun x : Z * jphase => negb (fst x =? i)) l)) <-> In j (map fst l) /\ j <> i.
  Proof.
    intros j. induction l as [|[k q] l IH]; cbn; [tauto|].
    destruct (Z.eqb_spec k i); cbn; rewrite IH; intuition congruence.
  Qed.

  Lemma NoDup_filter {A} (f : A -> bool) l : NoDup l -> NoDup (filter f l).
  Proof.
    induction 1 as [|x l Hx Hl IH]; cbn; [constructor|]. destruct (f x); [|exact IH].
    constructor; [|exact IH]. intros H. apply filter_In in H. tauto.
  Qed.

  Lemma NoDup_map_filter (l : list (Z * jphase)) i : NoDup (map fst l) -> NoDup (map fst (filter (fun x : Z * jphase => negb (fst x =? i)) l)).
  Proof.
    induction l as [|[k q] l IH]; cbn; [auto|]. intros H. inversion H as [|? ? Hk Hl]; subst.
    destruct (k =? i); cbn; [auto|]. constructor; [|auto].
    intros Hin. apply rids_filter_out in Hin. tauto.
  Qed.

  Lemma filter_length_le {A} (f : A -> bool) l : (length (filter f l) <= length l)%nat.
  Proof. induction l as [|x l IH]; cbn; [lia|]. destruct (f x); cbn; lia. Qed.

  Lemma NoDup_snoc' {A} (l : list A) x : NoDup l -> ~ In x l -> NoDup (l ++ [x]).
  Proof.
    induction 1 as [|y l Hy Hl IH]; intros Hx; cbn; [constructor; [intros []|constructor]|].
    constructor.
    - rewrite in_app_iff. intros [H|[H|[]]]; [contradiction|]. apply Hx. now left.
    - apply IH. intros H. apply Hx. now right.
  Qed.

  Lemma inv_init steps f :
    NoDup (map p_id steps) -> (forall p, In p steps -> p_exit p = exit_of (p_id p)) -> OInv (oinit steps f).
  Proof.
    intros Hnd Hex. constructor; cbn; try (now constructor); try tauto; try discriminate; try lia; auto.
    all: try (intros [H|H]; discriminate).
    all: try (intros p Hp; repeat split; auto).
  Qed.

  Lemma todo_tail_fresh s p rest :
    OInv s -> todo s = p :: rest ->
    NoDup (map p_id rest) /\ (forall q, In q rest -> p_id q <> p_id p) /\ (forall q, In q rest -> In q (todo s)).
  Proof.
    intros I E. pose proof (o_todo_nodup s I) as H. rewrite E in H. cbn in H. inversion H as [|? ? Hn Hr]; subst.
    split; [exact Hr|]. split.
    - intros q Hq Heq. apply Hn. rewrite <- Heq. now apply in_map.
    - intros q Hq. rewrite E. now right.
  Qed.

  Lemma inv_main s s' : OInv s -> main_step s = Some s' -> OInv s'.
  Proof.
    intros I H. unfold OrchDefs.main_step in H.
    destruct (mode s) eqn:Em; try discriminate.
    - (* AtHead *)
      destruct (todo s) as [|p rest] eqn:Et; [discriminate|].
      destruct (todo_tail_fresh s p rest I Et) as [Hnd [Hne Hsub]].
      destruct (o_fresh s I p) as [Hfr [Hfj Hfe]]; [rewrite Et; now left|].
      assert (Hfg : fg s = []) by (unfold fg; now rewrite Em).
      destruct (skipped (sfile_ s) (p_name p)).
      + injection H as <-. constructor; cbn; try apply I; auto.
        * intros i Hi. destruct (o_run_incl s I i Hi) as [?|Hf]; [now left|]. rewrite Hfg in Hf. destruct Hf.
        * intros i e Hm. discriminate.
        * intros [Hm|Hm]; discriminate.
        * intros q Hq. apply (o_fresh s I q). auto.
        * intros i Hi. destruct (o_sync_ok s I i Hi) as [?|[Hm|Hm]]; [now left|congruence|congruence].
        * intros q Hq. apply (o_todo_exit s I q). auto.
      + destruct (p_par p).
        * destruct (Nat.eqb (length (jobs s)) ncpu) eqn:Efull.
          -- destruct (forallb (is_running s) (jobs s)); [discriminate|]. injection H as <-.
             constructor; cbn; try apply I; auto.
             ++ apply NoDup_filter, (o_nodup_jobs s I).
             ++ pose proof (filter_length_le (is_running s) (jobs s)). pose proof (o_jobs_le s I). lia.
             ++ intros i Hi. left. apply filter_In. split.
                ** destruct (o_run_incl s I i Hi) as [?|Hf]; [assumption|]. rewrite Hfg in Hf. destruct Hf.
                ** now apply is_running_In.
             ++ intros i e Hm. discriminate.
             ++ intros [Hm|Hm]; discriminate.
             ++ intros q Hq. destruct (o_fresh s I q) as [A [B C]]; [now rewrite Et|].
                repeat split; auto. intros Hin. apply filter_In in Hin. tauto.
             ++ pose proof (o_todo_nodup s I) as Hn. now rewrite Et in Hn.
             ++ intros i Hi. destruct (o_sync_ok s I i Hi) as [?|[Hm|Hm]]; [now left|congruence|congruence].
             ++ intros q Hq. apply (o_todo_exit s I q). now rewrite Et.
          -- injection H as <-. apply Nat.eqb_neq in Efull. pose proof (o_jobs_le s I).
             constructor; cbn.
             ++ unfold rids. cbn. rewrite map_app. cbn. apply NoDup_snoc'; [apply (o_nodup_run s I)|exact Hfr].
             ++ apply NoDup_snoc'; [apply (o_nodup_jobs s I)|exact Hfj].
             ++ rewrite app_length. cbn. lia.
             ++ unfold rids. cbn. rewrite map_app. cbn. intros i Hi. left. apply in_app_or in Hi.
                apply in_or_app. destruct Hi as [Hi|[<-|[]]]; [|right; now left].
                destruct (o_run_incl s I i Hi) as [?|Hf]; [now left|]. rewrite Hfg in Hf. destruct Hf.
             ++ intros i e Hm. discriminate.
             ++ intros [Hm|Hm]; discriminate.
             ++ intros q Hq. destruct (o_fresh s I q (Hsub q Hq)) as [A [B C]]. unfold rids. cbn. rewrite map_app. cbn.
                repeat split.
                ** rewrite in_app_iff. intros [?|[E|[]]]; [contradiction|]. apply (Hne q Hq). now symmetry.
                ** rewrite in_app_iff. intros [?|[E|[]]]; [contradiction|]. apply (Hne q Hq). now symmetry.
                ** intros b. rewrite in_app_iff. intros [?|[E|[]]]; [now apply (C b)|]. injection E as E _. apply (Hne q Hq). now symmetry.
             ++ exact Hnd.
             ++ intros i Hi. apply in_app_or in Hi. destruct Hi as [Hi|[Hi|[]]]; [|discriminate].
                destruct (o_sync_ok s I i Hi) as [?|[Hm|Hm]]; [now left|congruence|congruence].
             ++ intros q Hq. apply (o_todo_exit s I q). auto.
        * destruct (jobs s) as [|j0 js] eqn:Ej.
          -- assert (Hrun : running s = []).
             { destruct (running s) as [|[i ph] l] eqn:Er; [reflexivity|].
               destruct (o_run_incl s I i) as [Hi|Hi]; [unfold rids; rewrite Er; now left| |].
               - rewrite Ej in Hi. destruct Hi.
               - rewrite Hfg in Hi. destruct Hi. }
             assert (Hold : forall i, In (EStart i false) (evlog s) -> exit_of i = 0).
             { intros i Hi. destruct (o_sync_ok s I i Hi) as [?|[Hm|Hm]]; [assumption|congruence|congruence]. }
             destruct (beq (p_name p) END).
             ++ injection H as <-. constructor; unfold rids, fg; cbn [todo jobs running mode sfile_ evlog].
                ** rewrite Hrun. constructor.
                ** constructor.
                ** cbn. lia.
                ** rewrite Hrun. intros i [].
                ** discriminate.
                ** intros _. split; [exact Hrun|reflexivity].
                ** intros q Hq. destruct (o_fresh s I q (Hsub q Hq)) as [A [B C]]. rewrite Hrun. repeat split; [intros []|intros []|].
                   intros b Hin. apply in_app_or in Hin. destruct Hin as [Hin|[Hin|[]]]; [exact (C b Hin)|discriminate].
                ** exact Hnd.
                ** intros i Hi. apply in_app_or in Hi. destruct Hi as [Hi|[Hi|[]]]; [left; auto|discriminate].
                ** intros q Hq. apply (o_todo_exit s I q). auto.
             ++ injection H as <-.
                assert (Hpe : p_exit p = exit_of (p_id p)) by (apply (o_todo_exit s I p); rewrite Et; now left).
                constructor; unfold rids, fg; cbn [todo jobs running mode sfile_ evlog]; rewrite ?Hrun; cbn [app map fst].
                ** constructor; [intros []|constructor].
                ** constructor.
                ** cbn. lia.
                ** intros i [<-|[]]. right. now left.
                ** reflexivity.
                ** intros [Hm|Hm]; discriminate.
                ** intros q Hq. destruct (o_fresh s I q (Hsub q Hq)) as [A [B C]]. repeat split.
                   --- intros [E|[]]. apply (Hne q Hq). now symmetry.
                   --- intros [].
                   --- intros b Hin. apply in_app_or in Hin. destruct Hin as [Hin|[E|[]]]; [exact (C b Hin)|].
                       injection E as E _. apply (Hne q Hq). now symmetry.
                ** exact Hnd.
                ** intros i Hi. apply in_app_or in Hi. destruct Hi as [Hi|[Hi|[]]]; [left; auto|].
                   injection Hi as <-. right. left. now rewrite Hpe.
                ** intros q Hq. apply (o_todo_exit s I q). auto.
          -- destruct (existsb (is_running s) (j0 :: js)) eqn:Eex; [discriminate|]. injection H as <-.
             assert (Hrun : running s = []).
             { destruct (running s) as [|[i ph] l] eqn:Er; [reflexivity|].
               assert (Hi : In i (rids s)) by (unfold rids; rewrite Er; now left).
               destruct (o_run_incl s I i Hi) as [Hj|Hf]; [|rewrite Hfg in Hf; destruct Hf].
               assert (existsb (is_running s) (j0 :: js) = true).
               { apply existsb_exists. exists i. split; [now rewrite <- Ej|now apply is_running_In]. }
               congruence. }
             constructor; unfold rids, fg; cbn [todo jobs running mode sfile_ evlog]; rewrite ?Hrun; cbn [map].
             ++ constructor.
             ++ constructor.
             ++ cbn. lia.
             ++ intros i [].
             ++ discriminate.
             ++ intros [Hm|Hm]; discriminate.
             ++ intros q Hq. destruct (o_fresh s I q) as [A [B C]]; [now rewrite Et|]. repeat split; auto.
             ++ pose proof (o_todo_nodup s I) as Hn. now rewrite Et in Hn.
             ++ intros i Hi. destruct (o_sync_ok s I i Hi) as [?|[Hm|Hm]]; [now left|congruence|congruence].
             ++ intros q Hq. apply (o_todo_exit s I q). now rewrite Et.
    - (* WaitSync *)
      destruct (is_running s i) eqn:Er; [discriminate|]. injection H as <-.
      pose proof (o_fg_nojobs s I i e Em) as Hj.
      assert (Hrun : running s = []).
      { destruct (running s) as [|[k ph] l] eqn:Ek; [reflexivity|].
        assert (Hk : In k (rids s)) by (unfold rids; rewrite Ek; now left).
        destruct (o_run_incl s I k Hk) as [H1|H1]; [rewrite Hj in H1; destruct H1|].
        unfold fg in H1. rewrite Em in H1. destruct H1 as [<-|[]].
        apply is_running_In in Hk. congruence. }
      constructor; unfold rids, fg; cbn [todo jobs running mode sfile_ evlog]; rewrite ?Hrun, ?Hj; cbn [map].
      + constructor.
      + constructor.
      + cbn. lia.
      + intros k [].
      + intros k e0 Hm. reflexivity.
      + intros _. split; reflexivity.
      + intros q Hq. destruct (o_fresh s I q Hq) as [A [B C]]. repeat split; auto.
      + apply (o_todo_nodup s I).
      + intros k Hk. destruct (o_sync_ok s I k Hk) as [?|[Hm|Hm]]; [now left| |congruence].
        rewrite Em in Hm. injection Hm as <- ->.
        destruct (Z.eqb_spec (exit_of i) 0) as [E0|E0]; [now left|right; now right].
      + apply (o_todo_exit s I).
  Qed.

  Lemma phase_of_In l i ph : phase_of l i = Some ph -> In i (map fst l).
  Proof.
    induction l as [|[j q] l IH]; [discriminate|]. cbn [phase_of map fst].
    destruct (Z.eqb_spec j i); [intros _; now left|intros H; right; auto].
  Qed.

  Lemma inv_job s i s' : OInv s -> job_step s i = Some s' -> OInv s'.
  Proof.
    intros I H. unfold OrchDefs.job_step in H.
    destruct (phase_of (running s) i) as [[|]|] eqn:Ep; [| |discriminate]; injection H as <-.
    - constructor; unfold rids, fg; cbn [todo jobs running mode sfile_ evlog]; rewrite ?rids_set_phase.
      + apply (o_nodup_run s I).
      + apply (o_nodup_jobs s I).
      + apply (o_jobs_le s I).
      + apply (o_run_incl s I).
      + apply (o_fg_nojobs s I).
      + intros Hm. destruct (o_term_quiet s I Hm) as [Hr Hj]. rewrite Hr in Ep. discriminate.
      + apply (o_fresh s I).
      + apply (o_todo_nodup s I).
      + apply (o_sync_ok s I).
      + apply (o_todo_exit s I).
    - constructor; unfold rids, fg; cbn [todo jobs running mode sfile_ evlog].
      + apply NoDup_map_filter, (o_nodup_run s I).
      + apply (o_nodup_jobs s I).
      + apply (o_jobs_le s I).
      + intros k Hk. apply rids_filter_out in Hk. apply (o_run_incl s I k). tauto.
      + apply (o_fg_nojobs s I).
      + intros Hm. destruct (o_term_quiet s I Hm) as [Hr Hj]. rewrite Hr in Ep. discriminate.
      + intros q Hq. destruct (o_fresh s I q Hq) as [A [B C]]. repeat split; auto.
        * intros Hin. apply rids_filter_out in Hin. tauto.
        * intros b Hin. apply in_app_or in Hin. destruct Hin as [Hin|[Hin|[Hin|[]]]]; [exact (C b Hin)|discriminate|discriminate].
      + apply (o_todo_nodup s I).
      + intros k Hk. apply in_app_or in Hk. destruct Hk as [Hk|[Hk|[Hk|[]]]]; [|discriminate|discriminate].
        apply (o_sync_ok s I k Hk).
      + apply (o_todo_exit s I).
  Qed.

  Lemma inv_step s a s' : OInv s -> ostep s a = Some s' -> OInv s'.
  Proof. destruct a; [apply inv_main|apply inv_job]. Qed.

  Theorem inv_run sched : forall s, OInv s -> OInv (orun s sched).
  Proof.
    induction sched as [|a sched IH]; intros s I; [exact I|].
    cbn [OrchDefs.orun]. destruct (ostep s a) as [s'|] eqn:E; [|auto]. apply IH. eapply inv_step; eauto.
  Qed.

  (* ---- C04 ------------------------------------------------------------------------------------ *)

  (* never more than ncpu parallel steps at once: everything running besides the foreground job is a
     remembered job, and there are at most ncpu of those *)
  Theorem ncpu_bound s : OInv s -> (length (filter (fun i => negb (existsb (Z.eqb i) (fg s))) (rids s)) <= ncpu)%nat.
  Proof.
    intros I. apply Nat.le_trans with (length (jobs s)); [|apply (o_jobs_le s I)].
    apply NoDup_incl_length.
    - apply NoDup_filter, (o_nodup_run s I).
    - intros i Hi. apply filter_In in Hi. destruct Hi as [Hi Hn].
      destruct (o_run_incl s I i Hi) as [?|Hf]; [assumption|].
      apply negb_true_iff in Hn. assert (existsb (Z.eqb i) (fg s) = true); [|congruence].
      apply existsb_exists. exists i. split; [exact Hf|apply Z.eqb_refl].
  Qed.

  (* a step is started only by the main loop at its head; a synchronous one only when nothing at all is
     running (barrier), a parallel one only when no synchronous step is running; never a skipped one *)
  Theorem start_conditions s s' i par :
    OInv s -> main_step s = Some s' -> evlog s' = evlog s ++ [EStart i par] ->
    mode s = AtHead /\
    (exists p rest, todo s = p :: rest /\ p_id p = i /\ p_par p = par /\ skipped (sfile_ s) (p_name p) = false) /\
    (par = false -> running s = []) /\
    (forall k, In k (rids s) -> In k (jobs s)).
  Proof.
    intros I H Hev. unfold OrchDefs.main_step in H.
    assert (Hneq : forall l (x : ev), l = l ++ [x] -> False).
    { intros l x E. apply (f_equal (@length ev)) in E. rewrite app_length in E. cbn in E. lia. }
    destruct (mode s) eqn:Em; try discriminate.
    - destruct (todo s) as [|p rest] eqn:Et; [discriminate|].
      assert (Hfg : fg s = []) by (unfold fg; now rewrite Em).
      assert (Hincl : forall k, In k (rids s) -> In k (jobs s)).
      { intros k Hk. destruct (o_run_incl s I k Hk) as [?|Hf]; [assumption|]. rewrite Hfg in Hf. destruct Hf. }
      destruct (skipped (sfile_ s) (p_name p)) eqn:Esk.
      + injection H as <-. cbn in Hev. elim (Hneq _ _ Hev).
      + destruct (p_par p) eqn:Epar.
        * destruct (Nat.eqb (length (jobs s)) ncpu).
          -- destruct (forallb (is_running s) (jobs s)); [discriminate|]. injection H as <-. cbn in Hev. elim (Hneq _ _ Hev).
          -- injection H as <-. cbn in Hev. apply app_inv_head in Hev. injection Hev as <- <-.
             split; [reflexivity|]. split; [exists p, rest; auto|]. split; [discriminate|exact Hincl].
        * destruct (jobs s) as [|j0 js] eqn:Ej.
          -- destruct (beq (p_name p) END).
             ++ injection H as <-. cbn in Hev. apply app_inv_head in Hev. discriminate.
             ++ injection H as <-. cbn in Hev. apply app_inv_head in Hev. injection Hev as <- <-.
                split; [reflexivity|]. split; [exists p, rest; auto|]. split; [|intros k Hk; apply Hincl in Hk; destruct Hk].
                intros _. destruct (running s) as [|[k ph] l] eqn:Er; [reflexivity|].
                assert (Hk : In k (rids s)) by (unfold rids; rewrite Er; now left).
                apply Hincl in Hk. destruct Hk.
          -- destruct (existsb (is_running s) (j0 :: js)); [discriminate|]. injection H as <-. cbn in Hev. elim (Hneq _ _ Hev).
    - destruct (is_running s i0); [discriminate|]. injection H as <-. cbn in Hev. elim (Hneq _ _ Hev).
  Qed.

  (* after a synchronous step failed nothing starts any more and the invocation exits non-zero;
     a failing parallel step never changes the course of the loop *)
  Theorem stop_at_failure s : mode s = OFailed -> main_step s = None /\ e_status (trap_exit (mode s) (sfile_ s) false) = 1.
  Proof. intros H. unfold OrchDefs.main_step. rewrite H. split; reflexivity. Qed.

  Theorem job_keeps_course s i s' : job_step s i = Some s' -> mode s' = mode s /\ todo s' = todo s /\ jobs s' = jobs s.
  Proof.
    unfold OrchDefs.job_step. destruct (phase_of (running s) i) as [[|]|]; [| |discriminate]; intros H; injection H as <-; auto.
  Qed.

  (* end is recorded only if every synchronous step that was started succeeded *)
  Theorem end_iff_sync_ok s : OInv s -> mode s = ODone -> forall i, In (EStart i false) (evlog s) -> exit_of i = 0.
  Proof.
    intros I Hm i Hi. destruct (o_sync_ok s I i Hi) as [?|[H|H]]; [assumption|congruence|congruence].
  Qed.

  (* what OFailed means (a started synchronous step finished with a non-zero status), both ways: Orch/TraceOracle.v
     failed_has_failing_sync / failing_sync_fails *)
End OrchProofs.
