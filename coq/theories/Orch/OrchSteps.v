(* OrchSteps.v - the moves of the transition system of OrchDefs.v as relations (one constructor per
   branch of robsd()'s loop / of step_exec_job), an induction principle over the reachable states
   that hands the previously proved invariants to every later proof, and the enabledness lemmas of
   C04: a parallel step is started whatever else is running (it does not wait for other parallel
   steps), a synchronous one as soon as nothing is running. *)
From Robsd Require Import Orch.OrchDefs Orch.ResumeSpec Orch.ResumeProofs Orch.OrchProofs Orch.AccountProofs.
Local Open Scope Z_scope.

Section Steps.
  Variable ncpu : nat.
  Variable exit_of : Z -> Z.
  Variable name_of : Z -> bytes.

  Notation main_step := (main_step ncpu).
  Notation job_step := (job_step exit_of name_of).
  Notation ostep := (ostep ncpu exit_of name_of).
  Notation orun := (orun ncpu exit_of name_of).
  Notation OInv := (OInv ncpu exit_of).

  (* ---- the main loop's moves -------------------------------------------------------------------- *)
  Inductive mstep (s s' : ostate) : Prop :=
  | MQuiet :   (* passing over a skipped step, the queue-full wait, the barrier *)
      mode s = AtHead -> mode s' = AtHead -> running s' = running s -> sfile_ s' = sfile_ s -> evlog s' = evlog s ->
      (todo s' = todo s \/ exists p, todo s = p :: todo s' /\ skipped (sfile_ s) (p_name p) = true) ->
      (forall i, In i (jobs s') -> In i (jobs s)) -> mstep s s'
  | MPar p rest :
      mode s = AtHead -> todo s = p :: rest -> skipped (sfile_ s) (p_name p) = false -> p_par p = true ->
      length (jobs s) <> ncpu ->
      s' = mkostate rest (jobs s ++ [p_id p]) (running s ++ [(p_id p, JStarted)]) AtHead (sfile_ s)
                    (evlog s ++ [EStart (p_id p) true]) -> mstep s s'
  | MSync p rest :
      mode s = AtHead -> todo s = p :: rest -> skipped (sfile_ s) (p_name p) = false -> p_par p = false ->
      jobs s = [] -> running s = [] -> beq (p_name p) END = false ->
      s' = mkostate rest [] (running s ++ [(p_id p, JStarted)]) (WaitSync (p_id p) (p_exit p)) (sfile_ s)
                    (evlog s ++ [EStart (p_id p) false]) -> mstep s s'
  | MEnd p rest :
      mode s = AtHead -> todo s = p :: rest -> skipped (sfile_ s) (p_name p) = false -> p_par p = false ->
      jobs s = [] -> running s = [] -> beq (p_name p) END = true ->
      s' = mkostate rest [] (running s) ODone (upsert (mkrow (p_id p) (p_name p) 0 0) (sfile_ s))
                    (evlog s ++ [EEnd]) -> mstep s s'
  | MWake i e :
      mode s = WaitSync i e -> is_running s i = false ->
      s' = mkostate (todo s) (jobs s) (running s) (if e =? 0 then AtHead else OFailed) (sfile_ s) (evlog s) ->
      mstep s s'.

  Lemma athead_running_in_jobs s : OInv s -> mode s = AtHead -> forall k, In k (rids s) -> In k (jobs s).
  Proof.
    intros I Em k Hk. destruct (o_run_incl _ _ s I k Hk) as [?|Hf]; [assumption|].
    unfold fg in Hf. rewrite Em in Hf. destruct Hf.
  Qed.

  Lemma nojobs_norun s : OInv s -> mode s = AtHead -> jobs s = [] -> running s = [].
  Proof.
    intros I Em Ej. destruct (running s) as [|[k ph] l] eqn:Er; [reflexivity|].
    assert (Hk : In k (rids s)) by (unfold rids; rewrite Er; now left).
    apply (athead_running_in_jobs s I Em) in Hk. rewrite Ej in Hk. destruct Hk.
  Qed.

  Lemma main_step_cases s s' : OInv s -> main_step s = Some s' -> mstep s s'.
  Proof.
    intros I H. unfold OrchDefs.main_step in H.
    destruct (mode s) eqn:Em; try discriminate.
    - destruct (todo s) as [|p rest] eqn:Et; [discriminate|].
      destruct (skipped (sfile_ s) (p_name p)) eqn:Esk.
      + injection H as <-. apply MQuiet; cbn; auto. right. exists p. rewrite Et. auto.
      + destruct (p_par p) eqn:Epar.
        * destruct (Nat.eqb (length (jobs s)) ncpu) eqn:Efull.
          -- destruct (forallb (is_running s) (jobs s)); [discriminate|]. injection H as <-.
             apply MQuiet; cbn; auto. intros i Hi. apply filter_In in Hi. tauto.
          -- apply Nat.eqb_neq in Efull. injection H as <-. eapply MPar; eauto.
        * destruct (jobs s) as [|j0 js] eqn:Ej.
          -- pose proof (nojobs_norun s I Em Ej) as Hrun.
             destruct (beq (p_name p) END) eqn:Eend; injection H as <-.
             ++ eapply MEnd; eauto.
             ++ eapply MSync; eauto.
          -- destruct (existsb (is_running s) (j0 :: js)); [discriminate|]. injection H as <-.
             apply MQuiet; cbn; auto. intros i [].
    - destruct (is_running s i) eqn:Er; [discriminate|]. injection H as <-. eapply MWake; eauto.
  Qed.

  (* ---- a job's moves --------------------------------------------------------------------------- *)
  Inductive jstep (s : ostate) (i : Z) (s' : ostate) : Prop :=
  | JFirst :    (* the in-flight record, then the command starts *)
      phase_of (running s) i = Some JStarted ->
      s' = mkostate (todo s) (jobs s) (set_phase (running s) i JRunning) (mode s)
                    (upsert (mkrow i (name_of i) (-1) 0) (sfile_ s)) (evlog s) -> jstep s i s'
  | JFinish :   (* the command ended: completion record and hook *)
      phase_of (running s) i = Some JRunning ->
      s' = mkostate (todo s) (jobs s) (filter (fun x => negb (fst x =? i)) (running s)) (mode s)
                    (upsert (mkrow i (name_of i) (exit_of i) 0) (sfile_ s))
                    (evlog s ++ [EFinish i (exit_of i); EHook (name_of i) (exit_of i)]) -> jstep s i s'.

  Lemma job_step_cases s i s' : job_step s i = Some s' -> jstep s i s'.
  Proof.
    unfold OrchDefs.job_step. destruct (phase_of (running s) i) as [[|]|] eqn:Ep; [| |discriminate];
      intros H; injection H as <-; [apply JFirst|apply JFinish]; auto.
  Qed.

  Lemma orun_app s a b : orun s (a ++ b) = orun (orun s a) b.
  Proof.
    revert s. induction a as [|x a IH]; intros s; [reflexivity|]. cbn [app OrchDefs.orun].
    destruct (ostep s x); apply IH.
  Qed.

  (* ---- enabledness (C04: "does not wait for other parallel steps") --------------------------------- *)

  (* a parallel step at the head of the schedule that is not skipped is started by the very next move of
     the main loop whenever the queue is not full - whatever else is running, parallel or not finished *)
  Theorem parallel_start_enabled s p rest :
    mode s = AtHead -> todo s = p :: rest -> p_par p = true -> skipped (sfile_ s) (p_name p) = false ->
    (length (jobs s) < ncpu)%nat ->
    exists s', main_step s = Some s' /\ evlog s' = evlog s ++ [EStart (p_id p) true] /\
               todo s' = rest /\ mode s' = AtHead /\ running s' = running s ++ [(p_id p, JStarted)].
  Proof.
    intros Em Et Ep Esk Hlen. unfold OrchDefs.main_step. rewrite Em, Et, Esk, Ep.
    assert (E : Nat.eqb (length (jobs s)) ncpu = false) by (apply Nat.eqb_neq; lia). rewrite E.
    eexists. split; [reflexivity|]. cbn. auto.
  Qed.

  (* when the queue is full the loop needs exactly one remembered job to be gone (robsd-wait), nothing more:
     after that move the step is enabled *)
  Theorem parallel_start_after_one_gone s p rest j :
    OInv s -> mode s = AtHead -> todo s = p :: rest -> p_par p = true -> skipped (sfile_ s) (p_name p) = false ->
    length (jobs s) = ncpu -> In j (jobs s) -> is_running s j = false ->
    exists s1 s2, main_step s = Some s1 /\ main_step s1 = Some s2 /\
                  evlog s2 = evlog s ++ [EStart (p_id p) true] /\ running s2 = running s ++ [(p_id p, JStarted)].
  Proof.
    intros I Em Et Ep Esk Hlen Hj Hgone.
    assert (Hfa : forallb (is_running s) (jobs s) = false).
    { destruct (forallb (is_running s) (jobs s)) eqn:E; [|reflexivity].
      rewrite forallb_forall in E. specialize (E j Hj). congruence. }
    set (s1 := mkostate (todo s) (filter (is_running s) (jobs s)) (running s) AtHead (sfile_ s) (evlog s)).
    assert (H1 : main_step s = Some s1).
    { unfold s1, OrchDefs.main_step. rewrite Em, Et, Esk, Ep, Hlen, Nat.eqb_refl, Hfa. reflexivity. }
    assert (Hlt : (length (jobs s1) < ncpu)%nat).
    { cbn. rewrite <- Hlen. clear - Hj Hgone. induction (jobs s) as [|x l IH]; [destruct Hj|]. cbn.
      destruct Hj as [->|Hj].
      - rewrite Hgone. pose proof (filter_length_le (is_running s) l). lia.
      - specialize (IH Hj). destruct (is_running s x); cbn; lia. }
    destruct (parallel_start_enabled s1 p rest eq_refl Et Ep Esk Hlt) as [s2 [H2 [Hev [_ [_ Hr]]]]].
    exists s1, s2. auto.
  Qed.

  (* the synchronous counterpart: with nothing remembered and nothing running the step starts at once *)
  Theorem sync_start_enabled s p rest :
    mode s = AtHead -> todo s = p :: rest -> p_par p = false -> skipped (sfile_ s) (p_name p) = false ->
    beq (p_name p) END = false -> jobs s = [] ->
    exists s', main_step s = Some s' /\ evlog s' = evlog s ++ [EStart (p_id p) false] /\
               todo s' = rest /\ mode s' = WaitSync (p_id p) (p_exit p).
  Proof.
    intros Em Et Ep Esk Eend Ej. unfold OrchDefs.main_step. rewrite Em, Et, Esk, Ep, Ej, Eend.
    eexists. split; [reflexivity|]. cbn. auto.
  Qed.

  (* and it is NOT started while a remembered job still runs: the barrier blocks the loop *)
  Theorem sync_start_blocked s p rest j :
    mode s = AtHead -> todo s = p :: rest -> p_par p = false -> skipped (sfile_ s) (p_name p) = false ->
    In j (jobs s) -> is_running s j = true -> main_step s = None.
  Proof.
    intros Em Et Ep Esk Hj Hr. unfold OrchDefs.main_step. rewrite Em, Et, Esk, Ep.
    destruct (jobs s) as [|j0 js] eqn:Ej; [destruct Hj|].
    assert (E : existsb (is_running s) (j0 :: js) = true) by (apply existsb_exists; exists j; auto).
    now rewrite E.
  Qed.
End Steps.

(* ---- induction over the reachable states ------------------------------------------------------------ *)
Section Reach.
  Variable ncpu : nat.
  Variable exit_of : Z -> Z.
  Variable name_of : Z -> bytes.
  Variable steps : list pstep.
  Variable f0 : sfile.
  Hypothesis Hids : NoDup (map p_id steps).
  Hypothesis Hexit : forall p, In p steps -> p_exit p = exit_of (p_id p).
  Hypothesis Hasc : ids_asc f0.

  Notation oreach := (oreach ncpu exit_of name_of steps f0).

  Lemma oreach_init : oreach (oinit steps f0).
  Proof. exists []. reflexivity. Qed.

  Lemma oreach_step s a s' : oreach s -> ostep ncpu exit_of name_of s a = Some s' -> oreach s'.
  Proof.
    intros [sched ->] H. exists (sched ++ [a]). rewrite orun_app. cbn. now rewrite H.
  Qed.

  Theorem oreach_ind (P : ostate -> Prop) :
    P (oinit steps f0) ->
    (forall s s', oreach s -> oreach s' -> P s -> mstep ncpu s s' -> P s') ->
    (forall s i s', oreach s -> oreach s' -> P s -> jstep exit_of name_of s i s' -> P s') ->
    forall s, oreach s -> P s.
  Proof.
    intros H0 Hm Hj s [sched ->]. induction sched as [|a sched IH] using rev_ind; [exact H0|].
    rewrite orun_app. cbn [OrchDefs.orun].
    set (s := OrchDefs.orun ncpu exit_of name_of (oinit steps f0) sched) in *.
    assert (Hr : oreach s) by (exists sched; reflexivity).
    destruct (ostep ncpu exit_of name_of s a) as [s'|] eqn:E; [|exact IH].
    assert (Hr' : oreach s') by (eapply oreach_step; eauto).
    destruct (oreach_inv ncpu exit_of name_of steps f0 Hids Hexit Hasc s Hr) as [I _].
    destruct a as [|i]; cbn in E.
    - apply (Hm s s' Hr Hr' IH). now apply main_step_cases with (exit_of := exit_of).
    - apply (Hj s i s' Hr Hr' IH). now apply job_step_cases.
  Qed.
End Reach.
