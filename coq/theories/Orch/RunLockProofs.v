(* RunLockProofs.v - C11: the lock file names the invocation while it runs and is gone afterwards; an
   invocation started meanwhile is refused with a non-zero status and touches neither the lock nor any build
   directory but its own - for EVERY pair of names, in particular names of which one is a prefix of the other
   (DATE.1 while DATE.10 runs); the interleaved run of the invocation IS the run of the orchestrator model.
   All for the tests lock_acquire / lock_release really make (gen/Gen_Orch.v, see Orch/OrchTie.v); with the
   substring test of a known wrong variant the refusal releases the running invocation's lock. *)
From Robsd Require Import Orch.RunLock.
Local Open Scope Z_scope.

Notation ACQ := AcqOwnerNonEmptyAndDifferent.
Notation REL := RelWholeFileEqual.

Definition lock_free_for (l : lockf) (b : bytes) : Prop := l = None \/ l = Some [] \/ l = Some b.

Lemma acquire_free l b : lock_free_for l b -> lock_acquire ACQ l b = (Some b, true).
Proof.
  intros [ -> | [ -> | -> ] ]; cbn; [reflexivity|reflexivity|]. rewrite beq_refl. cbn. now rewrite andb_false_r.
Qed.

Lemma acquire_refused o b : o <> [] -> o <> b -> lock_acquire ACQ (Some o) b = (Some o, false).
Proof.
  intros H1 H2. cbn. destruct (beq_spec o []); [contradiction|]. destruct (beq_spec o b); [contradiction|]. reflexivity.
Qed.

(* the two tests agree: acquire succeeds on a held lock exactly when release would say "mine" *)
Lemma release_owner b : lock_release REL (Some b) b = (None, true).
Proof. unfold lock_release. cbn. now rewrite beq_refl. Qed.

Lemma release_other l b : l <> Some b -> lock_release REL l b = (l, false).
Proof.
  intros H. unfold lock_release. destruct l as [c|]; cbn; [|reflexivity].
  destruct (beq_spec c b); [subst; now elim H|reflexivity].
Qed.

Lemma dir_find_set d b f x : dir_find (dir_set d b f) x = if beq b x then Some f else dir_find d x.
Proof.
  induction d as [|[n g] d IH]; cbn.
  - reflexivity.
  - destruct (beq_spec n b) as [->|Hnb]; cbn.
    + destruct (beq b x); reflexivity.
    + rewrite IH. destruct (beq_spec n x) as [->|Hnx]; [|reflexivity].
      destruct (beq_spec b x); [congruence|reflexivity].
Qed.

Lemma dir_find_remove d b x : dir_find (dir_remove d b) x = if beq b x then None else dir_find d x.
Proof.
  induction d as [|[n g] d IH]; cbn.
  - destruct (beq b x); reflexivity.
  - destruct (beq_spec n b) as [->|Hnb]; cbn.
    + rewrite IH. destruct (beq b x); reflexivity.
    + rewrite IH. destruct (beq_spec n x) as [->|Hnx]; [|reflexivity].
      destruct (beq_spec b x); [congruence|reflexivity].
Qed.

(* ---- an invocation started while another one holds the lock ----------------------------------------------- *)
Theorem attempt_refused_untouched w o b' d' :
  iw_lock w = Some o -> o <> [] -> o <> b' ->
  exists w', attempt ACQ REL w b' d' = (w', Some 1) /\
    iw_lock w' = Some o /\
    (forall x, x <> b' -> dir_find (iw_dirs w') x = dir_find (iw_dirs w) x) /\
    dir_find (iw_dirs w') b' = match dir_find (iw_dirs w) b' with
                               | Some f => if has_steps f then Some f else None   (* an older invocation resumed: kept *)
                               | None => None                                     (* a fresh one: its empty directory is removed *)
                               end.
Proof.
  intros Hl Ho Hob. unfold attempt, invoke_begin.
  assert (Hl1 : iw_lock (build_init w b') = Some o).
  { unfold build_init. destruct (dir_find (iw_dirs w) b'); [exact Hl|exact Hl]. }
  rewrite Hl1, (acquire_refused o b' Ho Hob). unfold invoke_end. cbn [iw_lock iw_dirs iw_reports iw_mails].
  rewrite (release_other (Some o) b') by congruence. cbn [fst].
  eexists. split; [reflexivity|]. cbn [iw_lock iw_dirs]. split; [reflexivity|].
  unfold build_init. destruct (dir_find (iw_dirs w) b') as [f|] eqn:Ef; cbn [iw_dirs].
  - rewrite Ef. destruct (has_steps f) eqn:Eh.
    + split; [reflexivity|exact Ef].
    + split; [|rewrite dir_find_remove, beq_refl; reflexivity].
      intros x Hx. rewrite dir_find_remove. destruct (beq_spec b' x); [congruence|reflexivity].
  - rewrite dir_find_set, beq_refl. cbn [has_steps existsb].
    split; [|rewrite dir_find_remove, beq_refl; reflexivity].
    intros x Hx. rewrite dir_find_remove, dir_find_set. destruct (beq_spec b' x); [congruence|reflexivity].
Qed.

(* the same for any tests that ARE these two (instantiated with gen/Gen_Orch.v in Properties_C11.v) *)
Corollary attempt_refused_untouched_for a t w o b' d' :
  a = ACQ -> t = REL ->
  iw_lock w = Some o -> o <> [] -> o <> b' ->
  exists w', attempt a t w b' d' = (w', Some 1) /\
    iw_lock w' = Some o /\
    (forall x, x <> b' -> dir_find (iw_dirs w') x = dir_find (iw_dirs w) x) /\
    dir_find (iw_dirs w') b' = match dir_find (iw_dirs w) b' with
                               | Some f => if has_steps f then Some f else None
                               | None => None
                               end.
Proof. intros -> ->. apply attempt_refused_untouched. Qed.

(* with the substring test (grep -F, a seeded variant) the refused invocation of DATE.1 removes the lock of
   DATE.10: why the exact test is pinned *)
Theorem substring_release_breaks_refusal :
  exists w o b', iw_lock w = Some o /\ o <> [] /\ o <> b' /\
    iw_lock (fst (attempt ACQ RelFixedSubstring w b' false)) = None.
Proof.
  exists (mkiworld (Some [50; 46; 49; 48]%N) [] [] 0), [50; 46; 49; 48]%N, [50; 46; 49]%N.
  repeat split; try discriminate. 
Qed.

(* ---- the running invocation with others started meanwhile ------------------------------------------------- *)
Fixpoint orch_actions (l : list wact) : list action :=
  match l with [] => [] | WOrch a :: l' => a :: orch_actions l' | WOther _ _ :: l' => orch_actions l' end.

Fixpoint others (l : list wact) : list bytes :=
  match l with [] => [] | WOrch _ :: l' => others l' | WOther b' _ :: l' => b' :: others l' end.

Section Combined.
  Variable ncpu : nat.
  Variable exit_of : Z -> Z.
  Variable name_of : Z -> bytes.
  Variable b : bytes.
  Hypothesis Hb : b <> [].

  Notation wrun := (wrun ncpu exit_of name_of ACQ REL b).
  Notation wstep := (wstep ncpu exit_of name_of ACQ REL b).
  Notation orun := (orun ncpu exit_of name_of).

  Record WInv (w0 : iworld) (s0 : ostate) (done : list wact) (ws : wstate) : Prop := mkWInv {
    wi_lock : iw_lock (ws_world ws) = Some b;
    wi_orch : ws_orch ws = orun s0 (orch_actions done);
    wi_file : dir_find (iw_dirs (ws_world ws)) b = Some (sfile_ (ws_orch ws));
    wi_refused : ws_refused ws = map (fun x => (x, Some 1)) (others done);
  }.

  Lemma orun_snoc s l a : orun s (l ++ [a]) = match ostep ncpu exit_of name_of (orun s l) a with Some s' => s' | None => orun s l end.
  Proof.
    revert s. induction l as [|x l IH]; intros s; cbn [app OrchDefs.orun].
    - destruct (ostep ncpu exit_of name_of s a); reflexivity.
    - destruct (ostep ncpu exit_of name_of s x); apply IH.
  Qed.

  Lemma orch_actions_app a c : orch_actions (a ++ c) = orch_actions a ++ orch_actions c.
  Proof. induction a as [|[x|b' d'] a IH]; cbn; rewrite ?IH; reflexivity. Qed.
  Lemma others_app a c : others (a ++ c) = others a ++ others c.
  Proof. induction a as [|[x|b' d'] a IH]; cbn; rewrite ?IH; reflexivity. Qed.

  Lemma winv_step w0 s0 done ws x :
    WInv w0 s0 done ws -> (forall b' d', x = WOther b' d' -> b' <> b) -> WInv w0 s0 (done ++ [x]) (wstep ws x).
  Proof.
    intros [Hl Ho Hf Hr] Hx. destruct x as [a|b' d']; cbn [RunLock.wstep].
    - destruct (ostep ncpu exit_of name_of (ws_orch ws) a) as [s'|] eqn:Es.
      + constructor; cbn [ws_world ws_orch ws_refused iw_lock iw_dirs].
        * exact Hl.
        * rewrite orch_actions_app. cbn [orch_actions]. rewrite orun_snoc, <- Ho, Es. reflexivity.
        * now rewrite dir_find_set, beq_refl.
        * rewrite others_app. cbn [others]. rewrite app_nil_r. exact Hr.
      + constructor.
        * exact Hl.
        * rewrite orch_actions_app. cbn [orch_actions]. rewrite orun_snoc, <- Ho, Es. reflexivity.
        * exact Hf.
        * rewrite others_app. cbn [others]. rewrite app_nil_r. exact Hr.
    - assert (Hne : b <> b') by (intros E; apply (Hx b' d' eq_refl); now symmetry).
      destruct (attempt_refused_untouched (ws_world ws) b b' d' Hl Hb Hne) as [w' [Ha [Hl' [Hd' _]]]].
      rewrite Ha.
      constructor; cbn [ws_world ws_orch ws_refused].
      + exact Hl'.
      + rewrite orch_actions_app. cbn [orch_actions]. rewrite app_nil_r. exact Ho.
      + rewrite Hd' by (intros E; now apply Hne). exact Hf.
      + rewrite others_app, map_app, Hr. reflexivity.
  Qed.

  Theorem wrun_inv w0 s0 l : forall done ws,
    WInv w0 s0 done ws -> (forall b' d', In (WOther b' d') l -> b' <> b) -> WInv w0 s0 (done ++ l) (wrun ws l).
  Proof.
    induction l as [|x l IH]; intros done ws H Hl; cbn [RunLock.wrun fold_left].
    - now rewrite app_nil_r.
    - replace (done ++ x :: l) with ((done ++ [x]) ++ l) by (rewrite <- app_assoc; reflexivity).
      apply IH.
      + apply winv_step; [exact H|]. intros b' d' ->. apply (Hl b' d'). now left.
      + intros b' d' Hin. apply (Hl b' d'). now right.
  Qed.

  (* the whole life of an invocation that finds the lock free (absent, empty, or its own from an aborted run),
     whatever other invocations are started while it runs and whenever *)
  Definition begun (w : iworld) (f0 : sfile) : iworld :=
    let w1 := fst (invoke_begin ACQ w b) in mkiworld (iw_lock w1) (dir_set (iw_dirs w1) b f0) (iw_reports w1) (iw_mails w1).

  Theorem invocation_lock_follows_run w steps f0 l d :
    lock_free_for (iw_lock w) b -> (forall b' d', In (WOther b' d') l -> b' <> b) ->
    exists ws w2 st,
      invocation ncpu exit_of name_of ACQ REL b w steps f0 l d = Some (ws, w2, st) /\
      (* the orchestrator took exactly the moves of the plain model: nobody touched it *)
      ws_orch ws = orun (oinit steps f0) (orch_actions l) /\
      (* while it ran - at every point of the interleaving - the lock named it and its step file was its own *)
      (forall l1 l2, l = l1 ++ l2 ->
         let ws1 := wrun (mkwstate (begun w f0) (oinit steps f0) []) l1 in
         iw_lock (ws_world ws1) = Some b /\ dir_find (iw_dirs (ws_world ws1)) b = Some (sfile_ (ws_orch ws1))) /\
      (* every invocation started meanwhile was refused with status 1 *)
      ws_refused ws = map (fun x => (x, Some 1)) (others l) /\
      (* afterwards the lock is gone; the exit status, report and mail are those of trap_exit *)
      iw_lock w2 = None /\
      st = e_status (trap_exit (mode (ws_orch ws)) (sfile_ (ws_orch ws)) d) /\
      (In b (iw_reports w2) <-> In b (iw_reports (ws_world ws)) \/ e_report (trap_exit (mode (ws_orch ws)) (sfile_ (ws_orch ws)) d) = true) /\
      iw_mails w2 = ((iw_mails (ws_world ws)) + (if e_mail (trap_exit (mode (ws_orch ws)) (sfile_ (ws_orch ws)) d) then 1 else 0))%nat.
  Proof.
    intros Hfree Hl. unfold invocation, begun, invoke_begin.
    assert (Hl1 : iw_lock (build_init w b) = iw_lock w) by (unfold build_init; destruct (dir_find (iw_dirs w) b); reflexivity).
    rewrite Hl1, (acquire_free _ b Hfree). cbn [fst iw_lock iw_dirs iw_reports iw_mails].
    set (w1 := mkiworld (Some b) (dir_set (iw_dirs (build_init w b)) b f0) (iw_reports (build_init w b)) (iw_mails (build_init w b))).
    set (ws0 := mkwstate w1 (oinit steps f0) []).
    assert (H0 : WInv w1 (oinit steps f0) [] ws0).
    { constructor; cbn; auto. now rewrite dir_find_set, beq_refl. }
    pose proof (wrun_inv w1 (oinit steps f0) l [] ws0 H0 Hl) as [Hlk Ho Hf Hr]. cbn [app] in *.
    unfold invoke_end. rewrite Hf, Hlk, release_owner. cbn [fst].
    do 3 eexists. split; [reflexivity|]. split; [exact Ho|]. split; [|split; [exact Hr|]].
    - intros l1 l2 E. cbn zeta.
      assert (Hl1' : forall b' d', In (WOther b' d') l1 -> b' <> b).
      { intros b' d' Hin. apply (Hl b' d'). rewrite E. apply in_or_app. now left. }
      pose proof (wrun_inv w1 (oinit steps f0) l1 [] ws0 H0 Hl1') as [A _ C _]. auto.
    - cbn [iw_lock iw_reports iw_mails]. split; [reflexivity|]. split; [reflexivity|]. split.
      + destruct (e_report _); cbn; [|intuition discriminate]. split; [intros _; now right|intros _; now left].
      + destruct (e_mail _); lia.
  Qed.
End Combined.
