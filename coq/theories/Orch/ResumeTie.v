(* ResumeTie.v - the hand-written models of ResumeDefs.v are the functions assembled from what the
   translator harness/t_shell.py reads in util.sh and the entry scripts (Gen_Shell.v):

     step_next   the row decision [sn_row] (test on skip, test on exit, comparison of the name with
                 "end", the echo of ${_step} / $((_step + 1))), applied from the last row backwards
                 one row at a time;
     orch        step_skip's test, the name that ends the loop of robsd(), the exit codes of the
                 in-flight record and of the end record (step_exec_job / robsd()), skip = 0 on every
                 record written by the loop (step_write without -S), the test that ends the
                 invocation after a failed synchronous step.

   An edit of one of these in the shell source changes Gen_Shell.v and breaks the equalities below. *)
From Robsd Require Import Orch.ResumeDefs Orch.ResumeSpec.
From RobsdGen Require Import Gen_Shell.
Local Open Scope Z_scope.

Fixpoint gen_next_from_rev (rows_rev : list srow) : option Z :=
  match rows_rev with
  | [] => None
  | r :: rest =>
      match sn_row (r_id r) (r_name r) (r_exit r) (r_skip r) with
      | None => gen_next_from_rev rest
      | Some z => Some z
      end
  end.

Theorem step_next_translated f : step_next f = gen_next_from_rev (rev f).
Proof.
  unfold step_next. induction (rev f) as [|r l IH]; [reflexivity|].
  cbn [next_from_rev gen_next_from_rev]. unfold sn_row. fold END.
  destruct (r_skip r =? 1); [exact IH|]. destruct (negb (r_exit r =? 0)); [reflexivity|].
  destruct (beq (r_name r) END); reflexivity.
Qed.

(* the walk: step_eval -1, -2, ... (robsd-step -R -i -N selects the N-th row from the end, C01) until it
   fails, failure status 1 *)
Theorem step_next_walk :
  sn_walks_backwards = true /\ sn_index_start = 1 /\ sn_index_incr = 1 /\ sn_fail_status = 1.
Proof. repeat split; reflexivity. Qed.

Fixpoint gen_skipped (f : sfile) (name : bytes) : bool :=
  match f with
  | [] => false
  | x :: f' => if beq (r_name x) name then sh_step_skip (r_skip x) else gen_skipped f' name
  end.

Fixpoint gen_orch (steps : list cstep) (f : sfile) : list (sfile * list Z) :=
  match steps with
  | [] => []
  | (i, name, e) :: rest =>
      if gen_skipped f name then gen_orch rest f
      else if beq name loop_end_name then [(upsert (mkrow i name end_record_exit skip_flag_default) f, [])]
      else
        let f1 := upsert (mkrow i name inflight_exit skip_flag_default) f in
        let f2 := upsert (mkrow i name e skip_flag_default) f1 in
        (f1, []) :: (f2, [i]) ::
        (if job_ok e then map (fun '(g, ex) => (g, i :: ex)) (gen_orch rest f2) else [])
  end.

Lemma skipped_translated f name : skipped f name = gen_skipped f name.
Proof. induction f as [|x f IH]; [reflexivity|]. cbn [skipped gen_skipped]. now rewrite IH. Qed.

Theorem orch_translated steps : forall f, orch steps f = gen_orch steps f.
Proof.
  induction steps as [|[[i name] e] rest IH]; intros f; [reflexivity|].
  cbn [orch gen_orch]. rewrite skipped_translated, !IH. reflexivity.
Qed.

(* the skip records of the entry scripts: step_write -S gives skip = 1 and they pass -e 0 *)
Theorem skip_records_translated : skip_flag_S = 1 /\ skip_record_exit = 0.
Proof. split; reflexivity. Qed.
