(* ModelShape.v - the shapes of the shell code that the orchestrator models implement, in the vocabulary of
   Orch/ShapeDefs.v.  Properties_C04.v / Properties_C11.v compare them with gen/Gen_Orch.v (what
   harness/t_orch.py read in util.sh on this run). *)
From Robsd Require Export Orch.ShapeDefs.
Local Open Scope Z_scope.

(* OrchDefs.main_step: skip test first; queue full iff length jobs = ncpu, then keep the jobs still running
   (filter is_running); parallel steps forked and remembered; the barrier before every synchronous step incl.
   end, clearing the remembered jobs; end recorded and the loop left; synchronous steps in the foreground *)
Definition modelled_loop : loop_shape :=
  mkloop true true QWKeepStillRunning true BarrierBeforeEverySyncStep true true true.

(* OrchDefs.job_step: record with exit -1, the command's status, completion record + hook; the WaitSync mode
   of main_step turns a non-zero status into OFailed *)
Definition modelled_job : job_shape := mkjob (-1) true true true.

(* OrchDefs.trap_exit and RunLock.invoke_end *)
Definition modelled_exit : exit_shape := mkexit true true true true true.
