(* ModelShape.v - the statement lists (vocabulary of Orch/ShapeDefs.v) whose meaning (Orch/ShapeSem.v) Orch/OrchTie.v
   PROVES to be OrchDefs.main_step / job_step / trap_exit and RunLock.invoke_end.  Properties_C04.v /
   Properties_C11.v instantiate those theorems with gen/Gen_Orch.v - what harness/t_orch.py read in util.sh on
   this run; the equations between the two sides are checked by computation there, so that a changed util.sh
   fails exactly the tie theorems. *)
From Robsd Require Export Orch.ShapeDefs.
Local Open Scope Z_scope.

Definition modelled_body : loop_body :=
  mkbody [LSkipTest]
         [LQueueFull QWKeepStillRunning; LForkJob]
         [LBarrier; LEnd; LSyncJob]
         [LReboot; LLockAlive].

Definition modelled_job : list jstmt :=
  [JLogId; JT0; JWriteInflight (-1) (-1); JExec; JT1; JDuration; JDelta; JWriteDone; JHook; JReturnIfNonzero].

Definition modelled_exit : list xstmt :=
  [XKillStat; XReturnIfNoBuilddir; XReportMail; XEndHook; XLockRelease; XRemoveIfEmpty; XReturnErr].
