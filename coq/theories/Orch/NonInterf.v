(* NonInterf.v - clause 7 of C04: "a failing parallel step does not prevent later steps", as a
   non-interference theorem.  Two runs of the transition system under the SAME schedule, whose
   configurations differ only in the exit statuses of parallel steps (and whose jobs may report any
   exit statuses at all), take the same course: the same steps are started in the same order at the same
   moments, the same moves are enabled, the loop is in the same mode, the same names are recorded with
   the same skip flags.  Only the recorded exit statuses differ.  The decisions of the main loop depend
   on exit statuses through the foreground wait for a synchronous step alone. *)
From Robsd Require Import Orch.OrchDefs.
Local Open Scope Z_scope.

Definition same_course (p q : pstep) : Prop :=
  p_id p = p_id q /\ p_name p = p_name q /\ p_par p = p_par q /\ (p_par p = false -> p_exit p = p_exit q).

Definition frow (r : srow) : Z * bytes * Z := (r_id r, r_name r, r_skip r).

Definition forget (e : ev) : ev :=
  match e with
  | EStart i b => EStart i b
  | EFinish i _ => EFinish i 0
  | EHook n _ => EHook n 0
  | EEnd => EEnd
  end.

(* the starts, in order, with their kind *)
Fixpoint start_pairs (l : list ev) : list (Z * bool) :=
  match l with
  | [] => []
  | EStart i b :: l' => (i, b) :: start_pairs l'
  | _ :: l' => start_pairs l'
  end.

Lemma start_pairs_forget l : start_pairs (map forget l) = start_pairs l.
Proof. induction l as [|x l IH]; [reflexivity|]. destruct x; cbn; now rewrite IH. Qed.

Record sim (s1 s2 : ostate) : Prop := mksim {
  sim_todo : Forall2 same_course (todo s1) (todo s2);
  sim_jobs : jobs s1 = jobs s2;
  sim_running : running s1 = running s2;
  sim_mode : mode s1 = mode s2;
  sim_file : map frow (sfile_ s1) = map frow (sfile_ s2);
  sim_ev : map forget (evlog s1) = map forget (evlog s2);
}.

Lemma skipped_frow f1 f2 n : map frow f1 = map frow f2 -> skipped f1 n = skipped f2 n.
Proof.
  revert f2. induction f1 as [|x f1 IH]; intros [|y f2] H; try discriminate; [reflexivity|].
  cbn in H. injection H as Hid Hn Hs Hrest. cbn [skipped]. rewrite Hn, Hs. destruct (beq (r_name y) n); [reflexivity|auto].
Qed.

Lemma upsert_frow r1 r2 f1 f2 :
  frow r1 = frow r2 -> map frow f1 = map frow f2 -> map frow (upsert r1 f1) = map frow (upsert r2 f2).
Proof.
  intros Hr. assert (Hid : r_id r1 = r_id r2) by (unfold frow in Hr; congruence).
  revert f2. induction f1 as [|x f1 IH]; intros [|y f2] H; try discriminate.
  - cbn. now rewrite Hr.
  - cbn in H. injection H as Hxi Hxn Hxs Hrest. cbn [upsert]. rewrite Hid, Hxi.
    destruct (r_id r2 =? r_id y); [cbn; now rewrite Hr, Hrest|].
    destruct (r_id r2 <? r_id y).
    + cbn. rewrite Hr, Hrest. unfold frow. now rewrite Hxi, Hxn, Hxs.
    + cbn. rewrite (IH f2 Hrest). unfold frow. now rewrite Hxi, Hxn, Hxs.
Qed.

Section NonInterference.
  Variable ncpu : nat.
  Variable ex1 ex2 : Z -> Z.      (* what the jobs report in the two runs: unconstrained *)
  Variable name_of : Z -> bytes.

  Definition agree (o1 o2 : option ostate) : Prop :=
    match o1, o2 with
    | Some a, Some b => sim a b
    | None, None => True
    | _, _ => False
    end.

  Lemma sim_main s1 s2 : sim s1 s2 -> agree (main_step ncpu s1) (main_step ncpu s2).
  Proof.
    destruct s1 as [td1 j1 r1 m1 f1 e1], s2 as [td2 j2 r2 m2 f2 e2]. intros [Ht Hj Hr Hm Hf He]. cbn in *. subst j2 r2 m2.
    unfold main_step. cbn [mode todo jobs running sfile_ evlog].
    destruct m1 as [|i e| |]; cbn; auto.
    - inversion Ht as [|p1 p2 t1 t2 [Hid [Hn [Hp He']]] Ht']; subst; cbn; [exact I|].
      rewrite <- Hn, <- Hp, (skipped_frow f1 f2 (p_name p1) Hf).
      destruct (skipped f2 (p_name p1)); [constructor; auto|].
      assert (Hrun : is_running (mkostate (p1 :: t1) j1 r1 AtHead f1 e1) = is_running (mkostate (p2 :: t2) j1 r1 AtHead f2 e2)) by reflexivity.
      destruct (p_par p1) eqn:Epar.
      + destruct (Nat.eqb (length j1) ncpu).
        * rewrite Hrun. destruct (forallb _ j1); [exact I|]. constructor; cbn; auto.
        * constructor; cbn; auto; rewrite ?map_app, ?He, ?Hid; cbn; rewrite ?Hid; reflexivity.
      + destruct j1 as [|j0 js].
        * destruct (beq (p_name p1) END).
          -- constructor; cbn; auto.
             ++ apply upsert_frow; [unfold frow; cbn; now rewrite Hid, Hn|exact Hf].
             ++ rewrite !map_app, He. reflexivity.
          -- constructor; cbn; auto.
             ++ now rewrite Hid.
             ++ now rewrite Hid, (He' eq_refl).
             ++ rewrite !map_app, He. cbn. now rewrite Hid.
        * rewrite Hrun. destruct (existsb _ (j0 :: js)); [exact I|]. constructor; cbn; auto.
    - unfold is_running; cbn. destruct (existsb _ r1); [exact I|]. constructor; cbn; auto.
  Qed.

  Lemma sim_job s1 s2 i : sim s1 s2 -> agree (job_step ex1 name_of s1 i) (job_step ex2 name_of s2 i).
  Proof.
    intros [Ht Hj Hr Hm Hf He]. unfold job_step. rewrite <- Hr.
    destruct (phase_of (running s1) i) as [[|]|]; cbn; [| |exact I].
    - constructor; cbn; auto. apply upsert_frow; [reflexivity|exact Hf].
    - constructor; cbn; auto.
      + apply upsert_frow; [reflexivity|exact Hf].
      + rewrite !map_app, He. reflexivity.
  Qed.

  Lemma sim_step s1 s2 a : sim s1 s2 -> agree (ostep ncpu ex1 name_of s1 a) (ostep ncpu ex2 name_of s2 a).
  Proof. destruct a; [apply sim_main|apply sim_job]. Qed.

  Theorem sim_run sched : forall s1 s2, sim s1 s2 ->
    sim (orun ncpu ex1 name_of s1 sched) (orun ncpu ex2 name_of s2 sched).
  Proof.
    induction sched as [|a sched IH]; intros s1 s2 H; [exact H|]. cbn [orun].
    pose proof (sim_step s1 s2 a H) as Hs. unfold agree in Hs.
    destruct (ostep ncpu ex1 name_of s1 a), (ostep ncpu ex2 name_of s2 a); try contradiction; auto.
  Qed.

  (* two configurations that differ only in the exit statuses of parallel steps, the same initial step file,
     the same schedule: the same course *)
  Theorem parallel_exits_do_not_interfere steps1 steps2 f0 sched :
    Forall2 same_course steps1 steps2 ->
    let s1 := orun ncpu ex1 name_of (oinit steps1 f0) sched in
    let s2 := orun ncpu ex2 name_of (oinit steps2 f0) sched in
    start_pairs (evlog s1) = start_pairs (evlog s2) /\
    mode s1 = mode s2 /\ running s1 = running s2 /\ jobs s1 = jobs s2 /\
    map p_id (todo s1) = map p_id (todo s2) /\
    map frow (sfile_ s1) = map frow (sfile_ s2) /\
    (* and the same moves are enabled in both *)
    (forall a, ostep ncpu ex1 name_of s1 a = None <-> ostep ncpu ex2 name_of s2 a = None).
  Proof.
    intros H s1 s2.
    assert (Hs : sim s1 s2) by (apply sim_run; constructor; cbn; auto).
    destruct Hs as [Ht Hj Hr Hm Hf He]. repeat split; auto.
    - rewrite <- (start_pairs_forget (evlog s1)), He. apply start_pairs_forget.
    - clear - Ht. induction Ht as [|p q l l' [Hid _] _ IH]; [reflexivity|]. cbn. now rewrite Hid, IH.
    - intros Hn. pose proof (sim_step s1 s2 a (mksim _ _ Ht Hj Hr Hm Hf He)) as Ha. unfold agree in Ha. rewrite Hn in Ha.
      destruct (ostep ncpu ex2 name_of s2 a); [contradiction|reflexivity].
    - intros Hn. pose proof (sim_step s1 s2 a (mksim _ _ Ht Hj Hr Hm Hf He)) as Ha. unfold agree in Ha. rewrite Hn in Ha.
      destruct (ostep ncpu ex1 name_of s1 a); [contradiction|reflexivity].
  Qed.
End NonInterference.
