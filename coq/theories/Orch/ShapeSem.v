(* ShapeSem.v - the MEANING of the statement language of Orch/ShapeDefs.v on the states of the transition
   system (OrchDefs.v) and of the invocation model (RunLock.v): interpreters, definitions only.
     loop_of_shape        one move of the main loop, from the statement lists of robsd()'s loop body
     job_of_shape         one move of a job, from the statement list of step_exec_job()
     duration_of_shape    the duration step_exec_job records, from where `date` is read in that list
     exit_of_shape        the effects of the exit trap, from the statement list of trap_exit()
     invoke_end_of_shape  the same on the world of RunLock.v (lock file, directories, reports, mail)
   Orch/OrchTie.v proves that on the lists harness/t_orch.py finds in util.sh these are main_step, job_step,
   trap_exit and invoke_end.  Granularity: one MOVE of the model is the loop running up to its next effect on
   the model's state - the queue-full wait and the barrier each are a move of their own, after which the loop
   body is read again from its first statement for the same step (no other statement before them has an
   effect when read twice).
   NOT given a meaning (no-ops here; stated in the claims): LReboot - canvas has no `reboot` option, the test
   is false for every canvas step; LLockAlive - true as long as nobody removes or rewrites the lock file
   (robsd-kill, and the same-directory resume of Orch/SameDir.v, are outside the transition system). *)
From Robsd Require Export Orch.RunLock.
Local Open Scope Z_scope.

Inductive outcome := Fall | Blocked | Moved (s' : ostate).

Section Sem.
  Variable ncpu : nat.
  Variable exit_of : Z -> Z.
  Variable name_of : Z -> bytes.

  (* one statement of the loop body, for the step p that `read` just delivered ([rest] = the lines still in the pipe) *)
  Definition exec_l (x : lstmt) (s : ostate) (p : pstep) (rest : list pstep) : outcome :=
    match x with
    | LSkipTest =>
        if skipped (sfile_ s) (p_name p)
        then Moved (mkostate rest (jobs s) (running s) AtHead (sfile_ s) (evlog s))      (* continue *)
        else Fall
    | LQueueFull q =>
        if Nat.eqb (length (jobs s)) ncpu then
          if forallb (is_running s) (jobs s) then Blocked                                (* robsd-wait: none gone yet *)
          else Moved (mkostate (todo s)
                               (match q with
                                | QWKeepStillRunning => filter (is_running s) (jobs s)
                                | QWDropOldest => tl (jobs s)
                                end) (running s) AtHead (sfile_ s) (evlog s))
        else Fall
    | LForkJob =>
        Moved (mkostate rest (jobs s ++ [p_id p]) (running s ++ [(p_id p, JStarted)]) AtHead (sfile_ s)
                        (evlog s ++ [EStart (p_id p) true]))
    | LBarrier =>
        match jobs s with
        | [] => Fall
        | _ :: _ => if existsb (is_running s) (jobs s) then Blocked                      (* robsd-wait -a *)
                    else Moved (mkostate (todo s) [] (running s) AtHead (sfile_ s) (evlog s))
        end
    | LEnd =>
        if beq (p_name p) END
        then Moved (mkostate rest (jobs s) (running s) ODone (upsert (mkrow (p_id p) (p_name p) 0 0) (sfile_ s))
                             (evlog s ++ [EEnd]))                                        (* return 0 *)
        else Fall
    | LSyncJob =>
        Moved (mkostate rest (jobs s) (running s ++ [(p_id p, JStarted)]) (WaitSync (p_id p) (p_exit p)) (sfile_ s)
                        (evlog s ++ [EStart (p_id p) false]))
    | LReboot => Fall
    | LLockAlive => Fall
    end.

  Fixpoint run_block (l : list lstmt) (s : ostate) (p : pstep) (rest : list pstep) : outcome :=
    match l with
    | [] => Fall
    | x :: l' => match exec_l x s p rest with Fall => run_block l' s p rest | o => o end
    end.

  Definition run_body (b : loop_body) (s : ostate) (p : pstep) (rest : list pstep) : outcome :=
    match run_block (lb_head b) s p rest with
    | Fall => match run_block (if p_par p then lb_par b else lb_sync b) s p rest with
              | Fall => run_block (lb_tail b) s p rest
              | o => o
              end
    | o => o
    end.

  Definition returns_nonzero (jb : list jstmt) : bool :=
    existsb (fun x => match x with JReturnIfNonzero => true | _ => false end) jb.

  (* one move of the main loop.  A synchronous step_exec_job runs in the foreground of a `set -e` shell: when it
     returns, the loop goes on iff it returned 0 - it returns 1 exactly through JReturnIfNonzero *)
  Definition loop_of_shape (b : loop_body) (jb : list jstmt) (s : ostate) : option ostate :=
    match mode s with
    | OFailed => None
    | ODone => None
    | WaitSync i e =>
        if is_running s i then None
        else Some (mkostate (todo s) (jobs s) (running s)
                            (if (e =? 0) || negb (returns_nonzero jb) then AtHead else OFailed) (sfile_ s) (evlog s))
    | AtHead =>
        match todo s with
        | [] => None
        | p :: rest =>
            match run_body b s p rest with
            | Blocked => None
            | Moved s' => Some s'
            | Fall => Some (mkostate rest (jobs s) (running s) AtHead (sfile_ s) (evlog s))
            end
        end
    end.

  (* ---- step_exec_job: the statements before step_exec are the job's first move, those after it the second ---- *)
  Fixpoint split_exec (l : list jstmt) : option (list jstmt * list jstmt) :=
    match l with
    | [] => None
    | JExec :: l' => Some ([], l')
    | x :: l' => match split_exec l' with Some (a, b) => Some (x :: a, b) | None => None end
    end.

  Definition job_effect (i : Z) (fe : sfile * list ev) (x : jstmt) : sfile * list ev :=
    match x with
    | JWriteInflight e _ => (upsert (mkrow i (name_of i) e 0) (fst fe), snd fe)
    | JWriteDone => (upsert (mkrow i (name_of i) (exit_of i) 0) (fst fe), snd fe ++ [EFinish i (exit_of i)])
    | JHook => (fst fe, snd fe ++ [EHook (name_of i) (exit_of i)])
    | _ => fe
    end.

  Definition job_of_shape (jb : list jstmt) (s : ostate) (i : Z) : option ostate :=
    match split_exec jb with
    | None => None
    | Some (pre, post) =>
        match phase_of (running s) i with
        | None => None
        | Some JStarted =>
            let fe := fold_left (job_effect i) pre (sfile_ s, evlog s) in
            Some (mkostate (todo s) (jobs s) (set_phase (running s) i JRunning) (mode s) (fst fe) (snd fe))
        | Some JRunning =>
            let fe := fold_left (job_effect i) post (sfile_ s, evlog s) in
            Some (mkostate (todo s) (jobs s) (filter (fun x => negb (fst x =? i)) (running s)) (mode s) (fst fe) (snd fe))
        end
    end.

  Definition step_of_shape (b : loop_body) (jb : list jstmt) (s : ostate) (a : action) : option ostate :=
    match a with AMain => loop_of_shape b jb s | AJob i => job_of_shape jb s i end.

  Fixpoint run_of_shape (b : loop_body) (jb : list jstmt) (s : ostate) (sched : list action) : ostate :=
    match sched with
    | [] => s
    | a :: sched' => match step_of_shape b jb s a with
                     | Some s' => run_of_shape b jb s' sched'
                     | None => run_of_shape b jb s sched'
                     end
    end.
End Sem.

(* ---- the duration field: the k-th statement of step_exec_job runs at tick [at_ k]; `date` reads [clock] ------ *)
Fixpoint index_of (f : jstmt -> bool) (l : list jstmt) (k : nat) : option nat :=
  match l with
  | [] => None
  | x :: l' => if f x then Some k else index_of f l' (S k)
  end.

Definition is_T0 (x : jstmt) : bool := match x with JT0 => true | _ => false end.
Definition is_T1 (x : jstmt) : bool := match x with JT1 => true | _ => false end.
Definition is_Duration (x : jstmt) : bool := match x with JDuration => true | _ => false end.
Definition is_WriteDone (x : jstmt) : bool := match x with JWriteDone => true | _ => false end.

(* what -d "$_d1" of the completion record carries: _t1 - _t0, computed after both were read and before the write *)
Definition duration_of_shape (jb : list jstmt) (clock : nat -> Z) (at_ : nat -> nat) : option Z :=
  match index_of is_T0 jb 0, index_of is_T1 jb 0, index_of is_Duration jb 0, index_of is_WriteDone jb 0 with
  | Some k0, Some k1, Some kd, Some kw =>
      if (Nat.ltb k0 kd && Nat.ltb k1 kd && Nat.ltb kd kw)%bool then Some (clock (at_ k1) - clock (at_ k0)) else None
  | _, _, _, _ => None
  end.

(* ---- trap_exit ----------------------------------------------------------------------------------------------- *)
Definition exit_effect (err : Z) (f : sfile) (d : bool) (e : exit_effects) (x : xstmt) : exit_effects :=
  match x with
  | XReportMail => let rep := has_steps f && (negb (err =? 0) || has_end f) in
                   mkeff rep (rep && d) (e_endhook e) (e_status e)
  | XEndHook => mkeff (e_report e) (e_mail e) (has_end f) (e_status e)
  | XReturnErr => mkeff (e_report e) (e_mail e) (e_endhook e) err
  | _ => e
  end.

Definition exit_of_shape (xb : list xstmt) (m : omode) (f : sfile) (d : bool) : exit_effects :=
  let err := match m with ODone => 0 | _ => 1 end in
  fold_left (exit_effect err f d) xb (mkeff false false false 0).

Definition world_effect (t : release_test) (b : bytes) (f : sfile) (w : iworld) (x : xstmt) : iworld :=
  match x with
  | XLockRelease => mkiworld (fst (lock_release t (iw_lock w) b)) (iw_dirs w) (iw_reports w) (iw_mails w)
  | XRemoveIfEmpty => if has_steps f then w else mkiworld (iw_lock w) (dir_remove (iw_dirs w) b) (iw_reports w) (iw_mails w)
  | _ => w
  end.

Definition invoke_end_of_shape (xb : list xstmt) (t : release_test) (w : iworld) (b : bytes) (m : omode) (d : bool) : iworld * Z :=
  let f := match dir_find (iw_dirs w) b with Some f => f | None => [] end in
  let eff := exit_of_shape xb m f d in
  let w1 := mkiworld (iw_lock w) (iw_dirs w) (if e_report eff then b :: iw_reports w else iw_reports w)
                     (if e_mail eff then S (iw_mails w) else iw_mails w) in
  (fold_left (world_effect t b f) xb w1, e_status eff).
