(* ResumeSpec.v - the resume point as the property words it, and the boolean oracles *)
From Robsd Require Export Orch.ResumeDefs.
Local Open Scope Z_scope.

(* ---- the specification of the resume point, as the property words it -------------- *)

Definition nonskip (r : srow) : bool := negb (r_skip r =? 1).

(* the last recorded non-skipped step *)
Definition last_nonskipped (f : sfile) : option srow :=
  match rev (filter nonskip f) with r :: _ => Some r | [] => None end.

Definition spec_resume (f : sfile) : option Z :=
  match last_nonskipped f with
  | None => None                                            (* only skipped steps recorded: fail *)
  | Some r => if negb (r_exit r =? 0) || beq (r_name r) END
              then Some (r_id r)                            (* failed, in flight (-1), or the end step *)
              else Some (r_id r + 1)                        (* otherwise the step following it *)
  end.


(* oracle: resuming at x re-executes no successfully completed step and skips no
   step that did not complete (the statement of resume_ok, decidable form) *)
Definition resume_okb (f : sfile) (x : Z) : bool :=
  forallb (fun r => negb (nonskip r) ||
                    (if r_id r <? x then (r_exit r =? 0) && negb (beq (r_name r) END)
                     else (r_id r =? x) && (negb (r_exit r =? 0) || beq (r_name r) END))) f.

Definition spec_ok_next (f : sfile) (observed : option Z) : bool :=
  match spec_resume f, observed with
  | Some a, Some b => a =? b
  | None, None => true
  | _, _ => false
  end.

(* ---- what a resumed invocation executes (theorems in ResumeExec.v) --------------------------------- *)

(* the skeleton of a configuration: (id, name) of its steps, in order *)
Definition skel := list (Z * bytes).
Definition skel_of (steps : list cstep) : skel := map fst steps.

(* step j completed successfully: it has a record that is not a skip record, with exit 0, and it is not
   the end step *)
Definition completedb (f : sfile) (j : Z) : bool :=
  existsb (fun r => (r_id r =? j) && nonskip r && (r_exit r =? 0) && negb (beq (r_name r) END)) f.

(* oracle on an observed resumed run: resume point [x], ids of the steps whose commands were started, in
   order, against the file [f] the crash left and the skeleton [k]: nothing below x runs; no step that
   completed successfully runs again; every configured step before the first one that runs is marked
   skipped or completed successfully; when x is the record of a failed or interrupted step (not end),
   that step runs first *)
Definition spec_ok_resumed (k : skel) (f : sfile) (x : Z) (ex : list Z) : bool :=
  forallb (fun i => x <=? i) ex &&
  forallb (fun i => negb (completedb f i)) ex &&
  (match ex with
   | [] => true
   | i :: _ => forallb (fun s => negb (fst s <? i) || skipped f (snd s) || completedb f (fst s)) k
   end) &&
  (if existsb (fun r => (r_id r =? x) && nonskip r && negb (beq (r_name r) END)) f
   then match ex with [] => true | i :: _ => i =? x end else true).
