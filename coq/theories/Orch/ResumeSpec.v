(* ResumeSpec.v - the resume point as the property words it, and the boolean oracles *)
From Robsd Require Export Orch.ResumeDefs.
Local Open Scope Z_scope.

(* ---- the specification of the resume point, as the property words it -------------- *)

Definition nonskip (r : srow) : bool := negb (r_skip r =? 1).

(* the last recorded non-skipped step *)
Definition last_nonskipped (f : sfile) : option srow :=
  match rev (filter nonskip f) with r :: _ => Some r | [] => None end.

Definition spec_resume (f : sfile) : option Z :=
  match last_nonskipped f with
  | None => None                                            (* only skipped steps recorded: fail *)
  | Some r => if negb (r_exit r =? 0) || beq (r_name r) END
              then Some (r_id r)                            (* failed, in flight (-1), or the end step *)
              else Some (r_id r + 1)                        (* otherwise the step following it *)
  end.


(* oracle: resuming at x re-executes no successfully completed step and skips no
   step that did not complete (the statement of resume_ok, decidable form) *)
Definition resume_okb (f : sfile) (x : Z) : bool :=
  forallb (fun r => negb (nonskip r) ||
                    (if r_id r <? x then (r_exit r =? 0) && negb (beq (r_name r) END)
                     else (r_id r =? x) && (negb (r_exit r =? 0) || beq (r_name r) END))) f.

Definition spec_ok_next (f : sfile) (observed : option Z) : bool :=
  match spec_resume f, observed with
  | Some a, Some b => a =? b
  | None, None => true
  | _, _ => false
  end.
