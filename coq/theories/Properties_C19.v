(* Properties_C19.v - arena allocations stay intact until their scope ends.

   Only theorem statements, each closed by [exact] and followed by Print
   Assumptions.  The model of libks/arena.c is Arena/ArenaDefs.v ([step], tied to
   the implementation by the correspondence check; constants and the switches
   [shrink_validated], [grow_validated] from RobsdGen.Gen_Arena); the client-side
   bookkeeping of live blocks ([ghost], [gstep]) and the oracle are in Arena/ArenaSpec.v.

   QUANTIFIER.  Every configuration [c] with [wf_cfg c] (instantiated for the normal
   and the ASan build and the page sizes 4, 8, 16 and 64 KiB; its last conjunct says
   that the source validates the scope before growing a block in place); no bound on the
   length of the sequence, the nesting depth, the number of frames or the sizes (below
   2^64).  The property's quantifier is "all sequences of scope enter/leave, ... calls".
   The theorems hold for [reach]: arena_alloc followed by a WELL-BRACKETED sequence of calls
   (scopes are left innermost first - named guard [lifo_okb], what the arena_scope() macro
   enforces) that respects [client_okb]: open scope, arena not freed, realloc names a live
   user block with its size or a positive part of it, client writes stay inside live user
   blocks (C19_reach_is_well_bracketed_runs).  They are the _partial statements.

   REFUTED outside the LIFO guard, INSIDE the property (arena_scope_enter / arena_scope_leave
   are exported API): C19_nonlifo_leave_overlaps_live_block ("leaving a scope invalidates only
   that scope's blocks": a block of a scope still open is handed out again, from every
   reachable state) and C19_nonlifo_leave_hits_header ("detected instead of silently
   corrupting": the frame header is handed out).  The oracle reports both as R_NONLIFO
   (C19_oracle_flags_nonlifo_leave), signature nonlifo-leave-undetected, a KNOWN finding
   (robsd itself leaves scopes only through the macro).  From the "len = 0" rewind on the
   model no longer describes arena.c (struct arena_frame becomes client memory) and says so
   (C19_model_unclaimed_after_reset); it never does inside the guard (C19_api_runs_never_cut).
   "Every returned pointer is aligned, for ALL sequences" holds of the model
   (Remark C19_model_alignment_any_sequence) but NOT of arena.c: after the header has been
   handed out and written, arena_malloc returns a wild pointer (replayed on both builds,
   corpus/C19/nonlifo_header_written.json, findings/C19_nonlifo_leave.md); the claim is
   C19_returned_aligned, under the guard.

   REPAIRED.  Growing in place through an outer scope (08bdded, [c_gv]) and shrinking a block of
   an inner scope through an outer scope (4eb1227, [c_sv]) were silent; both switches are read
   from the source and pinned (C19_grow_validated_now, C19_shrink_validated_now). *)
From Robsd Require Import Arena.ArenaDefs Arena.ArenaSpec Arena.ArenaProofs Arena.ArenaInv Arena.ArenaThms
  Arena.ArenaHoles Arena.ArenaAny Arena.ArenaLive Arena.ArenaClients Arena.ArenaOracle.
From RobsdGen Require Import Gen_Arena.
From Coq Require Import List NArith Permutation.
Import ListNotations.
Local Open Scope N_scope.

(* ---- configurations ------------------------------------------------------------------------------ *)
(* the two builds satisfy the hypotheses of everything below: in general ... *)
Theorem C19_cfg_wf : forall gap ps,
  gap = poison_normal \/ gap = poison_asan ->
  (maxalign | frame_mult * ps) -> sizeof_frame + gap <= frame_mult * ps ->
  frame_mult * ps < SIZE_LIMIT -> wf_cfg (cfg_of gap ps).
Proof. exact cfg_wf. Qed.
Print Assumptions C19_cfg_wf.

(* ... and for the page sizes in use, with the constants arena.c has now *)
Theorem C19_cfg_wf_builds :
  Forall (fun ps => wf_cfg (cfg_of poison_normal ps) /\ wf_cfg (cfg_of poison_asan ps)) [4096; 8192; 16384; 65536].
Proof. exact cfg_wf_builds. Qed.
Print Assumptions C19_cfg_wf_builds.

(* non-vacuity of every "reach" below: arena_alloc succeeds and its result is reachable *)
Theorem C19_init_exists : forall c, wf_cfg c -> exists st, init c = Some st /\ reach c st ghost0.
Proof. exact init_reach. Qed.
Print Assumptions C19_init_exists.

(* what "reach c st g" means: the LIFO guard and the rest of the API, by name *)
Theorem C19_reach_is_well_bracketed_runs : forall c st g,
  reach c st g <->
  exists st0 ops evs, init c = Some st0 /\ well_bracketed ops /\ client_steps c st0 ghost0 ops evs st g.
Proof. exact reach_iff_runs. Qed.
Print Assumptions C19_reach_is_well_bracketed_runs.

Theorem C19_api_is_lifo_and_client : forall g o,
  api_okb g o = true <-> lifo_okb o = true /\ client_okb g o = true.
Proof. exact api_okb_parts. Qed.
Print Assumptions C19_api_is_lifo_and_client.

(* ---- clause 1: pointer-aligned --------------------------------------------------------------------- *)
(* Full statement: "for ALL sequences of calls, a pointer that any call returns is aligned".
   _partial, under the guard: every pointer a call of a well-bracketed, API-respecting run returns
   is maxalign-aligned (relative to its frame; frame bases are malloc's).
   _refuted for arena.c outside the guard BY REPLAY (not a Coq fact, see the Remark below):
   E; M 16; E; M 16; L 1; L 0; E; M 16 (= the frame header); memset of that block; M 16 returns
   a wild, misaligned pointer in the normal build, the ASan build dies in the arena's own code. *)
Theorem C19_returned_aligned : forall c, wf_cfg c -> forall st g o st' p,
  reach c st g -> api_okb g o = true -> step c st o = Ok (st', EPtr (Some p)) -> snd p mod c_ma c = 0.
Proof. exact returned_aligned. Qed.
Print Assumptions C19_returned_aligned.

(* A fact about the MODEL only: its frame metadata is kept apart from the bytes of the chunk, so
   the model keeps returning aligned offsets after any misuse.  arena.c does not (above).  Not part
   of the claim. *)
Remark C19_model_alignment_any_sequence : forall c, wf_cfg c -> forall st o st' p,
  reach_any c st -> step c st o = Ok (st', EPtr (Some p)) -> snd p mod c_ma c = 0.
Proof. exact returned_aligned_any. Qed.
Print Assumptions C19_model_alignment_any_sequence.

(* every live block is maxalign-aligned ... *)
Theorem C19_aligned : forall c, wf_cfg c -> forall st g b,
  reach c st g -> In b (g_blocks g) -> b_off b mod c_ma c = 0.
Proof. exact live_aligned. Qed.
Print Assumptions C19_aligned.

(* ... and maxalign, as arena.c has it, is a multiple of the platform's pointer size *)
Theorem C19_maxalign_is_pointer_size : forall x, x mod maxalign = 0 -> x mod pointer_size = 0.
Proof. exact maxalign_pointer. Qed.
Print Assumptions C19_maxalign_is_pointer_size.

(* ---- clause 2: disjoint ------------------------------------------------------------------------------ *)
(* live blocks lie in an existing frame, behind its header, below its bump pointer *)
Theorem C19_inside_frame : forall c, wf_cfg c -> forall st g b,
  reach c st g -> In b (g_blocks g) ->
  exists fr, frame_at (a_frames (st_a st)) (b_fi b) = Some fr /\
             c_hdr c <= b_off b /\ b_end b <= f_len fr /\ f_len fr <= f_size fr.
Proof. exact live_inside. Qed.
Print Assumptions C19_inside_frame.

(* live blocks (cleanup nodes included) are pairwise disjoint *)
Theorem C19_disjoint : forall c, wf_cfg c -> forall st g,
  reach c st g -> ForallOrdPairs disjoint (g_blocks g).
Proof. exact live_disjoint. Qed.
Print Assumptions C19_disjoint.

(* ---- clause 3: contents, until the scope is left --------------------------------------------------------- *)
(* no operation changes a byte of a block that is live before it, except the client's own write
   into that block: the arena's writes (calloc zeroing, string copies, realloc copies, cleanup
   nodes, the indeterminate bytes of fresh memory) land in fresh memory only.  [fill_misses o b]:
   o is not a client write into b, and not a realloc that names b with FEWER bytes than b has
   (then the caller has given up the rest of b; growing in place hands those bytes out again) *)
Theorem C19_contents_stable : forall c, wf_cfg c -> forall st g o st' ev b,
  reach c st g -> api_okb g o = true -> step c st o = Ok (st', ev) ->
  In b (g_blocks g) -> fill_misses o b -> agree (a_mem (st_a st)) (a_mem (st_a st')) b.
Proof. exact contents_stable. Qed.
Print Assumptions C19_contents_stable.

(* the client's own write into one live block changes no other live block *)
Theorem C19_client_write_touches_only_its_block : forall c, wf_cfg c -> forall st g p n v st' ev u b,
  reach c st g -> api_okb g (Fill p n v) = true -> step c st (Fill p n v) = Ok (st', ev) ->
  In u (g_blocks g) -> in_block u p n = true -> In b (g_blocks g) -> b <> u ->
  agree (a_mem (st_a st)) (a_mem (st_a st')) b.
Proof. exact client_write_only_own. Qed.
Print Assumptions C19_client_write_touches_only_its_block.

(* "until the scope it was allocated in is left", as a conclusion: over any API-respecting
   continuation in which no scope at or outside the block's own level is left ([outlives]: every
   LeaveAt k has b_lvl b < lvl_of g k, i.e. the nesting depth stays >= b_lvl b), the block is not
   handed to realloc and the client does not write into it, the block STAYS LIVE and keeps its
   bytes.  Liveness is derived from the scope structure; it is not a premise of the steps. *)
Theorem C19_contents_until_scope_left : forall c, wf_cfg c -> forall b st g ops st2 g2,
  reach c st g -> In b (g_blocks g) -> steps_while c b st g ops st2 g2 ->
  agree (a_mem (st_a st)) (a_mem (st_a st2)) b /\ In b (g_blocks g2) /\ reach c st2 g2.
Proof. exact stable_until_scope_left. Qed.
Print Assumptions C19_contents_until_scope_left.

(* ---- realloc ------------------------------------------------------------------------------------------------ *)
(* realloc keeps the common prefix, in place or moved *)
Theorem C19_realloc_prefix : forall c, wf_cfg c -> forall st g k p old new st' q,
  reach c st g -> api_okb g (Realloc k (Some p) old new) = true ->
  step c st (Realloc k (Some p) old new) = Ok (st', EPtr (Some q)) ->
  forall i, i < N.min old new ->
    a_mem (st_a st') (fst q) (snd q + i) = a_mem (st_a st) (fst p) (snd p + i).
Proof. exact realloc_prefix. Qed.
Print Assumptions C19_realloc_prefix.

(* ---- leaving a scope ------------------------------------------------------------------------------------------ *)
(* leaving the innermost scope: the "len = 0" branch is not taken, memory is not written, exactly
   the blocks of outer scopes stay live (and, by C19_inside_frame and C19_disjoint for the
   successor state, stay inside their frames), and the cleanups that run are exactly the ones
   registered through this scope, newest first *)
Theorem C19_leave_frees_only_own : forall c, wf_cfg c -> forall st g st' toks reset,
  reach c st g -> api_okb g (LeaveAt 0) = true -> step c st (LeaveAt 0) = Ok (st', ELeave toks reset) ->
  reset = false /\ toks = hd [] (g_scopes g) /\
  a_mem (st_a st') = a_mem (st_a st) /\
  (forall b, In b (g_blocks g) -> (b_lvl b < depth g)%nat ->
     In b (g_blocks (gstep c g (LeaveAt 0) (ELeave toks reset)))) /\
  (forall b, In b (g_blocks (gstep c g (LeaveAt 0) (ELeave toks reset))) ->
     In b (g_blocks g) /\ (b_lvl b < depth g)%nat).
Proof. exact leave_spec. Qed.
Print Assumptions C19_leave_frees_only_own.

(* ---- cleanups exactly once ---------------------------------------------------------------------------------------- *)
(* over any continuation: what ran plus what is pending in open scopes = what was registered
   plus what was pending before *)
Theorem C19_cleanups_once : forall c, wf_cfg c -> forall st g ops evs st2 g2,
  reach c st g -> steps c st g ops evs st2 g2 ->
  Permutation (ran evs ++ concat (g_scopes g2)) (registered ops ++ concat (g_scopes g)).
Proof. exact cleanups_accounted. Qed.
Print Assumptions C19_cleanups_once.

(* closed form: from arena_alloc to any point where every scope has been left, the cleanups
   that ran are a permutation of the ones registered - each exactly once *)
Theorem C19_cleanups_all_ran : forall c, wf_cfg c -> forall st ops evs st2 g2,
  init c = Some st -> steps c st ghost0 ops evs st2 g2 -> g_scopes g2 = [] ->
  Permutation (ran evs) (registered ops).
Proof. exact cleanups_all_ran. Qed.
Print Assumptions C19_cleanups_all_ran.

(* and in ANY API-respecting run, also one that ends in a trap or an exit, no cleanup runs
   more often than it was registered *)
Theorem C19_cleanups_at_most_once : forall c, wf_cfg c -> forall st ops evs e fin,
  init c = Some st -> api_run c st ghost0 ops -> run c st ops = (evs, e, fin) ->
  forall t, (count_occ N.eq_dec (ran evs) t <= count_occ N.eq_dec (registered ops) t)%nat.
Proof. exact cleanups_at_most_once. Qed.
Print Assumptions C19_cleanups_at_most_once.

(* ---- allocating from an outer scope is detected ---------------------------------------------------------------------- *)
(* the source as it is now validates the scope on the shrinking path too; should 4eb1227 be
   reverted the translator flips [shrink_validated] and this proof no longer checks *)
Theorem C19_shrink_validated_now : forall gap ps, c_sv (cfg_of gap ps) = true.
Proof. exact (fun _ _ => eq_refl). Qed.
Print Assumptions C19_shrink_validated_now.

(* ... and before growing a block in place (08bdded): the translator's [grow_validated] is true iff an
   arena_scope_validate call lies on the path of arena_realloc_fast that reaches "Check if this is the
   last allocated object"; reverting 08bdded flips it, this proof and C19_cfg_wf no longer check *)
Theorem C19_grow_validated_now : forall gap ps, c_gv (cfg_of gap ps) = true.
Proof. exact (fun _ _ => eq_refl). Qed.
Print Assumptions C19_grow_validated_now.

(* FULL STRENGTH: any allocation, cleanup registration or reallocation (growing or shrinking, of
   ANY live block named with its size or a positive part of it - [api_full], no restriction on the
   level of the block) through a scope that is not the innermost one traps.  ([wf_cfg c] contains
   c_gv c = true: the source validates growth.) *)
Theorem C19_outer_alloc_detected : forall c, wf_cfg c -> forall st g o,
  c_sv c = true -> reach c st g -> api_full g o = true -> must_trap c o = true -> step c st o = Trap.
Proof. exact outer_use_traps_full. Qed.
Print Assumptions C19_outer_alloc_detected.

(* and everything else within the API neither traps nor crashes; err/errx only for requests
   above 2^63 bytes; the call then is within [api_okb], so all theorems above apply to it *)
Theorem C19_inner_use_never_traps : forall c, wf_cfg c -> forall st g o,
  c_sv c = true -> reach c st g -> api_full g o = true -> must_trap c o = false ->
  (exists st' ev, step c st o = Ok (st', ev) /\ api_okb g o = true) \/
  (step c st o = Exit1 /\ may_exit c o = true).
Proof. exact inner_use_ok_full. Qed.
Print Assumptions C19_inner_use_never_traps.

(* so closing [reach] under [api_okb] only loses nothing *)
Theorem C19_reach_full_is_reach : forall c, wf_cfg c -> forall st g,
  c_sv c = true -> reach_full c st g -> reach c st g.
Proof. exact reach_full_reach. Qed.
Print Assumptions C19_reach_full_is_reach.

(* the same two statements for any source ([c_sv] true or false) under the narrower [api_okb] *)
Theorem C19_outer_alloc_detected_partial : forall c, wf_cfg c -> forall st g o,
  reach c st g -> api_okb g o = true -> must_trap c o = true -> step c st o = Trap.
Proof. exact outer_use_traps. Qed.
Print Assumptions C19_outer_alloc_detected_partial.

(* what could ever escape arena_scope_validate, for ANY pointer and sizes (no API hypothesis on
   them): only arena_realloc - returning NULL for a misaligned pointer, or returning the pointer
   itself for new <= old on a source that does not validate the shrinking path *)
Theorem C19_outer_use_dichotomy : forall c, wf_cfg c -> forall st g o k st' ev,
  reach c st g -> g_freed g = false -> (0 < k)%nat -> scope_of o = Some k ->
  step c st o = Ok (st', ev) ->
  exists p old new, o = Realloc k (Some p) old new /\ st' = st /\
    (ev = EPtr None \/ (ev = EPtr (Some p) /\ new <= old /\ c_sv c = false)).
Proof. exact outer_use_dichotomy. Qed.
Print Assumptions C19_outer_use_dichotomy.

(* HISTORICAL, about NO build configuration of the source as it is (c_sv c = false is the state
   before 4eb1227; what reverting it would cost; it pins nothing): in EVERY reachable state with a
   scope open - enter, allocate m bytes, shrink the block through the enclosing scope, leave,
   allocate n <= m bytes: no trap, and the last pointer is the shrunk block itself (or that block's
   frame has been freed).  By the client's bookkeeping both blocks are live, obtained through the
   same, still open, scope. *)
Remark C19_outer_shrink_damage : forall c, wf_cfg c -> forall st g m new n,
  c_sv c = false -> reach c st g -> g_freed g = false -> (1 <= depth g)%nat ->
  0 < new <= m -> 0 < n <= m -> m + c_hdr c + c_gap c <= HALF_LIMIT ->
  exists p q fin,
    let ops := [Enter; Malloc 0 m; Realloc 1 (Some p) m new; LeaveAt 0; Malloc 0 n] in
    let evs := [EUnit; EPtr (Some p); EPtr (Some p); ELeave [] false; EPtr (Some q)] in
    run c st ops = (evs, Done, fin) /\
    (q = p \/ (length (a_frames (st_a fin)) <= fst p)%nat) /\
    depth (gsteps c g ops evs) = depth g /\
    In (mkB p new (depth g) false) (g_blocks (gsteps c g ops evs)) /\
    In (mkB q n (depth g) false) (g_blocks (gsteps c g ops evs)).
Proof. exact outer_shrink_reuse. Qed.
Print Assumptions C19_outer_shrink_damage.

(* ---- outside the LIFO guard, inside the property: REFUTED ---------------------------------------------------------- *)
(* _refuted witness of "leaving a scope invalidates only that scope's blocks" for the quantifier as
   stated (all sequences of enter/leave).  arena_scope_leave validates nothing.  In EVERY reachable
   state: enter A, enter B, allocate m bytes in B, leave A (B still open), enter C, allocate
   n <= m bytes in C - no trap, and the block of B is handed out again (or its frame has been
   freed); B is still among the scopes the client holds. *)
Theorem C19_nonlifo_leave_overlaps_live_block : forall c, wf_cfg c -> forall st g m n,
  reach c st g -> g_freed g = false -> 0 < n <= m -> m + c_hdr c + c_gap c <= HALF_LIMIT ->
  exists p q fin,
    run c st [Enter; Enter; Malloc 0 m; LeaveAt 1; Enter; Malloc 0 n] =
      ([EUnit; EUnit; EPtr (Some p); ELeave [] false; EUnit; EPtr (Some q)], Done, fin) /\
    (q = p \/ (length (a_frames (st_a fin)) <= fst p)%nat) /\
    length (st_scs fin) = (2 + length (st_scs st))%nat.
Proof. exact nonlifo_leave_reuse. Qed.
Print Assumptions C19_nonlifo_leave_overlaps_live_block.

(* _refuted witness of "detected instead of silently corrupting" for leaves in any order: leaving
   the nested scope after its enclosing scope takes the "len = 0" branch of arena_scope_leave,
   and the next block is struct arena_frame itself (offset 0), in both builds and for every page
   size in use ([hits_header], ArenaHoles.v: the run E; M 16; E; M 16; L 1; L 0; E; M 16 ends
   Done with the last pointer at offset 0) *)
Theorem C19_nonlifo_leave_hits_header :
  Forall (fun ps => hits_header (cfg_of poison_normal ps) = true /\ hits_header (cfg_of poison_asan ps) = true)
         [4096; 8192; 16384; 65536].
Proof. exact hits_header_builds. Qed.
Print Assumptions C19_nonlifo_leave_hits_header.

(* ---- one or two arenas ------------------------------------------------------------------------------------------------------ *)
(* two arenas are modelled as two single arenas with separate memories, so each evolves as a
   single arena and everything above holds for both.  That operations on one do not touch the
   other is NOT proved here: it is the modelling assumption "distinct malloc chunks never share
   addresses" (trusted base), checked against the implementation by the two-arena runs of the
   correspondence harness. *)
Theorem C19_two_arenas_are_two_single_arenas : forall c sts gs,
  reach2 c sts gs -> reach c (fst sts) (fst gs) /\ reach c (snd sts) (snd gs).
Proof. exact reach2_proj. Qed.
Print Assumptions C19_two_arenas_are_two_single_arenas.

(* ---- arena-backed buffers and vectors (the calls buffer.c / vector.c issue) --------------------------------------------------- *)
(* [buf_reserve] / [vec_reserve] are defined from the old-size / new-size expressions, the doubling loop
   and sizeof(struct vector) as regenerated from buffer.c / vector.c (ArenaClientDefs.v), and are compared
   by the harness with every realloc the real containers issue.
   buffer_reserve on a buffer whose storage is a live user block of bf_siz bytes: the call is inside the
   API, and it must trap exactly when the scope is not the innermost one *)
Theorem C19_buffer_growth_respects_api : forall c g k bf len o,
  scope_okb g k = true -> buf_ok g bf -> buf_reserve k bf len = Some (Some o) ->
  api_okb g o = true /\ must_trap c o = Nat.ltb 0 k.
Proof. exact buf_reserve_api. Qed.
Print Assumptions C19_buffer_growth_respects_api.

Theorem C19_buffer_outer_growth_traps : forall c, wf_cfg c -> forall st g k bf len o,
  reach c st g -> scope_okb g k = true -> (0 < k)%nat -> buf_ok g bf ->
  buf_reserve k bf len = Some (Some o) -> step c st o = Trap.
Proof. exact buf_outer_growth_traps. Qed.
Print Assumptions C19_buffer_outer_growth_traps.

(* [buf_ok] holds at creation (trivially: no storage yet) and is re-established by every growth *)
Theorem C19_buffer_inner_growth : forall c, wf_cfg c -> forall st g bf len o,
  reach c st g -> scope_okb g 0 = true -> buf_ok g bf -> buf_reserve 0 bf len = Some (Some o) ->
  (exists st' q newsiz, step c st o = Ok (st', EPtr (Some q)) /\ o = Realloc 0 (bf_ptr bf) (bf_siz bf) newsiz /\
       reach c st' (gstep c g o (EPtr (Some q))) /\
       buf_ok (gstep c g o (EPtr (Some q))) (mkBuf (Some q) newsiz (bf_len bf))) \/
  (step c st o = Exit1 /\ may_exit c o = true).
Proof. exact buf_inner_growth. Qed.
Print Assumptions C19_buffer_inner_growth.

(* vector_reserve1 on ANY vector in order ([vec_ok]: header + capacity is a live user block, len <= capacity),
   full or not: vector.c names header + len * stride, the used part of the block - inside the API *)
Theorem C19_vector_growth_respects_api : forall c g k v n o,
  scope_okb g k = true -> vec_ok ar_vec_hdr g v -> vec_reserve ar_vec_hdr k v n = Some (Some o) ->
  api_okb g o = true /\ must_trap c o = Nat.ltb 0 k.
Proof. exact vec_reserve_api_src. Qed.
Print Assumptions C19_vector_growth_respects_api.

Theorem C19_vector_outer_growth_traps : forall c, wf_cfg c -> forall st g k v n o,
  reach c st g -> scope_okb g k = true -> (0 < k)%nat -> vec_ok ar_vec_hdr g v ->
  vec_reserve ar_vec_hdr k v n = Some (Some o) -> step c st o = Trap.
Proof. exact vec_outer_growth_traps_src. Qed.
Print Assumptions C19_vector_outer_growth_traps.

(* [vec_ok] holds for the header block vector_init_impl obtains by calloc(1, sizeof(struct vector)) ... *)
Theorem C19_vector_ok_at_creation : forall c g k q stride,
  0 < stride -> vec_ok ar_vec_hdr (gstep c g (Calloc k 1 ar_vec_hdr) (EPtr (Some q))) (mkVec q 0 0 stride).
Proof. exact vec_init_ok_src. Qed.
Print Assumptions C19_vector_ok_at_creation.

(* ... and is re-established by every growth through the innermost scope; the header and the elements
   in use are at the new place what they were at the old one *)
Theorem C19_vector_inner_growth : forall c, wf_cfg c -> forall st g v n o,
  reach c st g -> scope_okb g 0 = true -> vec_ok ar_vec_hdr g v -> vec_reserve ar_vec_hdr 0 v n = Some (Some o) ->
  (exists st' q newsiz, step c st o = Ok (st', EPtr (Some q)) /\
       reach c st' (gstep c g o (EPtr (Some q))) /\
       vec_ok ar_vec_hdr (gstep c g o (EPtr (Some q))) (mkVec q newsiz (v_len v) (v_stride v)) /\
       v_len v + n <= newsiz /\
       (forall i, i < ar_vec_hdr + v_len v * v_stride v ->
          a_mem (st_a st') (fst q) (snd q + i) = a_mem (st_a st) (fst (v_ptr v)) (snd (v_ptr v) + i))) \/
  (step c st o = Exit1 /\ may_exit c o = true).
Proof. exact vec_inner_growth_src. Qed.
Print Assumptions C19_vector_inner_growth.

(* what the correspondence driver answers for a container history ([buf_hist] / [vec_hist], compared by the
   harness with every realloc the real buffer.c / vector.c issue) is the call of [buf_reserve] / [vec_reserve] *)
Theorem C19_driver_buffer_calls_are_buf_reserve : forall k bf n,
  match buf_newsiz bf n with
  | None => buf_reserve k bf n = None
  | Some r => reserve_sizes (buf_reserve k bf n) = Some (hd_error (buf_calls bf r))
  end.
Proof. exact buf_calls_reserve. Qed.
Print Assumptions C19_driver_buffer_calls_are_buf_reserve.

Theorem C19_driver_vector_calls_are_vec_reserve : forall vhdr k v n,
  match vec_newsiz vhdr v n with
  | None => vec_reserve vhdr k v n = None
  | Some r => reserve_sizes (vec_reserve vhdr k v n) = Some (hd_error (vec_calls vhdr v r))
  end.
Proof. exact vec_calls_reserve. Qed.
Print Assumptions C19_driver_vector_calls_are_vec_reserve.

(* ---- 64-bit arithmetic ---------------------------------------------------------------------------------------------------------- *)
(* the uint64_t arithmetic of align_address (addr + maxalign - 1, + poison_size) never
   wraps on the offsets the arena computes; its hypotheses hold for both builds *)
Theorem C19_no_u64_wrap : forall c st g fr x,
  wf_cfg c -> (c_fsz0 c | SIZE_LIMIT) -> c_ma c + c_gap c <= c_fsz0 c ->
  reach c st g -> In fr (a_frames (st_a st)) -> x <= f_size fr ->
  x + (c_ma c - 1) < SIZE_LIMIT /\ align_off c x < SIZE_LIMIT.
Proof. exact no_u64_wrap. Qed.
Print Assumptions C19_no_u64_wrap.

Theorem C19_no_u64_wrap_builds :
  Forall (fun ps => (c_fsz0 (cfg_of poison_asan ps) | SIZE_LIMIT) /\
                    c_ma (cfg_of poison_asan ps) + poison_asan <= c_fsz0 (cfg_of poison_asan ps) /\
                    c_ma (cfg_of poison_normal ps) + poison_normal <= c_fsz0 (cfg_of poison_normal ps))
         [4096; 8192; 16384; 65536].
Proof. exact no_wrap_hyps_builds. Qed.
Print Assumptions C19_no_u64_wrap_builds.

(* ---- the oracle applied to the implementation is tied to the theorems ---------------------------------------------------------------- *)
(* the two content observations of the oracle are COMPUTED from the model's states (every block
   live before the step that the client did not write has the same bytes afterwards; the common
   prefix of a reallocated block is at the new place what it was at the old one), and they hold *)
Theorem C19_oracle_content_observations_hold : forall c, wf_cfg c -> forall st g o st' ev,
  reach c st g -> api_okb g o = true -> step c st o = Ok (st', ev) ->
  o_intact (obs_of g o st st' ev) = true /\ o_prefix (obs_of g o st st' ev) = true.
Proof. exact obs_content_hold. Qed.
Print Assumptions C19_oracle_content_observations_hold.

(* the whole oracle never objects to the model: for EVERY program that leaves scopes innermost first
   (API-respecting or not otherwise, any handles), the trace the model produces from arena_alloc passes
   every check of spec_check up to the point where the program leaves the API (R_OUTSIDE_API) or names
   a pointer no operation returned (R_BAD_HANDLE).  Hence an oracle failure on the implementation is a
   violation of C19 or a difference between model and implementation - never an artefact of the
   oracle. *)
Theorem C19_oracle_accepts_model : forall c, wf_cfg c -> forall st ops,
  c_sv c = true -> init c = Some st -> has_nonlifo ops = false ->
  let '(tr, last, e) := mtrace c st ghost0 [] ops in
  match spec_check c tr last e with
  | None => True
  | Some (_, code) => code = R_OUTSIDE_API \/ code = R_BAD_HANDLE
  end.
Proof. exact model_passes_oracle_validated. Qed.
Print Assumptions C19_oracle_accepts_model.

(* a program that does leave a scope that is not the innermost one ([has_nonlifo], a predicate on the
   program) is inside the property; the oracle judges it by the property's reading and objects to the
   MODEL itself - rightly: R_NONLIFO on both inputs of findings/C19_nonlifo_leave.md, both builds *)
Theorem C19_oracle_flags_nonlifo_leave :
  Forall (fun ps => nonlifo_flagged (cfg_of poison_normal ps) = true /\ nonlifo_flagged (cfg_of poison_asan ps) = true)
         [4096; 8192; 16384; 65536].
Proof. exact nonlifo_flagged_builds. Qed.
Print Assumptions C19_oracle_flags_nonlifo_leave.

(* there the model's answer to the correspondence driver ends with "Unmodelled" ... *)
Theorem C19_model_unclaimed_after_reset :
  Forall (fun ps => reset_unmodelled (cfg_of poison_normal ps) = true /\ reset_unmodelled (cfg_of poison_asan ps) = true)
         [4096; 8192; 16384; 65536].
Proof. exact reset_unmodelled_builds. Qed.
Print Assumptions C19_model_unclaimed_after_reset.

(* ... which never happens inside the guard of the theorems: no API-respecting step takes the "len = 0"
   branch or returns memory below the frame header *)
Theorem C19_api_runs_never_cut : forall c, wf_cfg c -> forall st g o st' ev,
  reach c st g -> api_okb g o = true -> step c st o = Ok (st', ev) -> exposes c ev = false.
Proof. exact api_step_not_exposing. Qed.
Print Assumptions C19_api_runs_never_cut.

(* for any source ([c_sv] either way) and any program: the verdicts the oracle can reach on the model's
   trace are those two, R_OUTER_SHRINK for a source without the shrink validation (about no build
   configuration of the source as it is), or the program is not well-bracketed *)
Remark C19_oracle_verdicts_any_source : forall c, wf_cfg c -> forall st ops,
  init c = Some st ->
  let '(tr, last, e) := mtrace c st ghost0 [] ops in
  acceptable c (spec_check c tr last e) \/ has_nonlifo ops = true.
Proof. exact model_passes_oracle. Qed.
Print Assumptions C19_oracle_verdicts_any_source.

(* bookkeeping: the events and the ending of that trace are the ones the correspondence driver
   prints (hrun) *)
Theorem C19_driver_run_is_model_trace : forall c ops st g tbl,
  map fst (fst (hrun c st tbl ops)) = map (fun x => o_ev (snd x)) (fst (fst (mtrace c st g tbl ops))) /\
  snd (hrun c st tbl ops) = snd (mtrace c st g tbl ops).
Proof. exact hrun_mtrace. Qed.
Print Assumptions C19_driver_run_is_model_trace.

(* ---- examples on the source as it is now ------------------------------------------------------------------------------------------------- *)
(* D11 (08bdded): growing a block of the outer scope while a nested scope is open traps *)
Theorem C19_outer_grow_traps_example :
  run_from_alloc (cfg_of poison_normal 4096) [Enter; Malloc 0 16; Enter; Realloc 1 (Some (O, 32)) 16 64] =
    Some ([EUnit; EPtr (Some (O, 32)); EUnit], Trapped).
Proof. exact eq_refl. Qed.
Print Assumptions C19_outer_grow_traps_example.

(* 4eb1227: shrinking a block of the inner scope through the outer scope traps as well *)
Theorem C19_outer_shrink_traps_example :
  run_from_alloc (cfg_of poison_normal 4096) [Enter; Enter; Malloc 0 16; Realloc 1 (Some (O, 32)) 16 8; LeaveAt 0; Malloc 0 16] =
    Some ([EUnit; EUnit; EPtr (Some (O, 32))], Trapped).
Proof. exact eq_refl. Qed.
Print Assumptions C19_outer_shrink_traps_example.

(* non-vacuity: two scopes, a second frame, reallocation in place and by copying,
   cleanups in both scopes, contents carried along, arena_free at the end *)
Example C19_example :
  run_from_alloc (cfg_of poison_normal 4096)
    [Enter; Malloc 0 16; Fill (O, 32) 16 65; Cleanup 0 7; Enter; Malloc 0 70000;
     Realloc 0 (Some (1%nat, 32)) 70000 70016; Cleanup 0 9; Read (O, 32); LeaveAt 0;
     Realloc 0 (Some (O, 32)) 16 64; Read (O, 72); Read (O, 87); LeaveAt 0; ArenaFree] =
  Some ([EUnit; EPtr (Some (O, 32)); EUnit; EPtr (Some (O, 48)); EUnit; EPtr (Some (1%nat, 32));
         EPtr (Some (1%nat, 32)); EPtr (Some (1%nat, 70048)); ECell (CByte 65); ELeave [9] false;
         EPtr (Some (O, 72)); ECell (CByte 65); ECell (CByte 65); ELeave [7] false; EUnit], Done).
Proof. vm_compute. reflexivity. Qed.
