(* Properties_C19.v - arena allocations stay intact until their scope ends.

   Only theorem statements, each closed by [exact] and followed by Print
   Assumptions.  The model of libks/arena.c is Arena/ArenaDefs.v ([step], tied to
   the implementation by the correspondence check, constants from
   RobsdGen.Gen_Arena); the client-side bookkeeping of live blocks ([ghost],
   [gstep]), the API discipline ([api_okb]: strictly LIFO scope leaves, realloc
   with a live block and its true size, client writes inside live user blocks,
   nothing but leaves after arena_free) and [reach] are in Arena/ArenaSpec.v.

   Quantifiers: every configuration [c] with [wf_cfg c] (instantiated below for
   the normal and the ASan build and the page sizes 4, 8, 16 and 64 KiB), every
   state [reach]able from arena_alloc by ANY sequence of API-respecting
   operations - enter, leave, malloc, calloc, realloc, strndup, strdup, sprintf,
   cleanup, client writes and reads, arena_free - with ANY sizes below 2^64;
   no bound on the length of the sequence, the nesting depth or the number of
   frames.  Two arenas: [reach2].

   What the code does at the edges, stated exactly:
   * shrinking with arena_realloc (new <= old) returns the same pointer without
     consulting the scope at all ([C19_shrink_is_silent]).  Shrinking a block of
     an INNER scope through an OUTER scope is therefore not detected, and the
     result dies with the inner scope although the caller named the outer one:
     [C19_outer_shrink_undetected].  Such a call is outside [api_okb] (reported as
     a finding; growing through an outer scope traps).
   * arena_scope_leave sets the bump pointer to 0 when the scope's mark lies above
     it.  Under LIFO use this branch is dead ([C19_leave_frees_only_own], reset =
     false); with a non-LIFO leave it hands out the frame header
     ([C19_nonlifo_leave_hits_header]).
   * after arena_free with scopes still open only leaves are within the API. *)
From Robsd Require Import Arena.ArenaDefs Arena.ArenaSpec Arena.ArenaProofs Arena.ArenaInv Arena.ArenaThms
  Arena.ArenaOracle.
From RobsdGen Require Import Gen_Arena.
From Coq Require Import List NArith Permutation.
Import ListNotations.
Local Open Scope N_scope.

(* the two builds satisfy the hypotheses of everything below: in general ... *)
Theorem C19_cfg_wf : forall gap ps,
  gap = poison_normal \/ gap = poison_asan ->
  (maxalign | frame_mult * ps) -> sizeof_frame + gap <= frame_mult * ps ->
  frame_mult * ps < SIZE_LIMIT -> wf_cfg (cfg_of gap ps).
Proof. exact cfg_wf. Qed.
Print Assumptions C19_cfg_wf.

(* ... and for the page sizes in use, with the constants arena.c has now *)
Theorem C19_cfg_wf_builds :
  Forall (fun ps => wf_cfg (cfg_of poison_normal ps) /\ wf_cfg (cfg_of poison_asan ps)) [4096; 8192; 16384; 65536].
Proof. exact cfg_wf_builds. Qed.
Print Assumptions C19_cfg_wf_builds.

(* every live block, hence everything the arena ever returned and is still live, is maxalign-aligned ... *)
Theorem C19_aligned : forall c, wf_cfg c -> forall st g b,
  reach c st g -> In b (g_blocks g) -> b_off b mod c_ma c = 0.
Proof. exact live_aligned. Qed.
Print Assumptions C19_aligned.

(* ... every pointer returned is, at the moment it is returned ... *)
Theorem C19_returned_aligned : forall c, wf_cfg c -> forall st g o st' p,
  reach c st g -> api_okb g o = true -> step c st o = Ok (st', EPtr (Some p)) -> snd p mod c_ma c = 0.
Proof. exact returned_aligned. Qed.
Print Assumptions C19_returned_aligned.

(* ... and maxalign is the pointer size of the platform (frame bases come from malloc) *)
Theorem C19_pointer_aligned : forall x gap ps, x mod c_ma (cfg_of gap ps) = 0 -> x mod pointer_size = 0.
Proof. exact maxalign_is_pointer_size. Qed.
Print Assumptions C19_pointer_aligned.

(* live blocks lie in an existing frame, behind its header, below its bump pointer *)
Theorem C19_inside_frame : forall c, wf_cfg c -> forall st g b,
  reach c st g -> In b (g_blocks g) ->
  exists fr, frame_at (a_frames (st_a st)) (b_fi b) = Some fr /\
             c_hdr c <= b_off b /\ b_end b <= f_len fr /\ f_len fr <= f_size fr.
Proof. exact live_inside. Qed.
Print Assumptions C19_inside_frame.

(* live blocks (cleanup nodes included) are pairwise disjoint *)
Theorem C19_disjoint : forall c, wf_cfg c -> forall st g,
  reach c st g -> ForallOrdPairs disjoint (g_blocks g).
Proof. exact live_disjoint. Qed.
Print Assumptions C19_disjoint.

(* no operation changes a byte of a block that is live before it, except the
   client's own write into that block: the arena's writes (calloc zeroing, string
   copies, realloc copies, cleanup nodes, the indeterminate bytes of fresh memory)
   land in fresh memory only *)
Theorem C19_contents_stable : forall c, wf_cfg c -> forall st g o st' ev b,
  reach c st g -> api_okb g o = true -> step c st o = Ok (st', ev) ->
  In b (g_blocks g) -> fill_misses o b -> agree (a_mem (st_a st)) (a_mem (st_a st')) b.
Proof. exact contents_stable. Qed.
Print Assumptions C19_contents_stable.

(* a client write into one live block misses every block disjoint from it *)
Theorem C19_write_hits_one_block : forall c st g p n v u b,
  reach c st g -> In u (g_blocks g) -> In b (g_blocks g) -> in_block u p n = true ->
  disjoint u b -> fill_misses (Fill p n v) b.
Proof. exact fill_hits_one_block. Qed.
Print Assumptions C19_write_hits_one_block.

(* over a whole continuation: as long as the block stays live (its scope is not
   left, it is not reallocated) and is not written by the client, it keeps its bytes *)
Theorem C19_contents_stable_trace : forall c, wf_cfg c -> forall b st g ops st2 g2,
  reach c st g -> steps_keeping c b st g ops st2 g2 ->
  agree (a_mem (st_a st)) (a_mem (st_a st2)) b /\ In b (g_blocks g2) /\ reach c st2 g2.
Proof. exact stable_while_live. Qed.
Print Assumptions C19_contents_stable_trace.

(* realloc keeps the common prefix, in place or moved *)
Theorem C19_realloc_prefix : forall c, wf_cfg c -> forall st g k p old new st' q,
  reach c st g -> api_okb g (Realloc k (Some p) old new) = true ->
  step c st (Realloc k (Some p) old new) = Ok (st', EPtr (Some q)) ->
  forall i, i < N.min old new ->
    a_mem (st_a st') (fst q) (snd q + i) = a_mem (st_a st) (fst p) (snd p + i).
Proof. exact realloc_prefix. Qed.
Print Assumptions C19_realloc_prefix.

(* leaving the innermost scope: the "len = 0" branch is not taken, memory is not
   written, exactly the blocks of outer scopes stay live (and, by C19_inside_frame
   and C19_disjoint for the successor state, stay inside their frames), and the
   cleanups that run are exactly the ones registered through this scope, newest first *)
Theorem C19_leave_frees_only_own : forall c, wf_cfg c -> forall st g st' toks reset,
  reach c st g -> api_okb g (LeaveAt 0) = true -> step c st (LeaveAt 0) = Ok (st', ELeave toks reset) ->
  reset = false /\ toks = hd [] (g_scopes g) /\
  a_mem (st_a st') = a_mem (st_a st) /\
  (forall b, In b (g_blocks g) -> (b_lvl b < depth g)%nat ->
     In b (g_blocks (gstep c g (LeaveAt 0) (ELeave toks reset)))) /\
  (forall b, In b (g_blocks (gstep c g (LeaveAt 0) (ELeave toks reset))) ->
     In b (g_blocks g) /\ (b_lvl b < depth g)%nat).
Proof. exact leave_spec. Qed.
Print Assumptions C19_leave_frees_only_own.

(* over a whole continuation: the cleanups that ran plus the ones still pending in
   open scopes are the ones registered plus the ones pending before - so from
   arena_alloc to the point where every scope is closed each registered cleanup
   ran exactly once *)
Theorem C19_cleanups_once : forall c, wf_cfg c -> forall st g ops evs st2 g2,
  reach c st g -> steps c st g ops evs st2 g2 ->
  Permutation (ran evs ++ concat (g_scopes g2)) (registered ops ++ concat (g_scopes g)).
Proof. exact cleanups_accounted. Qed.
Print Assumptions C19_cleanups_once.

(* any allocation, cleanup registration or growing reallocation through a scope
   that is not the innermost one traps *)
Theorem C19_outer_alloc_detected : forall c, wf_cfg c -> forall st g o,
  reach c st g -> api_okb g o = true -> must_trap o = true -> step c st o = Trap.
Proof. exact outer_use_traps. Qed.
Print Assumptions C19_outer_alloc_detected.

(* and everything else within the API neither traps nor crashes; err/errx only
   for requests above 2^63 bytes *)
Theorem C19_inner_use_never_traps : forall c, wf_cfg c -> forall st g o,
  reach c st g -> api_okb g o = true -> must_trap o = false ->
  (exists st' ev, step c st o = Ok (st', ev)) \/ (step c st o = Exit1 /\ may_exit c o = true).
Proof. exact inner_use_ok. Qed.
Print Assumptions C19_inner_use_never_traps.

(* what the code does for a shrinking realloc: nothing, whatever the scope *)
Theorem C19_shrink_is_silent : forall c st k s p old new,
  nth_error (st_scs st) k = Some s -> a_refs (st_a st) <> 0 -> new <= old ->
  N.land (snd p) (c_ma c - 1) = 0 ->
  step c st (Realloc k (Some p) old new) = Ok (st, EPtr (Some p)).
Proof. exact realloc_shrink_in_place. Qed.
Print Assumptions C19_shrink_is_silent.

(* two arenas: each evolves as a single arena, so all of the above holds for both *)
Theorem C19_two_arenas : forall c sts gs,
  reach2 c sts gs -> reach c (fst sts) (fst gs) /\ reach c (snd sts) (snd gs).
Proof. exact reach2_proj. Qed.
Print Assumptions C19_two_arenas.

(* the uint64_t arithmetic of align_address (addr + maxalign - 1, + poison_size) never
   wraps on the offsets the arena computes; its hypotheses hold for both builds *)
Theorem C19_no_u64_wrap : forall c st g fr x,
  wf_cfg c -> (c_fsz0 c | SIZE_LIMIT) -> c_ma c + c_gap c <= c_fsz0 c ->
  reach c st g -> In fr (a_frames (st_a st)) -> x <= f_size fr ->
  x + (c_ma c - 1) < SIZE_LIMIT /\ align_off c x < SIZE_LIMIT.
Proof. exact no_u64_wrap. Qed.
Print Assumptions C19_no_u64_wrap.

Theorem C19_no_u64_wrap_builds :
  Forall (fun ps => (c_fsz0 (cfg_of poison_asan ps) | SIZE_LIMIT) /\
                    c_ma (cfg_of poison_asan ps) + poison_asan <= c_fsz0 (cfg_of poison_asan ps) /\
                    c_ma (cfg_of poison_normal ps) + poison_normal <= c_fsz0 (cfg_of poison_normal ps))
         [4096; 8192; 16384; 65536].
Proof. exact no_wrap_hyps_builds. Qed.
Print Assumptions C19_no_u64_wrap_builds.

(* the oracle applied to the implementation (spec_check) demands of every returned
   block exactly what C19_aligned, C19_inside_frame and C19_disjoint state *)
Theorem C19_oracle_block_check : forall c others b fsize,
  check_new_block c others b fsize = 0 <->
  (b_off b mod c_ma c = 0 /\ c_hdr c <= b_off b /\ b_end b <= fsize /\ Forall (disjoint b) others).
Proof. exact check_new_block_spec. Qed.
Print Assumptions C19_oracle_block_check.

(* the whole oracle never objects to the model: for EVERY program (API-respecting or
   not, any handles), the trace the model produces from arena_alloc passes every check
   of spec_check up to the point where the program leaves the API (code
   R_OUTSIDE_API) or names a pointer no operation returned (R_BAD_HANDLE).  Hence an
   oracle failure on the implementation is a violation of C19 or a difference between
   model and implementation - never an artefact of the oracle. *)
Theorem C19_oracle_accepts_model : forall c, wf_cfg c -> forall st ops,
  init c = Some st ->
  let '(tr, last, e) := mtrace c st [] ops in
  match spec_check c tr last e with
  | None => True
  | Some (_, code) => code = R_OUTSIDE_API \/ code = R_BAD_HANDLE
  end.
Proof. exact model_passes_oracle. Qed.
Print Assumptions C19_oracle_accepts_model.

(* ... and that trace is the run the correspondence driver prints *)
Theorem C19_driver_run_is_model_trace : forall c ops st tbl,
  map fst (fst (hrun c st tbl ops)) = map (fun x => o_ev (snd x)) (fst (fst (mtrace c st tbl ops))) /\
  snd (hrun c st tbl ops) = snd (mtrace c st tbl ops).
Proof. exact hrun_mtrace. Qed.
Print Assumptions C19_driver_run_is_model_trace.

(* ---- witnesses ------------------------------------------------------------------------------- *)
Definition run_from_alloc (c : cfg) (ops : list op) : option (list event * ending) :=
  match init c with Some st => Some (fst (run c st ops)) | None => None end.

(* REFUTED for calls outside the API: a block of the inner scope shrunk through the
   outer scope is not detected, and after the inner scope left the same bytes are
   handed out again although the caller holds the block through the outer scope *)
Theorem C19_outer_shrink_undetected : exists ops,
  run_from_alloc (cfg_of poison_normal 4096) ops =
    Some ([EUnit; EUnit; EPtr (Some (O, 32)); EPtr (Some (O, 32)); ELeave [] false; EPtr (Some (O, 32))], Done).
Proof.
  exact (ex_intro _ [Enter; Enter; Malloc 0 16; Realloc 1 (Some (O, 32)) 16 8; LeaveAt 0; Malloc 0 16] eq_refl).
Qed.
Print Assumptions C19_outer_shrink_undetected.

(* REFUTED outside the API: a non-LIFO leave takes the "len = 0" branch and the next
   allocation is the frame header itself (offset 0 < sizeof(struct arena_frame)) *)
Theorem C19_nonlifo_leave_hits_header : exists ops,
  run_from_alloc (cfg_of poison_normal 4096) ops =
    Some ([EUnit; EPtr (Some (O, 32)); EUnit; EPtr (Some (O, 48)); ELeave [] false; ELeave [] true;
           EUnit; EPtr (Some (O, 0))], Done).
Proof.
  exact (ex_intro _ [Enter; Malloc 0 16; Enter; Malloc 0 16; LeaveAt 1; LeaveAt 0; Enter; Malloc 0 16] eq_refl).
Qed.
Print Assumptions C19_nonlifo_leave_hits_header.

(* the repaired code: growing a block of the outer scope while a nested scope is open traps (D11) *)
Theorem C19_outer_grow_traps_example :
  run_from_alloc (cfg_of poison_normal 4096) [Enter; Malloc 0 16; Enter; Realloc 1 (Some (O, 32)) 16 64] =
    Some ([EUnit; EPtr (Some (O, 32)); EUnit], Trapped).
Proof. exact eq_refl. Qed.
Print Assumptions C19_outer_grow_traps_example.

(* non-vacuity: two scopes, a second frame, reallocation in place and by copying,
   cleanups in both scopes, contents carried along, arena_free at the end *)
Example C19_example :
  run_from_alloc (cfg_of poison_normal 4096)
    [Enter; Malloc 0 16; Fill (O, 32) 16 65; Cleanup 0 7; Enter; Malloc 0 70000;
     Realloc 0 (Some (1%nat, 32)) 70000 70016; Cleanup 0 9; Read (O, 32); LeaveAt 0;
     Realloc 0 (Some (O, 32)) 16 64; Read (O, 72); Read (O, 87); LeaveAt 0; ArenaFree] =
  Some ([EUnit; EPtr (Some (O, 32)); EUnit; EPtr (Some (O, 48)); EUnit; EPtr (Some (1%nat, 32));
         EPtr (Some (1%nat, 32)); EPtr (Some (1%nat, 70048)); ECell (CByte 65); ELeave [9] false;
         EPtr (Some (O, 72)); ECell (CByte 65); ECell (CByte 65); ELeave [7] false; EUnit], Done).
Proof. vm_compute. reflexivity. Qed.
