(* ReportFixture.v - a generated build directory as plain data (association
   lists), and how it becomes the [files] / [cfgview] arguments of the model.
   Definitions only; this is what the correspondence driver fills in. *)
From Robsd Require Export Report.ReportDefs.
Local Open Scope N_scope.

Record fixture := mkfix {
  x_mode : mode;
  x_host : bytes;                              (* gethostname up to the first dot *)
  x_builddir : bytes;
  x_running : bool;
  x_robsddir : bytes;
  x_keepdir : bytes;
  x_machine : bytes;
  x_canvas : bytes;
  x_regress : list (bytes * bool);             (* suite, quiet *)
  x_step : option bytes;                       (* step.csv *)
  x_logs : list (bytes * fread);               (* log field -> what reading <builddir>/<log field> gives *)
  x_tmp : list (bytes * fread);                (* name below tmp-dir -> what reading it gives *)
  x_comment : fread;
  x_tags : option bytes;
  x_target : option bytes;
  x_root : option (list dirent);
  x_rel : option (list relfile);
  x_prev : list (bytes * (bytes * Z));         (* previous builddir, (name below rel, st_size) *)
  x_age : list bytes;                          (* the entries of robsddir (full paths) in the order they were created,
                                                  oldest first: known to whoever made the directory, not to robsd-report *)
}.

Fixpoint assoc {A} (l : list (bytes * A)) (k : bytes) : option A :=
  match l with
  | [] => None
  | (k', v) :: l' => if beq k k' then Some v else assoc l' k
  end.

(* a name that is not in the list does not exist *)
Definition lookup_file (l : list (bytes * fread)) (k : bytes) : fread :=
  match assoc l k with Some v => v | None => FAbsent end.

Fixpoint lookup_prev (l : list (bytes * (bytes * Z))) (prev name : bytes) : option Z :=
  match l with
  | [] => None
  | (p, (n, z)) :: l' => if beq p prev && beq n name then Some z else lookup_prev l' prev name
  end.

Definition files_of (x : fixture) : files :=
  mkfiles (lookup_file (x_logs x)) (lookup_file (x_tmp x)) (x_comment x) (x_tags x) (x_target x)
          (x_root x) (x_rel x) (lookup_prev (x_prev x)).

Definition cfg_of (x : fixture) : cfgview :=
  mkcfg (x_builddir x) (x_running x) (x_robsddir x) (x_keepdir x)
        (map fst (x_regress x)) (map fst (filter snd (x_regress x)))
        (x_canvas x) (x_machine x).

(* the rows of the fixture's step file *)
Definition rows_of (x : fixture) : option (list srow) :=
  match x_step x with
  | None => None
  | Some c => match parse_file c with Some rows => Some (map view rows) | None => None end
  end.

(* robsd-report on the fixture *)
Definition run_fixture_with (w : switches) (x : fixture) : N * bytes :=
  report_main_with w (x_mode x) (cfg_of x) (x_host x) (x_step x) (files_of x).
Definition run_fixture := run_fixture_with cur_sw.

(* duration_total -s step.csv under _MODE = mode; when robsd-step cannot read the
   file the first step_eval fails and the total is 0 *)
Definition sh_total_fixture (x : fixture) : Z :=
  match rows_of x with Some rows => sh_total (x_mode x) rows | None => 0%Z end.
