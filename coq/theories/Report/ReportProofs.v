(* ReportProofs.v - the report model (ReportDefs) does what ReportSpec says. *)
From Robsd Require Import Report.ReportSpec RegressLog.RLProofs Base.DecimalProofs.
From Coq Require Import Lia.
Local Open Scope N_scope.

(* ---- what the generated constants have to be for the theorems below ---------------------- *)

Lemma frev_rev {A} (l : list A) : frev l = rev l.
Proof. unfold frev. symmetry. apply rev_alt. Qed.

Lemma omit_candidate_is e : omit_candidate e = (e =? 0)%Z.
Proof. reflexivity. Qed.

Lemma row_skipped_is s : row_skipped s = (s =? 1)%Z.
Proof. reflexivity. Qed.

Lemma tail_lines_is : tail_lines = 10%nat.
Proof. reflexivity. Qed.

Lemma counts_failures_counting m : counts_failures m = counting m.
Proof. destruct m; reflexivity. Qed.

(* the table the theorems are proved for lists, per mode, the logs robsd-cvs.sh collects *)
Lemma cvs_names_fixed m : cvs_names_of (sw_cvs_logs fixed_sw) m = spec_cvs_names m.
Proof. destruct m; reflexivity. Qed.

(* ---- status ----------------------------------------------------------------------------------- *)

Lemma failing_inv r : failing r = true <-> r_skip r <> 1%Z /\ r_exit r <> 0%Z.
Proof.
  unfold failing, nonskipped. rewrite andb_true_iff, !negb_true_iff, !Z.eqb_neq. tauto.
Qed.

Lemma failures_nil_iff rows :
  failures rows = [] <-> (forall r, In r rows -> r_skip r <> 1%Z -> r_exit r = 0%Z).
Proof.
  unfold failures. split.
  - intros H r Hin Hs. destruct (Z.eq_dec (r_exit r) 0) as [E|E]; [exact E|].
    assert (Hf : In r (filter failing rows)) by (apply filter_In; split; [exact Hin|apply failing_inv; tauto]).
    rewrite H in Hf. destruct Hf.
  - intros H. destruct (filter failing rows) as [|f fs] eqn:E; [reflexivity|].
    assert (Hf : In f (filter failing rows)) by (rewrite E; left; reflexivity).
    apply filter_In in Hf. destruct Hf as [Hin Hf]. apply failing_inv in Hf. destruct Hf as [Hs He].
    exfalso. apply He. apply H; assumption.
Qed.

Lemma filter_ext_in' {A} (f g : A -> bool) l :
  (forall x, In x l -> f x = g x) -> filter f l = filter g l.
Proof.
  induction l as [|x l IH]; intros H; simpl; [reflexivity|].
  rewrite (H x (or_introl eq_refl)). rewrite IH; [reflexivity|]. intros y Hy. apply H. right. exact Hy.
Qed.

Lemma count_status_spec rows :
  skipped_exit0 rows ->
  count_status rows = match failures rows with [] => str_ok | l => count_text (List.length l) end.
Proof.
  intros Hs. unfold count_status, failures.
  rewrite (filter_ext_in' (fun r => negb (r_exit r =? 0)%Z) failing rows).
  - destruct (filter failing rows) as [|f fs]; [reflexivity|].
    cbn [List.length Nat.ltb Nat.leb]. reflexivity.
  - intros r Hin. unfold failing, nonskipped.
    destruct (Z.eqb_spec (r_skip r) 1) as [E|E]; cbn [negb andb]; [|reflexivity].
    rewrite (Hs r Hin E). reflexivity.
Qed.

Lemma failures_app a b : failures (a ++ b) = failures a ++ failures b.
Proof. apply filter_app. Qed.

Lemma reachable_seq_prefix a b : reachable_seq (a ++ b) -> reachable_seq a.
Proof.
  intros H a1 r b1 E Hf x Hx. apply (H a1 r (b1 ++ b)).
  - rewrite E, <- app_assoc. reflexivity.
  - exact Hf.
  - apply in_or_app. left. exact Hx.
Qed.

Lemma reachable_last_nonskipped a r :
  reachable_seq (a ++ [r]) -> r_skip r <> 1%Z -> failures a = [].
Proof.
  intros H Hs. apply failures_nil_iff. intros x Hin Hxs.
  destruct (Z.eq_dec (r_exit x) 0) as [E|E]; [exact E|]. exfalso.
  apply in_split in Hin. destruct Hin as [a1 [a2 ->]].
  apply Hs. apply (H a1 x (a2 ++ [r])).
  - rewrite <- app_assoc. reflexivity.
  - apply failing_inv. tauto.
  - apply in_or_app. right. left. reflexivity.
Qed.

Lemma last_status_spec rows :
  reachable_seq rows ->
  last_status (rev rows) =
    match failures rows with [] => str_ok | f :: fs => str_failed_in ++ r_name (last fs f) end /\
  (forall f fs, failures rows = f :: fs -> fs = []).
Proof.
  induction rows as [|r a IH] using rev_ind; intros Hr.
  - split; [reflexivity|]. intros f fs E. discriminate E.
  - rewrite rev_unit. cbn [last_status]. rewrite failures_app. cbn [failures filter].
    destruct (Z.eqb_spec (r_skip r) 1) as [Es|Es].
    + assert (Hnf : failing r = false) by (unfold failing, nonskipped; rewrite Es; reflexivity).
      rewrite Hnf, app_nil_r. apply IH. eapply reachable_seq_prefix. exact Hr.
    + pose proof (reachable_last_nonskipped a r Hr Es) as Hnil. rewrite Hnil. cbn [app].
      destruct (Z.eqb_spec (r_exit r) 0) as [Ee|Ee].
      * assert (Hnf : failing r = false) by (unfold failing; rewrite Ee; apply andb_false_r).
        rewrite Hnf. split; [reflexivity|]. intros f fs E. discriminate E.
      * assert (Hf : failing r = true) by (apply failing_inv; tauto).
        rewrite Hf. split; [reflexivity|]. intros f fs E. injection E as _ <-. reflexivity.
Qed.

Lemma count_text_not_ok n : count_text n <> str_ok.
Proof.
  unfold count_text. intros E.
  pose proof (render_Z_chars (Z.of_nat n)) as Hc. pose proof (render_Z_nonempty (Z.of_nat n)) as Hn.
  destruct (render_Z (Z.of_nat n)) as [|c s]; [congruence|].
  cbn in E. injection E as Ec _. subst c. cbn in Hc. discriminate Hc.
Qed.

Lemma status_agrees m rows :
  (counting m = true -> skipped_exit0 rows) ->
  (counting m = false -> reachable_seq rows) ->
  report_status m rows = spec_status m rows.
Proof.
  intros Hc Hs. unfold report_status, spec_status. rewrite counts_failures_counting, frev_rev.
  destruct (counting m) eqn:Ec.
  - rewrite count_status_spec by (apply Hc; reflexivity). destruct (failures rows); reflexivity.
  - apply last_status_spec. apply Hs. reflexivity.
Qed.

Lemma spec_status_ok_iff m rows : spec_status m rows = str_ok <-> failures rows = [].
Proof.
  unfold spec_status. destruct (failures rows) as [|f fs]; [tauto|].
  split; [|discriminate]. destruct (counting m).
  - intros E. exfalso. eapply count_text_not_ok. exact E.
  - intros E. discriminate E.
Qed.

Theorem status_ok_iff m rows :
  (counting m = true -> skipped_exit0 rows) ->
  (counting m = false -> reachable_seq rows) ->
  report_status m rows = spec_status m rows /\
  (report_status m rows = str_ok <-> (forall r, In r rows -> r_skip r <> 1%Z -> r_exit r = 0%Z)) /\
  (forall f fs, failures rows = f :: fs ->
     if counting m then report_status m rows = count_text (List.length (f :: fs))
     else fs = [] /\ report_status m rows = str_failed_in ++ r_name f).
Proof.
  intros Hc Hs. pose proof (status_agrees m rows Hc Hs) as Ha. split; [exact Ha|]. split.
  - rewrite Ha, spec_status_ok_iff. apply failures_nil_iff.
  - intros f fs E. rewrite Ha. unfold spec_status. rewrite E.
    destruct (counting m) eqn:Ec; [reflexivity|].
    destruct (last_status_spec rows (Hs eq_refl)) as [_ H1]. rewrite (H1 f fs E). split; reflexivity.
Qed.

Definition row_a : srow := mksrow [97] 1 1 0 [] 1 0.
Definition row_b : srow := mksrow [98] 0 1 0 [] 2 0.
Definition row_s : srow := mksrow [115] 1 1 0 [] 1 1.

Lemma status_refuted_outside_reachable :
  exists m rows, counting m = false /\ ~ reachable_seq rows /\
                 failures rows <> [] /\ report_status m rows = str_ok.
Proof.
  exists Robsd, [row_a; row_b]. split; [reflexivity|]. split; [|split; [discriminate|reflexivity]].
  intros H. specialize (H [] row_a [row_b] eq_refl eq_refl row_b (or_introl eq_refl)). discriminate H.
Qed.

Lemma status_refuted_skipped_nonzero :
  exists m rows, counting m = true /\ ~ skipped_exit0 rows /\
                 failures rows = [] /\ report_status m rows <> str_ok.
Proof.
  exists Regress, [row_s]. split; [reflexivity|]. split; [|split; [reflexivity|discriminate]].
  intros H. specialize (H row_s (or_introl eq_refl) eq_refl). discriminate H.
Qed.

Lemma skipped_exit0b_iff rows : skipped_exit0b rows = true <-> skipped_exit0 rows.
Proof.
  unfold skipped_exit0b, skipped_exit0. rewrite forallb_forall. split.
  - intros H r Hin Es. specialize (H r Hin). unfold nonskipped in H. rewrite Es in H. cbn in H.
    apply Z.eqb_eq. exact H.
  - intros H r Hin. unfold nonskipped. destruct (Z.eqb_spec (r_skip r) 1) as [E|E]; [|reflexivity].
    cbn. apply Z.eqb_eq. apply H; assumption.
Qed.

Lemma reachable_seqb_iff rows : reachable_seqb rows = true <-> reachable_seq rows.
Proof.
  induction rows as [|r rs IH].
  - split; [|reflexivity]. intros _ a r b E. destruct a; discriminate E.
  - cbn [reachable_seqb]. rewrite andb_true_iff, IH. split.
    + intros [H1 H2] a r0 b E Hf x Hx. destruct a as [|r1 a].
      * cbn in E. injection E as <- <-. rewrite Hf in H1. rewrite forallb_forall in H1.
        specialize (H1 x Hx). unfold nonskipped in H1. rewrite negb_involutive in H1. apply Z.eqb_eq. exact H1.
      * cbn in E. injection E as <- E. apply (H2 a r0 b E Hf x Hx).
    + intros H. split.
      * destruct (failing r) eqn:Hf; [|reflexivity]. apply forallb_forall. intros x Hx.
        unfold nonskipped. rewrite negb_involutive. apply Z.eqb_eq. apply (H [] r rs eq_refl Hf x Hx).
      * intros a r0 b E Hf x Hx. apply (H (r :: a) r0 b); [cbn; rewrite E; reflexivity|exact Hf|exact Hx].
Qed.

(* ---- which rows are listed ------------------------------------------------------------------- *)

Lemma only_trace_spec c :
  only_trace true c = forallb isxtrace (getlines c) /\
  only_trace false c = forallb isxtrace (tl (getlines c)).
Proof.
  induction c as [|x c [IHa IHb]]; [split; reflexivity|].
  cbn [only_trace getlines].
  destruct (N.eqb_spec x 10) as [->|Hx].
  - cbn. split; [reflexivity|exact IHa].
  - split.
    + destruct (N.eqb_spec x 43) as [->|H43].
      * rewrite IHb. destruct (getlines c) as [|l ls]; reflexivity.
      * destruct (getlines c) as [|l ls]; cbn; apply N.eqb_neq in H43; rewrite H43; reflexivity.
    + rewrite IHb. destruct (getlines c) as [|l ls]; reflexivity.
Qed.

Lemma is_log_empty_spec fs r : negb (is_log_empty fs r) = has_plain_line fs r.
Proof.
  unfold is_log_empty, has_plain_line. destruct (f_log fs (r_log r)) as [| |c]; [reflexivity|reflexivity|].
  rewrite (proj1 (only_trace_spec c)). reflexivity.
Qed.

Lemma peek_positive fl c : Nat.ltb 0 (peek fl c) = existsb (selected fl) (drop_trace (clines c)).
Proof. rewrite peek_spec. destruct (existsb (selected fl) (drop_trace (clines c))); reflexivity. Qed.

(* the decision taken by report_steps for a row that is not skipped *)
Definition decide (m : mode) (cfg : cfgview) (fs : files) (r : srow) : skipres :=
  if omit_candidate (r_exit r) then skip_step m cfg fs r else SkShow.

Lemma decide_spec m cfg fs r :
  nonskipped r = true ->
  decide m cfg fs r =
    if candidate_without_log m cfg r then SkErr
    else if spec_shown m cfg fs r then SkShow else SkOmit.
Proof.
  intros Hns. unfold decide, spec_shown. rewrite Hns, omit_candidate_is. cbn [andb].
  destruct (Z.eqb_spec (r_exit r) 0) as [He|He]; cbn [negb orb].
  2: { destruct m; cbn [candidate_without_log andb]; try reflexivity.
       apply Z.eqb_neq in He. rewrite He. reflexivity. }
  destruct m; cbn [skip_step candidate_without_log listed_anyway].
  - destruct (beq (r_name r) name_cvs); [reflexivity|]. cbn [orb].
    rewrite is_log_empty_spec. destruct (beq (r_name r) name_checkflist && has_plain_line fs r); reflexivity.
  - destruct (beq (r_name r) name_cvs); [reflexivity|]. cbn [orb].
    rewrite is_log_empty_spec. destruct (beq (r_name r) name_checkflist && has_plain_line fs r); reflexivity.
  - unfold ports_skip_step. destruct (beq (r_name r) name_cvs); [reflexivity|].
    destruct (beq (r_name r) name_dpb); reflexivity.
  - unfold regress_skip_step, is_regress_step, is_regress_quiet, has_skipped_or_xfailed.
    rewrite He. cbn [Z.eqb andb].
    destruct (mem (r_name r) (c_regress cfg)); cbn [negb orb andb]; [|reflexivity].
    destruct (mem (r_name r) (c_quiet cfg)); cbn [negb orb andb]; [reflexivity|].
    destruct (r_log r) as [|x l]; [reflexivity|]. cbn [nonnil negb].
    destruct (f_log fs (x :: l)) as [| |c]; [reflexivity|reflexivity|].
    rewrite peek_positive. destruct (existsb (selected fl_peek) (drop_trace (clines c))); reflexivity.
  - destruct (beq (r_name r) name_cvs); [reflexivity|]. cbn [orb].
    rewrite is_log_empty_spec. destruct (beq (r_name r) name_checkflist && has_plain_line fs r); reflexivity.
Qed.

(* ---- trimming, cvs logs --------------------------------------------------------------------------- *)

Lemma drop_nl_snoc x c :
  drop_nl (x ++ [c]) =
    match drop_nl x with
    | [] => if c =? 10 then [] else [c]
    | d => d ++ [c]
    end.
Proof.
  induction x as [|y x IH]; cbn [app drop_nl].
  - destruct (c =? 10); reflexivity.
  - destruct (y =? 10); [exact IH|reflexivity].
Qed.

Lemma trim_lines_spec b : trim_lines b = rev (drop_nl (rev b)).
Proof.
  induction b as [|c b IH]; [reflexivity|].
  cbn [trim_lines rev]. rewrite drop_nl_snoc, IH.
  destruct (drop_nl (rev b)) as [|d ds] eqn:E.
  - cbn [rev]. destruct (c =? 10); reflexivity.
  - rewrite rev_app_distr. cbn [rev app].
    destruct (rev ds ++ [d]) as [|z zs] eqn:E2; [destruct (rev ds); discriminate E2|]. reflexivity.
Qed.

Lemma format_file_spec b : format_file b = spec_format b.
Proof. unfold format_file, spec_format. rewrite trim_lines_spec, !frev_rev. reflexivity. Qed.

Lemma join_nl_cons p ps : join_nl (p :: ps) = p ++ concat (map (cons 10) ps).
Proof.
  revert p; induction ps as [|q ps IH]; intros p.
  - cbn. now rewrite app_nil_r.
  - change (join_nl (p :: q :: ps)) with (p ++ 10 :: join_nl (q :: ps)). rewrite IH. reflexivity.
Qed.

(* the cvs logs that exist and are not empty *)
Definition present (fs : files) (names : list bytes) : list bytes :=
  flat_map (fun n => match f_tmp fs n with FData (c :: b) => [c :: b] | _ => [] end) names.

(* the loop that passes over a log that does not exist (/repo da850b3), when every log that is there can be read *)
Lemma cvs_loop_spec fs names k out :
  cvs_unreadable fs names = false ->
  cvs_loop_with true fs names k out =
    let parts := map spec_format (present fs names) in
    (out ++ (if Nat.ltb 0 k then concat (map (cons 10) parts) else join_nl parts), false).
Proof.
  revert k out; induction names as [|n ns IH]; intros k out Hu.
  - cbn [cvs_loop_with present flat_map map concat join_nl]. destruct (Nat.ltb 0 k); rewrite app_nil_r; reflexivity.
  - cbn [cvs_unreadable existsb] in Hu. apply orb_false_iff in Hu. destruct Hu as [Hn Hu]. fold (cvs_unreadable fs ns) in Hu.
    cbn [cvs_loop_with present flat_map]. fold (present fs ns).
    destruct (f_tmp fs n) as [| |[|x b]] eqn:En; cbn [app].
    + apply IH. exact Hu.
    + discriminate Hn.
    + apply IH. exact Hu.
    + rewrite IH by exact Hu. cbn [map]. rewrite format_file_spec. change (Nat.ltb 0 (S k)) with true.
      destruct (Nat.ltb 0 k).
      * cbn [concat map]. rewrite <- !app_assoc. reflexivity.
      * rewrite join_nl_cons, <- !app_assoc. reflexivity.
Qed.

(* ... and when one cannot, format_file fails on it and the loop ends with an error *)
Lemma cvs_loop_unreadable sk fs names k out :
  cvs_unreadable fs names = true -> snd (cvs_loop_with sk fs names k out) = true.
Proof.
  revert k out; induction names as [|n ns IH]; intros k out Hu; [discriminate Hu|].
  cbn [cvs_unreadable existsb] in Hu. fold (cvs_unreadable fs ns) in Hu. cbn [cvs_loop_with].
  destruct (f_tmp fs n) as [| |[|x b]] eqn:En; cbn [is_unreadable orb] in Hu.
  - destruct sk; [apply IH; exact Hu|reflexivity].
  - reflexivity.
  - apply IH. exact Hu.
  - apply IH. exact Hu.
Qed.

(* report_cvs_log as a whole: the specified text, or an error exactly when a log is there and cannot be read *)
Lemma cvs_log_spec m fs :
  (let '(b, e) := cvs_log_with fixed_sw m fs in if e then RErr else ROk b) = spec_cvs m fs.
Proof.
  unfold cvs_log_with, spec_cvs. rewrite cvs_names_fixed. change (sw_cvs_missing fixed_sw) with true.
  destruct (cvs_unreadable fs (spec_cvs_names m)) eqn:Hu.
  - pose proof (cvs_loop_unreadable true fs (spec_cvs_names m) 0 [10] Hu) as H.
    destruct (cvs_loop_with true fs (spec_cvs_names m) 0 [10]) as [b e]. cbn [snd] in H. now rewrite H.
  - rewrite cvs_loop_spec by exact Hu. reflexivity.
Qed.

Lemma cvs_log_fst_spec m fs :
  cvs_unreadable fs (spec_cvs_names m) = false -> ROk (fst (cvs_log_with fixed_sw m fs)) = spec_cvs m fs.
Proof.
  intros Hu. rewrite <- cvs_log_spec. unfold cvs_log_with. rewrite cvs_names_fixed. change (sw_cvs_missing fixed_sw) with true.
  rewrite cvs_loop_spec by exact Hu. reflexivity.
Qed.

(* D18, the loop as shipped before da850b3: the first cvs log that does not exist ends it with an error, and the
   report of a robsd-ports invocation without cvs logs fails with it, where the specification has a section *)
Lemma cvs_missing_refuted :
  exists m fs, snd (cvs_log_with sw_before_d18 m fs) = true /\ spec_cvs m fs = ROk [10].
Proof.
  exists Ports, (mkfiles (fun _ => FAbsent) (fun _ => FAbsent) FAbsent None None None None (fun _ _ => None)).
  split; reflexivity.
Qed.

(* ---- the last lines ----------------------------------------------------------------------------------- *)

Lemma split_nl_nonnil s : split_nl s <> [].
Proof.
  destruct s as [|c s]; cbn; [discriminate|].
  destruct (c =? 10); [discriminate|]. destruct (split_nl s); discriminate.
Qed.

Lemma take_nonempty_nonnil n l ls : take_nonempty (S n) (l :: ls) <> [].
Proof. cbn. destruct l; discriminate. Qed.

Lemma join_nl_nil_cons X : X <> [] -> join_nl ([] :: X) = 10 :: join_nl X.
Proof. destruct X; [congruence|reflexivity]. Qed.

Lemma join_nl_cons_char x l X : join_nl ((x :: l) :: X) = x :: join_nl (l :: X).
Proof. destruct X; reflexivity. Qed.

(* the loop entered in the middle of a line *)
Definition ll_mid (n : nat) (r acc : bytes) : bytes :=
  let '(r2, a2) := span_back notnl r acc in
  match r2 with [] => a2 | _ => last_lines_loop n r2 a2 end.

Definition take_mid (n : nat) (ls : list bytes) : list bytes :=
  match ls with [] => [] | l :: ls' => l :: take_nonempty n ls' end.

Lemma last_lines_loop_spec n :
  forall r acc, last_lines_loop n r acc = rev (join_nl (take_nonempty n (split_nl r))) ++ acc.
Proof.
  induction n as [|n IHn]; [intros r acc; cbn [last_lines_loop]; destruct (split_nl r); reflexivity|].
  assert (Hmid : forall r acc, ll_mid n r acc = rev (join_nl (take_mid n (split_nl r))) ++ acc).
  { induction r as [|x r IHr]; intros acc; [destruct n; reflexivity|].
    unfold ll_mid. cbn [span_back split_nl]. unfold notnl at 1.
    destruct (N.eqb_spec x 10) as [->|Hx]; cbn [negb].
    - rewrite IHn. cbn [split_nl N.eqb Pos.eqb take_mid].
      destruct (split_nl r) as [|l ls] eqn:E; [exfalso; eapply split_nl_nonnil; exact E|].
      destruct n as [|n']; reflexivity.
    - fold (ll_mid n r (x :: acc)). rewrite IHr.
      destruct (split_nl r) as [|l ls] eqn:E; [exfalso; eapply split_nl_nonnil; exact E|].
      cbn [take_mid]. rewrite join_nl_cons_char. cbn [rev]. rewrite <- app_assoc. reflexivity. }
  induction r as [|x r IHr]; intros acc; [reflexivity|].
  cbn [last_lines_loop span_back split_nl]. unfold isnl at 1.
  destruct (N.eqb_spec x 10) as [->|Hx].
  - change (let '(r1, a1) := span_back isnl r (10 :: acc) in
            let '(r2, a2) := span_back notnl r1 a1 in
            match r2 with [] => a2 | _ :: _ => last_lines_loop n r2 a2 end)
      with (last_lines_loop (S n) r (10 :: acc)).
    rewrite IHr.
    destruct (split_nl r) as [|l ls] eqn:E; [exfalso; eapply split_nl_nonnil; exact E|].
    change (take_nonempty (S n) ([] :: l :: ls)) with ([] :: take_nonempty (S n) (l :: ls)).
    rewrite join_nl_nil_cons by apply take_nonempty_nonnil.
    cbn [rev]. rewrite <- app_assoc. reflexivity.
  - change (let '(r2, a2) := span_back notnl (x :: r) acc in
            match r2 with [] => a2 | _ :: _ => last_lines_loop n r2 a2 end)
      with (ll_mid n (x :: r) acc).
    rewrite Hmid. cbn [split_nl]. apply N.eqb_neq in Hx. rewrite Hx.
    destruct (split_nl r) as [|l ls] eqn:E; [exfalso; eapply split_nl_nonnil; exact E|].
    reflexivity.
Qed.

Lemma last_lines_spec c n : last_lines c n = spec_tail n c.
Proof.
  unfold last_lines, spec_tail. rewrite last_lines_loop_spec, app_nil_r, !frev_rev. reflexivity.
Qed.

(* the excerpt: exact when the bytes are copied or the tail has no NUL byte *)
Lemma excerpt_spec copies c :
  copies = true \/ nonul (spec_tail 10 c) -> excerpt_with copies c = spec_excerpt c.
Proof.
  intros H. unfold excerpt_with, spec_excerpt, ends_with_nl. rewrite tail_lines_is, last_lines_spec.
  assert (E : (if copies then spec_tail 10 c else cstr (spec_tail 10 c)) = spec_tail 10 c).
  { destruct copies; [reflexivity|]. destruct H as [H|H]; [discriminate H|]. apply cstr_id. exact H. }
  rewrite E. destruct (frev (spec_tail 10 c)) as [|x t]; [reflexivity|]. destruct (x =? 10); reflexivity.
Qed.

(* ---- what follows the Log: line --------------------------------------------------------------------- *)

(* the source with every repair but D14's in either form *)
Definition sw_copies (ce cc : bool) : switches :=
  mksw ce cc true true true true (cvs_table_robsd_ports ++ cvs_table_regress).

(* exactly when the excerpt is printed as specified: the bytes are copied, or
   the part of the log that is shown holds no NUL byte *)
Definition body_guard (ce cc : bool) (m : mode) (fs : files) (r : srow) : Prop :=
  forall c, f_log fs (r_log r) = FData c ->
    match m with
    | Canvas => cc = true \/ nonul c
    | _ => ce = true \/ nonul (spec_tail 10 c)
    end.

(* the one place where a file that cannot be read does NOT end the report: outside robsd-ports the result of
   report_cvs_log is tested with "< 0" (STEP_LOG_ERROR is 3), so a cvs log that is there but unreadable gives an
   incomplete section instead of exit 1.  Unreadable files are outside the property; the guard keeps them out of the
   statements below *)
Definition cvs_guard (m : mode) (fs : files) : Prop :=
  m = Ports \/ cvs_unreadable fs (spec_cvs_names m) = false.

Lemma cvs_log_copies ce cc m fs : cvs_log_with (sw_copies ce cc) m fs = cvs_log_with fixed_sw m fs.
Proof. reflexivity. Qed.

Lemma spec_excerpt_nil : spec_excerpt [] = [10].
Proof. reflexivity. Qed.

Lemma generic_spec ce cc m fs r :
  (forall c, f_log fs (r_log r) = FData c -> ce = true \/ nonul (spec_tail 10 c)) ->
  cvs_unreadable fs (spec_cvs_names m) = false \/ beq (r_name r) name_cvs = false ->
  generic_step_log (sw_copies ce cc) m fs r = spec_generic_body m fs r.
Proof.
  intros G Hc. unfold generic_step_log, spec_generic_body.
  destruct (beq (r_name r) name_cvs) eqn:En.
  - destruct Hc as [Hc|Hc]; [|discriminate Hc]. rewrite cvs_log_copies. exact (cvs_log_fst_spec m fs Hc).
  - destruct (r_log r) as [|x l] eqn:El; [reflexivity|]. unfold log_content.
    destruct (f_log fs (x :: l)) as [| |c] eqn:Ec; [reflexivity|reflexivity|].
    cbn [sw_excerpt_copies sw_copies]. rewrite excerpt_spec; [reflexivity|]. apply G. reflexivity.
Qed.

Lemma generic_spec_nolog ce cc m fs r :
  r_log r = [] -> cvs_unreadable fs (spec_cvs_names m) = false \/ beq (r_name r) name_cvs = false ->
  generic_step_log (sw_copies ce cc) m fs r = spec_generic_body m fs r.
Proof.
  intros El Hc. unfold generic_step_log, spec_generic_body.
  destruct (beq (r_name r) name_cvs) eqn:En.
  - destruct Hc as [Hc|Hc]; [|discriminate Hc]. rewrite cvs_log_copies. exact (cvs_log_fst_spec m fs Hc).
  - rewrite El. reflexivity.
Qed.

Lemma file_blocks_nil fl : file_blocks fl [] = [].
Proof. reflexivity. Qed.

Lemma step_log_spec ce cc m cfg fs r :
  body_guard ce cc m fs r -> cvs_guard m fs ->
  step_log_with (sw_copies ce cc) m cfg fs r = spec_body m cfg fs r.
Proof.
  intros G Hg. unfold body_guard in G. unfold step_log_with, spec_body. destruct m.
  - destruct Hg as [Hg|Hg]; [discriminate Hg|]. apply generic_spec; [exact G|left; exact Hg].
  - destruct Hg as [Hg|Hg]; [discriminate Hg|]. apply generic_spec; [exact G|left; exact Hg].
  - unfold ports_step_log.
    destruct (beq (r_name r) name_cvs) eqn:En.
    + rewrite cvs_log_copies, <- cvs_log_spec. destruct (cvs_log_with fixed_sw Ports fs) as [b e]. destruct e; reflexivity.
    + destruct (beq (r_name r) name_dpb && (r_exit r =? 0)%Z).
      * destruct (f_tmp fs packages_diff) as [| |b]; [reflexivity|reflexivity|]. rewrite format_file_spec. reflexivity.
      * apply generic_spec; [exact G|right; exact En].
  - destruct Hg as [Hg|Hg]; [discriminate Hg|].
    unfold regress_step_log, is_regress_quiet, log_content.
    destruct (r_log r) as [|x l] eqn:El; [reflexivity|].
    destruct (f_log fs (x :: l)) as [| |c] eqn:Ec.
    + cbn [sw_regress_missing sw_copies]. rewrite file_blocks_nil. cbn [nonnil].
      apply generic_spec; [|left; exact Hg]. intros c0 E0. rewrite El, Ec in E0. discriminate E0.
    + reflexivity.
    + rewrite parse_spec. cbn [app fl_log fNEWLINE].
      destruct (file_blocks _ c) as [|b bl]; cbn [List.length Nat.ltb Nat.leb nonnil].
      * apply generic_spec; [|left; exact Hg]. intros c0 E0. apply G. rewrite El, Ec in E0. exact E0.
      * reflexivity.
  - destruct Hg as [Hg|Hg]; [discriminate Hg|].
    unfold canvas_step_log, log_content.
    destruct (r_log r) as [|x l] eqn:El; [apply generic_spec_nolog; [exact El|left; exact Hg]|].
    destruct (f_log fs (x :: l)) as [| |c] eqn:Ec; [reflexivity|reflexivity|].
    cbn [sw_canvas_copies sw_copies].
    destruct cc; [reflexivity|]. destruct (G c eq_refl) as [H|H]; [discriminate H|].
    rewrite cstr_id by exact H. reflexivity.
Qed.

Definition is_err {A} (x : result A) : bool := match x with RErr => true | ROk _ => false end.

(* the body clause for the source with every repair in place *)
Lemma step_log_fixed m cfg fs r :
  cvs_guard m fs -> step_log_with fixed_sw m cfg fs r = spec_body m cfg fs r.
Proof.
  intros Hg. change fixed_sw with (sw_copies true true). apply step_log_spec; [|exact Hg].
  intros c _. destruct m; left; reflexivity.
Qed.

(* ---- sections ----------------------------------------------------------------------------------------- *)

Definition section_of (r : srow) (b : bytes) : section :=
  mksec (r_name r) (cast_int (r_exit r)) (step_duration r) (r_log r) b.

Definition body_or_nil_with (w : switches) (m : mode) (cfg : cfgview) (fs : files) (r : srow) : bytes :=
  match step_log_with w m cfg fs r with ROk b => b | RErr => [] end.
Definition body_or_nil := body_or_nil_with cur_sw.

Lemma row_error_alt m cfg fs r :
  cvs_guard m fs ->
  row_error m cfg fs r =
    nonskipped r && (candidate_without_log m cfg r || (spec_shown m cfg fs r && is_err (step_log_with fixed_sw m cfg fs r))).
Proof. intros Hg. unfold row_error. rewrite (step_log_fixed m cfg fs r Hg). unfold is_err. reflexivity. Qed.

Lemma steps_loop_spec m cfg fs rows :
  cvs_guard m fs ->
  steps_loop_with fixed_sw m cfg fs rows =
    if existsb (row_error m cfg fs) rows then RErr
    else ROk (map (fun r => section_of r (body_or_nil_with fixed_sw m cfg fs r)) (filter (spec_shown m cfg fs) rows)).
Proof.
  intros Hg. unfold steps_loop_with. induction rows as [|r rs IH]; [reflexivity|].
  cbn [steps_loop_gen existsb filter]. rewrite (row_error_alt m cfg fs r Hg), row_skipped_is.
  destruct (Z.eqb_spec (r_skip r) 1) as [Es|Es].
  - assert (Hn : nonskipped r = false) by (unfold nonskipped; rewrite Es; reflexivity).
    unfold spec_shown at 2. rewrite Hn. cbn [andb orb]. exact IH.
  - assert (Hn : nonskipped r = true) by (unfold nonskipped; apply Z.eqb_neq in Es; rewrite Es; reflexivity).
    fold (decide m cfg fs r). rewrite (decide_spec m cfg fs r Hn), Hn. cbn [andb].
    destruct (candidate_without_log m cfg r); [reflexivity|]. cbn [orb].
    destruct (spec_shown m cfg fs r) eqn:Hs; cbn [andb].
    + destruct (step_log_with fixed_sw m cfg fs r) as [b|] eqn:Eb; cbn [is_err orb]; [|reflexivity].
      rewrite IH. destruct (existsb (row_error m cfg fs) rs); [reflexivity|]. cbn [map].
      replace (body_or_nil_with fixed_sw m cfg fs r) with b by (unfold body_or_nil_with; rewrite Eb; reflexivity). reflexivity.
    + exact IH.
Qed.

Theorem report_error_iff m cfg rows fs :
  cvs_guard m fs ->
  (report_struct_rows_with fixed_sw m cfg rows fs = RErr <-> spec_error m cfg fs rows = true).
Proof.
  intros Hg. unfold report_struct_rows_with, report_struct_rows_gen, spec_error. fold (steps_loop_with fixed_sw m cfg fs rows). rewrite (steps_loop_spec m cfg fs rows Hg).
  destruct (c_running cfg); cbn [negb orb]; [|tauto].
  destruct (f_comment fs); cbn [orb];
    destruct (existsb (row_error m cfg fs) rows); split; intros H; try reflexivity; try discriminate H.
Qed.

Theorem sections_exact m cfg rows fs rep :
  cvs_guard m fs ->
  report_struct_rows_with fixed_sw m cfg rows fs = ROk rep ->
  rp_sections rep = map (fun r => section_of r (body_or_nil_with fixed_sw m cfg fs r)) (filter (spec_shown m cfg fs) rows) /\
  (forall r, In r (filter (spec_shown m cfg fs) rows) ->
     step_log_with fixed_sw m cfg fs r = ROk (body_or_nil_with fixed_sw m cfg fs r)).
Proof.
  intros Hg. unfold report_struct_rows_with, report_struct_rows_gen. fold (steps_loop_with fixed_sw m cfg fs rows). rewrite (steps_loop_spec m cfg fs rows Hg).
  destruct (c_running cfg); cbn [negb]; [|discriminate].
  destruct (existsb (row_error m cfg fs) rows) eqn:Ee.
  - destruct (f_comment fs); discriminate.
  - intros H. split.
    + destruct (f_comment fs); try discriminate H; injection H as <-; reflexivity.
    + intros r Hin. apply filter_In in Hin. destruct Hin as [Hin Hs].
      assert (Hr : row_error m cfg fs r = false).
      { destruct (row_error m cfg fs r) eqn:E; [|reflexivity].
        assert (existsb (row_error m cfg fs) rows = true) by (apply existsb_exists; exists r; tauto). congruence. }
      rewrite (row_error_alt m cfg fs r Hg), Hs in Hr. unfold body_or_nil_with.
      destruct (step_log_with fixed_sw m cfg fs r) as [b|]; [reflexivity|].
      unfold spec_shown in Hs. apply andb_true_iff in Hs. destruct Hs as [Hn _]. rewrite Hn in Hr.
      cbn in Hr. rewrite orb_true_r in Hr. discriminate Hr.
Qed.

(* the keys of the sections, in order: the listed rows; failing rows are always
   listed, skipped rows never *)
Theorem every_failure_has_section m cfg rows fs rep :
  cvs_guard m fs ->
  report_struct_rows_with fixed_sw m cfg rows fs = ROk rep ->
  map (fun s => (s_name s, (s_exit s, s_log s))) (rp_sections rep) =
    map (fun r => (r_name r, (cast_int (r_exit r), r_log r))) (filter (spec_shown m cfg fs) rows) /\
  (forall r, In r rows -> r_skip r <> 1%Z -> r_exit r <> 0%Z -> spec_shown m cfg fs r = true) /\
  (forall r, r_skip r = 1%Z -> spec_shown m cfg fs r = false) /\
  (forall r, spec_shown m cfg fs r = true -> r_exit r = 0%Z -> listed_anyway m cfg fs r = true).
Proof.
  intros Hg H. apply (sections_exact _ _ _ _ _ Hg) in H. destruct H as [-> _]. split; [|split; [|split]].
  - rewrite map_map. reflexivity.
  - intros r _ Hs He. unfold spec_shown, nonskipped.
    apply Z.eqb_neq in Hs. apply Z.eqb_neq in He. rewrite Hs, He. reflexivity.
  - intros r Hs. unfold spec_shown, nonskipped. rewrite Hs. reflexivity.
  - intros r Hs He. unfold spec_shown in Hs. rewrite He in Hs. cbn in Hs.
    apply andb_true_iff in Hs. tauto.
Qed.

(* the body under the exact guard of D14 (either form of the two prints) *)
Theorem body_partial ce cc m cfg fs r :
  body_guard ce cc m fs r -> cvs_guard m fs ->
  step_log_with (sw_copies ce cc) m cfg fs r = spec_body m cfg fs r.
Proof. apply step_log_spec. Qed.

(* D14: a NUL byte in the last lines cuts the excerpt; the real last line never
   reaches the report *)
Definition d14_row : srow := mksrow [98] 1 5 0 [98; 46; 108; 111; 103] 2 0.
Definition d14_log : bytes := [108; 49; 10; 108; 50; 0; 109; 105; 100; 10; 108; 97; 115; 116; 10].
Definition d14_files : files :=
  mkfiles (fun _ => FData d14_log) (fun _ => FAbsent) FAbsent None None None None (fun _ _ => None).
Definition d14_cfg : cfgview := mkcfg [47; 98] true [47] [47; 97] [] [] [] [].

(* the source as shipped (both prints were %s conversions) *)
Theorem body_refuted :
  exists m cfg fs r, spec_shown m cfg fs r = true /\
    step_log_with sw_before_d14 m cfg fs r = ROk [10; 108; 49; 10; 108; 50] /\
    spec_body m cfg fs r = ROk (10 :: d14_log).
Proof. exists Robsd, d14_cfg, d14_files, d14_row. repeat split. Qed.

Theorem canvas_body_refuted :
  exists cfg fs r, step_log_with sw_before_d14 Canvas cfg fs r <> spec_body Canvas cfg fs r.
Proof. exists d14_cfg, d14_files, d14_row. vm_compute. intro E. discriminate E. Qed.

(* ---- sanitizing ------------------------------------------------------------------------------------------ *)

Lemma sanitize_byte_spec c : sanitize_byte c = spec_sanitize_byte c.
Proof.
  unfold sanitize_byte, spec_sanitize_byte, sanitize_table. cbn [lookup_byte].
  destruct (c =? 0); [reflexivity|]. destruct (c =? 13); reflexivity.
Qed.

Lemma sanitize_spec s : sanitize s = spec_sanitize s.
Proof.
  unfold sanitize, spec_sanitize. induction s as [|c s IH]; [reflexivity|].
  cbn [flat_map]. now rewrite sanitize_byte_spec, IH.
Qed.

Lemma spec_sanitize_byte_clean c x : In x (spec_sanitize_byte c) -> x <> 0 /\ x <> 13.
Proof.
  unfold spec_sanitize_byte.
  destruct (N.eqb_spec c 0) as [->|H0].
  - cbn. intros [<-|[<-|[<-|[<-|[]]]]]; split; discriminate.
  - destruct (N.eqb_spec c 13) as [->|H13].
    + cbn. intros [<-|[<-|[]]]; split; discriminate.
    + cbn. intros [<-|[]]. tauto.
Qed.

Theorem sanitize_total s : ~ In 0 (sanitize s) /\ ~ In 13 (sanitize s).
Proof.
  rewrite sanitize_spec. unfold spec_sanitize.
  split; intros H; apply in_flat_map in H; destruct H as [c [_ Hx]];
    apply spec_sanitize_byte_clean in Hx; destruct Hx; congruence.
Qed.

Lemma sane_iff out : sane out = true <-> ~ In 0 out /\ ~ In 13 out.
Proof.
  unfold sane. rewrite forallb_forall. split.
  - intros H. split; intros Hin; apply H in Hin; discriminate Hin.
  - intros [H0 H13] c Hc. destruct (N.eqb_spec c 0) as [->|]; [contradiction|].
    destruct (N.eqb_spec c 13) as [->|]; [contradiction|]. reflexivity.
Qed.

Theorem render_sane host rep :
  ~ In 0 (render host rep) /\ ~ In 13 (render host rep) /\ cstr (render host rep) = render host rep.
Proof.
  destruct (sanitize_total (render_raw host rep)) as [H0 H13]. split; [exact H0|]. split; [exact H13|].
  apply cstr_id. apply Forall_forall. intros c Hc E. subst c. contradiction.
Qed.

(* ---- the oracles say what the specification says ------------------------------------------------------- *)

Lemma list_eqb_spec {A} (eqb : A -> A -> bool) (a b : list A) :
  (forall x y, eqb x y = true <-> x = y) -> (list_eqb eqb a b = true <-> a = b).
Proof.
  intros He. revert b; induction a as [|x a IH]; intros [|y b]; cbn; try (split; [discriminate|congruence]).
  - tauto.
  - rewrite andb_true_iff, He, IH. split; [intros [-> ->]; reflexivity|intros E; injection E; auto].
Qed.

Lemma key_eqb_spec a b : key_eqb a b = true <-> a = b.
Proof.
  destruct a as [n1 [e1 l1]], b as [n2 [e2 l2]]. unfold key_eqb. cbn [fst snd].
  rewrite !andb_true_iff, !beq_eq, Z.eqb_eq. split; [intros [[-> ->] ->]; reflexivity|intros E; injection E; auto].
Qed.

Lemma spec_ok_sections_iff x rows keys :
  rows_of x = Some rows ->
  (spec_ok_sections x keys = true <->
   keys = map (fun r => (r_name r, (cast_int (r_exit r), r_log r)))
              (filter (spec_shown (x_mode x) (cfg_of x) (files_of x)) rows)).
Proof. intros E. unfold spec_ok_sections. rewrite E. apply list_eqb_spec. apply key_eqb_spec. Qed.

Lemma spec_ok_exit_iff x rows exit :
  rows_of x = Some rows ->
  (spec_ok_exit x exit = true <->
   exit = if spec_error (x_mode x) (cfg_of x) (files_of x) rows then 1 else 0).
Proof. intros E. unfold spec_ok_exit. rewrite E. apply N.eqb_eq. Qed.

Lemma spec_ok_body_iff x rows k body :
  rows_of x = Some rows ->
  (spec_ok_body x k body = true <->
   exists r b, nth_error (filter (spec_shown (x_mode x) (cfg_of x) (files_of x)) rows) k = Some r /\
               spec_body (x_mode x) (cfg_of x) (files_of x) r = ROk b /\ body = spec_sanitize b).
Proof.
  intros E. unfold spec_ok_body. rewrite E.
  destruct (nth_error _ k) as [r|] eqn:En; [|split; [discriminate|intros [r [b [H _]]]; discriminate H]].
  destruct (spec_body _ _ _ r) as [b|] eqn:Eb.
  - rewrite beq_eq. split; [intros ->; exists r, b; repeat split; assumption|].
    intros [r' [b' [H1 [H2 ->]]]]. congruence.
  - split; [discriminate|]. intros [r' [b' [H1 [H2 _]]]]. congruence.
Qed.

Lemma spec_ok_status_iff x rows subject status :
  rows_of x = Some rows -> status_hyps (x_mode x) rows = true ->
  (spec_ok_status x subject status = true ->
   status = spec_status (x_mode x) rows /\
   ((counting (x_mode x) = true -> skipped_exit0 rows) /\ (counting (x_mode x) = false -> reachable_seq rows))).
Proof.
  intros E Hh. unfold spec_ok_status. rewrite E, Hh. rewrite andb_true_iff, beq_eq. intros [-> _].
  split; [reflexivity|]. unfold status_hyps in Hh. destruct (counting (x_mode x)).
  - split; [intros _; apply skipped_exit0b_iff; exact Hh|discriminate].
  - split; [discriminate|intros _; apply reachable_seqb_iff; exact Hh].
Qed.

(* the model's own report passes the oracles (whenever the body guard holds) *)
Theorem model_passes_oracles x rows rep :
  cvs_guard (x_mode x) (files_of x) ->
  rows_of x = Some rows ->
  report_struct_rows_with fixed_sw (x_mode x) (cfg_of x) rows (files_of x) = ROk rep ->
  spec_ok_sections x (map (fun s => (s_name s, (s_exit s, s_log s))) (rp_sections rep)) = true /\
  (status_hyps (x_mode x) rows = true -> beq (rp_status rep) (spec_status (x_mode x) rows) = true) /\
  spec_ok_sane (render (x_host x) rep) = true.
Proof.
  intros Hg E H. split; [|split].
  - apply (spec_ok_sections_iff x rows _ E). apply (every_failure_has_section _ _ _ _ _ Hg H).
  - intros Hh. apply beq_eq.
    assert (Hst : rp_status rep = report_status (x_mode x) rows).
    { unfold report_struct_rows_with, report_struct_rows_gen in H. destruct (negb (c_running (cfg_of x))); [discriminate|].
      destruct (f_comment (files_of x)); try discriminate;
        destruct (steps_loop_gen _ _ _ _ _ rows); try discriminate; injection H as <-; reflexivity. }
    rewrite Hst. unfold status_hyps in Hh. apply status_agrees.
    + intros Hc. rewrite Hc in Hh. apply skipped_exit0b_iff. exact Hh.
    + intros Hc. rewrite Hc in Hh. apply reachable_seqb_iff. exact Hh.
  - apply sane_iff. destruct (render_sane (x_host x) rep) as [H0 [H13 _]]. tauto.
Qed.
