(* DurationDefs.v - executable model of the numbers in the report.  Definitions only.
   Anchors: report.c format_duration, format_duration_and_delta,
   report_stats_duration, format_size, report_stats_sizes (selection and line
   format); step.c steps_total_duration, steps_find_by_name; util.sh
   duration_total; util-regress.sh regress_duration_total.

   Integers are Z.  The C code computes in int64_t / size_t / double:
     - sums and differences of durations and times are assumed not to leave
       int64_t (DurationProofs.total_fits: fewer than 2^22 rows with durations
       within +-2^40 cannot);
     - -delta is undefined for INT64_MIN; the model is for |delta| < 2^63;
     - the (int) casts of format_duration and of the Exit line are written out
       ([cast_int]);
     - format_size divides a size_t converted to double by a power of two and
       prints it with "%.01f": for sizes below 2^53 the conversion and the
       division are exact, and glibc prints the correctly rounded decimal of
       that exact binary value, ties to even (round-to-nearest mode).  That is
       what [format_size] computes with integers.  Sizes from 2^53 on are
       outside the model.
   The thresholds, the comparison operators at the thresholds, the unit
   boundaries and the special names come from the translator (Gen_Report). *)
From Robsd Require Export Base.Decimal Report.ReportTypes Inv.LsDefs.
From RobsdGen Require Export Gen_Report.
From Coq Require Import String.
Local Open Scope N_scope.

(* (int)x for an int64_t x on LP64: reduction modulo 2^32 into [-2^31, 2^31) *)
Definition cast_int (z : Z) : Z := ((z + 2147483648) mod 4294967296 - 2147483648)%Z.

(* printf("%02d", v): sign, digits, zero padded to two characters; wider numbers are not cut *)
Definition pad2 (z : Z) : bytes :=
  match render_Z z with
  | [c] => [48; c]
  | s => s
  end.

Definition COLON : N := 58.

(* format_duration: C division truncates towards zero *)
Definition format_duration (d : Z) : bytes :=
  let hours := Z.quot d 3600 in
  let d1 := Z.rem d 3600 in
  let minutes := Z.quot d1 60 in
  let seconds := Z.rem d1 60 in
  pad2 (cast_int hours) ++ COLON :: pad2 (cast_int minutes) ++ COLON :: pad2 (cast_int seconds).

(* format_duration_and_delta *)
Definition delta_suffix (delta : Z) : bytes :=
  let a := if (delta <? 0)%Z then (- delta)%Z else delta in
  [32; 40] ++ [if (delta <? 0)%Z then 45 else 43] ++ format_duration a ++ [41].

Definition format_duration_and_delta (duration delta thr : Z) : bytes :=
  if (delta =? 0)%Z then format_duration duration
  else
    let a := if (delta <? 0)%Z then (- delta)%Z else delta in
    if delta_suppressed a thr then format_duration duration
    else format_duration duration ++ delta_suffix delta.

(* steps_total_duration *)
Definition total_step (acc : Z) (r : srow) : Z :=
  if (r_skip r =? 1)%Z then acc
  else if beq (r_name r) name_end then acc
  else (acc + r_duration r)%Z.

Definition c_total (m : mode) (rows : list srow) : Z :=
  match m with
  | Regress =>
      match rows with
      | [] => 0%Z
      | r0 :: _ => (r_time (last rows r0) - r_time r0)%Z
      end
  | _ => fold_left total_step rows 0%Z
  end.

(* steps_find_by_name: the first row of that name, skipped or not *)
Definition find_by_name (rows : list srow) (name : bytes) : option srow :=
  find (fun r => beq (r_name r) name) rows.

(* report_stats_duration: (duration, delta) handed to format_duration_and_delta *)
Definition stats_total (m : mode) (rows : list srow) : Z * Z :=
  match find_by_name rows name_end with
  | Some e => (r_duration e, r_delta e)
  | None => (c_total m rows, 0%Z)
  end.

Definition stats_duration (m : mode) (rows : list srow) : bytes :=
  let '(d, delta) := stats_total m rows in
  format_duration_and_delta d delta threshold_duration_s.

(* the Duration: line of a step section *)
Definition step_duration (r : srow) : bytes :=
  format_duration_and_delta (r_duration r) (r_delta r) step_delta_threshold.

(* ---- the shell twins -------------------------------------------------------------
   step_eval <i> <file> is `robsd-step -R -f file -i <i>`: positive i selects the
   i-th row of the file, negative i counts from the end (C01: StepDefs.select_row);
   it fails when there is no such row.  step_skip is [ "${_skip}" -eq 1 ].
   Shell arithmetic is 64 bit; the same no-overflow assumption as for C. *)
Definition sh_select (rows : list srow) (i : Z) : option srow :=
  if (0 <? i)%Z then nth_error rows (Z.to_nat (i - 1))
  else if (i <? 0)%Z then
    (if (- i <=? Z.of_nat (List.length rows))%Z
     then nth_error rows (Z.to_nat (Z.of_nat (List.length rows) + i)) else None)
  else None.

(* the while loop of duration_total: _i counts up until step_eval fails *)
Fixpoint sh_total_loop (fuel : nat) (i : Z) (rows : list srow) (tot : Z) : Z :=
  match fuel with
  | O => tot
  | S fuel' =>
      match sh_select rows i with
      | None => tot
      | Some r =>
          if (r_skip r =? 1)%Z then sh_total_loop fuel' (i + 1) rows tot
          else if beq (r_name r) name_end then sh_total_loop fuel' (i + 1) rows tot
          else sh_total_loop fuel' (i + 1) rows (tot + r_duration r)
      end
  end.

(* regress_duration_total *)
Definition sh_regress_total (rows : list srow) : Z :=
  let t0 := match sh_select rows 1 with Some r => r_time r | None => 0%Z end in
  let t1 := match sh_select rows (-1) with Some r => r_time r | None => 0%Z end in
  (t1 - t0)%Z.

(* duration_total -s steps with _MODE = mode; the loop ends at the first
   missing position, which the fuel length+1 always reaches *)
Definition sh_total (m : mode) (rows : list srow) : Z :=
  match m with
  | Regress => sh_regress_total rows
  | _ => sh_total_loop (S (List.length rows)) 1 rows 0
  end.

(* ---- sizes --------------------------------------------------------------------------- *)

(* n/d rounded to the nearest integer, ties to the even one (d > 0, n >= 0) *)
Definition round_half_even (n d : Z) : Z :=
  let q := (n / d)%Z in
  let r := (n mod d)%Z in
  if (2 * r <? d)%Z then q
  else if (d <? 2 * r)%Z then (q + 1)%Z
  else if Z.even q then q else (q + 1)%Z.

(* the first unit of [size_units] (largest first) the size reaches, else bytes *)
Fixpoint pick_unit (units : list (Z * bytes)) (size : Z) : Z * bytes :=
  match units with
  | [] => (1%Z, [])
  | (u, p) :: us => if (u <=? size)%Z then (u, p) else pick_unit us size
  end.

(* format_size: "%.01f%s" of size / div *)
Definition format_size (size : Z) : bytes :=
  let '(u, p) := pick_unit size_units size in
  let t := round_half_even (size * 10) u in
  render_Z (t / 10) ++ 46 :: render_Z (t mod 10) ++ p.

Definition isdigitb (c : N) : bool := (48 <=? c) && (c <=? 57).

Definition dot_diff_dot := Eval vm_compute in bs ".diff."%string.

(* all suffixes of a string, longest first *)
Fixpoint tails (s : bytes) : list bytes :=
  s :: match s with [] => [] | _ :: s' => tails s' end.

(* fnmatch("*.diff.[[:digit:]]*", name, 0) == 0 in the C locale: ".diff." followed by a digit occurs *)
Definition is_numbered_diff (name : bytes) : bool :=
  existsb (fun t => prefixb dot_diff_dot t &&
                    match skipn 6 t with c :: _ => isdigitb c | [] => false end) (tails name).

Definition size_excluded (name : bytes) : bool :=
  beq name name_changelog || is_numbered_diff name.

(* an entry of <builddir>/rel as readdir + stat deliver it *)
Record relfile := mkrel { rf_name : bytes; rf_size : Z }.

Record size_entry := mkse { se_name : bytes; se_size : Z; se_delta : Z }.

Definition below_threshold (name : bytes) (a : Z) : bool :=
  if beq name name_ramdisk then size_below_ramdisk a threshold_size_ramdisk_b
  else size_below a threshold_size_b.

(* the loop of report_stats_sizes: entries in readdir order; [prev name] is
   st_size of <prev>/rel/<name>, None when stat fails *)
Definition size_entry_of (prev : bytes -> option Z) (f : relfile) : list size_entry :=
  if hidden (rf_name f) then []
  else if size_excluded (rf_name f) then []
  else match prev (rf_name f) with
       | None => []
       | Some p =>
           let delta := (rf_size f - p)%Z in
           let a := if (delta <? 0)%Z then (- delta)%Z else delta in
           if below_threshold (rf_name f) a then [] else [mkse (rf_name f) (rf_size f) delta]
       end.

Definition size_entries (cur : list relfile) (prev : bytes -> option Z) : list size_entry :=
  flat_map (size_entry_of prev) cur.

Definition size_prefix := Eval vm_compute in bs "Size: "%string.

(* "Size: %s %s (%c%s)" *)
Definition size_line (e : size_entry) : bytes :=
  let a := if (se_delta e <? 0)%Z then (- se_delta e)%Z else se_delta e in
  size_prefix ++ se_name e ++ 32 :: format_size (se_size e) ++
  [32; 40] ++ [if (se_delta e <? 0)%Z then 45 else 43] ++ format_size a ++ [41].

(* VECTOR_SORT(sizes, size_cmp): the formatted lines ordered by strcmp; [isort]
   (Inv/LsDefs.v) is the executable stand-in for qsort, ascending *)
Definition size_lines (cur : list relfile) (prev : bytes -> option Z) : list bytes :=
  isort (map size_line (size_entries cur prev)).
