(* ReportNeverHidden.v - "a failed step is never hidden", down to the bytes robsd-report prints.  All theorems are
   about the source with every repair in place ([fixed_sw]); the earlier forms have their witnesses.

     failure_has_section     every failing row of a report that is produced has its section, at its place,
                             with the specified body
     failed_step_is_printed  ... and the sanitized text of that section is part of standard output
     status_is_printed       the Subject: and Status: lines carry [report_status]
     never_hidden            inside the property's quantifier ([inside]: lock file there, nothing unreadable,
                             packages.diff written by a passing dpb, regress rows carry log names) a report IS
                             produced and has those sections - whichever logs exist or do not exist
     error_only_outside      the named ways to get no report at all; report_main_silent: then exit 1, nothing printed
     missing_log_refuted     D24: before the repair a row whose log does not exist (invocation killed between the
                             in-flight record and tee's open) silenced the whole report
     regress_cvs_refuted     D25: before the regress rows of the cvs table the failed cvs step's section was empty
     ports_cvs_logs_missing_*  D18
     never_hidden_or_silent  the dichotomy
     model_passes_all_oracles  every oracle the harness applies to the implementation accepts the model *)
From Robsd Require Import Report.ReportSpec Report.ReportProofs.
Local Open Scope N_scope.

Lemma report_fields w m cfg rows fs rep :
  report_struct_rows_with w m cfg rows fs = ROk rep ->
  rp_status rep = report_status m rows /\ rp_mode rep = m /\ rp_subject rep = subject_of m cfg fs.
Proof.
  unfold report_struct_rows_with, report_struct_rows_gen. destruct (negb (c_running cfg)); [discriminate|].
  destruct (f_comment fs); try discriminate; destruct (steps_loop_gen w _ m cfg fs rows); try discriminate;
    intros H; injection H as <-; repeat split.
Qed.

Lemma failing_shown m cfg fs r : failing r = true -> spec_shown m cfg fs r = true.
Proof.
  unfold failing, spec_shown. intros H. apply andb_true_iff in H. destruct H as [-> ->]. reflexivity.
Qed.

Lemma skipped_not_shown m cfg fs r : r_skip r = 1%Z -> spec_shown m cfg fs r = false.
Proof. intros H. unfold spec_shown, nonskipped. now rewrite H. Qed.

Theorem failure_has_section m cfg a r b fs rep :
  cvs_guard m fs ->
  report_struct_rows_with fixed_sw m cfg (a ++ r :: b) fs = ROk rep -> failing r = true ->
  exists bd,
    spec_body m cfg fs r = ROk bd /\
    rp_sections rep =
      map (fun x => section_of x (body_or_nil_with fixed_sw m cfg fs x)) (filter (spec_shown m cfg fs) a) ++
      section_of r bd ::
      map (fun x => section_of x (body_or_nil_with fixed_sw m cfg fs x)) (filter (spec_shown m cfg fs) b).
Proof.
  intros Hg H Hf. destruct (sections_exact _ _ _ _ _ Hg H) as [Hs Hb].
  pose proof (failing_shown m cfg fs r Hf) as Hsh.
  exists (body_or_nil_with fixed_sw m cfg fs r). split.
  - rewrite <- (step_log_fixed m cfg fs r Hg). apply Hb. apply filter_In. split; [apply in_or_app; right; now left|exact Hsh].
  - rewrite Hs, filter_app. cbn [filter]. rewrite Hsh, map_app. reflexivity.
Qed.

(* ---- down to the printed bytes ----------------------------------------------------------------------------- *)

Lemma sanitize_app a b : sanitize (a ++ b) = sanitize a ++ sanitize b.
Proof. unfold sanitize. apply flat_map_app. Qed.

Lemma render_with_section host rep sa s sb :
  rp_sections rep = sa ++ s :: sb ->
  exists pre post, render host rep = pre ++ spec_sanitize (render_section s) ++ post.
Proof.
  intros E. unfold render, render_raw. rewrite E, map_app, concat_app. cbn [map concat].
  rewrite !app_assoc. rewrite sanitize_app. rewrite sanitize_app.
  eexists _, _. rewrite <- sanitize_spec. rewrite <- app_assoc. reflexivity.
Qed.

Lemma report_main_ok w m cfg host content fs out :
  report_main_with w m cfg host (Some content) fs = (0, out) ->
  exists rows rep, parse_file content = Some rows /\
    report_struct_rows_with w m cfg (map view rows) fs = ROk rep /\ out = render host rep.
Proof.
  unfold report_main_with, report_struct_with. destruct (parse_file content) as [rows|]; [|discriminate].
  destruct (report_struct_rows_with w m cfg (map view rows) fs) as [rep|] eqn:E; [|discriminate].
  intros H. injection H as <-. exists rows, rep. repeat split; auto.
  destruct (render_sane host rep) as [_ [_ Hc]]. exact Hc.
Qed.

Theorem failed_step_is_printed m cfg host content fs out rows a r b :
  cvs_guard m fs ->
  report_main_with fixed_sw m cfg host (Some content) fs = (0, out) ->
  parse_file content = Some rows -> map view rows = a ++ r :: b -> failing r = true ->
  exists bd pre post,
    spec_body m cfg fs r = ROk bd /\
    out = pre ++ spec_sanitize (render_section (section_of r bd)) ++ post /\
    render_section (section_of r bd) =
      [10; 62; 32] ++ r_name r ++ [10] ++ s_exit_ ++ render_Z (cast_int (r_exit r)) ++ [10] ++
      s_duration_ ++ step_duration r ++ [10] ++ s_log_ ++ r_log r ++ [10] ++ bd.
Proof.
  intros Hg H Hp Hr Hf. destruct (report_main_ok _ _ _ _ _ _ _ H) as [rows' [rep [Hp' [Hs ->]]]].
  rewrite Hp in Hp'. injection Hp' as <-. rewrite Hr in Hs.
  destruct (failure_has_section _ _ _ _ _ _ _ Hg Hs Hf) as [bd [Hb Hsec]].
  destruct (render_with_section host rep _ _ _ Hsec) as [pre [post E]].
  exists bd, pre, post. repeat split; auto.
Qed.

(* what follows "Subject: " on the first line *)
Definition subject_text (host : bytes) (rep : Report) : bytes :=
  mode_str (rp_mode rep) ++ [58; 32] ++
  match rp_subject rep with
  | SubjCanvas n => n ++ [58; 32] ++ rp_status rep
  | SubjHost p => host ++ [58] ++ p ++ rp_status rep
  end.

Theorem status_is_printed w m cfg host content fs out rows :
  report_main_with w m cfg host (Some content) fs = (0, out) -> parse_file content = Some rows ->
  exists rep post,
    rp_status rep = report_status m (map view rows) /\
    out = spec_sanitize (s_subject ++ subject_text host rep ++ [10; 10] ++
                         s_stats ++ [10] ++ s_status ++ rp_status rep ++ [10]) ++ post /\
    exists pre, subject_text host rep = pre ++ rp_status rep.
Proof.
  intros H Hp. destruct (report_main_ok _ _ _ _ _ _ _ H) as [rows' [rep [Hp' [Hs ->]]]].
  rewrite Hp in Hp'. injection Hp' as <-. destruct (report_fields _ _ _ _ _ _ Hs) as [Hst _].
  exists rep. eexists. split; [exact Hst|]. split.
  - unfold render, render_raw, render_subject, subject_text. rewrite <- sanitize_spec.
    repeat rewrite <- app_assoc. repeat rewrite sanitize_app. repeat rewrite <- app_assoc. reflexivity.
  - unfold subject_text. destruct (rp_subject rep); eexists; repeat rewrite app_assoc; reflexivity.
Qed.

(* ---- no report at all: only outside what the orchestrator leaves behind ---------------------------------------- *)

Theorem report_main_silent m cfg host content rows fs :
  cvs_guard m fs ->
  parse_file content = Some rows -> spec_error m cfg fs (map view rows) = true ->
  report_main_with fixed_sw m cfg host (Some content) fs = (1, []).
Proof.
  intros Hg Hp He. unfold report_main_with, report_struct_with. rewrite Hp.
  apply (report_error_iff _ _ _ _ Hg) in He. rewrite He. reflexivity.
Qed.

(* what [spec_error] can be: each alternative is named (ReportSpec.v) and argued to be outside the step files and
   directories the orchestrator and its scripts leave behind.  A log that DOES NOT EXIST is not among them. *)
Lemma spec_body_err_outside m cfg fs r :
  spec_body m cfg fs r = RErr ->
  names_unreadable m fs r = true \/ dpb_without_diff m fs r = true \/ regress_without_log_name m r = true.
Proof.
  assert (Hcv : forall m', spec_cvs m' fs = RErr -> cvs_unreadable fs (spec_cvs_names m') = true).
  { intros m'. unfold spec_cvs. destruct (cvs_unreadable fs (spec_cvs_names m')); [reflexivity|discriminate]. }
  assert (Hlog : forall l, log_content fs l = RErr -> is_unreadable (f_log fs l) = true).
  { intros l. unfold log_content. destruct (f_log fs l); try discriminate. reflexivity. }
  assert (Hgen : spec_generic_body m fs r = RErr -> names_unreadable m fs r = true).
  { unfold spec_generic_body, names_unreadable. destruct (beq (r_name r) name_cvs).
    - intros H. rewrite (Hcv m H). rewrite orb_true_r. reflexivity.
    - destruct (r_log r) as [|x l] eqn:El; [discriminate|].
      destruct (log_content fs (x :: l)) eqn:Ec; [discriminate|]. intros _. rewrite (Hlog _ Ec). reflexivity. }
  unfold spec_body. destruct m.
  - intros H. left. now apply Hgen.
  - intros H. left. now apply Hgen.
  - destruct (beq (r_name r) name_cvs) eqn:En.
    + intros H. left. unfold names_unreadable. rewrite (Hcv Ports H). rewrite orb_true_r. reflexivity.
    + destruct (beq (r_name r) name_dpb && (r_exit r =? 0)%Z) eqn:Ed.
      * destruct (f_tmp fs packages_diff) eqn:Ef; intros H; try discriminate H.
        -- right. left. unfold dpb_without_diff. rewrite Ed, Ef. reflexivity.
        -- left. unfold names_unreadable. rewrite Ef. cbn [is_unreadable]. apply orb_true_r.
      * intros H. left. now apply Hgen.
  - destruct (r_log r) as [|x l] eqn:El.
    + intros _. right. right. unfold regress_without_log_name. rewrite El. reflexivity.
    + destruct (log_content fs (x :: l)) as [c|] eqn:Ec.
      * destruct (nonnil _); [discriminate|]. intros H. left. now apply Hgen.
      * intros _. left. unfold names_unreadable. rewrite El. cbn [nonnil]. rewrite (Hlog _ Ec). reflexivity.
  - destruct (r_log r) as [|x l] eqn:El.
    + intros H. left. now apply Hgen.
    + destruct (log_content fs (x :: l)) as [c|] eqn:Ec; [discriminate|].
      intros _. left. unfold names_unreadable. rewrite El. cbn [nonnil]. rewrite (Hlog _ Ec). reflexivity.
Qed.

Theorem error_only_outside m cfg fs rows :
  spec_error m cfg fs rows = true ->
  c_running cfg = false \/ f_comment fs = FUnreadable \/
  exists r, In r rows /\ nonskipped r = true /\
    (names_unreadable m fs r = true \/ dpb_without_diff m fs r = true \/ regress_without_log_name m r = true).
Proof.
  unfold spec_error. intros H. apply orb_true_iff in H. destruct H as [H|H].
  - apply orb_true_iff in H. destruct H as [H|H].
    + left. now apply negb_true_iff in H.
    + right. left. destruct (f_comment fs); try discriminate H. reflexivity.
  - right. right. apply existsb_exists in H. destruct H as [r [Hin Hr]]. exists r. split; [exact Hin|].
    unfold row_error in Hr. apply andb_true_iff in Hr. destruct Hr as [Hn Hr]. split; [exact Hn|].
    apply orb_true_iff in Hr. destruct Hr as [Hr|Hr].
    + right. right. unfold candidate_without_log in Hr. unfold regress_without_log_name.
      destruct m; try discriminate Hr. apply andb_true_iff in Hr. tauto.
    + apply andb_true_iff in Hr. destruct Hr as [_ Hr].
      destruct (spec_body m cfg fs r) eqn:Eb; [discriminate Hr|]. exact (spec_body_err_outside m cfg fs r Eb).
Qed.

(* full statement "every failing row of every step file has a section in the report":
       forall m cfg fs rows r, In r rows -> failing r = true -> exists rep, report_struct_rows m cfg rows fs = ROk rep /\ ...
   Witnesses of what is left outside it: *)
Definition silent_row : srow := mksrow [107] 2 7 0 [107; 46; 108; 111; 103] 3 0.          (* k fails, log k.log *)
Definition unreadable_files : files :=
  mkfiles (fun _ => FUnreadable) (fun _ => FAbsent) FAbsent None None None None (fun _ _ => None).
Definition absent_files : files :=
  mkfiles (fun _ => FAbsent) (fun _ => FAbsent) FAbsent None None None None (fun _ _ => None).
Definition silent_dpb : srow := mksrow name_dpb 0 9 0 [100] 1 0.                        (* dpb passes *)
Definition silent_cvs : srow := mksrow name_cvs 0 3 0 [99] 1 0.                          (* cvs passes *)
Definition readable_files : files :=
  mkfiles (fun _ => FData [111; 10]) (fun _ => FAbsent) FAbsent None None None None (fun _ _ => None).

(* (i) the log of the failing step is there but cannot be read (a directory in its place): still exit 1, nothing printed *)
Theorem never_hidden_refuted_own_log :
  In silent_row [silent_row] /\ failing silent_row = true /\
  c_running d14_cfg = true /\ f_comment unreadable_files = FAbsent /\
  names_unreadable Robsd unreadable_files silent_row = true /\
  report_struct_rows_with fixed_sw Robsd d14_cfg [silent_row] unreadable_files = RErr.
Proof. repeat split; try reflexivity. now left. Qed.

(* (ii) the failing step's log is fine; a PASSING dpb step whose packages.diff does not exist cannot be rendered, and
   the failure goes unreported with it *)
Theorem never_hidden_refuted_other_row :
  failing silent_row = true /\ failing silent_dpb = false /\
  f_log readable_files (r_log silent_row) = FData [111; 10] /\
  dpb_without_diff Ports readable_files silent_dpb = true /\
  report_struct_rows_with fixed_sw Ports d14_cfg [silent_dpb; silent_row] readable_files = RErr /\
  (exists rep, report_struct_rows_with fixed_sw Ports d14_cfg [silent_row] readable_files = ROk rep).
Proof. repeat split; try reflexivity. eexists. vm_compute. reflexivity. Qed.

(* D24.  An invocation killed between the in-flight record of step_exec_job and tee's open(2) leaves a row (exit -1)
   whose log does not exist.  Before the repair robsd-report printed nothing at all for such a directory - the step
   that had really failed earlier (p, exit 3, log present) went unreported too - although nothing of [spec_error]
   holds; with the repair both rows have their section and the in-flight one has the empty excerpt. *)
Definition d24_failed : srow := mksrow [112] 3 0 0 [112; 46; 108; 111; 103] 1 0.       (* p, exit 3, log p.log *)
Definition d24_inflight : srow := mksrow [99] (-1) (-1) 0 [99; 46; 108; 111; 103] 2 0.  (* c, exit -1, log c.log *)
Definition d24_files : files :=
  mkfiles (fun l => if beq l [112; 46; 108; 111; 103] then FData [111; 10] else FAbsent)
          (fun _ => FAbsent) FAbsent None None None None (fun _ _ => None).

Definition d24_rows : list srow := [d24_failed; d24_inflight].

Theorem missing_log_refuted :
  failing d24_failed = true /\ failing d24_inflight = true /\
  f_log d24_files (r_log d24_inflight) = FAbsent /\
  forall m, spec_error m d14_cfg d24_files d24_rows = false /\
            cvs_guard m d24_files /\
            report_struct_rows_with sw_before_d24 m d14_cfg d24_rows d24_files = RErr /\
            spec_body m d14_cfg d24_files d24_inflight = ROk [10] /\
            step_log_with sw_before_d24 m d14_cfg d24_files d24_inflight = RErr.
Proof.
  repeat split; try reflexivity; destruct m; try reflexivity; right; reflexivity.
Qed.

(* the same directory with the repair: both sections, the in-flight one with the empty excerpt; status counts both
   (canvas) / names the last one (robsd) *)
Theorem missing_log_holds_when_fixed :
  (exists rep, report_struct_rows_with fixed_sw Canvas d14_cfg d24_rows d24_files = ROk rep /\
     rp_status rep = count_text 2 /\
     map (fun s => (s_name s, s_exit s, s_body s)) (rp_sections rep) =
       [(r_name d24_failed, 3%Z, [10; 111; 10]); (r_name d24_inflight, (-1)%Z, [10])]) /\
  (forall m, exists rep, report_struct_rows_with fixed_sw m d14_cfg d24_rows d24_files = ROk rep /\
     map s_name (rp_sections rep) = [r_name d24_failed; r_name d24_inflight]).
Proof.
  split.
  - eexists. split; [vm_compute; reflexivity|]. split; reflexivity.
  - intros m. destruct m; eexists; (split; [vm_compute; reflexivity|reflexivity]).
Qed.

(* (the general form - a log that does not exist never makes the report fail, in any mode, for any rows - is
   [never_hidden] below) *)

(* D25.  robsd-regress: the section of a failed cvs step.  Before the regress rows were added to the table of
   report_cvs_log the body was the single newline the function starts with, although robsd-cvs.sh had collected the
   two src logs; the specification has them. *)
Definition d25_cvs : srow := mksrow name_cvs 1 5 0 [99; 46; 108; 111; 103] 2 0.
Definition d25_files : files :=
  mkfiles (fun _ => FData [101; 114; 114; 10])
          (fun n => if beq n [99; 118; 115; 45; 115; 114; 99; 45; 117; 112; 46; 108; 111; 103] then FData [80; 32; 97; 10]
                    else if beq n [99; 118; 115; 45; 115; 114; 99; 45; 99; 105; 46; 108; 111; 103] then FData [99; 49; 10]
                    else FAbsent)
          FAbsent None None None None (fun _ _ => None).

Theorem regress_cvs_refuted :
  failing d25_cvs = true /\
  step_log_with sw_before_d25 Regress d14_cfg d25_files d25_cvs = ROk [10] /\
  spec_body Regress d14_cfg d25_files d25_cvs = ROk [10; 80; 32; 97; 10; 10; 99; 49; 10] /\
  step_log_with fixed_sw Regress d14_cfg d25_files d25_cvs = spec_body Regress d14_cfg d25_files d25_cvs.
Proof. repeat split. Qed.

(* for every other mode the two tables give the same report *)
Theorem before_d25_same_outside_regress m cfg fs r :
  m <> Regress -> step_log_with sw_before_d25 m cfg fs r = step_log_with fixed_sw m cfg fs r.
Proof. intros H. destruct m; try reflexivity. now elim H. Qed.

(* D18, repaired in /repo da850b3: cvs logs that were never written (robsd-ports without cvs-root; a first
   checkout) no longer take the report down - the passing cvs step gets its section without change logs and the
   failing step after it is reported. *)
Theorem ports_cvs_logs_missing_holds_when_fixed :
  exists rep, report_struct_rows_with fixed_sw Ports d14_cfg [silent_cvs; silent_row] readable_files = ROk rep /\
    rp_status rep = str_failed_in ++ r_name silent_row /\
    map s_name (rp_sections rep) = [name_cvs; r_name silent_row] /\
    map s_body (rp_sections rep) = [[10]; [10; 111; 10]].
Proof. eexists. split; [vm_compute; reflexivity|]. repeat split. Qed.

Theorem ports_cvs_logs_missing_refuted :
  report_struct_rows_with sw_before_d18 Ports d14_cfg [silent_cvs; silent_row] readable_files = RErr /\
  spec_error Ports d14_cfg readable_files [silent_cvs; silent_row] = false.
Proof. split; reflexivity. Qed.

(* the exact guard and the dichotomy: either no report at all (exit 1, empty output) - exactly under
   [spec_error] - or every failing row has its section *)
Theorem never_hidden_or_silent m cfg rows fs :
  cvs_guard m fs ->
  (spec_error m cfg fs rows = true /\ report_struct_rows_with fixed_sw m cfg rows fs = RErr) \/
  (spec_error m cfg fs rows = false /\
   exists rep, report_struct_rows_with fixed_sw m cfg rows fs = ROk rep /\
     forall a r b, rows = a ++ r :: b -> failing r = true ->
       exists bd sa sb, spec_body m cfg fs r = ROk bd /\ rp_sections rep = sa ++ section_of r bd :: sb /\
                        List.length sa = List.length (filter (spec_shown m cfg fs) a)).
Proof.
  intros Hg. destruct (spec_error m cfg fs rows) eqn:E.
  - left. split; [reflexivity|]. now apply report_error_iff.
  - right. split; [reflexivity|]. destruct (report_struct_rows_with fixed_sw m cfg rows fs) as [rep|] eqn:Er.
    + exists rep. split; [reflexivity|]. intros a r b -> Hf.
      destruct (failure_has_section _ _ _ _ _ _ _ Hg Er Hf) as [bd [Hb Hs]].
      eexists bd, _, _. split; [exact Hb|]. split; [exact Hs|]. now rewrite map_length.
    + apply (report_error_iff _ _ _ _ Hg) in Er. congruence.
Qed.

(* NEVER HIDDEN, without a silent alternative.  Inside the property's quantifier - the lock file of the running
   invocation is there, no file is a directory or otherwise unreadable, robsd-ports-dpb.sh has written packages.diff
   before it exited 0, the rows of a regress invocation carry their log names - a report IS produced, whatever logs
   exist or do not exist, and every failing row has its section with the specified body at its place *)
Definition inside (m : mode) (cfg : cfgview) (fs : files) (rows : list srow) : Prop :=
  c_running cfg = true /\ f_comment fs <> FUnreadable /\
  forall r, In r rows -> nonskipped r = true ->
    names_unreadable m fs r = false /\ dpb_without_diff m fs r = false /\ regress_without_log_name m r = false.

Lemma inside_no_error m cfg fs rows : inside m cfg fs rows -> spec_error m cfg fs rows = false.
Proof.
  intros [Hr [Hc Hrows]]. destruct (spec_error m cfg fs rows) eqn:E; [|reflexivity]. exfalso.
  destruct (error_only_outside _ _ _ _ E) as [H|[H|[r [Hin [Hn H]]]]]; [congruence|contradiction|].
  destruct (Hrows r Hin Hn) as [H1 [H2 H3]]. destruct H as [H|[H|H]]; congruence.
Qed.

Theorem never_hidden m cfg fs rows :
  inside m cfg fs rows -> cvs_guard m fs ->
  exists rep, report_struct_rows_with fixed_sw m cfg rows fs = ROk rep /\
    forall a r b, rows = a ++ r :: b -> failing r = true ->
      exists bd sa sb, spec_body m cfg fs r = ROk bd /\ rp_sections rep = sa ++ section_of r bd :: sb /\
                       List.length sa = List.length (filter (spec_shown m cfg fs) a).
Proof.
  intros Hin Hg. destruct (never_hidden_or_silent m cfg rows fs Hg) as [[E _]|[_ H]]; [|exact H].
  rewrite (inside_no_error _ _ _ _ Hin) in E. discriminate E.
Qed.

(* when no row has a failure the cvs guard follows from [inside] whenever a cvs row is listed; stated for the rows
   that matter: a file system without unreadable files meets both *)
Definition all_readable (fs : files) : Prop :=
  (forall l, f_log fs l <> FUnreadable) /\ (forall n, f_tmp fs n <> FUnreadable) /\ f_comment fs <> FUnreadable.

Lemma cvs_readable_guard m fs : (forall n, f_tmp fs n <> FUnreadable) -> cvs_guard m fs.
Proof.
  intros H. right. unfold cvs_unreadable. destruct (existsb _ _) eqn:E; [|reflexivity].
  apply existsb_exists in E. destruct E as [n [_ Hn]]. specialize (H n). destruct (f_tmp fs n); try discriminate Hn. congruence.
Qed.

(* ---- every oracle of the harness accepts the model -------------------------------------------------------------- *)

Lemma suffixb_app pre suf : suffixb suf (pre ++ suf) = true.
Proof.
  induction pre as [|c pre IH]; cbn [app].
  - destruct suf; cbn [suffixb]; rewrite beq_refl; reflexivity.
  - cbn [suffixb]. rewrite IH. apply orb_true_r.
Qed.

Lemma suffixb_refl s : suffixb s s = true.
Proof. destruct s; cbn [suffixb]; rewrite beq_refl; reflexivity. Qed.

Lemma suffixb_cons suf c s : suffixb suf s = true -> suffixb suf (c :: s) = true.
Proof. intros H. cbn [suffixb]. rewrite H. apply orb_true_r. Qed.

Lemma suffixb_skip suf pre s : suffixb suf s = true -> suffixb suf (pre ++ s) = true.
Proof. intros H. induction pre as [|c pre IH]; [exact H|]. cbn [app]. now apply suffixb_cons. Qed.

Ltac suffix_tac :=
  repeat (cbn [app]; rewrite <- app_assoc); cbn [app];
  repeat first [apply suffixb_refl | apply suffixb_cons | (apply suffixb_skip; cbn [app])].

Lemma map_nth_error_inv {A B} (f : A -> B) l : forall k y,
  nth_error (map f l) k = Some y -> exists x, nth_error l k = Some x /\ f x = y.
Proof.
  induction l as [|a l IH]; intros [|k] y H; try discriminate H.
  - injection H as <-. now exists a.
  - now apply IH.
Qed.

Lemma run_fixture_cases w x :
  match rows_of x with
  | None => run_fixture_with w x = (1, [])
  | Some rows =>
      match report_struct_rows_with w (x_mode x) (cfg_of x) rows (files_of x) with
      | RErr => run_fixture_with w x = (1, [])
      | ROk rep => run_fixture_with w x = (0, render (x_host x) rep)
      end
  end.
Proof.
  unfold run_fixture_with, rows_of, report_main_with, report_struct_with. destruct (x_step x) as [c|]; [|reflexivity].
  destruct (parse_file c) as [rows|]; [|reflexivity].
  destruct (report_struct_rows_with w _ _ (map view rows) _) as [rep|]; [|reflexivity].
  destruct (render_sane (x_host x) rep) as [_ [_ Hc]]. now rewrite Hc.
Qed.

Theorem model_passes_all_oracles x :
  cvs_guard (x_mode x) (files_of x) ->
  spec_ok_exit x (fst (run_fixture_with fixed_sw x)) = true /\
  spec_ok_sane (snd (run_fixture_with fixed_sw x)) = true /\
  forall rows rep, rows_of x = Some rows ->
    report_struct_rows_with fixed_sw (x_mode x) (cfg_of x) rows (files_of x) = ROk rep ->
    run_fixture_with fixed_sw x = (0, render (x_host x) rep) /\
    spec_ok_sections x (map (fun s => (s_name s, (s_exit s, s_log s))) (rp_sections rep)) = true /\
    (forall k s, nth_error (rp_sections rep) k = Some s -> spec_ok_body x k (sanitize (s_body s)) = true) /\
    (status_hyps (x_mode x) rows = true -> spec_ok_status x (subject_text (x_host x) rep) (rp_status rep) = true).
Proof.
  intros Hg. pose proof (run_fixture_cases fixed_sw x) as Hrun. split; [|split].
  - unfold spec_ok_exit. destruct (rows_of x) as [rows|]; [|now rewrite Hrun].
    destruct (report_struct_rows_with fixed_sw _ _ rows _) as [rep|] eqn:E; rewrite Hrun; cbn [fst].
    + destruct (spec_error _ _ _ rows) eqn:Ee; [|reflexivity]. apply (report_error_iff _ _ _ _ Hg) in Ee. congruence.
    + apply (report_error_iff _ _ _ _ Hg) in E. now rewrite E.
  - destruct (rows_of x) as [rows|]; [|now rewrite Hrun].
    destruct (report_struct_rows_with fixed_sw _ _ rows _) as [rep|]; rewrite Hrun; [|reflexivity]. cbn [snd].
    apply sane_iff. destruct (render_sane (x_host x) rep) as [H0 [H13 _]]. tauto.
  - intros rows rep Hr H. rewrite Hr, H in Hrun. split; [exact Hrun|].
    destruct (model_passes_oracles x rows rep Hg Hr H) as [Hsec [Hst _]]. split; [exact Hsec|]. split.
    + intros k s Hk. apply (spec_ok_body_iff x rows k _ Hr).
      destruct (sections_exact _ _ _ _ _ Hg H) as [Hs Hb]. rewrite Hs in Hk.
      apply map_nth_error_inv in Hk. destruct Hk as [r [Hnth <-]].
      exists r, (body_or_nil_with fixed_sw (x_mode x) (cfg_of x) (files_of x) r). split; [exact Hnth|]. split.
      * rewrite <- (step_log_fixed _ _ _ r Hg). apply Hb. eapply nth_error_In; eauto.
      * cbn [s_body section_of]. apply sanitize_spec.
    + intros Hh. specialize (Hst Hh). apply beq_eq in Hst. unfold spec_ok_status. rewrite Hr, Hh.
      rewrite Hst, beq_refl. cbn [andb].
      destruct (report_fields _ _ _ _ _ _ H) as [_ [Hm Hsub]]. unfold subject_text. rewrite Hsub, Hm, <- Hst.
      unfold subject_of, cross_prefix. change (f_target (files_of x)) with (x_target x).
      destruct (x_mode x); try destruct (x_target x) as [t|]; apply orb_true_iff;
        first [ right; solve [suffix_tac] | left; solve [suffix_tac] ].
Qed.

(* ---- a log that does not exist / a cvs log that cannot be read ---------------------------------------------------- *)

Theorem absent_log_is_empty_excerpt m cfg fs r x l :
  r_log r = x :: l -> f_log fs (r_log r) = FAbsent -> beq (r_name r) name_cvs = false ->
  (m = Ports -> beq (r_name r) name_dpb && (r_exit r =? 0)%Z = false) ->
  spec_body m cfg fs r = ROk [10] /\ step_log_with fixed_sw m cfg fs r = ROk [10].
Proof.
  intros El Ea En Hd.
  assert (Hs : spec_body m cfg fs r = ROk [10]).
  { assert (Hgen : spec_generic_body m fs r = ROk [10]).
    { unfold spec_generic_body. rewrite En, El. unfold log_content. rewrite <- El, Ea. reflexivity. }
    unfold spec_body. destruct m; try exact Hgen.
    - rewrite En, (Hd eq_refl). exact Hgen.
    - rewrite El. unfold log_content. rewrite <- El, Ea. rewrite file_blocks_nil. exact Hgen.
    - rewrite El. unfold log_content. rewrite <- El, Ea. reflexivity. }
  split; [exact Hs|].
  assert (Hgen : generic_step_log fixed_sw m fs r = ROk [10]).
  { unfold generic_step_log. rewrite En, El. rewrite <- El, Ea. reflexivity. }
  unfold step_log_with. destruct m; try exact Hgen.
  - unfold ports_step_log. rewrite En, (Hd eq_refl). exact Hgen.
  - unfold regress_step_log. rewrite El. rewrite <- El, Ea. exact Hgen.
  - unfold canvas_step_log. rewrite El. rewrite <- El, Ea. reflexivity.
Qed.

Definition unreadable_cvs_files : files :=
  mkfiles (fun _ => FData [111; 10]) (fun _ => FUnreadable) FAbsent None None None None (fun _ _ => None).
Definition failing_cvs : srow := mksrow name_cvs 1 5 0 [99] 2 0.

Theorem unreadable_cvs_log_not_an_error :
  exists fs r, cvs_unreadable fs (spec_cvs_names Robsd) = true /\ failing r = true /\
    spec_body Robsd d14_cfg fs r = RErr /\ step_log_with fixed_sw Robsd d14_cfg fs r = ROk [10].
Proof. exists unreadable_cvs_files, failing_cvs. repeat split. Qed.
