(* ReportNeverHidden.v - "a failed step is never hidden", down to the bytes robsd-report prints, and
   the one way in which it IS hidden: no report at all.

     failure_has_section     every failing row of a report that is produced has its section, at its place,
                             with the specified body
     failed_step_is_printed  ... and the sanitized text of that section is part of standard output
     status_is_printed       the Subject: and Status: lines carry [report_status]
     report_main_silent      when [spec_error] holds robsd-report exits 1 and prints NOTHING, whatever
                             failed; witnesses: the failing step's own log is unreadable; ANOTHER step's
                             file is unreadable (packages.diff of a passing dpb step in robsd-ports mode)
     ports_cvs_logs_missing_holds_now   D18 (cvs logs never written) no longer is such a case
     never_hidden_or_silent  the dichotomy
     model_passes_all_oracles  every oracle the harness applies to the implementation accepts the model *)
From Robsd Require Import Report.ReportSpec Report.ReportProofs.
Local Open Scope N_scope.

Lemma report_fields m cfg rows fs rep :
  report_struct_rows m cfg rows fs = ROk rep ->
  rp_status rep = report_status m rows /\ rp_mode rep = m /\ rp_subject rep = subject_of m cfg fs.
Proof.
  unfold report_struct_rows. destruct (negb (c_running cfg)); [discriminate|].
  destruct (f_comment fs); try discriminate; destruct (steps_loop m cfg fs rows); try discriminate;
    intros H; injection H as <-; repeat split.
Qed.

Lemma failing_shown m cfg fs r : failing r = true -> spec_shown m cfg fs r = true.
Proof.
  unfold failing, spec_shown. intros H. apply andb_true_iff in H. destruct H as [-> ->]. reflexivity.
Qed.

Lemma skipped_not_shown m cfg fs r : r_skip r = 1%Z -> spec_shown m cfg fs r = false.
Proof. intros H. unfold spec_shown, nonskipped. now rewrite H. Qed.

(* the body clause for the source as it is (both excerpt prints copy the bytes); stops compiling when
   the translator finds a %s conversion again *)
Lemma step_log_is_spec m cfg fs r : step_log m cfg fs r = spec_body m cfg fs r.
Proof. exact (body_if_copied m cfg fs r eq_refl eq_refl). Qed.

Theorem failure_has_section m cfg a r b fs rep :
  report_struct_rows m cfg (a ++ r :: b) fs = ROk rep -> failing r = true ->
  exists bd,
    spec_body m cfg fs r = ROk bd /\
    rp_sections rep =
      map (fun x => section_of x (body_or_nil m cfg fs x)) (filter (spec_shown m cfg fs) a) ++
      section_of r bd ::
      map (fun x => section_of x (body_or_nil m cfg fs x)) (filter (spec_shown m cfg fs) b).
Proof.
  intros H Hf. destruct (sections_exact _ _ _ _ _ H) as [Hs Hb].
  pose proof (failing_shown m cfg fs r Hf) as Hsh.
  exists (body_or_nil m cfg fs r). split.
  - rewrite <- step_log_is_spec. apply Hb. apply filter_In. split; [apply in_or_app; right; now left|exact Hsh].
  - rewrite Hs, filter_app. cbn [filter]. rewrite Hsh, map_app. reflexivity.
Qed.

(* ---- down to the printed bytes ----------------------------------------------------------------------------- *)

Lemma sanitize_app a b : sanitize (a ++ b) = sanitize a ++ sanitize b.
Proof. unfold sanitize. apply flat_map_app. Qed.

Lemma render_with_section host rep sa s sb :
  rp_sections rep = sa ++ s :: sb ->
  exists pre post, render host rep = pre ++ spec_sanitize (render_section s) ++ post.
Proof.
  intros E. unfold render, render_raw. rewrite E, map_app, concat_app. cbn [map concat].
  rewrite !app_assoc. rewrite sanitize_app. rewrite sanitize_app.
  eexists _, _. rewrite <- sanitize_spec. rewrite <- app_assoc. reflexivity.
Qed.

Lemma report_main_ok m cfg host content fs out :
  report_main m cfg host (Some content) fs = (0, out) ->
  exists rows rep, parse_file content = Some rows /\
    report_struct_rows m cfg (map view rows) fs = ROk rep /\ out = render host rep.
Proof.
  unfold report_main, report_struct. destruct (parse_file content) as [rows|]; [|discriminate].
  destruct (report_struct_rows m cfg (map view rows) fs) as [rep|] eqn:E; [|discriminate].
  intros H. injection H as <-. exists rows, rep. repeat split; auto.
  destruct (render_sane host rep) as [_ [_ Hc]]. exact Hc.
Qed.

Theorem failed_step_is_printed m cfg host content fs out rows a r b :
  report_main m cfg host (Some content) fs = (0, out) ->
  parse_file content = Some rows -> map view rows = a ++ r :: b -> failing r = true ->
  exists bd pre post,
    spec_body m cfg fs r = ROk bd /\
    out = pre ++ spec_sanitize (render_section (section_of r bd)) ++ post /\
    render_section (section_of r bd) =
      [10; 62; 32] ++ r_name r ++ [10] ++ s_exit_ ++ render_Z (cast_int (r_exit r)) ++ [10] ++
      s_duration_ ++ step_duration r ++ [10] ++ s_log_ ++ r_log r ++ [10] ++ bd.
Proof.
  intros H Hp Hr Hf. destruct (report_main_ok _ _ _ _ _ _ H) as [rows' [rep [Hp' [Hs ->]]]].
  rewrite Hp in Hp'. injection Hp' as <-. rewrite Hr in Hs.
  destruct (failure_has_section _ _ _ _ _ _ _ Hs Hf) as [bd [Hb Hsec]].
  destruct (render_with_section host rep _ _ _ Hsec) as [pre [post E]].
  exists bd, pre, post. repeat split; auto.
Qed.

(* what follows "Subject: " on the first line *)
Definition subject_text (host : bytes) (rep : Report) : bytes :=
  mode_str (rp_mode rep) ++ [58; 32] ++
  match rp_subject rep with
  | SubjCanvas n => n ++ [58; 32] ++ rp_status rep
  | SubjHost p => host ++ [58] ++ p ++ rp_status rep
  end.

Theorem status_is_printed m cfg host content fs out rows :
  report_main m cfg host (Some content) fs = (0, out) -> parse_file content = Some rows ->
  exists rep post,
    rp_status rep = report_status m (map view rows) /\
    out = spec_sanitize (s_subject ++ subject_text host rep ++ [10; 10] ++
                         s_stats ++ [10] ++ s_status ++ rp_status rep ++ [10]) ++ post /\
    exists pre, subject_text host rep = pre ++ rp_status rep.
Proof.
  intros H Hp. destruct (report_main_ok _ _ _ _ _ _ H) as [rows' [rep [Hp' [Hs ->]]]].
  rewrite Hp in Hp'. injection Hp' as <-. destruct (report_fields _ _ _ _ _ Hs) as [Hst _].
  exists rep. eexists. split; [exact Hst|]. split.
  - unfold render, render_raw, render_subject, subject_text. rewrite <- sanitize_spec.
    repeat rewrite <- app_assoc. repeat rewrite sanitize_app. repeat rewrite <- app_assoc. reflexivity.
  - unfold subject_text. destruct (rp_subject rep); eexists; repeat rewrite app_assoc; reflexivity.
Qed.

(* ---- the caveat: total silence --------------------------------------------------------------------------------- *)

Theorem report_main_silent m cfg host content rows fs :
  parse_file content = Some rows -> spec_error m cfg fs (map view rows) = true ->
  report_main m cfg host (Some content) fs = (1, []).
Proof.
  intros Hp He. unfold report_main, report_struct. rewrite Hp.
  apply report_error_iff in He. rewrite He. reflexivity.
Qed.

(* full statement "every failing row of every step file has a section in some produced report":
       forall m cfg fs rows r, In r rows -> failing r = true -> exists rep, report_struct_rows m cfg rows fs = ROk rep
   is refuted: *)
Definition silent_row : srow := mksrow [107] 2 7 0 [107; 46; 108; 111; 103] 3 0.          (* k fails, log k.log *)
Definition silent_files : files :=
  mkfiles (fun _ => None) (fun _ => None) FAbsent None None None None (fun _ _ => None).
Definition silent_dpb : srow := mksrow name_dpb 0 9 0 [100] 1 0.                        (* dpb passes *)
Definition silent_cvs : srow := mksrow name_cvs 0 3 0 [99] 1 0.                          (* cvs passes *)
Definition readable_files : files :=
  mkfiles (fun _ => Some [111; 10]) (fun _ => None) FAbsent None None None None (fun _ _ => None).

(* (i) the log of the failing step itself cannot be read *)
Theorem never_hidden_refuted_own_log :
  In silent_row [silent_row] /\ failing silent_row = true /\
  c_running d14_cfg = true /\ f_comment silent_files = FAbsent /\
  report_struct_rows Robsd d14_cfg [silent_row] silent_files = RErr.
Proof. repeat split; try reflexivity. now left. Qed.

(* (ii) the failing step's log is fine; a PASSING step that is always listed (dpb in robsd-ports mode, whose
   packages.diff does not exist) cannot be rendered, and the failure goes unreported with it *)
Theorem never_hidden_refuted_other_row :
  failing silent_row = true /\ failing silent_dpb = false /\
  f_log readable_files (r_log silent_row) = Some [111; 10] /\
  report_struct_rows Ports d14_cfg [silent_dpb; silent_row] readable_files = RErr /\
  (exists rep, report_struct_rows Ports d14_cfg [silent_row] readable_files = ROk rep).
Proof. repeat split; try reflexivity. eexists. vm_compute. reflexivity. Qed.

(* D18, repaired in /repo da850b3: cvs logs that were never written (robsd-ports without cvs-root; a first
   checkout) no longer take the report down - the passing cvs step gets its section without change logs and the
   failing step after it is reported.  Stops compiling if the test in report_cvs_log goes back. *)
Theorem ports_cvs_logs_missing_holds_now :
  cvs_missing_skipped = true /\
  exists rep, report_struct_rows Ports d14_cfg [silent_cvs; silent_row] readable_files = ROk rep /\
    rp_status rep = str_failed_in ++ r_name silent_row /\
    map s_name (rp_sections rep) = [name_cvs; r_name silent_row] /\
    map s_body (rp_sections rep) = [[10]; [10; 111; 10]].
Proof. split; [reflexivity|]. eexists. split; [vm_compute; reflexivity|]. repeat split. Qed.

(* the exact guard and the dichotomy: either no report at all (exit 1, empty output) - exactly under
   [spec_error] - or every failing row has its section *)
Theorem never_hidden_or_silent m cfg rows fs :
  (spec_error m cfg fs rows = true /\ report_struct_rows m cfg rows fs = RErr) \/
  (spec_error m cfg fs rows = false /\
   exists rep, report_struct_rows m cfg rows fs = ROk rep /\
     forall a r b, rows = a ++ r :: b -> failing r = true ->
       exists bd sa sb, spec_body m cfg fs r = ROk bd /\ rp_sections rep = sa ++ section_of r bd :: sb /\
                        List.length sa = List.length (filter (spec_shown m cfg fs) a)).
Proof.
  destruct (spec_error m cfg fs rows) eqn:E.
  - left. split; [reflexivity|]. now apply report_error_iff.
  - right. split; [reflexivity|]. destruct (report_struct_rows m cfg rows fs) as [rep|] eqn:Er.
    + exists rep. split; [reflexivity|]. intros a r b -> Hf.
      destruct (failure_has_section _ _ _ _ _ _ _ Er Hf) as [bd [Hb Hs]].
      eexists bd, _, _. split; [exact Hb|]. split; [exact Hs|]. now rewrite map_length.
    + apply report_error_iff in Er. congruence.
Qed.

(* ---- every oracle of the harness accepts the model -------------------------------------------------------------- *)

Lemma suffixb_app pre suf : suffixb suf (pre ++ suf) = true.
Proof.
  induction pre as [|c pre IH]; cbn [app].
  - destruct suf; cbn [suffixb]; rewrite beq_refl; reflexivity.
  - cbn [suffixb]. rewrite IH. apply orb_true_r.
Qed.

Lemma suffixb_refl s : suffixb s s = true.
Proof. destruct s; cbn [suffixb]; rewrite beq_refl; reflexivity. Qed.

Lemma suffixb_cons suf c s : suffixb suf s = true -> suffixb suf (c :: s) = true.
Proof. intros H. cbn [suffixb]. rewrite H. apply orb_true_r. Qed.

Lemma suffixb_skip suf pre s : suffixb suf s = true -> suffixb suf (pre ++ s) = true.
Proof. intros H. induction pre as [|c pre IH]; [exact H|]. cbn [app]. now apply suffixb_cons. Qed.

Ltac suffix_tac :=
  repeat (cbn [app]; rewrite <- app_assoc); cbn [app];
  repeat first [apply suffixb_refl | apply suffixb_cons | (apply suffixb_skip; cbn [app])].

Lemma map_nth_error_inv {A B} (f : A -> B) l : forall k y,
  nth_error (map f l) k = Some y -> exists x, nth_error l k = Some x /\ f x = y.
Proof.
  induction l as [|a l IH]; intros [|k] y H; try discriminate H.
  - injection H as <-. now exists a.
  - now apply IH.
Qed.

Lemma run_fixture_cases x :
  match rows_of x with
  | None => run_fixture x = (1, [])
  | Some rows =>
      match report_struct_rows (x_mode x) (cfg_of x) rows (files_of x) with
      | RErr => run_fixture x = (1, [])
      | ROk rep => run_fixture x = (0, render (x_host x) rep)
      end
  end.
Proof.
  unfold run_fixture, rows_of, report_main, report_struct. destruct (x_step x) as [c|]; [|reflexivity].
  destruct (parse_file c) as [rows|]; [|reflexivity].
  destruct (report_struct_rows _ _ (map view rows) _) as [rep|]; [|reflexivity].
  destruct (render_sane (x_host x) rep) as [_ [_ Hc]]. now rewrite Hc.
Qed.

Theorem model_passes_all_oracles x :
  spec_ok_exit x (fst (run_fixture x)) = true /\
  spec_ok_sane (snd (run_fixture x)) = true /\
  forall rows rep, rows_of x = Some rows ->
    report_struct_rows (x_mode x) (cfg_of x) rows (files_of x) = ROk rep ->
    run_fixture x = (0, render (x_host x) rep) /\
    spec_ok_sections x (map (fun s => (s_name s, (s_exit s, s_log s))) (rp_sections rep)) = true /\
    (forall k s, nth_error (rp_sections rep) k = Some s -> spec_ok_body x k (sanitize (s_body s)) = true) /\
    (status_hyps (x_mode x) rows = true -> spec_ok_status x (subject_text (x_host x) rep) (rp_status rep) = true).
Proof.
  pose proof (run_fixture_cases x) as Hrun. split; [|split].
  - unfold spec_ok_exit. destruct (rows_of x) as [rows|]; [|now rewrite Hrun].
    destruct (report_struct_rows _ _ rows _) as [rep|] eqn:E; rewrite Hrun; cbn [fst].
    + destruct (spec_error _ _ _ rows) eqn:Ee; [|reflexivity]. apply report_error_iff in Ee. congruence.
    + apply report_error_iff in E. now rewrite E.
  - destruct (rows_of x) as [rows|]; [|now rewrite Hrun].
    destruct (report_struct_rows _ _ rows _) as [rep|]; rewrite Hrun; [|reflexivity]. cbn [snd].
    apply sane_iff. destruct (render_sane (x_host x) rep) as [H0 [H13 _]]. tauto.
  - intros rows rep Hr H. rewrite Hr, H in Hrun. split; [exact Hrun|].
    destruct (model_passes_oracles x rows rep Hr H) as [Hsec [Hst _]]. split; [exact Hsec|]. split.
    + intros k s Hk. apply (spec_ok_body_iff x rows k _ Hr).
      destruct (sections_exact _ _ _ _ _ H) as [Hs Hb]. rewrite Hs in Hk.
      apply map_nth_error_inv in Hk. destruct Hk as [r [Hnth <-]].
      exists r, (body_or_nil (x_mode x) (cfg_of x) (files_of x) r). split; [exact Hnth|]. split.
      * rewrite <- step_log_is_spec. apply Hb. eapply nth_error_In; eauto.
      * cbn [s_body section_of]. apply sanitize_spec.
    + intros Hh. specialize (Hst Hh). apply beq_eq in Hst. unfold spec_ok_status. rewrite Hr, Hh.
      rewrite Hst, beq_refl. cbn [andb].
      destruct (report_fields _ _ _ _ _ H) as [_ [Hm Hsub]]. unfold subject_text. rewrite Hsub, Hm, <- Hst.
      unfold subject_of, cross_prefix. change (f_target (files_of x)) with (x_target x).
      destruct (x_mode x); try destruct (x_target x) as [t|]; apply orb_true_iff;
        first [ right; solve [suffix_tac] | left; solve [suffix_tac] ].
Qed.
