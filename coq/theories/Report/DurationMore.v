(* DurationMore.v - C18: what was assumed or only observed before.

     no_overflow              every partial sum of steps_total_duration / duration_total stays strictly inside
                              int64_t for fewer than 2^22 rows with durations within +-2^40 (the -1 of in-flight
                              rows included); the regress wall clock difference for times below 2^62
     total_declarative        the total by cases on the first end row
     wall_is_max_minus_min    regress: with start times in row order, last - first = max - min
     duration_line, step_duration_line, sizes_lines   the composed Duration: / Size: lines of a report that is
                              produced, as text of the specification
     inflight_does_not_break  durations, deltas and times (-1 included) never decide whether a report is
                              produced, what its status is, or which sections it has with which bodies
     model_passes_size_oracle the Size: oracle accepts the model *)
From Robsd Require Import Report.DurationSpec Report.ReportProofs Report.DurationProofs Report.ReportNeverHidden Report.PreviousAge.
From Coq Require Import Sorting.Sorted.
Local Open Scope Z_scope.

Definition two_pow_22 : Z := 4194304.
Definition two_pow_62 : Z := 4611686018427387904.
Definition two_pow_63 : Z := 9223372036854775808.

(* z is an int64_t value with room to spare: no wrap-around, no undefined behaviour in the C sum *)
Definition fits64 (z : Z) : Prop := Z.abs z < two_pow_63.

(* ---- overflow ------------------------------------------------------------------------------------------------ *)

Lemma total_step_bound acc r :
  Z.abs (r_duration r) <= two_pow_40 -> Z.abs (total_step acc r) <= Z.abs acc + two_pow_40.
Proof.
  intros H. unfold total_step, two_pow_40 in *. destruct (r_skip r =? 1); [lia|].
  destruct (beq (r_name r) name_end); lia.
Qed.

Lemma fold_total_bound rows : forall acc,
  Forall (fun r => Z.abs (r_duration r) <= two_pow_40) rows ->
  Z.abs (fold_left total_step rows acc) <= Z.abs acc + Z.of_nat (List.length rows) * two_pow_40.
Proof.
  induction rows as [|r rs IH]; intros acc H; cbn [fold_left List.length]; [lia|].
  inversion H as [|? ? Hr Hrs]; subst. specialize (IH (total_step acc r) Hrs).
  pose proof (total_step_bound acc r Hr). rewrite Nat2Z.inj_succ. unfold two_pow_40 in *. lia.
Qed.

(* every value the accumulator of steps_total_duration takes - the sum over every prefix of the rows *)
Theorem no_overflow_C rows :
  Z.of_nat (List.length rows) < two_pow_22 ->
  Forall (fun r => Z.abs (r_duration r) <= two_pow_40) rows ->
  forall k, fits64 (fold_left total_step (firstn k rows) 0).
Proof.
  intros Hn H k. unfold fits64.
  assert (Hf : Forall (fun r => Z.abs (r_duration r) <= two_pow_40) (firstn k rows)).
  { apply Forall_forall. intros r Hr. rewrite Forall_forall in H. apply H.
    rewrite <- (firstn_skipn k rows). apply in_or_app. now left. }
  pose proof (fold_total_bound (firstn k rows) 0 Hf) as Hb.
  assert (Hl : Z.of_nat (List.length (firstn k rows)) <= Z.of_nat (List.length rows)) by (rewrite firstn_length; lia).
  unfold two_pow_22, two_pow_40, two_pow_63 in *.
  assert (Z.of_nat (List.length (firstn k rows)) * 1099511627776 <= 4194304 * 1099511627776)
    by (apply Z.mul_le_mono_nonneg_r; lia).
  lia.
Qed.

(* the same for the shell loop: after any number of iterations the value of _tot *)
Theorem no_overflow_shell rows :
  Z.of_nat (List.length rows) < two_pow_22 ->
  Forall (fun r => Z.abs (r_duration r) <= two_pow_40) rows ->
  forall fuel, fits64 (sh_total_loop fuel 1 rows 0).
Proof.
  intros Hn H fuel.
  assert (E : forall fuel k tot, sh_total_loop fuel (Z.of_nat k + 1) rows tot =
                fold_left total_step (firstn fuel (skipn k rows)) tot).
  { clear. induction fuel as [|fuel IH]; intros k tot; [reflexivity|].
    cbn [sh_total_loop]. rewrite sh_select_pos.
    destruct (nth_error rows k) as [r|] eqn:En.
    - rewrite (skipn_nth rows k r En). cbn [firstn fold_left].
      replace (Z.of_nat k + 1 + 1) with (Z.of_nat (S k) + 1) by lia.
      unfold total_step at 2. destruct (r_skip r =? 1); [apply IH|].
      destruct (beq (r_name r) name_end); apply IH.
    - apply nth_error_None in En. rewrite skipn_all2 by exact En. reflexivity. }
  change 1 with (Z.of_nat 0 + 1). rewrite E. cbn [skipn]. now apply no_overflow_C.
Qed.

Theorem no_overflow_wall rows :
  Forall (fun r => Z.abs (r_time r) < two_pow_62) rows -> fits64 (spec_wall rows).
Proof.
  intros H. unfold fits64, spec_wall. destruct rows as [|r0 t]; [unfold two_pow_63; cbn; lia|].
  rewrite frev_rev. destruct (rev (r0 :: t)) as [|rl t'] eqn:E; [unfold two_pow_63; cbn; lia|].
  rewrite Forall_forall in H.
  assert (H0 : Z.abs (r_time r0) < two_pow_62) by (apply H; now left).
  assert (Hl : Z.abs (r_time rl) < two_pow_62).
  { apply H. apply in_rev. rewrite E. now left. }
  unfold two_pow_62, two_pow_63 in *. lia.
Qed.

(* ---- the total, by cases ------------------------------------------------------------------------------------------ *)

Theorem total_declarative m rows :
  ((forall r, In r rows -> r_name r <> spec_name_end) ->
     stats_total m rows = (spec_accumulated m rows, 0)) /\
  (forall a e b, rows = a ++ e :: b -> (forall r, In r a -> r_name r <> spec_name_end) -> r_name e = spec_name_end ->
     stats_total m rows = (r_duration e, r_delta e)).
Proof.
  destruct (total_spec m rows) as [-> _]. unfold spec_total. split.
  - intros H. replace (filter (fun r => beq (r_name r) spec_name_end) rows) with (@nil srow); [reflexivity|].
    symmetry. induction rows as [|r rs IH]; [reflexivity|]. cbn [filter].
    destruct (beq_spec (r_name r) spec_name_end) as [E|_]; [elim (H r (or_introl eq_refl) E)|].
    apply IH. intros x Hx. apply H. now right.
  - intros a e b -> Ha He. rewrite filter_app. cbn [filter]. rewrite He, beq_refl.
    replace (filter (fun r => beq (r_name r) spec_name_end) a) with (@nil srow); [reflexivity|].
    symmetry. induction a as [|r rs IH]; [reflexivity|]. cbn [filter].
    destruct (beq_spec (r_name r) spec_name_end) as [E|_]; [elim (Ha r (or_introl eq_refl) E)|].
    apply IH. intros x Hx. apply Ha. now right.
Qed.

(* regress: rows are written in start order; then last - first is the span of all start times *)
Theorem wall_is_max_minus_min rows :
  StronglySorted (fun a b => r_time a <= r_time b) rows -> rows <> [] ->
  exists r0 rl, In r0 rows /\ In rl rows /\ spec_wall rows = r_time rl - r_time r0 /\
    forall r, In r rows -> r_time r0 <= r_time r <= r_time rl.
Proof.
  intros Hs Hne. destruct rows as [|r0 t]; [congruence|]. unfold spec_wall. rewrite frev_rev.
  destruct (rev_last (r0 :: t) r0 ltac:(discriminate)) as [t' E]. rewrite E.
  exists r0, (last (r0 :: t) r0). split; [now left|]. split.
  - apply in_rev. rewrite E. now left.
  - split; [reflexivity|]. intros r Hr. split.
    + inversion Hs as [|? ? _ Hall]; subst. destruct Hr as [->|Hr]; [lia|].
      rewrite Forall_forall in Hall. now apply Hall.
    + clear E t'. revert r Hr. induction Hs as [|x l Hl IH Hx]; [intros r []|].
      intros r [->|Hr].
      * destruct l as [|y l]; [cbn; lia|]. rewrite Forall_forall in Hx.
        change (last (r :: y :: l) r0) with (last (y :: l) r0).
        apply Hx. clear. revert y. induction l as [|z l IH]; intros y; [now left|].
        change (last (y :: z :: l) r0) with (last (z :: l) r0). right. apply IH.
      * destruct l as [|y l]; [destruct Hr|]. change (last (x :: y :: l) r0) with (last (y :: l) r0).
        apply IH; [discriminate|exact Hr].
Qed.

(* ---- the composed lines of a report that is produced ---------------------------------------------------------------- *)

Theorem duration_line w m cfg rows fs rep :
  report_struct_rows_with w m cfg rows fs = ROk rep ->
  let '(d, delta) := spec_total m rows in
  in_range d = true -> delta_in_range delta = true ->
  rp_duration rep = spec_duration_text d delta 60.
Proof.
  intros H. rewrite (report_duration_line _ _ _ _ _ _ H). destruct (total_spec m rows) as [_ ->].
  destruct (spec_total m rows) as [d delta]. cbn [fst snd]. intros H1 H2.
  apply duration_text_spec; [lia|exact H1|exact H2].
Qed.

Theorem step_duration_line m cfg rows fs rep k s :
  cvs_guard m fs ->
  report_struct_rows_with fixed_sw m cfg rows fs = ROk rep -> nth_error (rp_sections rep) k = Some s ->
  exists r, nth_error (filter (spec_shown m cfg fs) rows) k = Some r /\
    s_name s = r_name r /\ s_duration s = step_duration r /\
    (in_range (r_duration r) = true -> delta_in_range (r_delta r) = true ->
       s_duration s = spec_duration_text (r_duration r) (r_delta r) 0).
Proof.
  intros Hg H Hk. destruct (sections_exact _ _ _ _ _ Hg H) as [Hs _]. rewrite Hs in Hk.
  apply map_nth_error_inv in Hk. destruct Hk as [r [Hnth <-]]. exists r. split; [exact Hnth|].
  cbn [s_name s_duration section_of]. repeat split. intros H1 H2.
  unfold step_duration. destruct thresholds_are as [_ [-> _]]. apply duration_text_spec; [lia|exact H1|exact H2].
Qed.

Lemma report_sizes_field w m cfg rows fs rep :
  report_struct_rows_with w m cfg rows fs = ROk rep -> rp_sizes rep = report_sizes m cfg fs.
Proof.
  unfold report_struct_rows_with, report_struct_rows_gen. destruct (negb (c_running cfg)); [discriminate|].
  destruct (f_comment fs); try discriminate; destruct (steps_loop_gen w _ m cfg fs rows); try discriminate;
    intros H; injection H as <-; reflexivity.
Qed.

(* the Size: lines of a report: against the greatest other name, always; against the previous invocation when
   name order is creation order *)
Theorem sizes_lines w m cfg rows fs rep :
  report_struct_rows_with w m cfg rows fs = ROk rep ->
  (forall cur, f_rel fs = Some cur -> Forall (fun f => 0 <= rf_size f) cur) ->
  rp_sizes rep = sizes_by_name m cfg fs /\
  (forall age, name_order_is_age cfg fs age = true -> rp_sizes rep = spec_sizes m cfg fs age).
Proof.
  intros H Hn. rewrite (report_sizes_field _ _ _ _ _ _ H). split; [now apply report_sizes_by_name|].
  intros age Hg. now apply report_sizes_spec.
Qed.

(* ---- in-flight rows do not break the report ---------------------------------------------------------------------------- *)

(* what decides whether there is a report, its status and its sections: not duration, delta, time *)
Definition strip (r : srow) : srow := mksrow (r_name r) (r_exit r) 0 0 (r_log r) 0 (r_skip r).

Lemma strip_shown m cfg fs r : spec_shown m cfg fs (strip r) = spec_shown m cfg fs r.
Proof. reflexivity. Qed.
Lemma strip_body m cfg fs r : spec_body m cfg fs (strip r) = spec_body m cfg fs r.
Proof. reflexivity. Qed.
Lemma strip_row_error m cfg fs r : row_error m cfg fs (strip r) = row_error m cfg fs r.
Proof. reflexivity. Qed.
Lemma strip_failing r : failing (strip r) = failing r.
Proof. reflexivity. Qed.

Lemma existsb_map {A B} (f : B -> bool) (g : A -> B) l : existsb f (map g l) = existsb (fun x => f (g x)) l.
Proof. induction l as [|x l IH]; [reflexivity|]. cbn. now rewrite IH. Qed.

Lemma spec_error_strip m cfg fs rows : spec_error m cfg fs (map strip rows) = spec_error m cfg fs rows.
Proof. unfold spec_error. rewrite existsb_map. reflexivity. Qed.

Lemma last_status_strip rows : last_status (map strip rows) = last_status rows.
Proof. induction rows as [|r rs IH]; [reflexivity|]. cbn [map last_status]. now rewrite IH. Qed.

Lemma report_status_strip m rows : report_status m (map strip rows) = report_status m rows.
Proof.
  unfold report_status. destruct (counts_failures m).
  - assert (L : List.length (filter (fun r => negb (r_exit r =? 0)) (map strip rows)) =
                List.length (filter (fun r => negb (r_exit r =? 0)) rows)).
    { induction rows as [|r rs IH]; [reflexivity|]. cbn [map filter]. change (r_exit (strip r)) with (r_exit r).
      destruct (negb (r_exit r =? 0)); cbn [List.length]; now rewrite IH. }
    unfold count_status. rewrite L. reflexivity.
  - rewrite !frev_rev, <- map_rev. apply last_status_strip.
Qed.

Theorem inflight_does_not_break m cfg fs rows rows' :
  cvs_guard m fs ->
  map strip rows = map strip rows' ->
  (report_struct_rows_with fixed_sw m cfg rows fs = RErr <-> report_struct_rows_with fixed_sw m cfg rows' fs = RErr) /\
  report_status m rows = report_status m rows' /\
  (forall rep rep', report_struct_rows_with fixed_sw m cfg rows fs = ROk rep ->
                    report_struct_rows_with fixed_sw m cfg rows' fs = ROk rep' ->
     rp_status rep = rp_status rep' /\
     map (fun s => (s_name s, s_exit s, s_log s, s_body s)) (rp_sections rep) =
     map (fun s => (s_name s, s_exit s, s_log s, s_body s)) (rp_sections rep')).
Proof.
  intros Hg E. split; [|split].
  - rewrite !(report_error_iff _ _ _ _ Hg), <- (spec_error_strip m cfg fs rows), <- (spec_error_strip m cfg fs rows'), E. tauto.
  - now rewrite <- (report_status_strip m rows), <- (report_status_strip m rows'), E.
  - intros rep rep' H H'. destruct (report_fields _ _ _ _ _ _ H) as [-> _]. destruct (report_fields _ _ _ _ _ _ H') as [-> _].
    split; [now rewrite <- (report_status_strip m rows), <- (report_status_strip m rows'), E|].
    destruct (sections_exact _ _ _ _ _ Hg H) as [-> _]. destruct (sections_exact _ _ _ _ _ Hg H') as [-> _].
    rewrite !map_map. cbn [s_name s_exit s_log s_body section_of].
    assert (G : forall l, map (fun x => (r_name x, cast_int (r_exit x), r_log x, body_or_nil_with fixed_sw m cfg fs x))
                            (filter (spec_shown m cfg fs) l) =
                      map (fun x => (r_name x, cast_int (r_exit x), r_log x, body_or_nil_with fixed_sw m cfg fs x))
                            (filter (spec_shown m cfg fs) (map strip l))).
    { induction l as [|x l IH]; [reflexivity|]. cbn [map filter]. rewrite strip_shown.
      destruct (spec_shown m cfg fs x); [|exact IH]. cbn [map]. rewrite IH. reflexivity. }
    rewrite (G rows), (G rows'), E. reflexivity.
Qed.

(* in particular: overwriting the duration and delta of any rows with the in-flight value -1 *)
Definition set_inflight (p : srow -> bool) (r : srow) : srow :=
  if p r then mksrow (r_name r) (r_exit r) (-1) (r_delta r) (r_log r) (r_time r) (r_skip r) else r.

Corollary inflight_durations_do_not_break m cfg fs rows p :
  cvs_guard m fs ->
  (report_struct_rows_with fixed_sw m cfg rows fs = RErr <->
   report_struct_rows_with fixed_sw m cfg (map (set_inflight p) rows) fs = RErr) /\
  report_status m rows = report_status m (map (set_inflight p) rows).
Proof.
  assert (E : map strip rows = map strip (map (set_inflight p) rows)).
  { rewrite map_map. apply map_ext. intros r. unfold set_inflight. destruct (p r); reflexivity. }
  intros Hg. destruct (inflight_does_not_break m cfg fs _ _ Hg E) as [H1 [H2 _]]. split; assumption.
Qed.

(* ---- the Size: oracle accepts the model ------------------------------------------------------------------------------------ *)

Lemma list_eqb_refl l : list_eqb beq l l = true.
Proof. induction l as [|x l IH]; [reflexivity|]. cbn. now rewrite beq_refl, IH. Qed.

(* the Size: oracle judges by creation order ([x_age]); it accepts the model where name order is creation order,
   and what the model prints is always the comparison with the greatest other name *)
Theorem model_passes_size_oracle w x rows rep :
  name_order_is_age (cfg_of x) (files_of x) (x_age x) = true ->
  report_struct_rows_with w (x_mode x) (cfg_of x) rows (files_of x) = ROk rep ->
  spec_ok_sizes x (rp_sizes rep) = true.
Proof.
  intros Hg H. rewrite (report_sizes_field _ _ _ _ _ _ H). unfold spec_ok_sizes, report_sizes.
  rewrite previous_is_by_name, <- (previous_coincide _ _ _ Hg). change (f_rel (files_of x)) with (x_rel x).
  destruct (x_mode x); try reflexivity.
  destruct (spec_previous (cfg_of x) (files_of x) (x_age x)) as [prev|] eqn:Ep; [|reflexivity].
  destruct (x_rel x) as [cur|] eqn:Er; [|reflexivity].
  destruct (sizes_in_range cur (f_prev_rel (files_of x) prev)) eqn:Es; [|reflexivity].
  unfold spec_sizes, sizes_against. rewrite Ep. change (f_rel (files_of x)) with (x_rel x). rewrite Er.
  rewrite size_lines_spec; [apply list_eqb_refl|].
  unfold sizes_in_range in Es. rewrite forallb_forall in Es. apply Forall_forall. intros f Hf.
  specialize (Es f Hf). apply andb_true_iff in Es. destruct Es as [Es _]. apply andb_true_iff in Es.
  destruct Es as [Es _]. now apply Z.leb_le.
Qed.

Theorem model_sizes_are_by_name w x rows rep :
  (forall cur, x_rel x = Some cur -> Forall (fun f => 0 <= rf_size f) cur) ->
  report_struct_rows_with w (x_mode x) (cfg_of x) rows (files_of x) = ROk rep ->
  sizes_as_by_name x (rp_sizes rep) = true.
Proof.
  intros Hn H. unfold sizes_as_by_name. rewrite (report_sizes_field _ _ _ _ _ _ H).
  rewrite (report_sizes_by_name (x_mode x) (cfg_of x) (files_of x) Hn). apply list_eqb_refl.
Qed.

Theorem model_passes_all_duration_oracles x rows rep :
  cvs_guard (x_mode x) (files_of x) ->
  rows_of x = Some rows ->
  report_struct_rows_with fixed_sw (x_mode x) (cfg_of x) rows (files_of x) = ROk rep ->
  spec_ok_total x (rp_duration rep) = true /\
  (forall k s, nth_error (rp_sections rep) k = Some s -> spec_ok_step_duration x k (s_duration s) = true) /\
  (name_order_is_age (cfg_of x) (files_of x) (x_age x) = true -> spec_ok_sizes x (rp_sizes rep) = true) /\
  spec_ok_shell x (render_Z (sh_total (x_mode x) rows)) = true.
Proof.
  intros Hg E H. destruct (model_passes_duration_oracles _ x rows rep E H) as [H1 [H2 H3]].
  split; [exact H1|]. split; [|split; [intros Ha; exact (model_passes_size_oracle _ x rows rep Ha H)|exact H3]].
  intros k s Hk. destruct (step_duration_line _ _ _ _ _ k s Hg H Hk) as [r [Hr [_ [-> _]]]]. now apply H2.
Qed.
