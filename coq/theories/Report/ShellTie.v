(* ShellTie.v - the hand-written model of the shell totals ([sh_total], DurationDefs.v) is the function
   assembled from what the translator harness/t_shell.py reads in util.sh duration_total and
   util-regress.sh regress_duration_total (Gen_Shell.v): the mode that is handed to
   regress_duration_total, the start index and increment of the step_eval loop, step_skip's test, the
   name that is passed over, the accumulation; the two step_eval indices of the regress variant, its
   defaults and the subtraction.  An edit of one of them changes Gen_Shell.v and breaks the equality. *)
From Robsd Require Import Report.DurationSpec Report.ReportProofs Report.DurationProofs.
From RobsdGen Require Import Gen_Shell.
Local Open Scope Z_scope.

Fixpoint gen_total_loop (fuel : nat) (i : Z) (rows : list srow) (tot : Z) : Z :=
  match fuel with
  | O => tot
  | S fuel' =>
      match sh_select rows i with
      | None => tot
      | Some r => gen_total_loop fuel' (i + dt_index_incr) rows (dt_row (r_skip r) (r_name r) (r_duration r) tot)
      end
  end.

Definition gen_regress_total (rows : list srow) : Z :=
  let t0 := match sh_select rows rdt_first_index with Some r => r_time r | None => rdt_t0_default end in
  let t1 := match sh_select rows rdt_last_index with Some r => r_time r | None => rdt_t1_default end in
  rdt_result t0 t1.

(* duration_total with _MODE = mode (the names of the modes come from mode.h through Gen_Report) *)
Definition gen_sh_total (m : mode) (rows : list srow) : Z :=
  if beq (mode_str m) dt_regress_mode then gen_regress_total rows
  else gen_total_loop (S (List.length rows)) dt_index_start rows dt_total_init.

Lemma gen_loop_is fuel : forall i rows tot, gen_total_loop fuel i rows tot = sh_total_loop fuel i rows tot.
Proof.
  induction fuel as [|fuel IH]; intros i rows tot; [reflexivity|]. cbn [gen_total_loop sh_total_loop].
  destruct (sh_select rows i) as [r|]; [|reflexivity]. rewrite IH. unfold dt_row, sh_step_skip, dt_index_incr.
  destruct (r_skip r =? 1); [reflexivity|]. change [101; 110; 100]%N with name_end.
  destruct (beq (r_name r) name_end); reflexivity.
Qed.

Theorem sh_total_translated m rows : sh_total m rows = gen_sh_total m rows.
Proof.
  unfold gen_sh_total. destruct m; cbn [sh_total];
    match goal with |- context [beq ?a ?b] => let v := eval vm_compute in (beq a b) in change (beq a b) with v end;
    cbv iota; try (symmetry; apply gen_loop_is); reflexivity.
Qed.

(* the shell and the C computation of the total agree, with the shell side read from the source *)
Theorem shell_translated_equals_C m rows :
  gen_sh_total m rows = c_total m rows /\ c_total m rows = spec_accumulated m rows.
Proof. rewrite <- sh_total_translated. apply shell_equals_C. Qed.
