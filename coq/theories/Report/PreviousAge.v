(* PreviousAge.v - "the previous invocation" (C18, Size: lines).

   The property means the invocation created last before this one ([spec_previous], DurationSpec.v, given the
   creation order [age]).  report.c previous_builddir takes the greatest other NAME ([previous_by_name],
   DurationProofs.previous_is_by_name).  Build names are <date>.<n> with n unpadded, so the two differ from the
   eleventh build of a day on:

     previous_refuted     D.9, D.10, D.11 created in this order, report of D.11: the code compares with D.9,
                          the previous invocation is D.10
     previous_coincide    they coincide under [name_order_is_age]: every invocation is in [age], creation order
                          is strictly ascending strcmp order, nothing was created after this invocation
     single_digit_order   <prefix><i> sorts before <prefix><j> for digits i < j: names of a day with fewer than ten
                          builds are in creation order *)
From Robsd Require Import Report.DurationSpec Report.DurationProofs Inv.LsProofs.
From Coq Require Import Lia Sorting.Sorted.
Local Open Scope N_scope.

(* ---- lists ------------------------------------------------------------------------------------------------ *)

Lemma last_opt_snoc l x : last_opt (l ++ [x]) = Some x.
Proof. unfold last_opt. rewrite fold_left_app. reflexivity. Qed.

Lemma last_opt_cases l : (l = [] /\ last_opt l = None) \/ (exists l' x, l = l' ++ [x] /\ last_opt l = Some x).
Proof.
  destruct l as [|a l] using rev_ind; [left; split; reflexivity|].
  right. exists l, a. split; [reflexivity|apply last_opt_snoc].
Qed.

Lemma created_split me age :
  age = created_before me age \/ age = created_before me age ++ me :: created_after me age.
Proof.
  induction age as [|p t IH]; [left; reflexivity|]. cbn [created_before created_after].
  destruct (beq_spec p me) as [->|Hne].
  - right. reflexivity.
  - destruct IH as [IH|IH]; [left|right]; cbn [app]; f_equal; exact IH.
Qed.

Lemma created_before_not_me me age y : In y (created_before me age) -> y <> me.
Proof.
  induction age as [|p t IH]; [intros []|]. cbn [created_before].
  destruct (beq_spec p me) as [->|Hne]; [intros []|]. intros [<-|H]; [exact Hne|now apply IH].
Qed.

Lemma in_age_cases me age y :
  In y age -> In y (created_before me age) \/ y = me \/ In y (created_after me age).
Proof.
  intros H. destruct (created_split me age) as [E|E]; rewrite E in H.
  - left. exact H.
  - apply in_app_or in H. destruct H as [H|[<-|H]]; auto.
Qed.

Lemma filter_before_prefix (f : bytes -> bool) me age :
  exists rest, filter f age = filter f (created_before me age) ++ rest.
Proof.
  destruct (created_split me age) as [E|E].
  - exists []. rewrite app_nil_r. now rewrite <- E.
  - exists (filter f (me :: created_after me age)). rewrite <- filter_app. now rewrite <- E.
Qed.

Lemma ascending_ssorted l : ascendingb l = true -> StronglySorted blt l.
Proof.
  induction l as [|a l IH]; [constructor|]. intros H.
  assert (Hl : ascendingb l = true /\ match l with b :: _ => blt a b | [] => True end).
  { destruct l as [|b l]; [split; [reflexivity|exact I]|]. cbn [ascendingb] in H.
    destruct (strcmp a b) eqn:E; try discriminate H. split; [exact H|]. now apply strcmp_lt_blt. }
  destruct Hl as [Hl Hab]. specialize (IH Hl). constructor; [exact IH|].
  destruct l as [|b l]; [constructor|]. inversion IH as [|? ? Hs Hall]; subst.
  constructor; [exact Hab|]. rewrite Forall_forall in *. intros y Hy. eapply blt_trans; [exact Hab|]. now apply Hall.
Qed.

Lemma ssorted_app_l {A} (R : A -> A -> Prop) l1 l2 : StronglySorted R (l1 ++ l2) -> StronglySorted R l1.
Proof.
  induction l1 as [|a l1 IH]; [constructor|]. cbn [app]. intros H. inversion H as [|? ? Hs Hall]; subst.
  constructor; [now apply IH|]. rewrite Forall_forall in *. intros y Hy. apply Hall. apply in_or_app. now left.
Qed.

Lemma ssorted_snoc_all {A} (R : A -> A -> Prop) l x : StronglySorted R (l ++ [x]) -> forall y, In y l -> R y x.
Proof.
  induction l as [|a l IH]; [intros _ y []|]. cbn [app]. intros H y [<-|Hy].
  - inversion H as [|? ? _ Hall]; subst. rewrite Forall_forall in Hall. apply Hall. apply in_or_app. right. now left.
  - inversion H; subst. now apply IH.
Qed.

Lemma mem_in x l : mem x l = true <-> In x l.
Proof.
  unfold mem. rewrite existsb_exists. split.
  - intros [y [Hy E]]. apply beq_eq in E. now subst.
  - intros H. exists x. split; [exact H|apply beq_refl].
Qed.

(* ---- the two notions coincide under the guard ------------------------------------------------------------------ *)

Theorem previous_coincide cfg fs age :
  name_order_is_age cfg fs age = true -> spec_previous cfg fs age = previous_by_name cfg fs.
Proof.
  unfold name_order_is_age, spec_previous, previous_by_name. destruct (f_root fs) as [ents|]; [|reflexivity].
  set (inv := invocation_read (c_robsddir cfg) (c_keepdir cfg) ents). set (me := c_builddir cfg).
  intros G. apply andb_true_iff in G. destruct G as [G G3]. apply andb_true_iff in G. destruct G as [G1 G2].
  rewrite forallb_forall in G1, G3.
  set (B := filter (fun p => mem p inv) (created_before me age)).
  set (N := filter (fun p => negb (beq p me)) inv).
  assert (HNB : forall y, In y N -> In y B).
  { intros y Hy. apply filter_In in Hy. destruct Hy as [Hin Hne].
    apply filter_In. split; [|now apply mem_in].
    specialize (G1 y Hin). apply mem_in in G1. destruct (in_age_cases me age y G1) as [H|[H|H]]; [exact H| |].
    - subst y. rewrite beq_refl in Hne. discriminate Hne.
    - specialize (G3 y H). apply negb_true_iff in G3. apply mem_in in Hin. congruence. }
  assert (HBN : forall y, In y B -> In y N).
  { intros y Hy. apply filter_In in Hy. destruct Hy as [Hb Hm]. apply filter_In. split; [now apply mem_in|].
    apply created_before_not_me in Hb. destruct (beq_spec y me); [contradiction|reflexivity]. }
  assert (HBs : StronglySorted blt B).
  { destruct (filter_before_prefix (fun p => mem p inv) me age) as [rest E].
    apply ascending_ssorted in G2. rewrite E in G2. eapply ssorted_app_l. exact G2. }
  pose proof (fold_max_spec N None) as Hm.
  destruct (last_opt_cases B) as [[EB ->]|[B' [x [EB ->]]]].
  - destruct (fold_left path_max N None) as [m|]; [|reflexivity]. exfalso.
    destruct Hm as [[Hin|Hin] _]; [|discriminate Hin]. apply HNB in Hin. rewrite EB in Hin. destruct Hin.
  - assert (HxN : In x N) by (apply HBN; rewrite EB; apply in_or_app; right; now left).
    destruct (fold_left path_max N None) as [m|].
    + f_equal. destruct Hm as [[Hin|Hin] [Hall _]]; [|discriminate Hin]. apply cmp_le_antisym; [now apply Hall|].
      apply HNB in Hin. rewrite EB in Hin, HBs. apply in_app_or in Hin. destruct Hin as [Hin|[<-|[]]]; [|apply cmp_le_refl].
      apply lt_or_eq_cmp_le. left. exact (ssorted_snoc_all blt B' x HBs m Hin).
    + destruct Hm as [_ Hnil]. rewrite Hnil in HxN. destruct HxN.
Qed.

(* ---- outside the guard: the eleventh build of a day ------------------------------------------------------------ *)

Definition pa_root : bytes := [47; 114].                                            (* /r *)
Definition pa_d9 : bytes := [100; 46; 57].                                          (* d.9 *)
Definition pa_d10 : bytes := [100; 46; 49; 48].                                     (* d.10 *)
Definition pa_d11 : bytes := [100; 46; 49; 49].                                     (* d.11 *)
Definition pa_cfg : cfgview := mkcfg (mkpath pa_root pa_d11) true pa_root (mkpath pa_root [97]) [] [] [] [].
Definition pa_files : files :=
  mkfiles (fun _ => FAbsent) (fun _ => FAbsent) FAbsent None None
          (Some [mkde pa_d10 DT_DIR; mkde pa_d9 DT_DIR; mkde pa_d11 DT_DIR]) None (fun _ _ => None).
Definition pa_age : list bytes := [mkpath pa_root pa_d9; mkpath pa_root pa_d10; mkpath pa_root pa_d11].

(* d.9, d.10, d.11 made in this order; the report of d.11: the previous invocation is d.10, the code takes d.9 *)
Theorem previous_refuted :
  spec_previous pa_cfg pa_files pa_age = Some (mkpath pa_root pa_d10) /\
  previous_builddir pa_cfg pa_files = Some (mkpath pa_root pa_d9) /\
  name_order_is_age pa_cfg pa_files pa_age = false.
Proof. repeat split. Qed.

(* ... and so the Size: lines compare with the wrong invocation: bsd grew from 1M (d.9) over 5M (d.10) to 6M (d.11);
   the report of d.11 says +5.0M where the change against the previous invocation is +1.0M *)
Definition pa_bsd : bytes := [98; 115; 100].
Definition pa_files_sizes : files :=
  mkfiles (fun _ => FAbsent) (fun _ => FAbsent) FAbsent None None
          (Some [mkde pa_d10 DT_DIR; mkde pa_d9 DT_DIR; mkde pa_d11 DT_DIR])
          (Some [mkrel pa_bsd 6291456])
          (fun prev n => if beq prev (mkpath pa_root pa_d9) then Some 1048576%Z
                         else if beq prev (mkpath pa_root pa_d10) then Some 5242880%Z else None).

Theorem sizes_refuted :
  report_sizes Robsd pa_cfg pa_files_sizes = [size_prefix ++ [98; 115; 100; 32; 54; 46; 48; 77; 32; 40; 43; 53; 46; 48; 77; 41]] /\
  spec_sizes Robsd pa_cfg pa_files_sizes pa_age = [size_prefix ++ [98; 115; 100; 32; 54; 46; 48; 77; 32; 40; 43; 49; 46; 48; 77; 41]].
Proof. split; vm_compute; reflexivity. Qed.

(* ---- where the guard holds: one digit ---------------------------------------------------------------------------- *)

(* names that differ in their last character only sort like those characters: <date>.1 .. <date>.9 are in creation
   order (build_id counts up); a tenth build of the day adds a character and the order breaks *)
Lemma single_digit_order pre i j : i < j -> strcmp (pre ++ [i]) (pre ++ [j]) = Lt.
Proof. intros H. rewrite strcmp_app. cbn [strcmp]. apply N.compare_lt_iff in H. now rewrite H. Qed.

Lemma tenth_breaks_order pre : strcmp (pre ++ [57]) (pre ++ [49; 48]) = Gt.
Proof. rewrite strcmp_app. reflexivity. Qed.

(* ---- the Size: lines of the report ---------------------------------------------------------------------------------- *)

Theorem report_sizes_spec m cfg fs age :
  (forall cur, f_rel fs = Some cur -> Forall (fun f => (0 <= rf_size f)%Z) cur) ->
  name_order_is_age cfg fs age = true ->
  report_sizes m cfg fs = spec_sizes m cfg fs age.
Proof.
  intros Hn Hg. rewrite (report_sizes_by_name m cfg fs Hn). unfold sizes_by_name, spec_sizes.
  now rewrite (previous_coincide cfg fs age Hg).
Qed.
