(* ReportDefs.v - executable model of the report generator.  Definitions only.
   Anchors: report.c report_generate, report_subject, canvas_report_subject,
   cross_report_subject, report_status, number_of_failures_report_status,
   report_stats, previous_builddir, report_comment, report_steps,
   report_skip_step, ports_report_skip_step, regress_report_skip_step,
   is_regress_step, is_regress_quiet, is_log_empty, report_step_log,
   ports_report_step_log, regress_report_step_log, canvas_report_step_log,
   report_cvs_log, format_file, buffer_trim_lines, last_lines, report_sanitize;
   robsd-report.c main; regress-log.c through RegressLog.RLDefs (C13);
   invocation.c through Inv.LsDefs (C15); the numbers in DurationDefs.

   Two layers: [report_struct] assembles the report as a structure,
   [render] prints and sanitizes it.

   Conventions.  char * values (step names and log names of rows, configuration
   strings, the host name, directory entries) are C strings and are held without
   a NUL byte; file contents are buffers (pointer + length) and may hold any
   byte.  Wherever the code hands a buffer to "%s" or "%.*s" the model applies
   [cstr] (the bytes before the first NUL).

   Environment assumed (stated in the evidence): <robsddir>/.running names the
   directory given on the command line, so ${builddir}/comment, /tags and /tmp
   are looked up in that directory; paths stay below PATH_MAX; printf("%s", NULL)
   prints "(null)" (glibc) - reached only when <builddir>/target is unreadable
   in robsd-cross mode. *)
From Robsd Require Export Report.DurationDefs RegressLog.RLDefs.
From Coq Require Import String.
Local Open Scope N_scope.

Inductive result (A : Type) := ROk (a : A) | RErr.
Arguments ROk {A} a.
Arguments RErr {A}.

(* ---- the file system as the report sees it ------------------------------------------- *)

(* what reading a file gives: FAbsent = it does not exist (open and stat fail with ENOENT); FUnreadable = it
   is there (stat succeeds, non-zero size) but cannot be read (a directory, no permission); FData = its bytes *)
Inductive fread := FAbsent | FUnreadable | FData (b : bytes).

Record files := mkfiles {
  f_log : bytes -> fread;                   (* <builddir>/<log field> *)
  f_tmp : bytes -> fread;                   (* <tmp-dir>/<name> *)
  f_comment : fread;                        (* ${comment-path} *)
  f_tags : option bytes;                    (* ${tags-path} *)
  f_target : option bytes;                  (* <builddir>/target *)
  f_root : option (list dirent);            (* readdir of robsddir; None = opendir fails *)
  f_rel : option (list relfile);            (* readdir + stat of <builddir>/rel; None = opendir fails *)
  f_prev_rel : bytes -> bytes -> option Z;  (* prev builddir, name -> st_size of <prev>/rel/<name> *)
}.

(* what the report reads of the configuration *)
Record cfgview := mkcfg {
  c_builddir : bytes;            (* argv[0] *)
  c_running : bool;              (* ${builddir} resolves (lock file readable) *)
  c_robsddir : bytes;
  c_keepdir : bytes;
  c_regress : list bytes;        (* the regress list *)
  c_quiet : list bytes;          (* suites with regress-<name>-quiet = 1 *)
  c_canvas_name : bytes;
  c_machine : bytes;
}.

(* ---- the places where report.c has had more than one form --------------------------------------- *)

(* Every function below that depends on such a place takes the forms as a [switches] value.  [cur_sw] is what the
   translator found in the working tree (Gen_Report); the un-suffixed names ([step_log], [report_struct_rows],
   [report_main] ...) are the model of the source as it is.  The theorems of ReportProofs / ReportNeverHidden are
   proved for [fixed_sw]; Properties_C05.v states them for the un-suffixed names, which type-checks exactly when
   [cur_sw] computes to [fixed_sw]. *)
Record switches := mksw {
  sw_excerpt_copies : bool;     (* report_step_log copies the excerpt (true) / prints it with "%.*s" (D14) *)
  sw_canvas_copies : bool;      (* canvas_report_step_log copies the log / prints it with "%s" (D14) *)
  sw_cvs_missing : bool;        (* report_cvs_log passes over a cvs log that does not exist / fails (D18) *)
  sw_log_missing : bool;        (* report_step_log: a log that does not exist is an empty log / an error (D24) *)
  sw_canvas_missing : bool;     (* canvas_report_step_log: same *)
  sw_regress_missing : bool;    (* regress_report_step_log: same *)
  sw_cvs_logs : list (mode * bytes);   (* the table of report_cvs_log *)
}.

Definition cur_sw : switches :=
  mksw excerpt_copies_bytes canvas_copies_bytes cvs_missing_skipped
       step_log_missing_is_empty canvas_log_missing_is_empty regress_log_missing_is_empty cvs_logs.

Definition cvs_table_robsd_ports : list (mode * bytes) := Eval vm_compute in
  [(Robsd, bs "cvs-src-up.log"%string); (Robsd, bs "cvs-src-ci.log"%string);
   (Robsd, bs "cvs-xenocara-up.log"%string); (Robsd, bs "cvs-xenocara-ci.log"%string);
   (Ports, bs "cvs-ports-up.log"%string); (Ports, bs "cvs-ports-ci.log"%string)].
Definition cvs_table_regress : list (mode * bytes) := Eval vm_compute in
  [(Regress, bs "cvs-src-up.log"%string); (Regress, bs "cvs-src-ci.log"%string)].

(* the source the theorems are about: every repair in place, the regress rows in the cvs table (D25) *)
Definition fixed_sw : switches := mksw true true true true true true (cvs_table_robsd_ports ++ cvs_table_regress).
(* the source before D24 was repaired: a log that does not exist takes the report down *)
Definition sw_before_d24 : switches := mksw true true true false false false (cvs_table_robsd_ports ++ cvs_table_regress).
(* the source before D25: no regress rows in the cvs table *)
Definition sw_before_d25 : switches := mksw true true true true true true cvs_table_robsd_ports.
(* the source before D18 / before D14 *)
Definition sw_before_d18 : switches := mksw true true false true true true (cvs_table_robsd_ports ++ cvs_table_regress).
Definition sw_before_d14 : switches := mksw false false true true true true (cvs_table_robsd_ports ++ cvs_table_regress).

(* ---- small helpers -------------------------------------------------------------------- *)

(* list reversal in linear time (List.rev is quadratic once extracted); frev l = rev l *)
Definition frev {A} (l : list A) : list A := rev_append l [].

Definition mem (x : bytes) (l : list bytes) : bool := existsb (beq x) l.

(* buffer_trim_lines: drop every trailing newline *)
Fixpoint trim_lines (b : bytes) : bytes :=
  match b with
  | [] => []
  | c :: b' =>
      match trim_lines b' with
      | [] => if c =? 10 then [] else [c]
      | t => c :: t
      end
  end.

(* format_file on a readable file *)
Definition format_file (b : bytes) : bytes := trim_lines b ++ [10].

(* last_lines(str, len, &outlen, nlines): walks backwards; [r] is the unread
   part reversed, [acc] the bytes already passed, in file order *)
Fixpoint span_back (p : N -> bool) (r acc : bytes) : bytes * bytes :=
  match r with
  | c :: r' => if p c then span_back p r' (c :: acc) else (r, acc)
  | [] => ([], acc)
  end.

Definition isnl (c : N) : bool := c =? 10.
Definition notnl (c : N) : bool := negb (c =? 10).

Fixpoint last_lines_loop (n : nat) (r acc : bytes) : bytes :=
  match n with
  | O => acc
  | S n' =>
      let '(r1, a1) := span_back isnl r acc in
      let '(r2, a2) := span_back notnl r1 a1 in
      match r2 with
      | [] => a2
      | _ => last_lines_loop n' r2 a2
      end
  end.

Definition last_lines (s : bytes) (n : nat) : bytes := last_lines_loop n (frev s) [].

(* is_log_empty's loop: every line starts with '+' (an unfinished last line counts) *)
Fixpoint only_trace (start : bool) (c : bytes) : bool :=
  match c with
  | [] => true
  | x :: c' =>
      if start then (if x =? 43 then only_trace false c' else false)
      else only_trace (x =? 10) c'
  end.

Definition is_log_empty (fs : files) (r : srow) : bool :=
  match f_log fs (r_log r) with
  | FData c => only_trace true c
  | _ => true                                 (* arena_buffer_read == NULL *)
  end.

(* ---- cvs logs -------------------------------------------------------------------------- *)

Definition cvs_names_of (t : list (mode * bytes)) (m : mode) : list bytes :=
  map snd (filter (fun e => mode_eqb (fst e) m) t).
Definition cvs_names (m : mode) : list bytes := cvs_names_of cvs_logs m.

(* the loop of report_cvs_log: (bytes appended, format_file failed).  [skip_missing]: a file stat(2) does not
   find is passed over like an empty one (Gen_Report.cvs_missing_skipped; /repo da850b3) - before that it made
   format_file fail (D18) *)
Fixpoint cvs_loop_with (skip_missing : bool) (fs : files) (names : list bytes) (ncvs : nat) (out : bytes) : bytes * bool :=
  match names with
  | [] => (out, false)
  | n :: ns =>
      match f_tmp fs n with
      | FData [] => cvs_loop_with skip_missing fs ns ncvs out          (* stat ok, size 0 *)
      | FAbsent =>
          if skip_missing then cvs_loop_with skip_missing fs ns ncvs out
          else ((if Nat.ltb 0 ncvs then out ++ [10] else out), true)
      | FUnreadable => ((if Nat.ltb 0 ncvs then out ++ [10] else out), true)     (* format_file fails *)
      | FData b =>
          let out1 := if Nat.ltb 0 ncvs then out ++ [10] else out in
          cvs_loop_with skip_missing fs ns (S ncvs) (out1 ++ format_file b)
      end
  end.

Definition cvs_log_with (w : switches) (m : mode) (fs : files) : bytes * bool :=
  cvs_loop_with (sw_cvs_missing w) fs (cvs_names_of (sw_cvs_logs w) m) 0 [10].
Definition cvs_log := cvs_log_with cur_sw.

(* ---- which rows get a section ------------------------------------------------------------ *)

Inductive skipres := SkOmit | SkShow | SkErr.

Definition fl_peek : flags := mkflags false true true false false.          (* SKIPPED | XFAILED *)
Definition fl_log (quiet : bool) : flags :=
  mkflags true (negb quiet) (negb quiet) true false.                       (* FAILED | XPASSED [| SKIPPED | XFAILED] *)

Definition is_regress_step (cfg : cfgview) (name : bytes) : bool := mem name (c_regress cfg).
Definition is_regress_quiet (cfg : cfgview) (name : bytes) : bool := mem name (c_quiet cfg).

Definition regress_skip_step (cfg : cfgview) (fs : files) (r : srow) : skipres :=
  if negb (is_regress_step cfg (r_name r)) || is_regress_quiet cfg (r_name r) then SkOmit
  else match r_log r with
       | [] => SkErr                                            (* missing mandatory log field *)
       | l => match f_log fs l with
              | FData c => if Nat.ltb 0 (peek fl_peek c) then SkShow else SkOmit
              | _ => SkOmit                                     (* regress_log_peek < 0 *)
              end
       end.

Definition ports_skip_step (r : srow) : skipres :=
  if beq (r_name r) name_cvs then SkShow
  else if beq (r_name r) name_dpb then SkShow
  else SkOmit.

(* report_skip_step *)
Definition skip_step (m : mode) (cfg : cfgview) (fs : files) (r : srow) : skipres :=
  match m with
  | Ports => ports_skip_step r
  | Regress => regress_skip_step cfg fs r
  | _ =>
      if beq (r_name r) name_cvs then SkShow
      else if beq (r_name r) name_checkflist && negb (is_log_empty fs r) then SkShow
      else SkOmit
  end.

(* ---- what follows the Log: line ------------------------------------------------------------ *)

Inductive logres := LHandled (b : bytes) | LUnhandled | LError.

Definition ports_step_log (w : switches) (fs : files) (r : srow) : logres :=
  if beq (r_name r) name_cvs then
    (let '(b, e) := cvs_log_with w Ports fs in if e then LError else LHandled b)
  else if beq (r_name r) name_dpb && (r_exit r =? 0)%Z then
    match f_tmp fs packages_diff with
    | FData b => LHandled (10 :: format_file b)
    | _ => LError                                                (* format_file fails *)
    end
  else LUnhandled.

(* [sw_regress_missing]: stat(log_path) == -1 && errno == ENOENT -> STEP_LOG_UNHANDLED, before the log is parsed *)
Definition regress_step_log (w : switches) (cfg : cfgview) (fs : files) (r : srow) : logres :=
  match r_log r with
  | [] => LError
  | l =>
      match f_log fs l with
      | FAbsent => if sw_regress_missing w then LUnhandled else LError
      | FUnreadable => LError                                   (* regress_log_parse < 0 *)
      | FData c =>
          let '(n, out) := parse (fl_log (is_regress_quiet cfg (r_name r))) c [] in
          if Nat.ltb 0 n then LHandled (10 :: out) else LUnhandled
      end
  end.

(* "\n%s" on buffer_str(bf) ([sw_canvas_copies] = false), or the bytes copied with buffer_puts (true);
   a log that does not exist: one newline ([sw_canvas_missing], errno == ENOENT) or an error *)
Definition canvas_step_log (w : switches) (fs : files) (r : srow) : logres :=
  match r_log r with
  | [] => LUnhandled
  | l =>
      match f_log fs l with
      | FAbsent => if sw_canvas_missing w then LHandled [10] else LError
      | FUnreadable => LError
      | FData c => LHandled (10 :: (if sw_canvas_copies w then c else cstr c))
      end
  end.

(* "\n%.*s" of the last lines ([copies] = false) or the bytes copied ([copies] =
   true; Gen_Report.excerpt_copies_bytes), then a newline when the excerpt does
   not end in one - tested on the buffer, not on what was printed *)
Definition excerpt_with (copies : bool) (c : bytes) : bytes :=
  let t := last_lines c tail_lines in
  10 :: (if copies then t else cstr t) ++
  match frev t with
  | x :: _ => if x =? 10 then [] else [10]
  | [] => []
  end.

(* the part of report_step_log after the mode specific handlers; a log that does not exist: one newline
   ([sw_log_missing], errno == ENOENT) or an error *)
Definition generic_step_log (w : switches) (m : mode) (fs : files) (r : srow) : result bytes :=
  if beq (r_name r) name_cvs then ROk (fst (cvs_log_with w m fs))      (* report_cvs_log(r) < 0 never holds: STEP_LOG_ERROR is 3 *)
  else match r_log r with
       | [] => ROk []
       | l => match f_log fs l with
              | FAbsent => if sw_log_missing w then ROk [10] else RErr
              | FUnreadable => RErr
              | FData c => ROk (excerpt_with (sw_excerpt_copies w) c)
              end
       end.

Definition step_log_with (w : switches) (m : mode) (cfg : cfgview) (fs : files) (r : srow) : result bytes :=
  let rv := match m with
            | Ports => ports_step_log w fs r
            | Regress => regress_step_log w cfg fs r
            | Canvas => canvas_step_log w fs r
            | _ => LUnhandled
            end in
  match rv with
  | LError => RErr
  | LHandled b => ROk b
  | LUnhandled => generic_step_log w m fs r
  end.

(* report_step_log as report.c has it now *)
Definition step_log : mode -> cfgview -> files -> srow -> result bytes := step_log_with cur_sw.

(* ---- sections --------------------------------------------------------------------------------- *)

Record section := mksec {
  s_name : bytes; s_exit : Z; s_duration : bytes; s_log : bytes; s_body : bytes }.

(* report_steps; [dur] is the text of the Duration: line of a row ([step_duration] in report.c - a parameter so that
   C18's oracle can put the specified text there and leave everything else to the model) *)
Fixpoint steps_loop_gen (w : switches) (dur : srow -> bytes) (m : mode) (cfg : cfgview) (fs : files) (rows : list srow)
  : result (list section) :=
  match rows with
  | [] => ROk []
  | r :: rs =>
      if row_skipped (r_skip r) then steps_loop_gen w dur m cfg fs rs
      else
        match (if omit_candidate (r_exit r) then skip_step m cfg fs r else SkShow) with
        | SkOmit => steps_loop_gen w dur m cfg fs rs
        | SkErr => RErr
        | SkShow =>
            match step_log_with w m cfg fs r with
            | RErr => RErr
            | ROk body =>
                match steps_loop_gen w dur m cfg fs rs with
                | RErr => RErr
                | ROk ss => ROk (mksec (r_name r) (cast_int (r_exit r)) (dur r) (r_log r) body :: ss)
                end
            end
        end
  end.
Definition steps_loop_with (w : switches) := steps_loop_gen w step_duration.
Definition steps_loop := steps_loop_with cur_sw.

(* ---- status ----------------------------------------------------------------------------------- *)

Definition str_ok := Eval vm_compute in bs "ok"%string.
Definition str_failed_in := Eval vm_compute in bs "failed in "%string.
Definition str_failure := Eval vm_compute in bs " failure"%string.

(* number_of_failures_report_status: every row counts, skipped or not *)
Definition count_status (rows : list srow) : bytes :=
  let n := List.length (filter (fun r => negb (r_exit r =? 0)%Z) rows) in
  if Nat.ltb 0 n
  then render_Z (Z.of_nat n) ++ str_failure ++ (if Nat.ltb 1 n then [115] else [])
  else str_ok.

(* the backwards loop of report_status over the rows, last first *)
Fixpoint last_status (rrows : list srow) : bytes :=
  match rrows with
  | [] => str_ok
  | r :: rs =>
      if (r_skip r =? 1)%Z then last_status rs
      else if (r_exit r =? 0)%Z then str_ok
      else str_failed_in ++ r_name r
  end.

Definition counts_failures (m : mode) : bool := existsb (mode_eqb m) count_status_modes.

Definition report_status (m : mode) (rows : list srow) : bytes :=
  if counts_failures m then count_status rows else last_status (frev rows).

(* ---- subject, stats, comment -------------------------------------------------------------------- *)

Inductive subject_ctx :=
  | SubjCanvas (name : bytes)          (* "Subject: canvas: <name>: <status>" *)
  | SubjHost (prefix : bytes).         (* "Subject: <mode>: <host>:<prefix><status>" *)

Fixpoint first_line (b : bytes) : bytes :=
  match b with
  | [] => []
  | c :: b' => if c =? 10 then [] else c :: first_line b'
  end.

Definition str_null := Eval vm_compute in bs "(null)"%string.

(* cross_report_subject *)
Definition cross_prefix (cfg : cfgview) (fs : files) : bytes :=
  match f_target fs with
  | None => str_null
  | Some t => 32 :: c_machine cfg ++ 46 :: first_line (cstr t) ++ [58; 32]
  end.

Definition subject_of (m : mode) (cfg : cfgview) (fs : files) : subject_ctx :=
  match m with
  | Canvas => SubjCanvas (c_canvas_name cfg)
  | Cross => SubjHost (cross_prefix cfg fs)
  | _ => SubjHost [32]
  end.

(* previous_builddir: the greatest invocation directory other than this one *)
Definition previous_builddir (cfg : cfgview) (fs : files) : option bytes :=
  match f_root fs with
  | None => None
  | Some ents =>
      find (fun p => negb (beq p (c_builddir cfg)))
           (invocation_find_all isort (c_robsddir cfg) (c_keepdir cfg) ents)
  end.

(* report_stats_sizes, robsd mode only *)
Definition report_sizes (m : mode) (cfg : cfgview) (fs : files) : list bytes :=
  match m with
  | Robsd =>
      match previous_builddir cfg fs with
      | None => []
      | Some prev =>
          match f_rel fs with
          | None => []
          | Some cur => size_lines cur (f_prev_rel fs prev)
          end
      end
  | _ => []
  end.

Record Report := mkrep {
  rp_mode : mode;
  rp_subject : subject_ctx;
  rp_status : bytes;
  rp_duration : bytes;          (* the Duration: line of the stats block *)
  rp_build : bytes;
  rp_tags : option bytes;
  rp_sizes : list bytes;        (* the Size: lines, in print order *)
  rp_comment : option bytes;    (* the comment file, trailing newlines dropped *)
  rp_sections : list section;
}.

(* report_generate up to report_sanitize, given the parsed rows; [tot], [dur], [sizes]: the text of the Duration:
   line of the stats block, of a row, and the Size: lines *)
Definition report_struct_rows_gen (w : switches) (tot : bytes) (dur : srow -> bytes) (sizes : list bytes)
    (m : mode) (cfg : cfgview) (rows : list srow) (fs : files) : result Report :=
  if negb (c_running cfg) then RErr                               (* ${tags-path} does not interpolate *)
  else
    match f_comment fs with
    | FUnreadable => RErr
    | cm =>
        match steps_loop_gen w dur m cfg fs rows with
        | RErr => RErr
        | ROk ss =>
            ROk (mkrep m (subject_of m cfg fs) (report_status m rows) tot
                       (c_builddir cfg) (f_tags fs) sizes
                       (match cm with FData b => Some (trim_lines b) | _ => None end) ss)
        end
    end.

Definition report_struct_rows_with (w : switches) (m : mode) (cfg : cfgview) (rows : list srow) (fs : files) : result Report :=
  report_struct_rows_gen w (stats_duration m rows) step_duration (report_sizes m cfg fs) m cfg rows fs.

Definition report_struct_rows := report_struct_rows_with cur_sw.

(* on rows of the step file model of C01 *)
Definition report_struct_with (w : switches) (m : mode) (cfg : cfgview) (rows : list row) (fs : files) : result Report :=
  report_struct_rows_with w m cfg (map view rows) fs.
Definition report_struct := report_struct_with cur_sw.

(* ---- rendering ------------------------------------------------------------------------------------ *)

Definition mode_str (m : mode) : bytes :=
  match find (fun e => mode_eqb (fst e) m) mode_names with
  | Some e => snd e
  | None => []
  end.

Definition s_subject := Eval vm_compute in bs "Subject: "%string.
Definition s_stats := Eval vm_compute in bs "> stats"%string.
Definition s_status := Eval vm_compute in bs "Status: "%string.
Definition s_duration_ := Eval vm_compute in bs "Duration: "%string.
Definition s_build := Eval vm_compute in bs "Build: "%string.
Definition s_tags := Eval vm_compute in bs "Tags: "%string.
Definition s_comment := Eval vm_compute in bs "> comment"%string.
Definition s_exit_ := Eval vm_compute in bs "Exit: "%string.
Definition s_log_ := Eval vm_compute in bs "Log: "%string.

Definition render_section (s : section) : bytes :=
  [10; 62; 32] ++ s_name s ++ [10] ++
  s_exit_ ++ render_Z (s_exit s) ++ [10] ++
  s_duration_ ++ s_duration s ++ [10] ++
  s_log_ ++ s_log s ++ [10] ++
  s_body s.

Definition render_subject (host : bytes) (rep : Report) : bytes :=
  s_subject ++ mode_str (rp_mode rep) ++ [58; 32] ++
  match rp_subject rep with
  | SubjCanvas n => n ++ [58; 32] ++ rp_status rep
  | SubjHost p => host ++ [58] ++ p ++ rp_status rep
  end ++ [10; 10].

Definition render_raw (host : bytes) (rep : Report) : bytes :=
  render_subject host rep ++
  s_stats ++ [10] ++
  s_status ++ rp_status rep ++ [10] ++
  s_duration_ ++ rp_duration rep ++ [10] ++
  s_build ++ rp_build rep ++ [10] ++
  match rp_tags rep with Some t => s_tags ++ t | None => [] end ++
  List.concat (map (fun l => l ++ [10]) (rp_sizes rep)) ++
  match rp_comment rep with Some c => [10] ++ s_comment ++ [10] ++ c ++ [10] | None => [] end ++
  List.concat (map render_section (rp_sections rep)).

(* report_sanitize: the bytes of the table are replaced, everything else is copied *)
Fixpoint lookup_byte (t : list (N * bytes)) (c : N) : option bytes :=
  match t with
  | [] => None
  | (k, v) :: t' => if c =? k then Some v else lookup_byte t' c
  end.

Definition sanitize_byte (c : N) : bytes :=
  match lookup_byte sanitize_table c with Some v => v | None => [c] end.

Definition sanitize (s : bytes) : bytes := flat_map sanitize_byte s.

Definition render (host : bytes) (rep : Report) : bytes := sanitize (render_raw host rep).

(* robsd-report -m mode -C conf builddir: exit status and standard output
   (buffer_putc(bf, '\0'); printf("%s", ...)); [stepfile] = None when step.csv
   cannot be opened *)
Definition report_main_with (w : switches) (m : mode) (cfg : cfgview) (host : bytes) (stepfile : option bytes) (fs : files)
  : N * bytes :=
  match stepfile with
  | None => (1, [])
  | Some content =>
      match parse_file content with
      | None => (1, [])
      | Some rows =>
          match report_struct_with w m cfg rows fs with
          | RErr => (1, [])
          | ROk rep => (0, cstr (render host rep))
          end
      end
  end.
Definition report_main := report_main_with cur_sw.
