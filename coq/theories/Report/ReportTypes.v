(* ReportTypes.v - types shared by the generated constants (Gen_Report) and the
   report models: the five modes and the view of a step file row the report
   reads (step_get_field on name, exit, duration, delta, log, time, skip). *)
From Robsd Require Export Base.Bytes Step.StepDefs.
From Coq Require Import String.
Local Open Scope N_scope.

Inductive mode := Robsd | Cross | Ports | Regress | Canvas.

Definition mode_eqb (a b : mode) : bool :=
  match a, b with
  | Robsd, Robsd | Cross, Cross | Ports, Ports | Regress, Regress | Canvas, Canvas => true
  | _, _ => false
  end.

Lemma mode_eqb_spec a b : reflect (a = b) (mode_eqb a b).
Proof. destruct a, b; constructor; congruence. Qed.

(* what the report reads of one row.  String fields are C strings (char * made
   by arena_strdup from a lexer token: the step file is lexed up to its first
   NUL byte, so they never contain one) *)
Record srow := mksrow {
  r_name : bytes; r_exit : Z; r_duration : Z; r_delta : Z; r_log : bytes; r_time : Z; r_skip : Z }.

(* step_get_field(step, name)->integer / ->str on a row of the step file model
   of C01 (Step/StepDefs.v).  Rows that steps_parse accepts have every field
   set (mandatory ones by step_validate, optional ones by step_init), so the
   fall-back values are never used on parsed files. *)
Definition geti (st : row) (name : bytes) : Z :=
  match get_field st name with Some (VInt z) => z | _ => 0%Z end.
Definition gets (st : row) (name : bytes) : bytes :=
  match get_field st name with Some (VStr s) => s | _ => [] end.

Definition fn_name := Eval vm_compute in bs "name"%string.
Definition fn_exit := Eval vm_compute in bs "exit"%string.
Definition fn_duration := Eval vm_compute in bs "duration"%string.
Definition fn_delta := Eval vm_compute in bs "delta"%string.
Definition fn_log := Eval vm_compute in bs "log"%string.
Definition fn_time := Eval vm_compute in bs "time"%string.
Definition fn_skip := Eval vm_compute in bs "skip"%string.

Definition view (st : row) : srow :=
  mksrow (gets st fn_name) (geti st fn_exit) (geti st fn_duration) (geti st fn_delta)
         (gets st fn_log) (geti st fn_time) (geti st fn_skip).
