(* ReportSpec.v - what the report has to say about failed steps (C05), written
   as comprehensions over the rows and as line-level descriptions of the log
   excerpts, not as the loops of report.c; and the boolean oracles applied to
   what robsd-report printed.

     status     ok iff no non-skipped row has a non-zero exit; otherwise the
                number of such rows (regress, canvas) or the name of the
                failing row (sequential modes)
     sections   the non-skipped rows that failed or that are listed although
                they passed (cvs, dpb, checkflist with output, regress suites
                with skipped or expected-to-fail tests), in row order
     body       the lines of the log from the tenth-last non-empty line on; the
                cvs logs (those that exist and are not empty) for the cvs step; packages.diff for a passing dpb; the
                extracted regress blocks (C13's specification) when there are
                any; the whole log in canvas mode.  A log that does NOT EXIST is an empty log (the in-flight
                record of step_exec_job names the log before tee creates it: an invocation killed in between
                leaves such a row, and "every non-skipped step with a non-zero exit has its own section" holds
                for it too); only a file that is there and cannot be read is an error
     sanitized  no NUL or CR byte is printed *)
From Robsd Require Export Report.ReportFixture RegressLog.RLSpec.
From Coq Require Import String.
Local Open Scope N_scope.

(* ---- rows ------------------------------------------------------------------------------ *)

Definition nonskipped (r : srow) : bool := negb (r_skip r =? 1)%Z.
Definition failing (r : srow) : bool := nonskipped r && negb (r_exit r =? 0)%Z.
Definition failures (rows : list srow) : list srow := filter failing rows.

(* regress and canvas count failures, the other modes stop at the first one *)
Definition counting (m : mode) : bool :=
  match m with Regress | Canvas => true | _ => false end.

(* hypotheses of the status theorem (DESIGN.md C05): what step_write -S writes, and
   what an orchestrator that halts at the first failure leaves behind *)
Definition skipped_exit0 (rows : list srow) : Prop :=
  forall r, In r rows -> r_skip r = 1%Z -> r_exit r = 0%Z.
Definition reachable_seq (rows : list srow) : Prop :=
  forall a r b, rows = a ++ r :: b -> failing r = true -> forall x, In x b -> r_skip x = 1%Z.

Definition skipped_exit0b (rows : list srow) : bool :=
  forallb (fun r => nonskipped r || (r_exit r =? 0)%Z) rows.
Fixpoint reachable_seqb (rows : list srow) : bool :=
  match rows with
  | [] => true
  | r :: rs => (if failing r then forallb (fun x => negb (nonskipped x)) rs else true) && reachable_seqb rs
  end.

Definition count_text (n : nat) : bytes :=
  render_Z (Z.of_nat n) ++ str_failure ++ (if Nat.ltb 1 n then [115] else []).

Definition spec_status (m : mode) (rows : list srow) : bytes :=
  match failures rows with
  | [] => str_ok
  | f :: fs =>
      if counting m then count_text (List.length (f :: fs))
      else str_failed_in ++ r_name (last fs f)
  end.

(* ---- which rows are listed ----------------------------------------------------------------- *)

(* the content of a log as the report has to see it: a log that does not exist is empty *)
Definition log_content (fs : files) (l : bytes) : result bytes :=
  match f_log fs l with
  | FData c => ROk c
  | FAbsent => ROk []
  | FUnreadable => RErr
  end.

Definition has_plain_line (fs : files) (r : srow) : bool :=
  match f_log fs (r_log r) with
  | FData c => negb (forallb isxtrace (getlines c))
  | _ => false
  end.

Definition has_skipped_or_xfailed (fs : files) (r : srow) : bool :=
  match r_log r with
  | [] => false
  | l => match f_log fs l with
         | FData c => existsb (selected fl_peek) (drop_trace (clines c))
         | _ => false
         end
  end.

(* rows with exit 0 that get a section all the same *)
Definition listed_anyway (m : mode) (cfg : cfgview) (fs : files) (r : srow) : bool :=
  match m with
  | Ports => beq (r_name r) name_cvs || beq (r_name r) name_dpb
  | Regress => mem (r_name r) (c_regress cfg) && negb (mem (r_name r) (c_quiet cfg)) && has_skipped_or_xfailed fs r
  | _ => beq (r_name r) name_cvs || (beq (r_name r) name_checkflist && has_plain_line fs r)
  end.

Definition spec_shown (m : mode) (cfg : cfgview) (fs : files) (r : srow) : bool :=
  nonskipped r && (negb (r_exit r =? 0)%Z || listed_anyway m cfg fs r).

(* ---- log excerpts -------------------------------------------------------------------------- *)

(* split at every newline: always at least one piece *)
Fixpoint split_nl (s : bytes) : list bytes :=
  match s with
  | [] => [[]]
  | c :: s' =>
      if c =? 10 then [] :: split_nl s'
      else match split_nl s' with
           | l :: ls => (c :: l) :: ls
           | [] => [[c]]
           end
  end.

(* pieces up to and including the n-th non-empty one *)
Fixpoint take_nonempty (n : nat) (ls : list bytes) : list bytes :=
  match n with
  | O => []
  | S n' =>
      match ls with
      | [] => []
      | [] :: ls' => [] :: take_nonempty n ls'
      | l :: ls' => l :: take_nonempty n' ls'
      end
  end.

(* the lines of the log from the n-th last non-empty line on (read from the end) *)
Definition spec_tail (n : nat) (c : bytes) : bytes :=
  frev (join_nl (take_nonempty n (split_nl (frev c)))).

Definition ends_with_nl (t : bytes) : bool :=
  match frev t with x :: _ => x =? 10 | [] => true end.

(* an empty line, the excerpt, and a final newline when it lacks one *)
Definition spec_excerpt (c : bytes) : bytes :=
  let t := spec_tail 10 c in
  10 :: t ++ (if ends_with_nl t then [] else [10]).

Fixpoint drop_nl (s : bytes) : bytes :=
  match s with
  | c :: s' => if c =? 10 then drop_nl s' else s
  | [] => []
  end.

(* a file without its trailing newlines, then one newline *)
Definition spec_format (b : bytes) : bytes := frev (drop_nl (frev b)) ++ [10].

Definition spec_cvs_robsd := Eval vm_compute in
  [bs "cvs-src-up.log"%string; bs "cvs-src-ci.log"%string;
   bs "cvs-xenocara-up.log"%string; bs "cvs-xenocara-ci.log"%string].
Definition spec_cvs_ports := Eval vm_compute in
  [bs "cvs-ports-up.log"%string; bs "cvs-ports-ci.log"%string].

(* the change logs robsd-cvs.sh collects below tmp-dir: src and xenocara for robsd, ports for robsd-ports, src for
   robsd-regress (robsd-cvs.sh: `[ "${_MODE}" = "robsd-regress" ] && echo src`); robsd-cross has no cvs step and
   canvas steps are the user's *)
Definition spec_cvs_regress := Eval vm_compute in
  [bs "cvs-src-up.log"%string; bs "cvs-src-ci.log"%string].

Definition spec_cvs_names (m : mode) : list bytes :=
  match m with
  | Robsd => spec_cvs_robsd
  | Ports => spec_cvs_ports
  | Regress => spec_cvs_regress
  | _ => []
  end.

Definition nonnil {A} (l : list A) : bool := match l with [] => false | _ => true end.

Definition is_unreadable (v : fread) : bool := match v with FUnreadable => true | _ => false end.

(* is one of the cvs logs of the mode there but unreadable *)
Definition cvs_unreadable (fs : files) (names : list bytes) : bool :=
  existsb (fun n => is_unreadable (f_tmp fs n)) names.

(* the cvs logs that were written and are not empty, each trimmed, separated by empty lines; a log that
   does not exist is like an empty one (robsd-ports without cvs-root writes none, a first checkout only
   the -up log); an error only when one of them is there and cannot be read *)
Definition spec_cvs (m : mode) (fs : files) : result bytes :=
  if cvs_unreadable fs (spec_cvs_names m) then RErr
  else
    let contents := flat_map (fun n => match f_tmp fs n with FData (c :: b) => [c :: b] | _ => [] end) (spec_cvs_names m) in
    ROk (10 :: join_nl (map spec_format contents)).

Definition spec_generic_body (m : mode) (fs : files) (r : srow) : result bytes :=
  if beq (r_name r) name_cvs then spec_cvs m fs
  else match r_log r with
       | [] => ROk []
       | l => match log_content fs l with
              | RErr => RErr
              | ROk c => ROk (spec_excerpt c)
              end
       end.

(* what follows the Log: line of a listed row; RErr = no report can be produced *)
Definition spec_body (m : mode) (cfg : cfgview) (fs : files) (r : srow) : result bytes :=
  match m with
  | Ports =>
      if beq (r_name r) name_cvs then spec_cvs Ports fs
      else if beq (r_name r) name_dpb && (r_exit r =? 0)%Z then
        match f_tmp fs packages_diff with
        | FData b => ROk (10 :: spec_format b)
        | _ => RErr
        end
      else spec_generic_body m fs r
  | Regress =>
      match r_log r with
      | [] => RErr
      | l =>
          match log_content fs l with
          | RErr => RErr
          | ROk c =>
              let bl := file_blocks (fl_log (mem (r_name r) (c_quiet cfg))) c in
              if nonnil bl then ROk (10 :: render_from false 0 bl) else spec_generic_body m fs r
          end
      end
  | Canvas =>
      match r_log r with
      | [] => spec_generic_body m fs r
      | l => match log_content fs l with
             | RErr => RErr
             | ROk c => ROk (10 :: c)
             end
      end
  | _ => spec_generic_body m fs r
  end.

(* ---- when no report is produced --------------------------------------------------------------- *)

(* a passing regress suite that is not quiet must carry a log name *)
Definition candidate_without_log (m : mode) (cfg : cfgview) (r : srow) : bool :=
  match m with
  | Regress => (r_exit r =? 0)%Z && mem (r_name r) (c_regress cfg) && negb (mem (r_name r) (c_quiet cfg)) &&
               negb (nonnil (r_log r))
  | _ => false
  end.

Definition row_error (m : mode) (cfg : cfgview) (fs : files) (r : srow) : bool :=
  nonskipped r &&
  (candidate_without_log m cfg r ||
   (spec_shown m cfg fs r && match spec_body m cfg fs r with RErr => true | ROk _ => false end)).

Definition spec_error (m : mode) (cfg : cfgview) (fs : files) (rows : list srow) : bool :=
  negb (c_running cfg) ||
  match f_comment fs with FUnreadable => true | _ => false end ||
  existsb (row_error m cfg fs) rows.

(* ---- the ways to get no report, named: each is outside what the orchestrator and the shell leave behind ------- *)

(* a file the row's section has to show is there but cannot be read (a directory, no permission): not a "log
   content" of the property's quantifier - tee creates logs as regular files of the invoking user *)
Definition names_unreadable (m : mode) (fs : files) (r : srow) : bool :=
  (nonnil (r_log r) && is_unreadable (f_log fs (r_log r))) ||
  cvs_unreadable fs (spec_cvs_names m) || is_unreadable (f_tmp fs packages_diff).

(* robsd-ports: the dpb row has exit 0 and tmp/packages.diff does not exist.  robsd-ports-dpb.sh creates the file
   with its last command (`(cd ${TMPDIR} && diff -U0 packages{.orig,} >packages.diff) || :`) before it can exit 0 *)
Definition dpb_without_diff (m : mode) (fs : files) (r : srow) : bool :=
  match m with
  | Ports => beq (r_name r) name_dpb && (r_exit r =? 0)%Z &&
             match f_tmp fs packages_diff with FAbsent => true | _ => false end
  | _ => false
  end.

(* robsd-regress: a row without a log name.  step_exec_job records the log name with every record it writes; rows
   without one are the skip records (skip = 1), which the report passes over *)
Definition regress_without_log_name (m : mode) (r : srow) : bool :=
  match m with Regress => negb (nonnil (r_log r)) | _ => false end.

(* ---- sanitizing --------------------------------------------------------------------------------- *)

(* NUL becomes \x00, CR becomes \r (the four and two printable characters) *)
Definition spec_sanitize_byte (c : N) : bytes :=
  if c =? 0 then [92; 120; 48; 48] else if c =? 13 then [92; 114] else [c].
Definition spec_sanitize (s : bytes) : bytes := flat_map spec_sanitize_byte s.

Definition sane (out : bytes) : bool := forallb (fun c => negb ((c =? 0) || (c =? 13))) out.

(* ---- oracles on what robsd-report printed for a fixture ------------------------------------------ *)

Definition key_of_row (r : srow) : bytes * (Z * bytes) := (r_name r, (r_exit r, r_log r)).

Definition key_eqb (a b : bytes * (Z * bytes)) : bool :=
  beq (fst a) (fst b) && (fst (snd a) =? fst (snd b))%Z && beq (snd (snd a)) (snd (snd b)).

Fixpoint list_eqb {A} (eqb : A -> A -> bool) (a b : list A) : bool :=
  match a, b with
  | [], [] => true
  | x :: a', y :: b' => eqb x y && list_eqb eqb a' b'
  | _, _ => false
  end.

Fixpoint suffixb (suf s : bytes) : bool :=
  beq suf s || match s with [] => false | _ :: s' => suffixb suf s' end.

(* exit status: 1 exactly when no report can be produced *)
Definition spec_ok_exit (x : fixture) (exit : N) : bool :=
  match rows_of x with
  | None => exit =? 1
  | Some rows => exit =? (if spec_error (x_mode x) (cfg_of x) (files_of x) rows then 1 else 0)
  end.

(* are the hypotheses of the status theorem met by the fixture's step file *)
Definition status_hyps (m : mode) (rows : list srow) : bool :=
  if counting m then skipped_exit0b rows else reachable_seqb rows.

(* Subject: and Status: both end in the specified status *)
Definition spec_ok_status (x : fixture) (subject status : bytes) : bool :=
  match rows_of x with
  | None => true
  | Some rows =>
      if status_hyps (x_mode x) rows then
        let st := spec_status (x_mode x) rows in
        beq status st &&
        (suffixb (32 :: st) subject ||
         (match x_mode x, x_target x with Cross, None => suffixb st subject | _, _ => false end))
      else true
  end.

(* the sections are the listed rows, in order, with name, exit (as int) and log name *)
Definition spec_ok_sections (x : fixture) (keys : list (bytes * (Z * bytes))) : bool :=
  match rows_of x with
  | None => true
  | Some rows =>
      list_eqb key_eqb keys
        (map (fun r => (r_name r, (cast_int (r_exit r), r_log r)))
             (filter (spec_shown (x_mode x) (cfg_of x) (files_of x)) rows))
  end.

(* the body printed for the k-th listed row is the specified one, sanitized *)
Definition spec_ok_body (x : fixture) (k : nat) (body : bytes) : bool :=
  match rows_of x with
  | None => true
  | Some rows =>
      match nth_error (filter (spec_shown (x_mode x) (cfg_of x) (files_of x)) rows) k with
      | None => false
      | Some r =>
          match spec_body (x_mode x) (cfg_of x) (files_of x) r with
          | RErr => false
          | ROk b => beq body (spec_sanitize b)
          end
      end
  end.

Definition spec_ok_sane (out : bytes) : bool := sane out.

(* ---- the oracle on the BYTES robsd-report printed ----------------------------------------------------------------- *)

(* The whole report as the specification has it, as a structure: status from [spec_status] where the hypotheses of the
   status theorem hold, sections = the listed rows in order, each with name, exit as printed by "%d" of (int)exit, log
   name and the specified body.  C05 says nothing about the Duration:/Size: lines, the tags and the comment: there the
   structure carries what the model of report.c computes (C18 has its own oracle for the first two), likewise the
   status of a step file outside the status hypotheses.  [None]: no report can be produced ([spec_error]). *)
Definition spec_sections (m : mode) (cfg : cfgview) (fs : files) (dur : srow -> bytes) (rows : list srow) : list section :=
  map (fun r => mksec (r_name r) (cast_int (r_exit r)) (dur r) (r_log r)
                      (match spec_body m cfg fs r with ROk b => b | RErr => [] end))
      (filter (spec_shown m cfg fs) rows).

Definition spec_comment (fs : files) : option bytes :=
  match f_comment fs with FData b => Some (frev (drop_nl (frev b))) | _ => None end.

Definition spec_report (x : fixture) : option Report :=
  match rows_of x with
  | None => None
  | Some rows =>
      let m := x_mode x in let cfg := cfg_of x in let fs := files_of x in
      if spec_error m cfg fs rows then None
      else Some (mkrep m (subject_of m cfg fs)
                       (if status_hyps m rows then spec_status m rows else report_status m rows)
                       (stats_duration m rows) (c_builddir cfg) (f_tags fs) (report_sizes m cfg fs)
                       (spec_comment fs) (spec_sections m cfg fs step_duration rows))
  end.

(* exit status and standard output, byte for byte: exit 1 and nothing printed when no report can be produced, else
   exit 0 and the sanitized rendering of [spec_report] *)
Definition spec_ok_bytes (x : fixture) (exit : N) (out : bytes) : bool :=
  match spec_report x with
  | None => (exit =? 1) && beq out []
  | Some rep => (exit =? 0) && beq out (spec_sanitize (render_raw (x_host x) rep))
  end.
