(* ReportBytes.v - the oracles on the BYTES robsd-report printed accept the model.

   [spec_ok_bytes] (C05, ReportSpec.v) and [spec_ok_bytes_numbers] (C18, DurationSpec.v) compare exit status and
   standard output of the implementation, byte for byte, with the rendering of the report the specification
   describes.  No parser stands between the implementation's output and the verdict.  Here: the output of the model
   (source with every repair in place) passes both, for every fixture inside the guards. *)
From Robsd Require Import Report.DurationSpec Report.ReportProofs Report.ReportNeverHidden Report.DurationProofs
                          Report.PreviousAge Report.DurationMore.
From Coq Require Import Lia.
Local Open Scope N_scope.

Lemma map_ext_in' {A B} (f g : A -> B) l : (forall x, In x l -> f x = g x) -> map f l = map g l.
Proof.
  induction l as [|a l IH]; intros H; [reflexivity|]. cbn [map]. rewrite (H a (or_introl eq_refl)). f_equal.
  apply IH. intros x Hx. apply H. now right.
Qed.

(* the report the model builds, field by field *)
Lemma report_struct_shape m cfg rows fs rep :
  cvs_guard m fs ->
  report_struct_rows_with fixed_sw m cfg rows fs = ROk rep ->
  rep = mkrep m (subject_of m cfg fs) (report_status m rows) (stats_duration m rows) (c_builddir cfg) (f_tags fs)
              (report_sizes m cfg fs) (spec_comment fs) (spec_sections m cfg fs step_duration rows).
Proof.
  intros Hg. unfold report_struct_rows_with, report_struct_rows_gen. fold (steps_loop_with fixed_sw m cfg fs rows). rewrite (steps_loop_spec m cfg fs rows Hg).
  destruct (c_running cfg); cbn [negb]; [|discriminate].
  assert (Hsec : map (fun r => section_of r (body_or_nil_with fixed_sw m cfg fs r)) (filter (spec_shown m cfg fs) rows) =
                 spec_sections m cfg fs step_duration rows).
  { unfold spec_sections. apply map_ext_in'. intros r _. unfold section_of, body_or_nil_with.
    now rewrite (step_log_fixed m cfg fs r Hg). }
  destruct (existsb (row_error m cfg fs) rows); [destruct (f_comment fs); discriminate|].
  unfold spec_comment. destruct (f_comment fs) as [| |b]; try discriminate; intros H; injection H as <-; rewrite Hsec.
  - reflexivity.
  - now rewrite trim_lines_spec, !frev_rev.
Qed.

(* C05: exit status and bytes of the model are the specified ones *)
Theorem model_passes_bytes_oracle x :
  cvs_guard (x_mode x) (files_of x) ->
  spec_ok_bytes x (fst (run_fixture_with fixed_sw x)) (snd (run_fixture_with fixed_sw x)) = true.
Proof.
  intros Hg. pose proof (run_fixture_cases fixed_sw x) as Hrun. unfold spec_ok_bytes, spec_report.
  destruct (rows_of x) as [rows|]; [|now rewrite Hrun].
  destruct (spec_error (x_mode x) (cfg_of x) (files_of x) rows) eqn:Ee.
  - apply (report_error_iff _ _ _ _ Hg) in Ee. rewrite Ee in Hrun. now rewrite Hrun.
  - destruct (report_struct_rows_with fixed_sw (x_mode x) (cfg_of x) rows (files_of x)) as [rep|] eqn:Er.
    2: { apply (report_error_iff _ _ _ _ Hg) in Er. congruence. }
    rewrite Hrun. cbn [fst snd N.eqb andb]. apply beq_eq.
    rewrite (report_struct_shape _ _ _ _ _ Hg Er). unfold render. rewrite sanitize_spec.
    destruct (status_hyps (x_mode x) rows) eqn:Hh; [|reflexivity].
    rewrite status_agrees; [reflexivity| |]; intros Hc; unfold status_hyps in Hh; rewrite Hc in Hh.
    + now apply skipped_exit0b_iff.
    + now apply reachable_seqb_iff.
Qed.

(* C18: the same report with the Duration: and Size: lines as the specification words them *)
Lemma spec_total_text_is m rows : spec_total_text m rows = stats_duration m rows.
Proof.
  unfold spec_total_text. destruct (total_spec m rows) as [_ E]. rewrite E.
  destruct (spec_total m rows) as [d delta]. cbn [fst snd].
  destruct (in_range d && delta_in_range delta) eqn:Er; [|reflexivity].
  apply andb_true_iff in Er. destruct Er as [E1 E2]. symmetry. apply duration_text_spec; [lia|exact E1|exact E2].
Qed.

Lemma spec_step_text_is r : spec_step_text r = step_duration r.
Proof.
  unfold spec_step_text. destruct (in_range (r_duration r) && delta_in_range (r_delta r)) eqn:Er; [|reflexivity].
  apply andb_true_iff in Er. destruct Er as [E1 E2]. symmetry. unfold step_duration.
  destruct thresholds_are as [_ [-> _]]. apply duration_text_spec; [lia|exact E1|exact E2].
Qed.

Lemma spec_sizes_text_is x :
  name_order_is_age (cfg_of x) (files_of x) (x_age x) = true ->
  spec_sizes_text x = report_sizes (x_mode x) (cfg_of x) (files_of x).
Proof.
  intros Ha. unfold spec_sizes_text.
  assert (Hp : previous_builddir (cfg_of x) (files_of x) = spec_previous (cfg_of x) (files_of x) (x_age x))
    by (rewrite previous_is_by_name; symmetry; now apply previous_coincide).
  destruct (x_mode x); try reflexivity.
  unfold report_sizes. rewrite Hp. change (f_rel (files_of x)) with (x_rel x).
  destruct (spec_previous (cfg_of x) (files_of x) (x_age x)) as [prev|] eqn:Ep; [|reflexivity].
  destruct (x_rel x) as [cur|] eqn:Er; [|reflexivity].
  destruct (sizes_in_range cur (f_prev_rel (files_of x) prev)) eqn:Es; [|reflexivity].
  unfold spec_sizes, sizes_against. rewrite Ep. change (f_rel (files_of x)) with (x_rel x). rewrite Er.
  symmetry. apply size_lines_spec.
  unfold sizes_in_range in Es. rewrite forallb_forall in Es. apply Forall_forall. intros f Hf.
  specialize (Es f Hf). apply andb_true_iff in Es. destruct Es as [Es _]. apply andb_true_iff in Es.
  destruct Es as [Es _]. now apply Z.leb_le.
Qed.

Lemma steps_loop_gen_ext w d1 d2 m cfg fs rows :
  (forall r, d1 r = d2 r) -> steps_loop_gen w d1 m cfg fs rows = steps_loop_gen w d2 m cfg fs rows.
Proof.
  intros H. induction rows as [|r rs IH]; [reflexivity|]. cbn [steps_loop_gen]. now rewrite IH, (H r).
Qed.

(* the working tree's model, whatever forms of report.c it has: this oracle is about the numbers only *)
Theorem model_passes_bytes_oracle_numbers w x :
  name_order_is_age (cfg_of x) (files_of x) (x_age x) = true ->
  match rows_of x with
  | None => True
  | Some rows =>
      report_struct_rows_gen w (spec_total_text (x_mode x) rows) spec_step_text (spec_sizes_text x)
                             (x_mode x) (cfg_of x) rows (files_of x) =
      report_struct_rows_with w (x_mode x) (cfg_of x) rows (files_of x)
  end.
Proof.
  intros Ha. destruct (rows_of x) as [rows|]; [|exact I].
  unfold report_struct_rows_with, report_struct_rows_gen.
  rewrite spec_total_text_is, (spec_sizes_text_is x Ha).
  now rewrite (steps_loop_gen_ext w spec_step_text step_duration _ _ _ rows spec_step_text_is).
Qed.

Theorem model_passes_bytes_oracle_numbers_cur x :
  name_order_is_age (cfg_of x) (files_of x) (x_age x) = true ->
  spec_ok_bytes_numbers x (fst (run_fixture x)) (snd (run_fixture x)) = true.
Proof.
  intros Ha. pose proof (run_fixture_cases cur_sw x) as Hrun. pose proof (model_passes_bytes_oracle_numbers cur_sw x Ha) as He.
  unfold spec_ok_bytes_numbers, spec_report_numbers. fold run_fixture in Hrun.
  destruct (rows_of x) as [rows|]; [|now rewrite Hrun].
  rewrite He. destruct (report_struct_rows_with cur_sw (x_mode x) (cfg_of x) rows (files_of x)) as [rep|]; rewrite Hrun.
  - cbn [fst snd N.eqb andb]. apply beq_eq. unfold render. now rewrite sanitize_spec.
  - reflexivity.
Qed.
