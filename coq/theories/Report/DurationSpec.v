(* DurationSpec.v - the numbers of the report (C18) specified independently of
   report.c's control flow: the total as a sum over a comprehension, HH:MM:SS by
   floor division, the delta suffix by |delta| against the threshold, size
   changes as a filter over the release files with exact rounding to one
   decimal; and the boolean oracles applied to what robsd-report printed and to
   what duration_total printed under bash.  The oracles parse nothing: the
   harness cuts the report into its Duration:/Size: lines. *)
From Robsd Require Export Report.ReportSpec.
From Coq Require Import String.
Local Open Scope N_scope.

Definition two_pow_40 : Z := 1099511627776%Z.
Definition two_pow_53 : Z := 9007199254740992%Z.

(* ---- total ------------------------------------------------------------------------------- *)

Definition spec_name_end := Eval vm_compute in bs "end"%string.

Definition counted (r : srow) : bool := nonskipped r && negb (beq (r_name r) spec_name_end).

(* sum of the durations of the non-skipped rows other than end *)
Definition spec_sum (rows : list srow) : Z :=
  fold_right Z.add 0%Z (map r_duration (filter counted rows)).

(* start time of the last row minus start time of the first *)
Definition spec_wall (rows : list srow) : Z :=
  match rows, frev rows with
  | r0 :: _, rl :: _ => (r_time rl - r_time r0)%Z
  | _, _ => 0%Z
  end.

(* what duration_total computes: no end row short cut *)
Definition spec_accumulated (m : mode) (rows : list srow) : Z :=
  match m with Regress => spec_wall rows | _ => spec_sum rows end.

(* (total, delta) of the stats block: the end row's when there is one *)
Definition spec_total (m : mode) (rows : list srow) : Z * Z :=
  match filter (fun r => beq (r_name r) spec_name_end) rows with
  | e :: _ => (r_duration e, r_delta e)
  | [] => (spec_accumulated m rows, 0%Z)
  end.

(* ---- HH:MM:SS ------------------------------------------------------------------------------ *)

(* "%02d" of a non-negative number: one leading zero below ten, never cut *)
Definition two_digits (x : Z) : bytes :=
  if (x <? 10)%Z then 48 :: render_Z x else render_Z x.

Definition spec_hms (d : Z) : bytes :=
  two_digits (d / 3600) ++ 58 :: two_digits ((d mod 3600) / 60) ++ 58 :: two_digits (d mod 60).

Definition spec_delta_suffix (delta thr : Z) : bytes :=
  if (Z.abs delta <=? thr)%Z then []
  else [32; 40] ++ [if (delta <? 0)%Z then 45 else 43] ++ spec_hms (Z.abs delta) ++ [41].

Definition spec_duration_text (d delta thr : Z) : bytes :=
  spec_hms d ++ spec_delta_suffix delta thr.

Definition in_range (z : Z) : bool := (0 <=? z)%Z && (z <=? two_pow_40)%Z.
Definition delta_in_range (z : Z) : bool := (Z.abs z <=? two_pow_40)%Z.

(* ---- sizes ---------------------------------------------------------------------------------- *)

(* tenths of size/unit, rounded to nearest, ties to the even tenth *)
Definition spec_round1 (size unit : Z) : Z :=
  let n := (20 * size + unit)%Z in
  let t := (n / (2 * unit))%Z in
  if ((n mod (2 * unit) =? 0)%Z && Z.odd t)%bool then (t - 1)%Z else t.

Definition spec_unit (size : Z) : Z * bytes :=
  if (1048576 <=? size)%Z then (1048576%Z, [77])
  else if (1024 <=? size)%Z then (1024%Z, [75])
  else (1%Z, []).

Definition spec_size_text (size : Z) : bytes :=
  let '(u, p) := spec_unit size in
  let t := spec_round1 size u in
  render_Z (t / 10) ++ 46 :: render_Z (t mod 10) ++ p.

Definition spec_name_ramdisk := Eval vm_compute in bs "bsd.rd"%string.
Definition spec_name_changelog := Eval vm_compute in bs "CHANGELOG"%string.

Definition spec_size_threshold (name : bytes) : Z :=
  if beq name spec_name_ramdisk then 1024%Z else 1048576%Z.

(* listed: visible, not CHANGELOG or a numbered diff, present in the previous
   invocation too, changed by at least the threshold *)
Definition spec_size_listed (prev : bytes -> option Z) (f : relfile) : bool :=
  negb (hidden (rf_name f)) && negb (beq (rf_name f) spec_name_changelog) &&
  negb (is_numbered_diff (rf_name f)) &&
  match prev (rf_name f) with
  | None => false
  | Some p => (spec_size_threshold (rf_name f) <=? Z.abs (rf_size f - p))%Z
  end.

Definition spec_size_line (prev : bytes -> option Z) (f : relfile) : bytes :=
  let p := match prev (rf_name f) with Some p => p | None => 0%Z end in
  let d := (rf_size f - p)%Z in
  size_prefix ++ rf_name f ++ 32 :: spec_size_text (rf_size f) ++
  [32; 40] ++ [if (d <? 0)%Z then 45 else 43] ++ spec_size_text (Z.abs d) ++ [41].

Definition spec_size_lines (cur : list relfile) (prev : bytes -> option Z) : list bytes :=
  isort (map (spec_size_line prev) (filter (spec_size_listed prev) cur)).

(* WHAT THE CODE TAKES for the previous invocation, said without its sorting: the greatest path (strcmp) among the
   directories of robsddir that are not hidden, not the attic and not this invocation.  This is a description of
   report.c previous_builddir (DurationProofs.previous_is_by_name), not the specification. *)
Definition path_max (a : option bytes) (p : bytes) : option bytes :=
  match a with
  | None => Some p
  | Some q => match strcmp q p with Lt => Some p | _ => Some q end
  end.

Definition previous_by_name (cfg : cfgview) (fs : files) : option bytes :=
  match f_root fs with
  | None => None
  | Some ents =>
      fold_left path_max
        (filter (fun p => negb (beq p (c_builddir cfg)))
                (invocation_read (c_robsddir cfg) (c_keepdir cfg) ents)) None
  end.

(* THE SPECIFICATION: "the previous invocation" is the invocation that was created last before this one.
   [age] lists the entries of robsddir (full paths) in the order they were created, oldest first - something
   whoever made the directories knows (the harness; the sequence of build_id calls) and the file names need not
   show: build names are <date>.<n> with n unpadded (util.sh build_id), so 2024-01-02.9 sorts after 2024-01-02.10
   and .11.  The invocations are the entries invocation_read accepts (directories, not hidden, not keep-dir). *)
Fixpoint created_before (me : bytes) (age : list bytes) : list bytes :=
  match age with
  | [] => []
  | p :: t => if beq p me then [] else p :: created_before me t
  end.

Definition last_opt (l : list bytes) : option bytes :=
  fold_left (fun _ p => Some p) l None.

Definition spec_previous (cfg : cfgview) (fs : files) (age : list bytes) : option bytes :=
  match f_root fs with
  | None => None
  | Some ents =>
      let inv := invocation_read (c_robsddir cfg) (c_keepdir cfg) ents in
      last_opt (filter (fun p => mem p inv) (created_before (c_builddir cfg) age))
  end.

Definition sizes_against (m : mode) (prev : option bytes) (fs : files) : list bytes :=
  match m with
  | Robsd =>
      match prev, f_rel fs with
      | Some prev, Some cur => spec_size_lines cur (f_prev_rel fs prev)
      | _, _ => []
      end
  | _ => []
  end.

(* the Size: lines compare with the previous invocation *)
Definition spec_sizes (m : mode) (cfg : cfgview) (fs : files) (age : list bytes) : list bytes :=
  sizes_against m (spec_previous cfg fs age) fs.
(* what the code compares with *)
Definition sizes_by_name (m : mode) (cfg : cfgview) (fs : files) : list bytes :=
  sizes_against m (previous_by_name cfg fs) fs.

(* the guard under which name order is creation order as far as "previous" goes: every invocation is in [age],
   the invocations in creation order are in strictly ascending strcmp order, and nothing was created after this
   one.  True for names of equal length (fewer than ten builds a day) when the report is made by the invocation
   itself; false from the eleventh build of a day on *)
Fixpoint ascendingb (l : list bytes) : bool :=
  match l with
  | a :: ((b :: _) as t) => match strcmp a b with Lt => ascendingb t | _ => false end
  | _ => true
  end.

Fixpoint created_after (me : bytes) (age : list bytes) : list bytes :=
  match age with
  | [] => []
  | p :: t => if beq p me then t else created_after me t
  end.

Definition name_order_is_age (cfg : cfgview) (fs : files) (age : list bytes) : bool :=
  match f_root fs with
  | None => true
  | Some ents =>
      let inv := invocation_read (c_robsddir cfg) (c_keepdir cfg) ents in
      forallb (fun p => mem p age) inv &&
      ascendingb (filter (fun p => mem p inv) age) &&
      forallb (fun p => negb (mem p inv)) (created_after (c_builddir cfg) age)
  end.

Definition sizes_in_range (cur : list relfile) (prev : bytes -> option Z) : bool :=
  forallb (fun f => (0 <=? rf_size f)%Z && (rf_size f <? two_pow_53)%Z &&
                    match prev (rf_name f) with Some p => (0 <=? p)%Z && (p <? two_pow_53)%Z | None => true end) cur.

(* ---- oracles ----------------------------------------------------------------------------------- *)

(* the Duration: line of the stats block *)
Definition spec_ok_total (x : fixture) (text : bytes) : bool :=
  match rows_of x with
  | None => true
  | Some rows =>
      let '(d, delta) := spec_total (x_mode x) rows in
      if in_range d && delta_in_range delta
      then beq text (spec_duration_text d delta 60)
      else true                                       (* outside the property's range, e.g. in-flight -1 rows *)
  end.

(* the Duration: line of the k-th listed row: any non-zero delta is shown *)
Definition spec_ok_step_duration (x : fixture) (k : nat) (text : bytes) : bool :=
  match rows_of x with
  | None => true
  | Some rows =>
      match nth_error (filter (spec_shown (x_mode x) (cfg_of x) (files_of x)) rows) k with
      | None => false
      | Some r =>
          if in_range (r_duration r) && delta_in_range (r_delta r)
          then beq text (spec_duration_text (r_duration r) (r_delta r) 0)
          else true
      end
  end.

(* the Size: lines, in print order: against the invocation created last before this one ([x_age]) *)
Definition spec_ok_sizes (x : fixture) (lines : list bytes) : bool :=
  match x_mode x, spec_previous (cfg_of x) (files_of x) (x_age x), x_rel x with
  | Robsd, Some prev, Some cur =>
      if sizes_in_range cur (f_prev_rel (files_of x) prev)
      then list_eqb beq lines (spec_sizes Robsd (cfg_of x) (files_of x) (x_age x))
      else true
  | _, _, _ => match lines with [] => true | _ => false end
  end.

(* the same judged against the greatest other name: tells "the code does what its model says" from "the code
   compares with the wrong invocation" when [spec_ok_sizes] fails (the harness classifies with it; not a verdict) *)
Definition sizes_as_by_name (x : fixture) (lines : list bytes) : bool :=
  list_eqb beq lines (sizes_by_name (x_mode x) (cfg_of x) (files_of x)).

(* what duration_total -s step.csv printed under bash *)
Definition spec_ok_shell (x : fixture) (text : bytes) : bool :=
  match rows_of x with
  | None => true
  | Some rows => beq text (render_Z (spec_accumulated (x_mode x) rows))
  end.

(* ---- the oracle on the BYTES robsd-report printed ----------------------------------------------------------------- *)

(* The report with its Duration: and Size: lines as specified: the total and each step duration as
   [spec_duration_text] where the numbers are in the property's range, the Size: lines against the previous invocation
   by creation order where the sizes are in range.  Whether there is a report, its status, which rows are listed and
   their bodies are C05's: there the report is the model's of the working tree ([report_struct_rows_gen cur_sw]),
   as are the numbers outside the ranges - so this oracle fires for a wrong number and for nothing else. *)
Definition spec_total_text (m : mode) (rows : list srow) : bytes :=
  let '(d, delta) := spec_total m rows in
  if in_range d && delta_in_range delta then spec_duration_text d delta 60 else stats_duration m rows.

Definition spec_step_text (r : srow) : bytes :=
  if in_range (r_duration r) && delta_in_range (r_delta r)
  then spec_duration_text (r_duration r) (r_delta r) 0 else step_duration r.

Definition spec_sizes_text (x : fixture) : list bytes :=
  match x_mode x, spec_previous (cfg_of x) (files_of x) (x_age x), x_rel x with
  | Robsd, Some prev, Some cur =>
      if sizes_in_range cur (f_prev_rel (files_of x) prev)
      then spec_sizes Robsd (cfg_of x) (files_of x) (x_age x)
      else report_sizes Robsd (cfg_of x) (files_of x)
  | _, _, _ => []
  end.

Definition spec_report_numbers (x : fixture) : option Report :=
  match rows_of x with
  | None => None
  | Some rows =>
      match report_struct_rows_gen cur_sw (spec_total_text (x_mode x) rows) spec_step_text (spec_sizes_text x)
                                   (x_mode x) (cfg_of x) rows (files_of x) with
      | RErr => None
      | ROk rep => Some rep
      end
  end.

Definition spec_ok_bytes_numbers (x : fixture) (exit : N) (out : bytes) : bool :=
  match spec_report_numbers x with
  | None => (exit =? 1) && beq out []
  | Some rep => (exit =? 0) && beq out (spec_sanitize (render_raw (x_host x) rep))
  end.

(* the same verdict with "previous" read as the greatest other name ([isort]: ascending by strcmp, this invocation put
   last).  Not a verdict: when [spec_ok_bytes_numbers] fails and this passes, the implementation printed exactly the
   report against the greatest other name - the harness then names the failure by the input class *)
Definition with_age (x : fixture) (a : list bytes) : fixture :=
  mkfix (x_mode x) (x_host x) (x_builddir x) (x_running x) (x_robsddir x) (x_keepdir x) (x_machine x) (x_canvas x)
        (x_regress x) (x_step x) (x_logs x) (x_tmp x) (x_comment x) (x_tags x) (x_target x) (x_root x) (x_rel x) (x_prev x) a.

Definition age_by_name (x : fixture) : list bytes :=
  match x_root x with
  | None => []
  | Some ents =>
      isort (filter (fun p => negb (beq p (x_builddir x))) (invocation_read (x_robsddir x) (x_keepdir x) ents)) ++ [x_builddir x]
  end.

Definition bytes_numbers_as_by_name (x : fixture) (exit : N) (out : bytes) : bool :=
  spec_ok_bytes_numbers (with_age x (age_by_name x)) exit out.
