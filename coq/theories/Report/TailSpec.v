(* TailSpec.v - what "the final lines of its log" means (C05).

   [spec_tail n c] (ReportSpec.v) is written as an algorithm on the reversed log; [last_lines] (the
   model of report.c last_lines) is proved equal to it in ReportProofs.v.  Here the excerpt is
   characterised without reference to either algorithm, for every log [c] and every n > 0:

     - it is a SUFFIX of the log:                      c = p ++ tail
     - it starts at the beginning of a line:            p = [] or p ends in a newline
     - it holds min(n, number of non-empty lines of c) non-empty lines
     - when something is cut off (p <> []) it holds exactly n non-empty lines and starts with a
       non-empty line - so it is the shortest suffix starting at a line start that holds the last n
       non-empty lines; when nothing is cut off it is the whole log.

   A line is a maximal run of bytes other than newline ([split_nl] cuts at every newline);
   [nonempty_lines] counts the non-empty ones. *)
From Robsd Require Import Report.ReportSpec Report.ReportProofs RegressLog.RLProofs.
Local Open Scope N_scope.

Definition cnt (ls : list bytes) : nat := List.length (filter (@nonnil N) ls).
Definition nonempty_lines (s : bytes) : nat := cnt (split_nl s).

(* ---- split_nl and join_nl are inverse ------------------------------------------------------------------ *)

Lemma split_nl_nonl s : Forall nonl (split_nl s).
Proof.
  induction s as [|c s IH]; [repeat constructor|]. cbn [split_nl].
  destruct (N.eqb_spec c 10) as [->|Hc]; [constructor; [constructor|exact IH]|].
  destruct (split_nl s) as [|l ls]; [repeat constructor; exact Hc|].
  inversion IH; subst. constructor; [constructor; assumption|assumption].
Qed.

Lemma join_split s : join_nl (split_nl s) = s.
Proof.
  induction s as [|c s IH]; [reflexivity|]. cbn [split_nl].
  destruct (N.eqb_spec c 10) as [->|Hc].
  - rewrite join_nl_nil_cons by apply split_nl_nonnil. now rewrite IH.
  - destruct (split_nl s) as [|l ls] eqn:E; [exfalso; eapply split_nl_nonnil; exact E|].
    rewrite join_nl_cons_char. now rewrite IH.
Qed.

Lemma split_nl_app_nl p t : nonl p -> split_nl (p ++ 10 :: t) = p :: split_nl t.
Proof.
  induction 1 as [|c p Hc Hp IH]; [reflexivity|]. cbn [app split_nl].
  apply N.eqb_neq in Hc. rewrite Hc, IH. reflexivity.
Qed.

Lemma split_nl_nonl_id p : nonl p -> split_nl p = [p].
Proof.
  induction 1 as [|c p Hc Hp IH]; [reflexivity|]. cbn [split_nl].
  apply N.eqb_neq in Hc. rewrite Hc, IH. reflexivity.
Qed.

Lemma split_join ls : ls <> [] -> Forall nonl ls -> split_nl (join_nl ls) = ls.
Proof.
  induction ls as [|p ls IH]; [congruence|]. intros _ H. inversion H as [|? ? Hp Hls]; subst.
  destruct ls as [|q ls]; [now apply split_nl_nonl_id|].
  change (join_nl (p :: q :: ls)) with (p ++ 10 :: join_nl (q :: ls)).
  rewrite split_nl_app_nl by exact Hp. rewrite IH; [reflexivity|discriminate|exact Hls].
Qed.

Lemma join_nl_app (a b : list bytes) : a <> [] -> b <> [] -> join_nl (a ++ b) = join_nl a ++ 10 :: join_nl b.
Proof.
  induction a as [|x a IH]; [congruence|]. intros _ Hb. destruct a as [|y a].
  - cbn [app]. destruct b as [|z b]; [congruence|]. reflexivity.
  - change (join_nl ((x :: y :: a) ++ b)) with (x ++ 10 :: join_nl ((y :: a) ++ b)).
    rewrite IH by (discriminate || exact Hb).
    change (join_nl (x :: y :: a)) with (x ++ 10 :: join_nl (y :: a)). now rewrite <- app_assoc.
Qed.

(* ---- reversal ---------------------------------------------------------------------------------------------- *)

Lemma removelast_cons_ne {A} (x : A) l : l <> [] -> removelast (x :: l) = x :: removelast l.
Proof. destruct l; [congruence|reflexivity]. Qed.

Lemma last_cons_ne {A} (x : A) l d : l <> [] -> last (x :: l) d = last l d.
Proof. destruct l; [congruence|reflexivity]. Qed.

Lemma split_nl_snoc s c :
  split_nl (s ++ [c]) =
    if c =? 10 then split_nl s ++ [[]]
    else removelast (split_nl s) ++ [last (split_nl s) [] ++ [c]].
Proof.
  induction s as [|x s IH].
  - cbn [app split_nl]. destruct (c =? 10); reflexivity.
  - cbn [app split_nl]. rewrite IH. pose proof (split_nl_nonnil s) as Hne.
    destruct (x =? 10).
    + destruct (c =? 10); [reflexivity|].
      rewrite removelast_cons_ne, last_cons_ne by exact Hne. reflexivity.
    + destruct (split_nl s) as [|l0 ls0]; [congruence|].
      destruct (c =? 10); [reflexivity|].
      destruct ls0 as [|l1 ls1]; [reflexivity|].
      change (removelast (l0 :: l1 :: ls1)) with (l0 :: removelast (l1 :: ls1)).
      change (last (l0 :: l1 :: ls1) []) with (last (l1 :: ls1) []).
      change (removelast ((x :: l0) :: l1 :: ls1)) with ((x :: l0) :: removelast (l1 :: ls1)).
      change (last ((x :: l0) :: l1 :: ls1) []) with (last (l1 :: ls1) []).
      reflexivity.
Qed.

Lemma split_nl_rev s : split_nl (rev s) = rev (map (@rev N) (split_nl s)).
Proof.
  induction s as [|c s IH]; [reflexivity|]. cbn [rev]. rewrite split_nl_snoc, IH. cbn [split_nl].
  destruct (c =? 10); [reflexivity|].
  destruct (split_nl s) as [|l ls] eqn:E; [exfalso; eapply split_nl_nonnil; exact E|].
  cbn [map rev]. rewrite removelast_last, last_last. reflexivity.
Qed.

Lemma cnt_app a b : cnt (a ++ b) = (cnt a + cnt b)%nat.
Proof. unfold cnt. now rewrite filter_app, app_length. Qed.

Lemma nonnil_rev (x : bytes) : nonnil (rev x) = nonnil x.
Proof. destruct x as [|y x]; [reflexivity|]. cbn [rev]. destruct (rev x); reflexivity. Qed.

Lemma cnt_cons x l : cnt (x :: l) = ((if nonnil x then 1 else 0) + cnt l)%nat.
Proof. unfold cnt. cbn [filter]. destruct (nonnil x); reflexivity. Qed.

Lemma cnt_rev_map l : cnt (rev (map (@rev N) l)) = cnt l.
Proof.
  induction l as [|x l IH]; [reflexivity|]. cbn [map rev]. rewrite cnt_app, IH, !cnt_cons, nonnil_rev.
  unfold cnt at 2. cbn [filter List.length]. lia.
Qed.

Lemma nonempty_lines_rev s : nonempty_lines (rev s) = nonempty_lines s.
Proof. unfold nonempty_lines. now rewrite split_nl_rev, cnt_rev_map. Qed.

(* ---- the pieces taken ---------------------------------------------------------------------------------------- *)

Lemma take_nonempty_prefix ls : forall n,
  exists rest, ls = take_nonempty n ls ++ rest /\
    cnt (take_nonempty n ls) = Nat.min n (cnt ls) /\
    (rest <> [] -> n <> O ->
       cnt (take_nonempty n ls) = n /\ exists a b, take_nonempty n ls = a ++ [b] /\ b <> []).
Proof.
  induction ls as [|l ls IH]; intros [|n'].
  - exists []. repeat split; congruence.
  - exists []. repeat split; congruence.
  - exists (l :: ls). repeat split; congruence.
  - destruct l as [|x l]; cbn [take_nonempty].
    + destruct (IH (S n')) as [rest [H1 [H2 H3]]]. exists rest. split; [cbn [app]; now rewrite <- H1|].
      split; [exact H2|]. intros Hr _. destruct (H3 Hr ltac:(discriminate)) as [E [a [b [Ea Hb]]]].
      split; [exact E|]. exists ([] :: a), b. split; [now rewrite Ea|exact Hb].
    + destruct (IH n') as [rest [H1 [H2 H3]]]. exists rest. split; [cbn [app]; now rewrite <- H1|].
      split; [unfold cnt in *; cbn [filter nonnil List.length]; rewrite H2; reflexivity|].
      intros Hr _. destruct n' as [|n''].
      * destruct ls; cbn [take_nonempty]; (split; [reflexivity|]); exists [], (x :: l); (split; [reflexivity|discriminate]).
      * destruct (H3 Hr ltac:(discriminate)) as [E [a [b [Ea Hb]]]].
        split; [unfold cnt in *; cbn [filter nonnil List.length]; now rewrite E|].
        exists ((x :: l) :: a), b. split; [now rewrite Ea|exact Hb].
Qed.

(* ---- the meaning of the excerpt ------------------------------------------------------------------------------ *)

Theorem tail_meaning n c : (0 < n)%nat ->
  exists p, c = p ++ spec_tail n c /\
    (p = [] \/ exists p', p = p' ++ [10]) /\
    nonempty_lines (spec_tail n c) = Nat.min n (nonempty_lines c) /\
    (p <> [] -> nonempty_lines (spec_tail n c) = n /\ exists x t, spec_tail n c = x :: t /\ x <> 10).
Proof.
  intros Hn. unfold spec_tail. rewrite !frev_rev.
  set (L := split_nl (rev c)).
  assert (HL : L <> []) by apply split_nl_nonnil.
  assert (HLn : Forall nonl L) by apply split_nl_nonl.
  assert (Hc : c = rev (join_nl L)) by (unfold L; now rewrite join_split, rev_involutive).
  assert (HcL : nonempty_lines c = cnt L) by (rewrite <- (nonempty_lines_rev c); reflexivity).
  destruct (take_nonempty_prefix L n) as [rest [H1 [H2 H3]]].
  set (T := take_nonempty n L) in *.
  assert (HT : T <> []).
  { unfold T. destruct n as [|n']; [lia|]. destruct L as [|l ls]; [congruence|apply take_nonempty_nonnil]. }
  assert (HTn : Forall nonl T).
  { rewrite H1 in HLn. apply Forall_app in HLn. tauto. }
  assert (Hcount : nonempty_lines (rev (join_nl T)) = cnt T).
  { rewrite nonempty_lines_rev. unfold nonempty_lines. now rewrite split_join. }
  destruct rest as [|r0 rest].
  - rewrite app_nil_r in H1. exists []. cbn [app]. split; [rewrite <- H1; exact Hc|].
    split; [now left|]. split; [rewrite Hcount, H2, HcL; reflexivity|congruence].
  - exists (rev (join_nl (r0 :: rest)) ++ [10]).
    split.
    + rewrite Hc at 1. rewrite H1, join_nl_app by (exact HT || discriminate).
      rewrite rev_app_distr. cbn [rev]. now rewrite <- app_assoc.
    + split; [right; now eexists|]. split; [rewrite Hcount, H2, HcL; reflexivity|].
      intros _. destruct (H3 ltac:(discriminate) ltac:(lia)) as [E [a [b [Ea Hb]]]].
      split; [rewrite Hcount; exact E|].
      rewrite Ea, join_nl_snoc.
      assert (Hbn : nonl b).
      { rewrite Ea in HTn. apply Forall_app in HTn. destruct HTn as [_ Hb']. now inversion Hb'. }
      destruct (exists_last Hb) as [b' [y Eb]]. subst b.
      assert (Hy : y <> 10).
      { unfold nonl in Hbn. rewrite Forall_forall in Hbn. apply Hbn. apply in_or_app. right. now left. }
      destruct a as [|a0 a].
      * rewrite rev_app_distr. cbn [rev app]. now eexists _, _.
      * rewrite rev_app_distr. cbn [rev]. rewrite rev_app_distr. cbn [rev app]. now eexists _, _.
Qed.

(* the same for the model of report.c last_lines, with the number of lines report.c asks for *)
Theorem last_lines_meaning c :
  exists p, c = p ++ last_lines c tail_lines /\
    (p = [] \/ exists p', p = p' ++ [10]) /\
    nonempty_lines (last_lines c tail_lines) = Nat.min 10 (nonempty_lines c) /\
    (p <> [] -> nonempty_lines (last_lines c tail_lines) = 10%nat /\
                exists x t, last_lines c tail_lines = x :: t /\ x <> 10).
Proof. rewrite last_lines_spec, tail_lines_is. apply tail_meaning. lia. Qed.

(* a log with at most ten non-empty lines is shown in full *)
Corollary short_log_shown_whole c :
  (nonempty_lines c < 10)%nat -> last_lines c tail_lines = c.
Proof.
  intros H. destruct (last_lines_meaning c) as [p [Hc [_ [Hcount Hcut]]]].
  destruct p as [|x p]; [now rewrite Hc at 2|].
  destruct (Hcut ltac:(discriminate)) as [E _]. rewrite E in Hcount. lia.
Qed.
