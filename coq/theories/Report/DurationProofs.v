(* DurationProofs.v - the numbers of the report (DurationDefs) are the specified ones (DurationSpec). *)
From Robsd Require Import Report.DurationSpec Report.ReportProofs Base.DecimalProofs Base.Sort Inv.LsSpec Inv.LsProofs Step.StepLex.
From RobsdGen Require Import Gen_Step.
From Coq Require Import Lia Decimal DecimalZ Znumtheory Sorting.Sorted Sorting.Permutation.
Local Open Scope N_scope.

(* ---- what the generated constants have to be ------------------------------------------------ *)

Lemma delta_suppressed_is a thr : delta_suppressed a thr = (a <=? thr)%Z.
Proof. reflexivity. Qed.

Lemma thresholds_are :
  threshold_duration_s = 60%Z /\ step_delta_threshold = 0%Z /\
  threshold_size_b = 1048576%Z /\ threshold_size_ramdisk_b = 1024%Z.
Proof. repeat split; reflexivity. Qed.

Lemma size_below_is a thr : size_below a thr = (a <? thr)%Z /\ size_below_ramdisk a thr = (a <? thr)%Z.
Proof. split; reflexivity. Qed.

Lemma names_are :
  name_end = spec_name_end /\ name_ramdisk = spec_name_ramdisk /\ name_changelog = spec_name_changelog.
Proof. repeat split; reflexivity. Qed.

(* ---- totals ------------------------------------------------------------------------------------ *)

Lemma total_step_spec acc r :
  total_step acc r = if counted r then (acc + r_duration r)%Z else acc.
Proof.
  unfold total_step, counted, nonskipped. destruct (r_skip r =? 1)%Z; [reflexivity|].
  cbn [negb andb]. destruct (proj1 names_are). destruct (beq (r_name r) name_end); reflexivity.
Qed.

Lemma fold_total rows : forall acc, fold_left total_step rows acc = (acc + spec_sum rows)%Z.
Proof.
  unfold spec_sum. induction rows as [|r rs IH]; intros acc; cbn [fold_left filter map fold_right]; [lia|].
  rewrite IH, total_step_spec. destruct (counted r); cbn [map fold_right]; lia.
Qed.

Lemma rev_last {A} (l : list A) d : l <> [] -> exists t, List.rev l = last l d :: t.
Proof.
  intros Hn. destruct (List.rev l) as [|x t] eqn:E.
  - apply (f_equal (@List.rev A)) in E. rewrite rev_involutive in E. contradiction.
  - exists t. f_equal. apply (f_equal (@List.rev A)) in E. rewrite rev_involutive in E. cbn in E.
    rewrite E. symmetry. apply last_last.
Qed.

Lemma c_total_spec m rows : c_total m rows = spec_accumulated m rows.
Proof.
  assert (Hs : fold_left total_step rows 0%Z = spec_sum rows) by (rewrite fold_total; lia).
  destruct m; cbn [c_total spec_accumulated]; try exact Hs.
  unfold spec_wall. destruct rows as [|r0 t]; [reflexivity|]. rewrite frev_rev.
  destruct (rev_last (r0 :: t) r0) as [t' E]; [discriminate|]. rewrite E. reflexivity.
Qed.

Lemma find_filter {A} (f : A -> bool) l : find f l = match filter f l with x :: _ => Some x | [] => None end.
Proof. induction l as [|x l IH]; cbn; [reflexivity|]. destruct (f x); [reflexivity|exact IH]. Qed.

Theorem total_spec m rows :
  stats_total m rows = spec_total m rows /\
  stats_duration m rows =
    format_duration_and_delta (fst (spec_total m rows)) (snd (spec_total m rows)) 60.
Proof.
  assert (E : stats_total m rows = spec_total m rows).
  { unfold stats_total, spec_total, find_by_name. rewrite find_filter. destruct (proj1 names_are).
    destruct (filter _ rows); [rewrite c_total_spec|]; reflexivity. }
  split; [exact E|]. unfold stats_duration. rewrite E. destruct (spec_total m rows). reflexivity.
Qed.

Lemma report_duration_line w m cfg rows fs rep :
  report_struct_rows_with w m cfg rows fs = ROk rep -> rp_duration rep = stats_duration m rows.
Proof.
  unfold report_struct_rows_with, report_struct_rows_gen. destruct (negb (c_running cfg)); [discriminate|].
  destruct (f_comment fs); try discriminate; destruct (steps_loop_gen w _ m cfg fs rows); try discriminate;
    intros H; injection H as <-; reflexivity.
Qed.

(* sums of fewer than 2^22 durations within +-2^40 stay inside int64_t *)
Lemma total_fits rows :
  Forall (fun r => (Z.abs (r_duration r) <= two_pow_40)%Z) rows ->
  (Z.abs (spec_sum rows) <= Z.of_nat (List.length rows) * two_pow_40)%Z.
Proof.
  unfold spec_sum. induction 1 as [|r rs Hr _ IH]; cbn [filter map fold_right List.length]; [lia|].
  destruct (counted r); cbn [map fold_right]; rewrite Nat2Z.inj_succ; unfold two_pow_40 in *; lia.
Qed.

(* ---- the shell twins ---------------------------------------------------------------------------- *)

Lemma sh_select_pos rows k : sh_select rows (Z.of_nat k + 1) = nth_error rows k.
Proof.
  unfold sh_select. destruct (Z.ltb_spec 0 (Z.of_nat k + 1)); [|lia].
  replace (Z.of_nat k + 1 - 1)%Z with (Z.of_nat k) by lia. now rewrite Nat2Z.id.
Qed.

(* step_eval <i> is robsd-step -R -i <i> (C01's select_row) on the rows' report view *)
Lemma sh_select_is_robsd_step rows i :
  (id_min <= i <= id_max)%Z ->
  sh_select (map view rows) i = omap view (select_row rows (ById (render_Z i))).
Proof.
  intros Hi. unfold select_row, sh_select.
  rewrite (clean_nonul _ (clean_render i)), (strtonum_render id_min id_max i Hi), map_length.
  destruct (0 <? i)%Z; [apply nth_error_map|].
  destruct (i <? 0)%Z; [|reflexivity].
  destruct (- i <=? Z.of_nat (List.length rows))%Z; [apply nth_error_map|reflexivity].
Qed.

Lemma skipn_nth {A} (l : list A) k x : nth_error l k = Some x -> skipn k l = x :: skipn (S k) l.
Proof.
  revert k; induction l as [|y l IH]; intros [|k] H; try discriminate H.
  - injection H as ->. reflexivity.
  - cbn in H. cbn [skipn]. apply IH. exact H.
Qed.

Lemma sh_loop_spec rows : forall fuel k tot,
  (List.length rows - k < fuel)%nat ->
  sh_total_loop fuel (Z.of_nat k + 1) rows tot = fold_left total_step (skipn k rows) tot.
Proof.
  induction fuel as [|fuel IH]; intros k tot Hf; [lia|].
  cbn [sh_total_loop]. rewrite sh_select_pos.
  destruct (nth_error rows k) as [r|] eqn:En.
  - rewrite (skipn_nth rows k r En). cbn [fold_left].
    assert (Hk : (k < List.length rows)%nat) by (apply nth_error_Some; congruence).
    replace (Z.of_nat k + 1 + 1)%Z with (Z.of_nat (S k) + 1)%Z by lia.
    unfold total_step at 2.
    destruct (r_skip r =? 1)%Z; [apply IH; lia|].
    destruct (beq (r_name r) name_end); apply IH; lia.
  - apply nth_error_None in En. rewrite skipn_all2 by exact En. reflexivity.
Qed.

Lemma nth_error_last {A} (l : list A) d : l <> [] -> nth_error l (List.length l - 1) = Some (last l d).
Proof.
  induction l as [|x l IH]; [congruence|]. intros _. destruct l as [|y l]; [reflexivity|].
  replace (List.length (x :: y :: l) - 1)%nat with (S (List.length (y :: l) - 1)) by (cbn [List.length]; lia).
  cbn [nth_error]. rewrite IH by discriminate. reflexivity.
Qed.

Theorem shell_equals_C m rows :
  sh_total m rows = c_total m rows /\ c_total m rows = spec_accumulated m rows.
Proof.
  split; [|apply c_total_spec].
  assert (Hl : sh_total_loop (S (List.length rows)) 1 rows 0 = fold_left total_step rows 0%Z).
  { apply (sh_loop_spec rows (S (List.length rows)) 0 0%Z). lia. }
  destruct m; cbn [sh_total c_total]; try exact Hl.
  unfold sh_regress_total. change 1%Z with (Z.of_nat 0 + 1)%Z. rewrite sh_select_pos.
  destruct rows as [|r0 t]; [reflexivity|]. cbn [nth_error].
  unfold sh_select. cbn [Z.ltb Z.compare Z.opp Z.leb].
  destruct (Z.leb_spec 1 (Z.of_nat (List.length (r0 :: t)))) as [_|H]; [|cbn [List.length] in H; lia].
  replace (Z.to_nat (Z.of_nat (List.length (r0 :: t)) + -1)) with (List.length (r0 :: t) - 1)%nat by (cbn [List.length]; lia).
  rewrite (nth_error_last (r0 :: t) r0) by discriminate. reflexivity.
Qed.

(* ---- HH:MM:SS -------------------------------------------------------------------------------------- *)

Lemma bytes_of_uint_nil u : bytes_of_uint u = [] -> u = Nil.
Proof. destruct u; cbn; congruence. Qed.

Lemma render_single z c : render_Z z = [c] -> (0 <= z <= 9)%Z.
Proof.
  unfold render_Z. intros H. rewrite <- (DecimalZ.of_to z).
  destruct (Z.to_int z) as [u|u]; cbn [bytes_of_int] in H.
  - destruct u; cbn [bytes_of_uint] in H; try discriminate H;
      injection H as _ H; apply bytes_of_uint_nil in H; subst; vm_compute; split; discriminate.
  - injection H as _ H. apply bytes_of_uint_nil in H. subst. vm_compute. split; discriminate.
Qed.

Lemma render_digit z : (0 <= z < 10)%Z -> exists c, render_Z z = [c].
Proof.
  intros H.
  assert (E : (z = 0 \/ z = 1 \/ z = 2 \/ z = 3 \/ z = 4 \/ z = 5 \/ z = 6 \/ z = 7 \/ z = 8 \/ z = 9)%Z) by lia.
  repeat (destruct E as [->|E]; [eexists; reflexivity|]). subst. eexists; reflexivity.
Qed.

Lemma pad2_two_digits z : (0 <= z)%Z -> pad2 z = two_digits z.
Proof.
  intros Hz. unfold pad2, two_digits. destruct (Z.ltb_spec z 10) as [H|H].
  - destruct (render_digit z) as [c ->]; [lia|]. reflexivity.
  - destruct (render_Z z) as [|c [|c2 s]] eqn:E; try reflexivity.
    apply render_single in E. lia.
Qed.

Lemma cast_int_small z : (-2147483648 <= z < 2147483648)%Z -> cast_int z = z.
Proof. intros H. unfold cast_int. rewrite Z.mod_small by lia. lia. Qed.

Theorem hms d :
  (0 <= d <= two_pow_40)%Z ->
  format_duration d = spec_hms d /\
  exists h m s, (h * 3600 + m * 60 + s = d /\ 0 <= h /\ 0 <= m < 60 /\ 0 <= s < 60)%Z /\
    format_duration d = two_digits h ++ 58 :: two_digits m ++ 58 :: two_digits s.
Proof.
  intros Hd. unfold two_pow_40 in Hd.
  assert (E : format_duration d = spec_hms d).
  { unfold format_duration, spec_hms.
    rewrite !Z.quot_div_nonneg, !Z.rem_mod_nonneg; try lia;
      try (apply Z.mod_pos_bound; lia); try (rewrite Z.rem_mod_nonneg by lia; apply Z.mod_pos_bound; lia).
    assert (H1 : (0 <= d / 3600 < 2147483648)%Z).
    { split; [apply Z.div_pos; lia|]. apply Z.div_lt_upper_bound; lia. }
    assert (H2 : (0 <= d mod 3600 < 3600)%Z) by (apply Z.mod_pos_bound; lia).
    assert (H3 : (0 <= d mod 3600 / 60 < 60)%Z).
    { split; [apply Z.div_pos; lia|]. apply Z.div_lt_upper_bound; lia. }
    assert (H4 : (0 <= (d mod 3600) mod 60 < 60)%Z) by (apply Z.mod_pos_bound; lia).
    assert (H5 : ((d mod 3600) mod 60 = d mod 60)%Z).
    { symmetry. apply Zmod_div_mod; try lia. exists 60%Z. reflexivity. }
    rewrite !cast_int_small by lia. rewrite !pad2_two_digits by lia. rewrite H5. reflexivity. }
  split; [exact E|].
  exists (d / 3600)%Z, ((d mod 3600) / 60)%Z, (d mod 60)%Z. split; [|rewrite E; reflexivity].
  pose proof (Z.div_mod d 3600 ltac:(lia)) as D1.
  pose proof (Z.div_mod (d mod 3600) 60 ltac:(lia)) as D2.
  assert (H5 : ((d mod 3600) mod 60 = d mod 60)%Z).
    { symmetry. apply Zmod_div_mod; try lia. exists 60%Z. reflexivity. }
  pose proof (Z.mod_pos_bound d 3600 ltac:(lia)) as B1.
  pose proof (Z.mod_pos_bound d 60 ltac:(lia)) as B2.
  assert (B3 : (0 <= d mod 3600 / 60 < 60)%Z).
  { split; [apply Z.div_pos; lia|]. apply Z.div_lt_upper_bound; lia. }
  assert (B4 : (0 <= d / 3600)%Z) by (apply Z.div_pos; lia).
  repeat split; try lia.
Qed.

Lemma two_digits_width x : (0 <= x < 100)%Z -> List.length (two_digits x) = 2%nat.
Proof.
  intros H.
  assert (Hall : forallb (fun n => Nat.eqb (List.length (two_digits (Z.of_nat n))) 2) (seq 0 100) = true)
    by (vm_compute; reflexivity).
  rewrite forallb_forall in Hall. specialize (Hall (Z.to_nat x)).
  rewrite Z2Nat.id in Hall by lia. apply Nat.eqb_eq. apply Hall. apply in_seq. lia.
Qed.

(* ---- delta ------------------------------------------------------------------------------------------ *)

Lemma abs_branch delta : (if (delta <? 0)%Z then (- delta)%Z else delta) = Z.abs delta.
Proof. destruct (Z.ltb_spec delta 0); lia. Qed.

Theorem delta_iff d delta thr :
  (0 <= thr)%Z ->
  ((Z.abs delta <= thr)%Z -> format_duration_and_delta d delta thr = format_duration d) /\
  ((thr < Z.abs delta)%Z ->
     format_duration_and_delta d delta thr =
       format_duration d ++ [32; 40] ++ [if (delta <? 0)%Z then 45 else 43] ++
       format_duration (Z.abs delta) ++ [41]).
Proof.
  intros Ht. unfold format_duration_and_delta, delta_suffix. rewrite delta_suppressed_is, !abs_branch.
  destruct (Z.eqb_spec delta 0) as [->|Hz].
  - split; [reflexivity|]. cbn. lia.
  - destruct (Z.leb_spec (Z.abs delta) thr); split; intros; try lia; reflexivity.
Qed.

Lemma duration_text_spec d delta thr :
  (0 <= thr)%Z -> in_range d = true -> delta_in_range delta = true ->
  format_duration_and_delta d delta thr = spec_duration_text d delta thr.
Proof.
  intros Ht Hd Hdl. unfold in_range in Hd. unfold delta_in_range in Hdl.
  apply andb_true_iff in Hd. destruct Hd as [Hd1 Hd2]. apply Z.leb_le in Hd1, Hd2, Hdl.
  unfold spec_duration_text, spec_delta_suffix.
  destruct (delta_iff d delta thr Ht) as [Ha Hb].
  destruct (Z.leb_spec (Z.abs delta) thr) as [H|H].
  - rewrite Ha by exact H. rewrite (proj1 (hms d (conj Hd1 Hd2))), app_nil_r. reflexivity.
  - rewrite Hb by exact H. rewrite (proj1 (hms d (conj Hd1 Hd2))).
    rewrite (proj1 (hms (Z.abs delta) (conj (Z.abs_nonneg delta) Hdl))). reflexivity.
Qed.

(* ---- sizes -------------------------------------------------------------------------------------------- *)

Lemma round_spec size u : (0 <= size)%Z -> (0 < u)%Z -> round_half_even (size * 10) u = spec_round1 size u.
Proof.
  intros Hs Hu. unfold round_half_even, spec_round1.
  set (n := (size * 10)%Z). set (q := (n / u)%Z). set (r := (n mod u)%Z).
  assert (Hn : n = (u * q + r)%Z) by (apply Z.div_mod; lia).
  assert (Hr : (0 <= r < u)%Z) by (apply Z.mod_pos_bound; lia).
  replace (20 * size + u)%Z with (2 * n + u)%Z by (unfold n; lia).
  destruct (Z.ltb_spec (2 * r) u) as [H1|H1].
  - assert (Hq : ((2 * n + u) / (2 * u) = q)%Z).
    { symmetry. apply (Z.div_unique_pos _ _ q (2 * r + u)); lia. }
    assert (Hm : ((2 * n + u) mod (2 * u) = 2 * r + u)%Z).
    { symmetry. apply (Z.mod_unique_pos _ _ q (2 * r + u)); lia. }
    rewrite Hq, Hm. destruct (Z.eqb_spec (2 * r + u) 0); [lia|]. reflexivity.
  - assert (Hq : ((2 * n + u) / (2 * u) = q + 1)%Z).
    { symmetry. apply (Z.div_unique_pos _ _ (q + 1) (2 * r - u)); lia. }
    assert (Hm : ((2 * n + u) mod (2 * u) = 2 * r - u)%Z).
    { symmetry. apply (Z.mod_unique_pos _ _ (q + 1) (2 * r - u)); lia. }
    rewrite Hq, Hm.
    destruct (Z.ltb_spec u (2 * r)) as [H2|H2].
    + destruct (Z.eqb_spec (2 * r - u) 0); [lia|]. reflexivity.
    + replace (2 * r - u)%Z with 0%Z by lia. cbn [Z.eqb andb].
      rewrite Z.add_1_r, Z.odd_succ. destruct (Z.even q); [lia|reflexivity].
Qed.

Lemma pick_unit_spec size : pick_unit size_units size = spec_unit size.
Proof.
  unfold size_units, spec_unit. cbn [pick_unit].
  destruct (1048576 <=? size)%Z; [reflexivity|]. destruct (1024 <=? size)%Z; reflexivity.
Qed.

Lemma spec_unit_pos size : (0 < fst (spec_unit size))%Z.
Proof. unfold spec_unit. destruct (1048576 <=? size)%Z; [cbn; lia|]. destruct (1024 <=? size)%Z; cbn; lia. Qed.

Lemma format_size_spec size : (0 <= size)%Z -> format_size size = spec_size_text size.
Proof.
  intros Hs. unfold format_size, spec_size_text. rewrite pick_unit_spec.
  pose proof (spec_unit_pos size) as Hu. destruct (spec_unit size) as [u p]. cbn [fst] in Hu.
  rewrite round_spec by assumption. reflexivity.
Qed.

(* unit by magnitude; the printed tenths are within half a tenth of size/unit, a tie goes to the even tenth *)
Theorem size_format size :
  (0 <= size)%Z ->
  let '(u, p) := spec_unit size in
  let t := spec_round1 size u in
  (((1048576 <= size)%Z -> u = 1048576%Z /\ p = [77]) /\
   ((1024 <= size < 1048576)%Z -> u = 1024%Z /\ p = [75]) /\
   ((size < 1024)%Z -> u = 1%Z /\ p = [])) /\
  (2 * Z.abs (10 * size - t * u) <= u)%Z /\
  ((2 * Z.abs (10 * size - t * u) = u)%Z -> Z.even t = true) /\
  format_size size = render_Z (t / 10) ++ 46 :: render_Z (t mod 10) ++ p /\
  (0 <= t mod 10 < 10)%Z.
Proof.
  intros Hs. pose proof (format_size_spec size Hs) as Hf. unfold spec_size_text in Hf.
  pose proof (spec_unit_pos size) as Hu.
  assert (Hunit : let '(u, p) := spec_unit size in
            (((1048576 <= size)%Z -> u = 1048576%Z /\ p = [77]) /\
             ((1024 <= size < 1048576)%Z -> u = 1024%Z /\ p = [75]) /\
             ((size < 1024)%Z -> u = 1%Z /\ p = []))).
  { unfold spec_unit. destruct (Z.leb_spec 1048576 size); [repeat split; lia|].
    destruct (Z.leb_spec 1024 size); repeat split; lia. }
  destruct (spec_unit size) as [u p]. cbn [fst] in Hu. cbn zeta.
  split; [exact Hunit|].
  rewrite <- (round_spec size u Hs Hu). unfold round_half_even.
  set (n := (size * 10)%Z). set (q := (n / u)%Z). set (r := (n mod u)%Z).
  assert (Hn : n = (u * q + r)%Z) by (apply Z.div_mod; lia).
  assert (Hr : (0 <= r < u)%Z) by (apply Z.mod_pos_bound; lia).
  assert (H10 : (10 * size = n)%Z) by (unfold n; lia).
  assert (Hmod : forall t, (0 <= t mod 10 < 10)%Z) by (intros; apply Z.mod_pos_bound; lia).
  rewrite <- (round_spec size u Hs Hu) in Hf. unfold round_half_even in Hf. fold n q r in Hf.
  destruct (Z.ltb_spec (2 * r) u) as [H1|H1].
  - split; [nia|]. split; [intros E; exfalso; nia|]. split; [exact Hf|apply Hmod].
  - destruct (Z.ltb_spec u (2 * r)) as [H2|H2].
    + split; [nia|]. split; [intros E; exfalso; nia|]. split; [exact Hf|apply Hmod].
    + destruct (Z.even q) eqn:Ev.
      * split; [nia|]. split; [intros _; exact Ev|]. split; [exact Hf|apply Hmod].
      * split; [nia|]. split; [|split; [exact Hf|apply Hmod]]. intros _.
        rewrite Z.add_1_r, Z.even_succ, <- Z.negb_even, Ev. reflexivity.
Qed.

Lemma below_threshold_spec name a :
  below_threshold name a = (a <? spec_size_threshold name)%Z.
Proof.
  unfold below_threshold, spec_size_threshold. destruct names_are as [_ [<- _]].
  destruct (beq name name_ramdisk); reflexivity.
Qed.

Lemma size_entry_spec prev f :
  (0 <= rf_size f)%Z ->
  map size_line (size_entry_of prev f) =
    if spec_size_listed prev f then [spec_size_line prev f] else [].
Proof.
  intros Hs. unfold size_entry_of, spec_size_listed, size_excluded. destruct names_are as [_ [_ <-]].
  destruct (hidden (rf_name f)); [reflexivity|]. cbn [negb andb].
  destruct (beq (rf_name f) name_changelog); [reflexivity|]. cbn [orb negb andb].
  destruct (is_numbered_diff (rf_name f)); [reflexivity|]. cbn [negb andb].
  unfold spec_size_line. destruct (prev (rf_name f)) as [p|]; [|reflexivity].
  rewrite abs_branch, below_threshold_spec.
  destruct (Z.ltb_spec (Z.abs (rf_size f - p)) (spec_size_threshold (rf_name f))) as [H|H].
  - destruct (Z.leb_spec (spec_size_threshold (rf_name f)) (Z.abs (rf_size f - p))); [lia|reflexivity].
  - destruct (Z.leb_spec (spec_size_threshold (rf_name f)) (Z.abs (rf_size f - p))); [|lia].
    cbn [map]. unfold size_line. cbn [se_name se_size se_delta]. rewrite abs_branch.
    rewrite !format_size_spec by (try assumption; apply Z.abs_nonneg). reflexivity.
Qed.

Lemma size_lines_spec cur prev :
  Forall (fun f => (0 <= rf_size f)%Z) cur ->
  size_lines cur prev = spec_size_lines cur prev.
Proof.
  intros H. unfold size_lines, spec_size_lines, size_entries. f_equal.
  induction H as [|f cur Hf _ IH]; [reflexivity|].
  cbn [flat_map filter]. rewrite map_app, IH, (size_entry_spec prev f Hf).
  destruct (spec_size_listed prev f); reflexivity.
Qed.

Lemma isort_perm l : Permutation l (isort l).
Proof. apply (proj1 (isort_sorts l)). Qed.

(* listed iff present in both invocations, visible, not excluded and changed by at least the threshold *)
Theorem sizes_iff cur prev :
  Forall (fun f => (0 <= rf_size f)%Z) cur ->
  (forall l, In l (size_lines cur prev) <->
     exists f p, In f cur /\ prev (rf_name f) = Some p /\
       hidden (rf_name f) = false /\ rf_name f <> spec_name_changelog /\ is_numbered_diff (rf_name f) = false /\
       (spec_size_threshold (rf_name f) <= Z.abs (rf_size f - p))%Z /\
       l = spec_size_line prev f) /\
  Sorted cmp_le (size_lines cur prev) /\
  Permutation (map (spec_size_line prev) (filter (spec_size_listed prev) cur)) (size_lines cur prev).
Proof.
  intros H. rewrite (size_lines_spec cur prev H). unfold spec_size_lines. split; [|split].
  - intros l. split.
    + intros Hin. apply (Permutation_in _ (Permutation_sym (isort_perm _))) in Hin.
      apply in_map_iff in Hin. destruct Hin as [f [<- Hf]]. apply filter_In in Hf. destruct Hf as [Hf Hl].
      unfold spec_size_listed in Hl. rewrite !andb_true_iff, !negb_true_iff in Hl.
      destruct Hl as [[[Hh Hc] Hd] Hp]. destruct (prev (rf_name f)) as [p|] eqn:Ep; [|discriminate Hp].
      exists f, p. repeat split; try assumption.
      * intros E. rewrite E, beq_refl in Hc. discriminate Hc.
      * apply Z.leb_le. exact Hp.
    + intros [f [p [Hf [Ep [Hh [Hc [Hd [Ht ->]]]]]]]].
      apply (Permutation_in _ (isort_perm _)). apply in_map. apply filter_In. split; [exact Hf|].
      unfold spec_size_listed. rewrite Hh, Hd, Ep. cbn [negb andb].
      destruct (beq_spec (rf_name f) spec_name_changelog) as [E|_]; [contradiction|]. cbn [negb andb].
      apply Z.leb_le. exact Ht.
  - apply (proj2 (isort_sorts _)).
  - apply isort_perm.
Qed.

Lemma numbered_diff_iff name :
  is_numbered_diff name = true <->
  exists a d b, name = a ++ dot_diff_dot ++ d :: b /\ (48 <= d <= 57).
Proof.
  unfold is_numbered_diff. rewrite existsb_exists. split.
  - intros [t [Ht Hm]]. apply andb_true_iff in Hm. destruct Hm as [Hp Hd].
    assert (Hs : exists a, name = a ++ t).
    { clear Hp Hd. revert t Ht. induction name as [|c name IH]; intros t Ht; cbn in Ht.
      - destruct Ht as [<-|[]]. exists []. reflexivity.
      - destruct Ht as [<-|Ht]; [exists []; reflexivity|]. destruct (IH t Ht) as [a ->]. exists (c :: a). reflexivity. }
    destruct Hs as [a ->]. apply prefixb_spec in Hp. destruct Hp as [rest ->].
    change (skipn 6 (dot_diff_dot ++ rest)) with rest in Hd.
    destruct rest as [|d b]; [discriminate Hd|]. exists a, d, b. split; [reflexivity|].
    unfold isdigitb in Hd. apply andb_true_iff in Hd. destruct Hd as [H1 H2].
    apply N.leb_le in H1, H2. lia.
  - intros [a [d [b [-> Hd]]]]. exists (dot_diff_dot ++ d :: b). split.
    + induction a as [|c a IH]; cbn [app tails]; [left; reflexivity|]. right. exact IH.
    + apply andb_true_iff. split; [apply prefixb_spec; eexists; reflexivity|].
      change (skipn 6 (dot_diff_dot ++ d :: b)) with (d :: b). unfold isdigitb.
      apply andb_true_iff. split; apply N.leb_le; lia.
Qed.

(* ---- the previous invocation --------------------------------------------------------------------------- *)

Lemma cmp_le_refl a : cmp_le a a.
Proof. apply lt_or_eq_cmp_le. right. reflexivity. Qed.

Lemma cmp_le_antisym a b : cmp_le a b -> cmp_le b a -> a = b.
Proof.
  intros H1 H2. apply cmp_le_lt_or_eq in H1. apply cmp_le_lt_or_eq in H2.
  destruct H1 as [H1|H1]; [|exact H1]. destruct H2 as [H2|H2]; [|symmetry; exact H2].
  exfalso. apply (blt_irrefl a). eapply blt_trans; eassumption.
Qed.

Lemma path_max_spec q p :
  exists x, path_max (Some q) p = Some x /\ (x = q \/ x = p) /\ cmp_le q x /\ cmp_le p x.
Proof.
  unfold path_max. destruct (strcmp q p) eqn:E.
  - apply strcmp_eq in E. subst. exists p. repeat split; auto using cmp_le_refl.
  - exists p. repeat split; auto using cmp_le_refl. apply lt_or_eq_cmp_le. left. apply strcmp_lt_blt. exact E.
  - exists q. repeat split; auto using cmp_le_refl. apply lt_or_eq_cmp_le. left. apply strcmp_gt_blt. exact E.
Qed.

Lemma fold_max_spec L : forall acc,
  match fold_left path_max L acc with
  | None => acc = None /\ L = []
  | Some x => (In x L \/ acc = Some x) /\ (forall y, In y L -> cmp_le y x) /\
              (forall a, acc = Some a -> cmp_le a x)
  end.
Proof.
  induction L as [|p L IH]; intros acc; cbn [fold_left].
  - destruct acc as [a|]; [|split; reflexivity].
    split; [right; reflexivity|]. split; [intros y []|]. intros a' E. injection E as <-. apply cmp_le_refl.
  - specialize (IH (path_max acc p)).
    destruct (fold_left path_max L (path_max acc p)) as [x|].
    + destruct IH as [Hin [Hall Hacc]].
      destruct acc as [q|].
      * destruct (path_max_spec q p) as [m [Em [Hm [Hq Hp]]]].
        pose proof (Hacc m Em) as Hmx. split; [|split].
        -- destruct Hin as [Hin|Hin]; [left; right; exact Hin|].
           rewrite Em in Hin. injection Hin as <-. destruct Hm as [->| ->]; [right; reflexivity|left; left; reflexivity].
        -- intros y [<-|Hy]; [eapply cmp_le_trans; eassumption|apply Hall; exact Hy].
        -- intros a E. injection E as <-. eapply cmp_le_trans; eassumption.
      * cbn [path_max] in *. split; [|split].
        -- destruct Hin as [Hin|Hin]; [left; right; exact Hin|]. injection Hin as <-. left; left; reflexivity.
        -- intros y [<-|Hy]; [apply Hacc; reflexivity|apply Hall; exact Hy].
        -- intros a E. discriminate E.
    + destruct IH as [E _]. destruct acc as [q|]; [|discriminate E].
      destruct (path_max_spec q p) as [m [Em _]]. rewrite Em in E. discriminate E.
Qed.

Lemma find_desc_spec (p : bytes -> bool) l :
  StronglySorted (fun a b => cmp_le b a) l ->
  match find p l with
  | None => forall y, In y l -> p y = false
  | Some x => In x l /\ p x = true /\ forall y, In y l -> p y = true -> cmp_le y x
  end.
Proof.
  induction 1 as [|a l Hs IH Hall]; cbn [find]; [intros y []|].
  destruct (p a) eqn:Ea.
  - split; [left; reflexivity|]. split; [exact Ea|]. intros y [<-|Hy] _; [apply cmp_le_refl|].
    rewrite Forall_forall in Hall. apply Hall. exact Hy.
  - destruct (find p l) as [x|].
    + destruct IH as [Hin [Hp Hmax]]. split; [right; exact Hin|]. split; [exact Hp|].
      intros y [<-|Hy] Hpy; [congruence|apply Hmax; assumption].
    + intros y [<-|Hy]; [exact Ea|apply IH; exact Hy].
Qed.

(* report.c previous_builddir takes the greatest other name *)
Theorem previous_is_by_name cfg fs : previous_builddir cfg fs = previous_by_name cfg fs.
Proof.
  unfold previous_builddir, previous_by_name. destruct (f_root fs) as [ents|]; [|reflexivity].
  unfold invocation_find_all.
  set (L0 := invocation_read (c_robsddir cfg) (c_keepdir cfg) ents).
  set (p := fun q => negb (beq q (c_builddir cfg))).
  destruct (isort_sorts L0) as [Hperm Hsorted].
  assert (Hss : StronglySorted (fun a b => cmp_le b a) (List.rev (isort L0))).
  { apply ssorted_rev. apply Sorted_StronglySorted; [|exact Hsorted]. intros a b c. apply cmp_le_trans. }
  pose proof (find_desc_spec p _ Hss) as Hf.
  pose proof (fold_max_spec (filter p L0) None) as Hm.
  assert (Hin : forall y, In y (List.rev (isort L0)) <-> In y L0).
  { intros y. rewrite <- in_rev. split; apply Permutation_in; [apply Permutation_sym|]; exact Hperm. }
  destruct (find p (List.rev (isort L0))) as [x|]; destruct (fold_left path_max (filter p L0) None) as [m|].
  - f_equal. destruct Hf as [Hx [Hpx Hmax]]. destruct Hm as [Hmin [Hall _]].
    destruct Hmin as [Hmin|Hmin]; [|discriminate Hmin]. apply filter_In in Hmin. destruct Hmin as [Hm0 Hpm].
    apply cmp_le_antisym.
    + apply Hall. apply filter_In. split; [apply Hin; exact Hx|exact Hpx].
    + apply Hmax; [apply Hin; exact Hm0|exact Hpm].
  - exfalso. destruct Hf as [Hx [Hpx _]]. destruct Hm as [_ Hnil].
    assert (In x (filter p L0)) by (apply filter_In; split; [apply Hin; exact Hx|exact Hpx]).
    rewrite Hnil in H. destruct H.
  - exfalso. destruct Hm as [[Hmin|Hmin] _]; [|discriminate Hmin].
    apply filter_In in Hmin. destruct Hmin as [Hm0 Hpm]. rewrite (Hf m) in Hpm; [discriminate Hpm|apply Hin; exact Hm0].
  - reflexivity.
Qed.

Theorem report_sizes_by_name m cfg fs :
  (forall cur, f_rel fs = Some cur -> Forall (fun f => (0 <= rf_size f)%Z) cur) ->
  report_sizes m cfg fs = sizes_by_name m cfg fs.
Proof.
  intros H. unfold report_sizes, sizes_by_name, sizes_against. rewrite previous_is_by_name.
  destruct m; try reflexivity. destruct (previous_by_name cfg fs) as [prev|]; [|reflexivity].
  destruct (f_rel fs) as [cur|] eqn:E; [|reflexivity]. apply size_lines_spec. apply H. reflexivity.
Qed.

(* the previous invocation is the greatest other directory of robsddir *)
Theorem previous_is_greatest cfg fs ents p :
  f_root fs = Some ents ->
  previous_builddir cfg fs = Some p ->
  In p (invocation_read (c_robsddir cfg) (c_keepdir cfg) ents) /\ p <> c_builddir cfg /\
  forall q, In q (invocation_read (c_robsddir cfg) (c_keepdir cfg) ents) -> q <> c_builddir cfg -> cmp_le q p.
Proof.
  intros Er. rewrite previous_is_by_name. unfold previous_by_name. rewrite Er. intros E.
  pose proof (fold_max_spec (filter (fun q => negb (beq q (c_builddir cfg)))
                (invocation_read (c_robsddir cfg) (c_keepdir cfg) ents)) None) as Hm.
  rewrite E in Hm. destruct Hm as [[Hin|Hin] [Hall _]]; [|discriminate Hin].
  apply filter_In in Hin. destruct Hin as [Hin Hp]. split; [exact Hin|]. split.
  - intros ->. rewrite beq_refl in Hp. discriminate Hp.
  - intros q Hq Hne. apply Hall. apply filter_In. split; [exact Hq|].
    destruct (beq_spec q (c_builddir cfg)); [contradiction|reflexivity].
Qed.

(* ---- the oracles accept the model's own output ----------------------------------------------------------- *)

Theorem model_passes_duration_oracles w x rows rep :
  rows_of x = Some rows ->
  report_struct_rows_with w (x_mode x) (cfg_of x) rows (files_of x) = ROk rep ->
  spec_ok_total x (rp_duration rep) = true /\
  (forall k r, nth_error (filter (spec_shown (x_mode x) (cfg_of x) (files_of x)) rows) k = Some r ->
     spec_ok_step_duration x k (step_duration r) = true) /\
  spec_ok_shell x (render_Z (sh_total (x_mode x) rows)) = true.
Proof.
  intros E H. split; [|split].
  - unfold spec_ok_total. rewrite E. rewrite (report_duration_line _ _ _ _ _ _ H).
    destruct (total_spec (x_mode x) rows) as [_ ->].
    destruct (spec_total (x_mode x) rows) as [d delta]. cbn [fst snd].
    destruct (in_range d && delta_in_range delta) eqn:Er; [|reflexivity].
    apply andb_true_iff in Er. destruct Er as [E1 E2].
    apply beq_eq. apply duration_text_spec; [lia|exact E1|exact E2].
  - intros k r Hk. unfold spec_ok_step_duration. rewrite E, Hk.
    destruct (in_range (r_duration r) && delta_in_range (r_delta r)) eqn:Er; [|reflexivity].
    apply andb_true_iff in Er. destruct Er as [E1 E2].
    apply beq_eq. unfold step_duration. destruct thresholds_are as [_ [-> _]].
    apply duration_text_spec; [lia|exact E1|exact E2].
  - unfold spec_ok_shell. rewrite E. apply beq_eq.
    destruct (shell_equals_C (x_mode x) rows) as [-> ->]. reflexivity.
Qed.
