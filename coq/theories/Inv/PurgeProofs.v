(* PurgeProofs.v - lemmas about the cleaning model. *)
From Coq Require Import String.
From Robsd Require Export Inv.PurgeSpec.
From Robsd Require Import Inv.LsProofs Inv.NameProofs Base.Sort.
From Coq Require Import Arith.
Local Open Scope N_scope.
Local Opaque name_attic name_tmp.

(* ---- paths ---- *)
Lemma path_beq_eq p : forall q, path_beq p q = true <-> p = q.
Proof.
  induction p as [|a p IH]; intros [|b q]; simpl; try (split; [discriminate|congruence]); [tauto|].
  rewrite andb_true_iff, beq_eq, IH. split; [intros [-> ->]; reflexivity|intros [= -> ->]; auto].
Qed.

Lemma path_beq_refl p : path_beq p p = true.
Proof. now apply path_beq_eq. Qed.

Lemma under_spec p : forall q, under p q = true <-> exists r, q = p ++ r.
Proof.
  induction p as [|a p IH]; intros q; simpl.
  - split; [eauto|reflexivity].
  - destruct q as [|b q]; [split; [discriminate|intros [r Hr]; discriminate]|].
    rewrite andb_true_iff, beq_eq, IH. split.
    + intros [-> [r ->]]. now exists r.
    + intros [r Hr]. injection Hr as -> ->. eauto.
Qed.

Lemma under_refl p : under p p = true.
Proof. apply under_spec. exists []. now rewrite app_nil_r. Qed.

Lemma under_app p r : under p (p ++ r) = true.
Proof. apply under_spec. now exists r. Qed.

Lemma under_trans p q r : under p q = true -> under q r = true -> under p r = true.
Proof.
  rewrite !under_spec. intros [a ->] [b ->]. exists (a ++ b). now rewrite app_assoc.
Qed.

Lemma under_one a q : under [a] q = match q with b :: _ => beq a b | [] => false end.
Proof. destruct q as [|b q]; simpl; [reflexivity|]. now rewrite andb_true_r. Qed.

Lemma under_one_cons a b q : under [a] (b :: q) = beq a b.
Proof. simpl. now rewrite andb_true_r. Qed.

(* two different names: nothing is below both *)
Lemma under_disjoint a b q : a <> b -> under [a] q = true -> under [b] q = false.
Proof.
  destruct q as [|c q]; [discriminate|]. rewrite !under_one_cons.
  intros Hne Ha. apply beq_eq in Ha. subst c.
  destruct (beq_spec b a) as [->|_]; [contradiction|reflexivity].
Qed.

(* ---- the pieces of purge_one ---- *)
Lemma attic_dst_under v : exists t, attic_dst v = name_attic :: t.
Proof. unfold attic_dst. eauto. Qed.

Lemma attic_parents_under v p : In p (attic_parents (attic_dst v)) -> under [name_attic] p = true.
Proof.
  unfold attic_parents. intros [<-|Hin]; [apply under_refl|].
  unfold proper_prefixes in Hin. apply in_map_iff in Hin as [k [<- Hk]].
  apply in_seq in Hk. destruct (attic_dst_under v) as [t ->].
  destruct k as [|k]; [lia|]. cbn [firstn]. rewrite under_one_cons. apply beq_refl.
Qed.

Lemma mkdir_one_in f p e :
  In e (mkdir_one f p) <-> In e f \/ (has_path p f = false /\ e = mkfs p FDir).
Proof.
  unfold mkdir_one. destruct (has_path p f) eqn:E.
  - split; [auto|]. intros [H|[H _]]; [exact H|discriminate].
  - rewrite in_app_iff. simpl. split.
    + intros [H|[<-|[]]]; auto.
    + intros [H|[_ ->]]; auto.
Qed.

Lemma mkdir_all_in ps : forall f e,
  In e (mkdir_all ps f) -> In e f \/ (f_node e = FDir /\ In (f_path e) ps).
Proof.
  induction ps as [|p ps IH]; intros f e; simpl; [auto|].
  intros H. apply IH in H as [H|[Hn Hp]]; [|auto].
  apply mkdir_one_in in H as [H|[_ ->]]; auto.
Qed.

Lemma mkdir_all_keeps ps : forall f e, In e f -> In e (mkdir_all ps f).
Proof.
  induction ps as [|p ps IH]; intros f e H; simpl; [exact H|].
  apply IH. apply mkdir_one_in. now left.
Qed.

Lemma put_in f x e :
  In e (put f x) <-> (In e f /\ f_path e <> f_path x) \/ e = x.
Proof.
  unfold put. rewrite in_app_iff, filter_In. simpl. split.
  - intros [[H Hb]|[<-|[]]]; [left|now right].
    split; [exact H|]. intros Heq. rewrite Heq, path_beq_refl in Hb. discriminate.
  - intros [[H Hne]| ->]; [left|right; now left].
    split; [exact H|]. destruct (path_beq (f_path e) (f_path x)) eqn:E; [|reflexivity].
    apply path_beq_eq in E. contradiction.
Qed.

Lemma fold_put_in xs : forall f e,
  In e (fold_left put xs f) -> In e f \/ In e xs.
Proof.
  induction xs as [|x xs IH]; intros f e; simpl; [auto|].
  intros H. apply IH in H as [H|H]; [|auto].
  apply put_in in H as [[H _]| ->]; auto.
Qed.

Lemma fold_put_keeps xs : forall f e,
  In e f -> (forall x, In x xs -> f_path x <> f_path e) -> In e (fold_left put xs f).
Proof.
  induction xs as [|x xs IH]; intros f e H Hne; simpl; [exact H|].
  apply IH.
  - apply put_in. left. split; [exact H|]. intros Heq. apply (Hne x); [now left|now symmetry].
  - intros y Hy. apply Hne. now right.
Qed.

(* everything purge_one adds lies under the attic; everything it removes lies
   under the victim *)
Definition copied_of (f : fstree) (v : bytes) : list fsent :=
  let f1 := filter (fun e => negb (under [v; name_tmp] (f_path e))) f in
  let sub := filter (fun e => under [v] (f_path e)) f1 in
  let surv := filter (fun e => path_beq (f_path e) [v] || survives sub e) sub in
  let dst := attic_dst v in
  let f2 := mkdir_all (attic_parents dst) f1 in
  let base := if is_dir_at dst f2 then dst ++ [v] else dst in
  map (fun e => mkfs (base ++ skipn 1 (f_path e)) (f_node e)) surv.

Lemma copied_under_attic f v x : In x (copied_of f v) -> under [name_attic] (f_path x) = true.
Proof.
  unfold copied_of. intros H. apply in_map_iff in H as [e [<- _]]. cbn [f_path].
  destruct (attic_dst_under v) as [t Ht]. rewrite Ht.
  destruct (is_dir_at _ _); apply under_spec; eexists; cbn [app]; reflexivity.
Qed.

Lemma under_tmp_under_v v p : under [v; name_tmp] p = true -> under [v] p = true.
Proof.
  intros H. apply under_spec in H as [r ->]. apply under_spec. now exists (name_tmp :: r).
Qed.

Lemma purge_one_outside f v e :
  under [v] (f_path e) = false -> under [name_attic] (f_path e) = false ->
  (In e (purge_one f v) <-> In e f).
Proof.
  intros Hv Ha. unfold purge_one. fold (copied_of f v).
  rewrite filter_In, Hv. change (negb false) with true.
  assert (Htmp : under [v; name_tmp] (f_path e) = false).
  { destruct (under [v; name_tmp] (f_path e)) eqn:E; [|reflexivity].
    apply under_tmp_under_v in E. congruence. }
  split.
  - intros [H _]. apply fold_put_in in H as [H|H].
    + apply mkdir_all_in in H as [H|[_ Hp]].
      * now apply filter_In in H as [H _].
      * apply attic_parents_under in Hp. congruence.
    + apply copied_under_attic in H. congruence.
  - intros H. split; [|reflexivity]. apply fold_put_keeps.
    + apply mkdir_all_keeps. apply filter_In. split; [exact H|]. now rewrite Htmp.
    + intros x Hx Heq. apply copied_under_attic in Hx. congruence.
Qed.

Lemma purge_one_gone f v e : In e (purge_one f v) -> under [v] (f_path e) = false.
Proof.
  unfold purge_one. intros H. apply filter_In in H as [_ H].
  now apply negb_true_iff in H.
Qed.

(* the only new entries are under the attic *)
Lemma purge_one_new f v e :
  In e (purge_one f v) -> In e f \/ under [name_attic] (f_path e) = true.
Proof.
  unfold purge_one. fold (copied_of f v). intros H. apply filter_In in H as [H _].
  apply fold_put_in in H as [H|H].
  - apply mkdir_all_in in H as [H|[_ Hp]].
    + left. now apply filter_In in H as [H _].
    + right. now apply attic_parents_under in Hp.
  - right. now apply copied_under_attic in H.
Qed.

(* the whitelist of util.sh is the documented one *)
Lemma whitelist_tie : purge_whitelist = documented_whitelist.
Proof. reflexivity. Qed.

Lemma whitelisted_spec n : whitelisted n = spec_whitelisted n.
Proof. unfold whitelisted, spec_whitelisted. now rewrite whitelist_tie. Qed.

(* where entries under the attic come from *)
Lemma survives_spec sub e :
  survives sub e = true ->
  whitelisted (basename (f_path e)) = true \/
  (f_node e = FDir /\ exists e1, In e1 sub /\ strictly_under (f_path e) (f_path e1) = true /\
                                 whitelisted (basename (f_path e1)) = true).
Proof.
  unfold survives. intros H. apply orb_true_iff in H as [H|H]; [now left|right].
  apply andb_true_iff in H as [Hd Hex]. split.
  - destruct (f_node e); simpl in Hd; try discriminate. reflexivity.
  - apply existsb_exists in Hex as [e1 [H1 H2]]. apply andb_true_iff in H2 as [H2 H3]. eauto.
Qed.

Lemma purge_one_attic f v e :
  In e (purge_one f v) -> under [name_attic] (f_path e) = true ->
  In e f \/ created_parent v e \/ from_victim f v e.
Proof.
  unfold purge_one. intros H Ha. apply filter_In in H as [H _].
  apply fold_put_in in H as [H|H].
  - apply mkdir_all_in in H as [H|[Hn Hp]].
    + left. now apply filter_In in H as [H _].
    + right; left. split; assumption.
  - right; right. apply in_map_iff in H as [e0 [<- H0]]. simpl.
    apply filter_In in H0 as [H0 Hs]. apply filter_In in H0 as [H0 Hu].
    apply filter_In in H0 as [H0 Ht]. apply negb_true_iff in Ht.
    set (f1 := filter (fun e => negb (under [v; name_tmp] (f_path e))) f) in *.
    set (sub := filter (fun e => under [v] (f_path e)) f1) in *.
    exists e0, (if is_dir_at (attic_dst v) (mkdir_all (attic_parents (attic_dst v)) f1)
                then attic_dst v ++ [v] else attic_dst v).
    split; [exact H0|]. split; [exact Hu|]. split; [exact Ht|].
    split; [destruct (is_dir_at _ _); auto|]. split; [reflexivity|]. split; [reflexivity|].
    apply orb_true_iff in Hs as [Hs|Hs]; [left; now apply path_beq_eq|right].
    apply survives_spec in Hs as [Hs|[Hn [e1 [H1 [H2 H3]]]]]; [left; now rewrite <- whitelisted_spec|right].
    rewrite whitelisted_spec in H3.
    split; [exact Hn|]. exists e1. split; [|auto].
    apply filter_In in H1 as [H1 _]. now apply filter_In in H1 as [H1 _].
Qed.

(* paths that exist somewhere keep existing through put *)
Lemma has_path_in p f : has_path p f = true <-> exists e, In e f /\ f_path e = p.
Proof.
  unfold has_path. rewrite existsb_exists. split.
  - intros [e [He Hp]]. apply path_beq_eq in Hp. eauto.
  - intros [e [He Hp]]. exists e. split; [exact He|]. now apply path_beq_eq.
Qed.

Lemma put_has_path f x p : has_path p f = true -> has_path p (put f x) = true.
Proof.
  rewrite !has_path_in. intros [e [He Hp]].
  destruct (list_eq_dec bytes_eq_dec (f_path e) (f_path x)) as [Heq|Hne].
  - exists x. split; [apply put_in; now right|congruence].
  - exists e. split; [apply put_in; left; auto|exact Hp].
Qed.

Lemma put_has_own f x : has_path (f_path x) (put f x) = true.
Proof. apply has_path_in. exists x. split; [apply put_in; now right|reflexivity]. Qed.

Lemma fold_put_has_path xs : forall f p, has_path p f = true -> has_path p (fold_left put xs f) = true.
Proof.
  induction xs as [|x xs IH]; intros f p H; simpl; [exact H|]. apply IH. now apply put_has_path.
Qed.

Lemma fold_put_has_own xs : forall f x, In x xs -> has_path (f_path x) (fold_left put xs f) = true.
Proof.
  induction xs as [|y xs IH]; intros f x Hin; [destruct Hin|].
  destruct Hin as [->|H]; simpl.
  - apply fold_put_has_path. apply put_has_own.
  - now apply IH.
Qed.

(* the victim's own directory always arrives in the attic, and what is in the
   attic stays (as a path; a file of the same name may be overwritten) *)
Lemma purge_one_arrives f v :
  In (mkfs [v] FDir) f -> v <> name_attic ->
  has_path (attic_dst v) (purge_one f v) = true \/
  has_path (attic_dst v ++ [v]) (purge_one f v) = true.
Proof.
  intros Hin Hne. unfold purge_one.
  set (f1 := filter (fun e => negb (under [v; name_tmp] (f_path e))) f).
  set (sub := filter (fun e => under [v] (f_path e)) f1).
  set (surv := filter (fun e => path_beq (f_path e) [v] || survives sub e) sub).
  set (dst := attic_dst v).
  set (f2 := mkdir_all (attic_parents dst) f1).
  set (base := if is_dir_at dst f2 then dst ++ [v] else dst).
  set (copied := map (fun e => mkfs (base ++ skipn 1 (f_path e)) (f_node e)) surv).
  assert (Hs : In (mkfs [v] FDir) surv).
  { unfold surv, sub, f1. repeat (apply filter_In; split); simpl; auto.
    - rewrite beq_refl. simpl. destruct (beq v name_tmp); reflexivity.
    - now rewrite beq_refl.
    - rewrite beq_refl. reflexivity. }
  assert (Hc : In (mkfs base FDir) copied).
  { unfold copied. apply in_map_iff. exists (mkfs [v] FDir). split; [|exact Hs].
    simpl. now rewrite app_nil_r. }
  assert (Hb : has_path base (filter (fun e => negb (under [v] (f_path e))) (fold_left put copied f2)) = true).
  { pose proof (fold_put_has_own copied f2 _ Hc) as Hp. simpl in Hp.
    apply has_path_in in Hp as [e [He Hp]]. apply has_path_in. exists e. split; [|exact Hp].
    apply filter_In. split; [exact He|]. rewrite Hp.
    assert (Hb' : exists t', base = name_attic :: t').
    { unfold base, dst. destruct (attic_dst_under v) as [t ->].
      destruct (is_dir_at (name_attic :: t) f2); [exists (t ++ [v])|exists t]; reflexivity. }
    destruct Hb' as [t' ->]. rewrite under_one_cons.
    destruct (beq_spec v name_attic); [contradiction|reflexivity]. }
  unfold base in Hb. destruct (is_dir_at dst f2); auto.
Qed.

Lemma purge_one_keeps_attic_paths f v p :
  has_path p f = true -> under [name_attic] p = true -> v <> name_attic ->
  has_path p (purge_one f v) = true.
Proof.
  intros Hp Ha Hne. unfold purge_one.
  apply has_path_in in Hp as [e [He Hpe]].
  assert (Hnv : under [v] p = false).
  { destruct p as [|c p]; [discriminate|]. rewrite under_one_cons in *. apply beq_eq in Ha. subst c.
    destruct (beq_spec v name_attic); [contradiction|reflexivity]. }
  match goal with |- has_path p (filter _ ?F) = true => assert (Hf : has_path p F = true) end.
  { apply fold_put_has_path. apply has_path_in. exists e. split; [|exact Hpe].
    apply mkdir_all_keeps. apply filter_In. split; [exact He|].
    rewrite Hpe. destruct (under [v; name_tmp] p) eqn:E; [|reflexivity].
    apply under_tmp_under_v in E. congruence. }
  apply has_path_in in Hf as [e' [He' Hp']]. apply has_path_in. exists e'. split; [|exact Hp'].
  apply filter_In. split; [exact He'|]. now rewrite Hp', Hnv.
Qed.

(* ---- all victims ---- *)
Lemma fold_purge_outside vs : forall f e,
  under [name_attic] (f_path e) = false -> (forall v, In v vs -> under [v] (f_path e) = false) ->
  (In e (fold_left purge_one vs f) <-> In e f).
Proof.
  induction vs as [|v vs IH]; intros f e Ha Hv; simpl; [tauto|].
  rewrite IH by (auto; intros; apply Hv; now right).
  apply purge_one_outside; [apply Hv; now left|exact Ha].
Qed.

Lemma fold_purge_new vs : forall f e,
  In e (fold_left purge_one vs f) -> In e f \/ under [name_attic] (f_path e) = true.
Proof.
  induction vs as [|v vs IH]; intros f e H; simpl in H; [auto|].
  apply IH in H as [H|H]; [|auto]. now apply purge_one_new in H.
Qed.

Lemma fold_purge_gone vs : forall f v e,
  In v vs -> ~ In name_attic vs -> In e (fold_left purge_one vs f) -> under [v] (f_path e) = false.
Proof.
  induction vs as [|w vs IH]; intros f v e Hv Hna He; [destruct Hv|]. simpl in He.
  destruct (in_dec bytes_eq_dec v vs) as [Hin|Hnin].
  - eapply IH; [exact Hin| |exact He]. intros H; apply Hna; now right.
  - destruct Hv as [->|Hv]; [|contradiction].
    destruct (under [v] (f_path e)) eqn:E; [|reflexivity]. exfalso.
    assert (Hva : v <> name_attic) by (intros ->; apply Hna; now left).
    assert (Ha : under [name_attic] (f_path e) = false) by (apply (under_disjoint v); auto).
    assert (Hout : forall w, In w vs -> under [w] (f_path e) = false).
    { intros w Hw. apply (under_disjoint v); [|exact E]. intros ->. contradiction. }
    apply (proj1 (fold_purge_outside vs (purge_one f v) e Ha Hout)) in He.
    apply purge_one_gone in He. congruence.
Qed.

Lemma fold_purge_attic vs : forall f e,
  In e (fold_left purge_one vs f) -> under [name_attic] (f_path e) = true ->
  In e f \/ exists v f', In v vs /\ (created_parent v e \/ from_victim f' v e) /\
                        (forall x, In x f' -> In x f \/ under [name_attic] (f_path x) = true).
Proof.
  induction vs as [|v vs IH]; intros f e H Ha; simpl in H; [auto|].
  apply IH in H as [H|[w [f' [Hw [Hc Hf']]]]]; [| |exact Ha].
  - apply purge_one_attic in H as [H|H]; [auto| |exact Ha].
    right. exists v, f. split; [now left|]. split; [exact H|auto].
  - right. exists w, f'. split; [now right|]. split; [exact Hc|].
    intros x Hx. apply Hf' in Hx as [Hx|Hx]; [|auto]. now apply purge_one_new in Hx.
Qed.

Lemma fold_purge_keeps_attic_paths vs : forall f p,
  has_path p f = true -> under [name_attic] p = true -> ~ In name_attic vs ->
  has_path p (fold_left purge_one vs f) = true.
Proof.
  induction vs as [|v vs IH]; intros f p Hp Ha Hna; simpl; [exact Hp|].
  apply IH; [|exact Ha|intros H; apply Hna; now right].
  apply purge_one_keeps_attic_paths; auto. intros ->. apply Hna. now left.
Qed.

(* remove_tree *)
Lemma fold_remove_in vs : forall f e,
  In e (fold_left remove_tree vs f) <-> In e f /\ forall v, In v vs -> under [v] (f_path e) = false.
Proof.
  induction vs as [|v vs IH]; intros f e; cbn [fold_left].
  - split; [intros H; split; [exact H|intros ? []]|tauto].
  - rewrite IH. split.
    + intros [H Hr]. unfold remove_tree in H. apply filter_In in H as [H Hv].
      apply negb_true_iff in Hv. split; [exact H|].
      intros w Hw. destruct Hw as [Hw|Hw]; [subst w; exact Hv|now apply Hr].
    + intros [H Hr]. split.
      * unfold remove_tree. apply filter_In. split; [exact H|]. rewrite (Hr v); [reflexivity|now left].
      * intros w Hw. apply Hr. now right.
Qed.

(* ---- the root as robsd-ls sees it ---- *)
Lemma dirents_in f de :
  In de (dirents_of f) <->
  exists e, In e f /\ f_path e = [d_name de] /\ d_type de = dtype_of_node (f_node e).
Proof.
  unfold dirents_of. rewrite in_flat_map. split.
  - intros [e [He Hin]]. exists e. split; [exact He|].
    destruct (f_path e) as [|n [|m p]].
    + destruct Hin.
    + destruct Hin as [<-|[]]. simpl. auto.
    + destruct Hin.
  - intros [e [He [Hp Ht]]]. exists e. split; [exact He|]. rewrite Hp. left.
    destruct de as [n t]. simpl in *. now subst.
Qed.

Lemma dirents_names_in f n :
  In n (map d_name (dirents_of f)) -> In [n] (map f_path f).
Proof.
  rewrite in_map_iff. intros [de [<- Hde]]. apply dirents_in in Hde as [e [He [Hp _]]].
  rewrite <- Hp. now apply in_map.
Qed.

Lemma dirents_distinct f : wf_tree f -> distinct_names (dirents_of f).
Proof.
  intros [Hnd _]. unfold distinct_names. induction f as [|e f IH]; [constructor|].
  simpl in Hnd. inversion Hnd as [|? ? Hx Hn]; subst.
  unfold dirents_of. simpl. fold (dirents_of f). rewrite map_app.
  destruct (f_path e) as [|n [|m p]] eqn:Ep; simpl; try (now apply IH).
  constructor; [|now apply IH]. intros Hin. apply dirents_names_in in Hin. contradiction.
Qed.

Lemma dtype_dir_node n : dtype_of_node n = DT_DIR <-> n = FDir.
Proof. destruct n; simpl; split; congruence. Qed.

Lemma mkpath_beq root a b : beq (mkpath root a) (mkpath root b) = beq a b.
Proof.
  destruct (beq_spec a b) as [->|Hne]; [apply beq_refl|].
  destruct (beq_spec (mkpath root a) (mkpath root b)) as [He|_]; [|reflexivity].
  apply mkpath_inj in He. contradiction.
Qed.

Section Listing.
  Variable sortf : list bytes -> list bytes.
  Hypothesis sortf_sorts : sorts sortf.
  Variable rootstr : bytes.

  Lemma listing_invocation f lock p :
    In p (ls sortf rootstr (keepdir_of rootstr) false lock (dirents_of f)) <->
    exists v, invocation f v /\ p = mkpath rootstr v.
  Proof.
    rewrite (exact_set sortf rootstr (keepdir_of rootstr) lock (dirents_of f) p sortf_sorts). split.
    - intros [de [Hde [Ht [Hh [Hk ->]]]]]. exists (d_name de). split; [|reflexivity].
      apply dirents_in in Hde as [e [He [Hp Hty]]]. rewrite Ht in Hty. symmetry in Hty.
      apply dtype_dir_node in Hty. split; [|split].
      + destruct e as [ep en]. simpl in *. now subst.
      + exact Hh.
      + intros Heq. apply Hk. unfold keepdir_of. now rewrite Heq.
    - intros [v [[Hin [Hh Hne]] ->]]. exists (mkde v DT_DIR). simpl. split; [|split; [|split; [|split]]]; auto.
      + apply dirents_in. exists (mkfs [v] FDir). simpl. auto.
      + unfold keepdir_of. intros Heq. apply mkpath_inj in Heq. contradiction.
  Qed.

  (* the names behind the listing: newest first *)
  Lemma listing_names f lock :
    wf_tree f ->
    exists names, ls sortf rootstr (keepdir_of rootstr) false lock (dirents_of f) = map (mkpath rootstr) names /\
                  newest_first f names.
  Proof.
    intros Hwf.
    destruct (descending_names sortf rootstr (keepdir_of rootstr) false lock (dirents_of f)
                sortf_sorts (dirents_distinct f Hwf)) as [_ [names [Hl Hs]]].
    exists names. split; [exact Hl|]. split; [|exact Hs].
    intros v. split.
    - intros Hv. assert (Hp : In (mkpath rootstr v) (map (mkpath rootstr) names)) by now apply in_map.
      rewrite <- Hl in Hp. apply listing_invocation in Hp as [w [Hw He]].
      apply mkpath_inj in He. now subst.
    - intros Hv. assert (Hp : In (mkpath rootstr v) (ls sortf rootstr (keepdir_of rootstr) false lock (dirents_of f)))
        by (apply listing_invocation; eauto).
      rewrite Hl in Hp. apply in_map_iff in Hp as [w [Hw Hin]]. apply mkpath_inj in Hw. now subst.
  Qed.
End Listing.

(* ---- list facts for the selection ---- *)
Lemma nodup_app_disjoint {A} (a b : list A) v : NoDup (a ++ b) -> In v a -> ~ In v b.
Proof.
  induction a as [|x a IH]; intros Hn Ha Hb; [destruct Ha|].
  simpl in Hn. inversion Hn as [|? ? Hx Hn']; subst. destruct Ha as [->|Ha].
  - apply Hx. apply in_or_app. now right.
  - now apply (IH Hn' Ha).
Qed.

Lemma firstn_skipn_partition {A} (l : list A) n v :
  NoDup l -> In v l -> (In v (skipn n l) <-> ~ In v (firstn n l)).
Proof.
  intros Hn Hv. rewrite <- (firstn_skipn n l) in Hn, Hv. split.
  - intros Hs Hf. exact (nodup_app_disjoint _ _ v Hn Hf Hs).
  - intros Hf. apply in_app_or in Hv as [Hv|Hv]; [contradiction|exact Hv].
Qed.

Lemma filter_ne_length (l : list bytes) r :
  NoDup l -> In r l -> S (length (filter (fun v => negb (beq v r)) l)) = length l.
Proof.
  induction l as [|x l IH]; intros Hn Hr; [destruct Hr|].
  inversion Hn as [|? ? Hx Hn']; subst. simpl.
  destruct (beq_spec x r) as [->|Hne]; simpl.
  - f_equal. clear IH Hr Hn. induction l as [|y l IH]; [reflexivity|]. simpl.
    destruct (beq_spec y r) as [->|_]; simpl.
    + exfalso. apply Hx. now left.
    + f_equal. apply IH; [intros H; apply Hx; now right|now inversion Hn'].
  - f_equal. apply IH; [exact Hn'|]. destruct Hr as [->|Hr]; [contradiction|exact Hr].
Qed.

Lemma skipn_In {A} n : forall (l : list A) x, In x (skipn n l) -> In x l.
Proof.
  induction n as [|n IH]; intros l x H; [exact H|].
  destruct l as [|y l]; [exact H|]. right. now apply IH.
Qed.

Lemma firstn_In {A} n : forall (l : list A) x, In x (firstn n l) -> In x l.
Proof.
  induction n as [|n IH]; intros l x H; [destruct H|].
  destruct l as [|y l]; [destruct H|]. destruct H as [->|H]; [now left|right; now apply IH].
Qed.

Lemma map_skipn {A B} (g : A -> B) n l : skipn n (map g l) = map g (skipn n l).
Proof. revert l; induction n as [|n IH]; intros [|x l]; simpl; auto. Qed.

Lemma filter_map_mkpath root r names :
  filter (fun p => negb (beq p (mkpath root r))) (map (mkpath root) names) =
  map (mkpath root) (filter (fun v => negb (beq v r)) names).
Proof.
  induction names as [|x names IH]; simpl; [reflexivity|].
  rewrite mkpath_beq. destruct (beq x r); simpl; now rewrite IH.
Qed.

Lemma ssorted_desc_nodup l : StronglySorted (fun a b => blt b a) l -> NoDup l.
Proof. apply (ssorted_nodup _ (fun a b => blt b a)). intros a. apply blt_irrefl. Qed.

(* ${_d##*/} gives the name back *)
Lemma after_last_slash_noslash s : forall cur,
  ~ In 47 s -> after_last_slash s cur = rev cur ++ s.
Proof.
  induction s as [|c s IH]; intros cur Hn; simpl; [now rewrite app_nil_r|].
  destruct (N.eqb_spec c 47) as [->|Hc]; [exfalso; apply Hn; now left|].
  rewrite IH by (intros H; apply Hn; now right). simpl. now rewrite <- app_assoc.
Qed.

Lemma after_last_slash_app a : forall cur b,
  ~ In 47 b -> after_last_slash (a ++ 47 :: b) cur = b.
Proof.
  induction a as [|c a IH]; intros cur b Hb; simpl.
  - now rewrite after_last_slash_noslash.
  - destruct (c =? 47); now apply IH.
Qed.

Lemma basename_mkpath root v : ~ In 47 v -> basename_str (mkpath root v) = v.
Proof. intros H. unfold basename_str, mkpath. now apply after_last_slash_app. Qed.

Lemma invocation_noslash f v : wf_tree f -> invocation f v -> ~ In 47 v.
Proof.
  intros [_ Hc] [Hin _]. rewrite Forall_forall in Hc. specialize (Hc _ Hin). simpl in Hc.
  now inversion Hc.
Qed.

Lemma map_basename_mkpath root names :
  Forall (fun v => ~ In 47 v) names -> map basename_str (map (mkpath root) names) = names.
Proof.
  induction 1 as [|v names Hv _ IH]; simpl; [reflexivity|]. now rewrite basename_mkpath, IH.
Qed.

(* ---- both ways of disposing of the victims ---- *)
Definition clean_tree (keep_attic : bool) (vs : list bytes) (f : fstree) : fstree :=
  fold_left (if keep_attic then purge_one else remove_tree) vs f.

Lemma under_attic_not_victim vs p :
  ~ In name_attic vs -> under [name_attic] p = true -> forall v, In v vs -> under [v] p = false.
Proof.
  intros Hna Ha v Hv. apply (under_disjoint name_attic); [|exact Ha]. intros <-. contradiction.
Qed.

Lemma clean_tree_outside ka vs f e :
  outside vs (f_path e) -> (In e (clean_tree ka vs f) <-> In e f).
Proof.
  intros [Ha Hv]. unfold clean_tree. destruct ka.
  - now apply fold_purge_outside.
  - rewrite fold_remove_in. tauto.
Qed.

Lemma clean_tree_gone ka vs f v e :
  In v vs -> ~ In name_attic vs -> In e (clean_tree ka vs f) -> under [v] (f_path e) = false.
Proof.
  intros Hv Hna He. unfold clean_tree in He. destruct ka.
  - eapply fold_purge_gone; eassumption.
  - apply fold_remove_in in He as [_ He]. now apply He.
Qed.

Lemma clean_tree_new ka vs f e :
  In e (clean_tree ka vs f) -> In e f \/ (ka = true /\ under [name_attic] (f_path e) = true).
Proof.
  unfold clean_tree. destruct ka; intros H.
  - apply fold_purge_new in H as [H|H]; auto.
  - apply fold_remove_in in H as [H _]. now left.
Qed.

(* attic disabled: the attic is not touched at all *)
Lemma clean_tree_noattic_attic vs f e :
  ~ In name_attic vs -> under [name_attic] (f_path e) = true ->
  (In e (clean_tree false vs f) <-> In e f).
Proof.
  intros Hna Ha. unfold clean_tree. rewrite fold_remove_in. split; [tauto|].
  intros H. split; [exact H|]. now apply under_attic_not_victim.
Qed.

Lemma clean_tree_invocation ka vs f v :
  ~ In name_attic vs ->
  (invocation (clean_tree ka vs f) v <-> invocation f v /\ ~ In v vs).
Proof.
  intros Hna. unfold invocation. split.
  - intros [Hin [Hh Hne]].
    assert (Hnv : ~ In v vs).
    { intros Hv. pose proof (clean_tree_gone ka vs f v _ Hv Hna Hin) as Hg. simpl in Hg.
      rewrite beq_refl in Hg. discriminate. }
    split; [|exact Hnv]. split; [|auto].
    apply clean_tree_new in Hin as [Hin|[_ Ha]]; [exact Hin|].
    simpl in Ha. rewrite andb_true_r in Ha. apply beq_eq in Ha. congruence.
  - intros [[Hin [Hh Hne]] Hnv]. split; [|auto].
    apply clean_tree_outside; [|exact Hin]. split; simpl.
    + rewrite andb_true_r. destruct (beq_spec name_attic v); [congruence|reflexivity].
    + intros w Hw. rewrite andb_true_r. destruct (beq_spec w v) as [->|_]; [contradiction|reflexivity].
Qed.

(* ---- which invocations are victims ---- *)
Definition victim_names (names : list bytes) (running : option bytes) (n : nat) : list bytes :=
  match running with
  | Some r => skipn (n - 1) (filter (fun v => negb (beq v r)) names)
  | None => skipn n names
  end.

Lemma compensation_is_one : purge_not_running_compensation = 1%nat.
Proof. reflexivity. Qed.

Section Selection.
  Variable sortf : list bytes -> list bytes.
  Hypothesis sortf_sorts : sorts sortf.
  Variable rootstr : bytes.

  Lemma victims_are f lock running n names :
    wf_tree f -> lock_consistent rootstr lock running f -> (1 <= n)%nat ->
    ls sortf rootstr (keepdir_of rootstr) false lock (dirents_of f) = map (mkpath rootstr) names ->
    victims sortf rootstr lock n f = map (mkpath rootstr) (victim_names names running n).
  Proof.
    intros Hwf Hlock Hn Hl. unfold victims.
    destruct (B_omits_exactly sortf rootstr (keepdir_of rootstr) lock (dirents_of f) sortf_sorts
                (dirents_distinct f Hwf)) as [_ [HB _]].
    cbv zeta in HB. rewrite HB, Hl. unfold is_running, victim_names.
    destruct running as [r|]; simpl in Hlock.
    - destruct Hlock as [Hb _]. rewrite Hb. cbn [is_builddir].
      rewrite filter_map_mkpath, map_skipn. reflexivity.
    - rewrite Hlock. cbn [is_builddir]. rewrite compensation_is_one.
      rewrite filter_all_true by reflexivity. rewrite map_skipn. f_equal. f_equal. lia.
  Qed.

  Lemma kept_partition names running n v :
    NoDup names -> In v names -> (1 <= n)%nat ->
    (match running with Some r => In r names | None => True end) ->
    (In v (victim_names names running n) <-> ~ In v (kept_of names running n)).
  Proof.
    intros Hnd Hv Hn Hr. unfold victim_names, kept_of. destruct running as [r|].
    - assert (Hm : memb r names = true) by now apply memb_in. rewrite Hm.
      set (others := filter (fun v => negb (beq v r)) names).
      assert (Hno : NoDup others) by now apply NoDup_filter.
      destruct (beq_spec v r) as [->|Hne].
      + split.
        * intros Hs. exfalso. assert (Hin : In r others) by (eapply skipn_In; exact Hs).
          apply filter_In in Hin as [_ Hb]. rewrite beq_refl in Hb. discriminate.
        * intros Hk. exfalso. apply Hk. now left.
      + assert (Hvo : In v others).
        { apply filter_In. split; [exact Hv|]. destruct (beq_spec v r); [contradiction|reflexivity]. }
        rewrite (firstn_skipn_partition others (n - 1) v Hno Hvo). split.
        * intros H [Heq|Hk]; [congruence|contradiction].
        * intros H Hk. apply H. now right.
    - now apply firstn_skipn_partition.
  Qed.

  Lemma kept_length names running n :
    NoDup names -> (1 <= n)%nat ->
    (match running with Some r => In r names | None => True end) ->
    length (kept_of names running n) = Nat.min n (length names).
  Proof.
    intros Hnd Hn Hr. unfold kept_of. destruct running as [r|].
    - assert (Hm : memb r names = true) by now apply memb_in. rewrite Hm. simpl.
      rewrite firstn_length. pose proof (filter_ne_length names r Hnd Hr). lia.
    - apply firstn_length.
  Qed.

  Lemma kept_incl names running n v : In v (kept_of names running n) -> In v names.
  Proof.
    unfold kept_of. destruct running as [r|].
    - destruct (memb r names) eqn:Hm.
      + intros [<-|H]; [now apply memb_in|]. apply firstn_In in H. now apply filter_In in H as [H _].
      + apply firstn_In.
    - apply firstn_In.
  Qed.

  (* the whole command *)
  Lemma clean_is f lock running keep_conf count keep_attic names :
    wf_tree f -> lock_consistent rootstr lock running f ->
    effective_keep keep_conf count <> 0%nat ->
    ls sortf rootstr (keepdir_of rootstr) false lock (dirents_of f) = map (mkpath rootstr) names ->
    newest_first f names ->
    snd (robsd_clean sortf rootstr keep_conf count keep_attic lock f) =
    clean_tree keep_attic (victim_names names running (effective_keep keep_conf count)) f.
  Proof.
    intros Hwf Hlock Hne Hl [Hnames _]. unfold robsd_clean.
    destruct (effective_keep keep_conf count) as [|k] eqn:Ek; [contradiction|]. simpl snd.
    rewrite (victims_are f lock running (S k) names Hwf Hlock) by (auto; lia).
    rewrite map_basename_mkpath; [reflexivity|].
    apply Forall_forall. intros v Hv. apply (invocation_noslash f v Hwf). apply Hnames.
    unfold victim_names in Hv. destruct running as [r|].
    - apply skipn_In in Hv. now apply filter_In in Hv as [Hv _].
    - now apply skipn_In in Hv.
  Qed.
End Selection.

Lemma attic_dst_is_under v : under [name_attic] (attic_dst v) = true.
Proof. destruct (attic_dst_under v) as [t ->]. rewrite under_one_cons. apply beq_refl. Qed.

Lemma fold_purge_arrives vs : forall f,
  NoDup vs -> ~ In name_attic vs -> (forall v, In v vs -> In (mkfs [v] FDir) f) ->
  forall v, In v vs ->
    has_path (attic_dst v) (fold_left purge_one vs f) = true \/
    has_path (attic_dst v ++ [v]) (fold_left purge_one vs f) = true.
Proof.
  induction vs as [|w vs IH]; intros f Hnd Hna Hdirs v Hv; [destruct Hv|].
  inversion Hnd as [|? ? Hw Hnd']; subst. simpl.
  assert (Hna' : ~ In name_attic vs) by (intros H; apply Hna; now right).
  assert (Hwa : w <> name_attic) by (intros ->; apply Hna; now left).
  destruct Hv as [->|Hv].
  - destruct (purge_one_arrives f v (Hdirs v (or_introl eq_refl)) Hwa) as [H|H]; [left|right];
      (apply fold_purge_keeps_attic_paths; [exact H| |exact Hna']).
    + apply attic_dst_is_under.
    + eapply under_trans; [apply attic_dst_is_under|apply under_app].
  - apply IH; auto. intros u Hu. apply purge_one_outside; simpl.
    + rewrite andb_true_r. destruct (beq_spec w u) as [->|_]; [contradiction|reflexivity].
    + rewrite andb_true_r. destruct (beq_spec name_attic u) as [<-|_]; [contradiction|reflexivity].
    + apply Hdirs. now right.
Qed.

Section Final.
  Variable sortf : list bytes -> list bytes.
  Hypothesis sortf_sorts : sorts sortf.
  Variable rootstr : bytes.

  Lemma victims_not_attic f names running n :
    newest_first f names -> ~ In name_attic (victim_names names running n).
  Proof.
    intros [Hnames _] Hin.
    assert (Hn : In name_attic names).
    { unfold victim_names in Hin. destruct running as [r|].
      - apply skipn_In in Hin. now apply filter_In in Hin as [Hin _].
      - now apply skipn_In in Hin. }
    apply Hnames in Hn. destruct Hn as [_ [_ Hne]]. now apply Hne.
  Qed.

  Lemma running_in_names f lock running names :
    lock_consistent rootstr lock running f -> newest_first f names ->
    match running with Some r => In r names | None => True end.
  Proof.
    intros Hl [Hnames _]. destruct running as [r|]; [|exact I].
    destruct Hl as [_ Hi]. now apply Hnames.
  Qed.

  Lemma final_kept_set f lock running keep_conf count ka :
    wf_tree f -> lock_consistent rootstr lock running f ->
    effective_keep keep_conf count <> 0%nat ->
    exists names, newest_first f names /\
      let n := effective_keep keep_conf count in
      let after := snd (robsd_clean sortf rootstr keep_conf count ka lock f) in
      (forall v, invocation after v <-> In v (kept_of names running n)) /\
      length (kept_of names running n) = Nat.min n (length names) /\
      (forall r, running = Some r -> In r (kept_of names running n)) /\
      (forall v, In v (kept_of names running n) -> In v names).
  Proof.
    intros Hwf Hlock Hne.
    destruct (listing_names sortf sortf_sorts rootstr f lock Hwf) as [names [Hl Hnf]].
    exists names. split; [exact Hnf|]. cbv zeta.
    pose proof (running_in_names f lock running names Hlock Hnf) as Hr.
    pose proof (ssorted_desc_nodup names (proj2 Hnf)) as Hnd.
    assert (Hn1 : (1 <= effective_keep keep_conf count)%nat) by lia.
    rewrite (clean_is sortf sortf_sorts rootstr f lock running keep_conf count ka names Hwf Hlock Hne Hl Hnf).
    split; [|split; [|split]].
    - intros v. rewrite clean_tree_invocation by (eapply victims_not_attic; exact Hnf). split.
      + intros [Hi Hnv]. destruct (In_dec bytes_eq_dec v (kept_of names running (effective_keep keep_conf count))) as [Hk|Hk]; [exact Hk|].
        exfalso. apply Hnv. apply kept_partition; auto. now apply (proj1 Hnf).
      + intros Hk. pose proof (kept_incl names running _ v Hk) as Hvn. split; [now apply (proj1 Hnf)|].
        intros Hv. apply kept_partition in Hv; auto.
    - now apply kept_length.
    - intros r ->. unfold kept_of. assert (Hm : memb r names = true) by now apply memb_in.
      rewrite Hm. now left.
    - apply kept_incl.
  Qed.

  (* the victims, in terms of the specification: invocations that are not kept *)
  Lemma victim_iff f lock running names n v :
    lock_consistent rootstr lock running f -> newest_first f names -> (1 <= n)%nat ->
    (In v (victim_names names running n) <-> invocation f v /\ ~ In v (kept_of names running n)).
  Proof.
    intros Hlock Hnf Hn.
    pose proof (running_in_names f lock running names Hlock Hnf) as Hr.
    pose proof (ssorted_desc_nodup names (proj2 Hnf)) as Hnd. split.
    - intros Hv. assert (Hvn : In v names).
      { unfold victim_names in Hv. destruct running as [r|].
        - apply skipn_In in Hv. now apply filter_In in Hv as [Hv _].
        - now apply skipn_In in Hv. }
      split; [now apply (proj1 Hnf)|]. now apply kept_partition.
    - intros [Hi Hk]. apply kept_partition; auto. now apply (proj1 Hnf).
  Qed.

  Lemma final_rest f lock running keep_conf count ka :
    wf_tree f -> lock_consistent rootstr lock running f ->
    effective_keep keep_conf count <> 0%nat ->
    exists names, newest_first f names /\
      let n := effective_keep keep_conf count in
      let kept := kept_of names running n in
      let after := snd (robsd_clean sortf rootstr keep_conf count ka lock f) in
      (* removed exactly *)
      (forall v e, invocation f v -> ~ In v kept -> In e after -> under [v] (f_path e) = false) /\
      (* nothing else touched *)
      (forall e, under [name_attic] (f_path e) = false ->
                 (forall v, invocation f v -> ~ In v kept -> under [v] (f_path e) = false) ->
                 (In e after <-> In e f)) /\
      (forall e, In e after -> In e f \/ (ka = true /\ under [name_attic] (f_path e) = true)) /\
      (ka = false -> forall e, under [name_attic] (f_path e) = true -> (In e after <-> In e f)) /\
      (* the attic *)
      (ka = true ->
         (forall p, has_path p f = true -> under [name_attic] p = true -> has_path p after = true) /\
         (forall v, invocation f v -> ~ In v kept ->
            has_path (attic_dst v) after = true \/ has_path (attic_dst v ++ [v]) after = true) /\
         (forall e, In e after -> under [name_attic] (f_path e) = true ->
            In e f \/ exists v f', (invocation f v /\ ~ In v kept) /\
                                   (created_parent v e \/ from_victim f' v e) /\
                                   (forall x, In x f' -> In x f \/ under [name_attic] (f_path x) = true))).
  Proof.
    intros Hwf Hlock Hne.
    destruct (listing_names sortf sortf_sorts rootstr f lock Hwf) as [names [Hl Hnf]].
    exists names. split; [exact Hnf|]. cbv zeta.
    assert (Hn1 : (1 <= effective_keep keep_conf count)%nat) by lia.
    rewrite (clean_is sortf sortf_sorts rootstr f lock running keep_conf count ka names Hwf Hlock Hne Hl Hnf).
    set (n := effective_keep keep_conf count) in *.
    pose proof (victims_not_attic f names running n Hnf) as Hna.
    pose proof (fun v => victim_iff f lock running names n v Hlock Hnf Hn1) as Hvi.
    split; [|split; [|split; [|split]]].
    - intros v e Hi Hk He. apply (clean_tree_gone ka (victim_names names running n) f v e); auto.
      apply Hvi. auto.
    - intros e Ha Hv. apply clean_tree_outside. split; [exact Ha|].
      intros v Hvv. apply Hvi in Hvv as [Hi Hk]. now apply Hv.
    - intros e He. now apply clean_tree_new in He.
    - intros -> e Ha. now apply clean_tree_noattic_attic.
    - intros ->. unfold clean_tree. split; [|split].
      + intros p Hp Ha. now apply fold_purge_keeps_attic_paths.
      + intros v Hi Hk. apply fold_purge_arrives; auto.
        * unfold victim_names. pose proof (ssorted_desc_nodup names (proj2 Hnf)) as Hnd.
          destruct running as [r|].
          -- assert (Hnd' : NoDup (filter (fun v => negb (beq v r)) names)) by now apply NoDup_filter.
             rewrite <- (firstn_skipn (n - 1)) in Hnd'. clear -Hnd'.
             induction (firstn (n - 1) (filter (fun v => negb (beq v r)) names)) as [|x l IH]; [exact Hnd'|].
             inversion Hnd'; subst. now apply IH.
          -- rewrite <- (firstn_skipn n) in Hnd. clear -Hnd.
             induction (firstn n names) as [|x l IH]; [exact Hnd|]. inversion Hnd; subst. now apply IH.
        * intros u Hu. apply Hvi in Hu as [[Hu _] _]. exact Hu.
        * apply Hvi. auto.
      + intros e He Ha. apply fold_purge_attic in He as [He|[v [f' [Hv [Hc Hf']]]]]; [now left| |exact Ha].
        right. exists v, f'. split; [now apply Hvi|]. auto.
  Qed.

  Lemma final_zero f lock keep_conf count ka :
    effective_keep keep_conf count = 0%nat ->
    robsd_clean sortf rootstr keep_conf count ka lock f = (0, [], f).
  Proof. intros H. unfold robsd_clean. now rewrite H. Qed.
End Final.

Lemma effective_keep_zero keep_conf count :
  effective_keep keep_conf count = 0%nat <->
  keep_conf = 0%nat /\ (count = None \/ count = Some 0%nat).
Proof.
  unfold effective_keep. destruct count as [[|c]|]; split.
  - intros ->. auto.
  - intros [-> _]. reflexivity.
  - discriminate.
  - intros [_ [H|H]]; discriminate.
  - intros ->. auto.
  - intros [-> _]. reflexivity.
Qed.

(* any qsort gives the same result as the one the driver runs *)
Lemma robsd_clean_any_qsort sortf rootstr keep_conf count ka lock f :
  sorts sortf -> wf_tree f ->
  robsd_clean sortf rootstr keep_conf count ka lock f = robsd_clean_exec rootstr keep_conf count ka lock f.
Proof.
  intros Hs Hwf. unfold robsd_clean_exec, robsd_clean, victims.
  now rewrite (ls_any_qsort sortf rootstr (keepdir_of rootstr) true lock (dirents_of f) Hs (dirents_distinct f Hwf)).
Qed.

(* ---- the regenerated tables are the documented ones ---- *)
Lemma tables_documented :
  purge_whitelist_patterns_text =
    [bs "*.diff.*"; bs "comment"; bs "index.txt"; bs "report"; bs "stat.csv"; bs "step.csv"; bs "tags"] /\
  purge_not_running_compensation = 1%nat /\
  purge_attic_tr_from = 45 /\ purge_attic_tr_to = 47 /\
  attic_dst (bs "2024-01-02.3") = [bs "attic"; bs "2024"; bs "01"; bs "02.3"] /\
  (forall n, whitelisted n = true <->
     (exists a b, n = a ++ bs ".diff." ++ b) \/
     In n [bs "comment"; bs "index.txt"; bs "report"; bs "stat.csv"; bs "step.csv"; bs "tags"]).
Proof.
  split; [reflexivity|]. split; [reflexivity|]. split; [reflexivity|]. split; [reflexivity|].
  split; [vm_compute; reflexivity|].
  intros n. unfold whitelisted, any_glob.
  change purge_whitelist with
    [[GStar; GLit (bs ".diff."); GStar]; [GLit (bs "comment")]; [GLit (bs "index.txt")]; [GLit (bs "report")];
     [GLit (bs "stat.csv")]; [GLit (bs "step.csv")]; [GLit (bs "tags")]].
  cbn [existsb]. rewrite !orb_true_iff, glob_star_lit_star_spec, !glob_lit_spec.
  cbn [In]. split.
  - intros [H|[H|[H|[H|[H|[H|[H|H]]]]]]]; try discriminate; auto 10.
  - intros [H|[H|[H|[H|[H|[H|[H|[]]]]]]]]; auto 10.
Qed.

(* ---- without the guard ---- *)
Lemma kept_set_refuted_witness :
  (exists f lock, wf_tree f /\ running_builddir lock = Some (bs "/r/2020-02-02.7") /\
     invocations_desc f = [bs "2024-01-02.3"; bs "2024-01-02.2"; bs "2024-01-02.1"] /\
     invocations_desc (snd (robsd_clean_exec (bs "/r") 2 None true lock f)) = [bs "2024-01-02.3"]) /\
  (exists f lock, wf_tree f /\ running_builddir lock = Some (bs "/r//2024-01-02.1") /\
     invocations_desc f = [bs "2024-01-02.3"; bs "2024-01-02.2"; bs "2024-01-02.1"] /\
     invocations_desc (snd (robsd_clean_exec (bs "/r") 2 None true lock f)) = [bs "2024-01-02.3"]).
Proof.
  assert (Hwf : wf_tree [mkfs [bs "2024-01-02.1"] FDir; mkfs [bs "2024-01-02.2"] FDir; mkfs [bs "2024-01-02.3"] FDir;
                         mkfs [bs "2024-01-02.1"; bs "report"] (FFile (bs "r"))]).
  { split.
    - vm_compute. repeat constructor; simpl; intuition discriminate.
    - vm_compute. repeat constructor; simpl; intuition discriminate. }
  split.
  - exists [mkfs [bs "2024-01-02.1"] FDir; mkfs [bs "2024-01-02.2"] FDir; mkfs [bs "2024-01-02.3"] FDir;
            mkfs [bs "2024-01-02.1"; bs "report"] (FFile (bs "r"))],
           (Some (bs "/r/2020-02-02.7
")).
    split; [exact Hwf|]. vm_compute. repeat split; reflexivity.
  - exists [mkfs [bs "2024-01-02.1"] FDir; mkfs [bs "2024-01-02.2"] FDir; mkfs [bs "2024-01-02.3"] FDir;
            mkfs [bs "2024-01-02.1"; bs "report"] (FFile (bs "r"))],
           (Some (bs "/r//2024-01-02.1
")).
    split; [exact Hwf|]. vm_compute. repeat split; reflexivity.
Qed.
