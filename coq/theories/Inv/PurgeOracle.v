(* PurgeOracle.v - the tree oracle spec_ok_clean (Inv/PurgeSpec.v), which the
   harness applies to what the real robsd-clean left behind, accepts every
   result of the MODEL: under the guard of the C16 theorems (lock file
   consistent with the running invocation) and - for the attic clauses - for
   invocation names of the form Y-M-D (what build_id hands out) in a tree in
   which no invocation v holds an entry v/v/tmp/...  (the oracle cannot tell
   such an entry from a copy of v/tmp made into an existing destination; the
   witness is oracle_nested_tmp_rejected). *)
From Coq Require Import String.
From Robsd Require Export Inv.PurgeSpec.
From Robsd Require Import Inv.LsProofs Inv.NameProofs Inv.PurgeProofs Inv.PurgeComplete Base.Sort.
From Coq Require Import Arith Lia.
Local Open Scope N_scope.
Local Opaque name_attic name_tmp attic_dst.

(* ---- the boolean helpers of the oracle ---- *)
Lemma node_beq_eq a b : node_beq a b = true <-> a = b.
Proof.
  destruct a, b; simpl; try (split; [discriminate|congruence]); try tauto.
  - rewrite beq_eq. split; [now intros ->|now intros [= ->]].
  - rewrite beq_eq. split; [now intros ->|now intros [= ->]].
Qed.

Lemma ent_beq_eq a b : ent_beq a b = true <-> a = b.
Proof.
  unfold ent_beq. rewrite andb_true_iff, path_beq_eq, node_beq_eq.
  destruct a, b; simpl. split; [intros [-> ->]; reflexivity|intros [= -> ->]; auto].
Qed.

Lemma ent_in_In e f : ent_in e f = true <-> In e f.
Proof.
  unfold ent_in. rewrite existsb_exists. split.
  - intros [x [Hx Hb]]. apply ent_beq_eq in Hb. now subst.
  - intros H. exists e. split; [exact H|now apply ent_beq_eq].
Qed.

Lemma invocation_b_spec f v : invocation_b f v = true <-> invocation f v.
Proof.
  unfold invocation_b, invocation. rewrite !andb_true_iff, !negb_true_iff, ent_in_In. split.
  - intros [[H1 H2] H3]. split; [exact H1|]. split; [exact H2|].
    intros ->. rewrite beq_refl in H3. discriminate.
  - intros [H1 [H2 H3]]. split; [split; assumption|]. destruct (beq_spec v name_attic); [contradiction|reflexivity].
Qed.

Lemma top_names_in f v : In v (top_names f) <-> exists e, In e f /\ f_path e = [v].
Proof.
  unfold top_names. rewrite in_flat_map. split.
  - intros [e [He Hin]]. exists e. split; [exact He|].
    destruct (f_path e) as [|n [|m p]]; try destruct Hin as [<-|[]]; try destruct Hin. reflexivity.
  - intros [e [He Hp]]. exists e. split; [exact He|]. rewrite Hp. now left.
Qed.

Lemma top_names_nodup f : NoDup (map f_path f) -> NoDup (top_names f).
Proof.
  induction f as [|e f IH]; intros Hnd; [constructor|].
  simpl in Hnd. inversion Hnd as [|? ? Hx Hn]; subst.
  unfold top_names. simpl. fold (top_names f).
  destruct (f_path e) as [|n [|m p]] eqn:Ep; simpl; try (now apply IH).
  constructor; [|now apply IH]. intros Hin. apply top_names_in in Hin as [x [Hx1 Hx2]].
  apply Hx. rewrite <- Hx2. now apply in_map.
Qed.

Lemma same_tree_refl f : same_tree f f = true.
Proof.
  unfold same_tree. assert (H : forallb (fun e => ent_in e f) f = true).
  { apply forallb_forall. intros e He. now apply ent_in_In. }
  now rewrite H.
Qed.

(* ---- the oracle's list of invocations is THE newest-first list ---- *)
Lemma invocations_desc_newest f : wf_tree f -> newest_first f (invocations_desc f).
Proof.
  intros [Hnd _]. unfold invocations_desc.
  set (l := filter (invocation_b f) (top_names f)).
  assert (Hl : NoDup l) by (apply NoDup_filter; now apply top_names_nodup).
  destruct (isort_sorts l) as [Hp Hs]. split.
  - intros v. rewrite <- in_rev. split.
    + intros H. apply (Permutation_in _ (Permutation_sym Hp)) in H.
      apply filter_In in H as [_ H]. now apply invocation_b_spec.
    + intros H. apply (Permutation_in _ Hp). apply filter_In. split; [|now apply invocation_b_spec].
      apply top_names_in. exists (mkfs [v] FDir). split; [apply H|reflexivity].
  - apply ssorted_rev.
    apply (sorted_le_nodup_ssorted_lt _ blt cmp_le cmp_le_lt_or_eq cmp_le_trans); [exact Hs|].
    eapply Permutation_NoDup; eassumption.
Qed.

Lemma newest_first_unique f a b : newest_first f a -> newest_first f b -> a = b.
Proof.
  intros [Ha Sa] [Hb Sb].
  apply (ssorted_perm_unique _ (fun x y => blt y x)); try assumption.
  - intros x. apply blt_irrefl.
  - intros x y z Hxy Hyz. eapply blt_trans; eassumption.
  - apply NoDup_Permutation; [now apply ssorted_desc_nodup|now apply ssorted_desc_nodup|].
    intros v. now rewrite Ha, Hb.
Qed.

(* ---- small path facts ---- *)
Lemma under_app_cancel a : forall b c, under (a ++ b) (a ++ c) = under b c.
Proof. induction a as [|x a IH]; intros b c; simpl; [reflexivity|]. now rewrite beq_refl, IH. Qed.

Lemma path_beq_app_cancel a : forall b c, path_beq (a ++ b) (a ++ c) = path_beq b c.
Proof. induction a as [|x a IH]; intros b c; simpl; [reflexivity|]. now rewrite beq_refl, IH. Qed.

Lemma strictly_under_app_cancel a b c : strictly_under (a ++ b) (a ++ c) = strictly_under b c.
Proof. unfold strictly_under. now rewrite under_app_cancel, path_beq_app_cancel. Qed.

Lemma under_firstn k (l : list bytes) : under (firstn k l) l = true.
Proof. apply under_spec. exists (skipn k l). now rewrite firstn_skipn. Qed.

Lemma under_cons_split v p : under [v] p = true -> exists r, p = v :: r.
Proof. intros H. apply under_spec in H as [r ->]. now exists r. Qed.

Lemma basename_app_ne a r : r <> [] -> basename (a ++ r) = basename r.
Proof. intros H. unfold basename. now apply last_app_ne. Qed.

Lemma basename_cons_ne v r : r <> [] -> basename (v :: r) = basename r.
Proof. intros H. change (v :: r) with ([v] ++ r). now apply basename_app_ne. Qed.

Lemma nodup_paths_eq f a b : NoDup (map f_path f) -> In a f -> In b f -> f_path a = f_path b -> a = b.
Proof.
  induction f as [|x f IH]; intros Hnd Ha Hb He; [destruct Ha|].
  simpl in Hnd. inversion Hnd as [|? ? Hx Hn]; subst.
  destruct Ha as [->|Ha], Hb as [->|Hb]; auto.
  - exfalso. apply Hx. rewrite He. now apply in_map.
  - exfalso. apply Hx. rewrite <- He. now apply in_map.
Qed.

Lemma is_dir_at_intro p f : In (mkfs p FDir) f -> is_dir_at p f = true.
Proof.
  intros H. unfold is_dir_at. apply existsb_exists. exists (mkfs p FDir). split; [exact H|].
  simpl. now rewrite path_beq_refl.
Qed.

(* the guard of the attic clauses *)
Definition no_nested_tmp (f : fstree) : Prop :=
  forall e v r, In e f -> f_path e <> v :: v :: name_tmp :: r.

(* ---- the conjuncts of the oracle, from the facts proved about the model ---- *)
Section Conjuncts.
  Variables (f g : fstree) (running : option bytes) (n : nat) (ka : bool).
  Let inv := invocations_desc f.
  Let kept := kept_of inv running n.
  Let vict := filter (fun v => negb (memb v kept)) inv.
  Hypothesis Hwf : wf_tree f.
  Hypothesis Hkept : forall v, invocation g v <-> In v kept.
  Hypothesis Hkept_incl : forall v, In v kept -> In v inv.
  Hypothesis Hgone : forall v e, invocation f v -> ~ In v kept -> In e g -> under [v] (f_path e) = false.
  Hypothesis Hrest : forall e, under [name_attic] (f_path e) = false ->
       (forall v, invocation f v -> ~ In v kept -> under [v] (f_path e) = false) -> (In e g <-> In e f).
  Hypothesis Hnew : forall e, In e g -> In e f \/ (ka = true /\ under [name_attic] (f_path e) = true).

  Lemma inv_in v : In v inv <-> invocation f v.
  Proof. apply (proj1 (invocations_desc_newest f Hwf)). Qed.

  Lemma vict_in v : In v vict <-> invocation f v /\ ~ In v kept.
  Proof.
    unfold vict. rewrite filter_In, negb_true_iff, inv_in, memb_false. tauto.
  Qed.

  Lemma under_any_vict p :
    under_any vict p = true <-> exists v, (invocation f v /\ ~ In v kept) /\ under [v] p = true.
  Proof.
    unfold under_any. rewrite existsb_exists. split.
    - intros [v [Hv Hu]]. exists v. split; [now apply vict_in|exact Hu].
    - intros [v [Hv Hu]]. exists v. split; [now apply vict_in|exact Hu].
  Qed.

  Lemma c1 : forallb (fun v => Bool.eqb (invocation_b g v) (memb v kept)) inv = true.
  Proof.
    apply forallb_forall. intros v _. apply Bool.eqb_true_iff, Bool.eq_iff_eq_true.
    now rewrite invocation_b_spec, memb_in.
  Qed.

  Lemma c2 : forallb (fun v => memb v inv) (filter (invocation_b g) (top_names g)) = true.
  Proof.
    apply forallb_forall. intros v Hv. apply filter_In in Hv as [_ Hv].
    apply memb_in, Hkept_incl, Hkept. now apply invocation_b_spec.
  Qed.

  Lemma c3 : forallb (fun e => negb (under_any vict (f_path e))) g = true.
  Proof.
    apply forallb_forall. intros e He. apply negb_true_iff.
    destruct (under_any vict (f_path e)) eqn:E; [|reflexivity].
    apply under_any_vict in E as [v [[Hi Hk] Hu]]. rewrite (Hgone v e Hi Hk He) in Hu. discriminate.
  Qed.

  Lemma c4 : forallb (fun e => under [name_attic] (f_path e) || under_any vict (f_path e) || ent_in e g) f = true.
  Proof.
    apply forallb_forall. intros e He.
    destruct (under [name_attic] (f_path e)) eqn:Ea; [reflexivity|].
    destruct (under_any vict (f_path e)) eqn:Ev; [reflexivity|]. simpl.
    apply ent_in_In, Hrest; [exact Ea| |exact He].
    intros v Hi Hk. destruct (under [v] (f_path e)) eqn:Eu; [|reflexivity].
    assert (Ht : under_any vict (f_path e) = true) by (apply under_any_vict; eauto). congruence.
  Qed.

  Lemma c5 : forallb (fun e => under [name_attic] (f_path e) || ent_in e f) g = true.
  Proof.
    apply forallb_forall. intros e He. apply Hnew in He as [He|[_ He]].
    - apply orb_true_iff. right. now apply ent_in_In.
    - now rewrite He.
  Qed.

  (* attic disabled *)
  Lemma c10 : (forall e, under [name_attic] (f_path e) = true -> (In e g <-> In e f)) ->
    forallb (fun e => negb (under [name_attic] (f_path e)) || ent_in e g) f &&
    forallb (fun e => negb (under [name_attic] (f_path e)) || ent_in e f) g = true.
  Proof.
    intros H. apply andb_true_iff. split; apply forallb_forall; intros e He;
      (destruct (under [name_attic] (f_path e)) eqn:Ea; [simpl|reflexivity]); apply ent_in_In; now apply H.
  Qed.

  (* attic enabled *)
  Section Attic.
    Variable B : bytes -> list bytes.
    Hypothesis HB : forall v, B v = attic_dst v \/ B v = attic_dst v ++ [v].
    Hypothesis Hcomp : forall v e0, (invocation f v /\ ~ In v kept) -> In e0 f -> under [v] (f_path e0) = true ->
       under [v; name_tmp] (f_path e0) = false ->
       (f_path e0 = [v] \/ whitelisted (basename (f_path e0)) = true) ->
       In (copy_to (B v) e0) g.
    Hypothesis Hprov : forall e, In e g -> under [name_attic] (f_path e) = true ->
       In e f \/ exists v, (invocation f v /\ ~ In v kept) /\ (created_parent v e \/ from_victim_at (B v) f v e).
    Hypothesis Hpaths : forall p, has_path p f = true -> under [name_attic] p = true -> has_path p g = true.
    Hypothesis Hshape : forall v, invocation f v -> date_shaped v.
    Hypothesis Hnest : no_nested_tmp f.

    Lemma c6 : forallb (fun e => negb (under [name_attic] (f_path e)) || has_path (f_path e) g) f = true.
    Proof.
      apply forallb_forall. intros e He. destruct (under [name_attic] (f_path e)) eqn:Ea; [simpl|reflexivity].
      apply Hpaths; [|exact Ea]. apply has_path_in. eauto.
    Qed.

    Lemma B_under v : under (attic_dst v) (B v) = true.
    Proof. destruct (HB v) as [-> | ->]; [apply under_refl|apply under_app]. Qed.

    Lemma c7 : forallb (fun v =>
          (is_dir_at (attic_dst v) g || is_dir_at (attic_dst v ++ [v]) g) &&
          forallb (fun e =>
            negb (under [v] (f_path e)) || under [v; name_tmp] (f_path e) ||
            negb (spec_whitelisted (basename (f_path e))) || path_beq (f_path e) [v] ||
            ent_in (mkfs (attic_dst v ++ skipn 1 (f_path e)) (f_node e)) g ||
            ent_in (mkfs (attic_dst v ++ [v] ++ skipn 1 (f_path e)) (f_node e)) g) f) vict = true.
    Proof.
      apply forallb_forall. intros v Hv. apply vict_in in Hv. apply andb_true_iff. split.
      - assert (Hd : In (mkfs (B v) FDir) g).
        { assert (H : In (copy_to (B v) (mkfs [v] FDir)) g).
          { apply Hcomp; [exact Hv|exact (proj1 (proj1 Hv))| | |now left].
            - simpl. now rewrite beq_refl.
            - simpl. rewrite beq_refl. reflexivity. }
          unfold copy_to in H. simpl in H. now rewrite app_nil_r in H. }
        apply orb_true_iff. destruct (HB v) as [E|E]; rewrite E in Hd; [left|right]; now apply is_dir_at_intro.
      - apply forallb_forall. intros e He.
        destruct (under [v] (f_path e)) eqn:Eu; [cbn [negb orb]|reflexivity].
        destruct (under [v; name_tmp] (f_path e)) eqn:Et; [reflexivity|cbn [negb orb]].
        destruct (spec_whitelisted (basename (f_path e))) eqn:Ew; [cbn [negb orb]|reflexivity].
        destruct (path_beq (f_path e) [v]) eqn:Ep; [reflexivity|cbn [negb orb]].
        assert (Hc : In (copy_to (B v) e) g).
        { apply Hcomp; [exact Hv|exact He|exact Eu|exact Et|right; now rewrite whitelisted_spec]. }
        unfold copy_to in Hc. apply orb_true_iff.
        destruct (HB v) as [E|E]; rewrite E in Hc; [left|right]; apply ent_in_In; [exact Hc|].
        now rewrite <- app_assoc in Hc.
    Qed.

    Lemma victim_shape v : invocation f v /\ ~ In v kept ->
      exists y m d, attic_dst v = [name_attic; y; m; d].
    Proof.
      intros [Hi _]. destruct (date_shaped_dst v (Hshape v Hi)) as [y [m [d [_ H]]]]. eauto.
    Qed.

    Lemma same_victim v w p :
      (invocation f v /\ ~ In v kept) -> (invocation f w /\ ~ In w kept) ->
      under (attic_dst v) p = true -> under (attic_dst w) p = true -> v = w.
    Proof.
      intros [Hv _] [Hw _] Hpv Hpw. destruct (bytes_eq_dec v w) as [E|E]; [exact E|]. exfalso.
      pose proof (date_shaped_apart v w (Hshape v Hv) (Hshape w Hw) E) as Hap.
      rewrite (apart_far v w p Hap Hpv) in Hpw. discriminate.
    Qed.

    Lemma c8 : forallb (fun e => ent_in e f ||
                          negb (existsb (fun v => under (attic_dst v ++ [name_tmp]) (f_path e) ||
                                                  under (attic_dst v ++ [v; name_tmp]) (f_path e)) vict)) g = true.
    Proof.
      apply forallb_forall. intros e He. destruct (ent_in e f) eqn:Ef; [reflexivity|cbn [orb]].
      apply negb_true_iff. destruct (existsb _ vict) eqn:Ex; [exfalso|reflexivity].
      apply existsb_exists in Ex as [v [Hv Hu]]. apply vict_in in Hv.
      assert (Hpv : under (attic_dst v) (f_path e) = true).
      { apply orb_true_iff in Hu as [Hu|Hu]; (eapply under_trans; [|exact Hu]); apply under_app. }
      assert (Ha : under [name_attic] (f_path e) = true).
      { eapply under_trans; [apply attic_dst_is_under|exact Hpv]. }
      destruct (Hprov e He Ha) as [Hin|[w [Hw [Hc|Hfv]]]].
      - apply ent_in_In in Hin. congruence.
      - (* a created parent is shorter than any destination *)
        destruct Hc as [_ Hp]. destruct (victim_shape w Hw) as [y [m [d Dw]]]. destruct (victim_shape v Hv) as [y' [m' [d' Dv]]].
        assert (Hlen : (length (f_path e) <= 3)%nat).
        { unfold attic_parents in Hp. destruct Hp as [<-|Hp]; [simpl; lia|].
          unfold proper_prefixes in Hp. apply in_map_iff in Hp as [k [<- Hk]]. apply in_seq in Hk.
          rewrite Dw in *. simpl in Hk. rewrite firstn_length. simpl. lia. }
        apply under_length in Hpv. rewrite Dv in Hpv. simpl in Hpv.
        apply orb_true_iff in Hu as [Hu|Hu]; apply under_length in Hu; rewrite Dv in Hu; simpl in Hu; lia.
      - destruct Hfv as [e0 [H0 [Hu0 [Ht0 [-> _]]]]]. cbn [copy_to f_path] in *.
        assert (Hpw : under (attic_dst w) (B w ++ skipn 1 (f_path e0)) = true).
        { eapply under_trans; [apply B_under|apply under_app]. }
        assert (E : v = w) by (eapply same_victim; eassumption). subst w.
        destruct (under_cons_split _ _ Hu0) as [r Hr]. rewrite Hr in *. cbn [skipn] in *.
        destruct (HB v) as [Eb|Eb]; rewrite Eb in Hu.
        + rewrite !under_app_cancel in Hu. apply orb_true_iff in Hu as [Hu|Hu].
          * apply under_cons_split in Hu as [r' ->]. simpl in Ht0. rewrite !beq_refl in Ht0. discriminate.
          * apply under_spec in Hu as [r' ->]. apply (Hnest _ v r' H0). exact Hr.
        + rewrite <- !app_assoc, !under_app_cancel in Hu. cbn [app] in Hu. apply orb_true_iff in Hu as [Hu|Hu].
          * rewrite under_one_cons in Hu. apply beq_eq in Hu. symmetry in Hu.
            now apply (date_shaped_not_tmp v (Hshape v (proj1 Hv))).
          * simpl in Hu. rewrite beq_refl in Hu. simpl in Hu. simpl in Ht0. rewrite beq_refl in Ht0. simpl in Ht0.
            congruence.
    Qed.

    Lemma c9 : forallb (fun e =>
          negb (under [name_attic] (f_path e)) || ent_in e f ||
          spec_whitelisted (basename (f_path e)) ||
          (node_is_dir (f_node e) &&
           (existsb (fun e' => strictly_under (f_path e) (f_path e') && spec_whitelisted (basename (f_path e'))) g ||
            existsb (fun v => under (f_path e) (attic_dst v ++ [v])) vict))) g = true.
    Proof.
      apply forallb_forall. intros e He.
      destruct (under [name_attic] (f_path e)) eqn:Ea; [cbn [negb orb]|reflexivity].
      destruct (Hprov e He Ea) as [Hin|[w [Hw [Hc|Hfv]]]].
      - apply ent_in_In in Hin. now rewrite Hin.
      - (* attic, attic/Y, attic/Y/M *)
        destruct Hc as [Hn Hp]. rewrite Hn. cbn [node_is_dir andb].
        apply orb_true_iff. right. apply orb_true_iff. right.
        apply existsb_exists. exists w. split; [now apply vict_in|].
        unfold attic_parents in Hp. destruct Hp as [<-|Hp].
        + eapply under_trans; [apply attic_dst_is_under|apply under_app].
        + unfold proper_prefixes in Hp. apply in_map_iff in Hp as [k [<- _]].
          eapply under_trans; [apply under_firstn|apply under_app].
      - destruct Hfv as [e0 [H0 [Hu0 [Ht0 [-> Hk]]]]]. unfold copy_to in *. cbn [f_path f_node] in *.
        destruct (under_cons_split _ _ Hu0) as [r Hr]. rewrite Hr in *. cbn [skipn] in *.
        assert (Hroot : r = [] -> (ent_in (mkfs (B w ++ r) (f_node e0)) f || spec_whitelisted (basename (B w ++ r)) ||
             node_is_dir (f_node e0) &&
             (existsb (fun e' => strictly_under (B w ++ r) (f_path e') && spec_whitelisted (basename (f_path e'))) g
              || existsb (fun v => under (B w ++ r) (attic_dst v ++ [v])) vict)) = true).
        { intros ->. assert (E0 : e0 = mkfs [w] FDir).
          { apply (nodup_paths_eq f); [apply Hwf|exact H0|apply (proj1 Hw)|exact Hr]. }
          subst e0. cbn [f_node node_is_dir]. rewrite app_nil_r.
          apply orb_true_iff. right. cbn [andb]. apply orb_true_iff. right.
          apply existsb_exists. exists w. split; [now apply vict_in|].
          destruct (HB w) as [-> | ->]; [apply under_app|apply under_refl]. }
        destruct r as [|a r]; [now apply Hroot|]. clear Hroot.
        destruct Hk as [Hk|[Hk|[Hn [e1 [H1 [Hu1 [Ht1 [Hs Hw1]]]]]]]]; [discriminate| |].
        + rewrite basename_app_ne by discriminate. rewrite basename_cons_ne in Hk by discriminate.
          rewrite Hk. now rewrite orb_true_r.
        + rewrite Hn. cbn [node_is_dir andb].
          apply orb_true_iff. right. apply orb_true_iff. left.
          apply existsb_exists. exists (copy_to (B w) e1). split.
          * apply Hcomp; [exact Hw|exact H1|exact Hu1|exact Ht1|right; now rewrite whitelisted_spec].
          * unfold copy_to. cbn [f_path]. destruct (under_cons_split _ _ Hu1) as [r1 Hr1]. rewrite Hr1 in *. cbn [skipn].
            change (w :: a :: r) with ([w] ++ a :: r) in Hs. change (w :: r1) with ([w] ++ r1) in Hs.
            rewrite strictly_under_app_cancel in Hs. rewrite strictly_under_app_cancel, Hs. simpl.
            assert (Hne : r1 <> []).
            { intros ->. unfold strictly_under in Hs. simpl in Hs. discriminate. }
            rewrite basename_app_ne by exact Hne. now rewrite basename_cons_ne in Hw1 by exact Hne.
    Qed.
  End Attic.
End Conjuncts.

(* ---- the theorem ---- *)
Section Reflect.
  Variable sortf : list bytes -> list bytes.
  Hypothesis sortf_sorts : sorts sortf.
  Variable rootstr : bytes.

  Lemma oracle_accepts_model f lock running keep_conf count ka :
    wf_tree f -> lock_consistent rootstr lock running f ->
    (ka = true -> forall v, invocation f v -> date_shaped v) ->
    (ka = true -> no_nested_tmp f) ->
    let r := robsd_clean sortf rootstr keep_conf count ka lock f in
    spec_ok_clean running (effective_keep keep_conf count) ka (fst (fst r)) f (snd r) = true.
  Proof.
    intros Hwf Hlock Hshape Hnest. cbv zeta.
    destruct (effective_keep keep_conf count) as [|k] eqn:Ek.
    - rewrite (final_zero sortf rootstr f lock keep_conf count ka Ek). simpl. apply same_tree_refl.
    - assert (Hne : effective_keep keep_conf count <> 0%nat) by (rewrite Ek; discriminate).
      assert (Hexit : fst (fst (robsd_clean sortf rootstr keep_conf count ka lock f)) = 0).
      { unfold robsd_clean. rewrite Ek. reflexivity. }
      rewrite Hexit.
      pose proof (invocations_desc_newest f Hwf) as Hinv.
      destruct (final_kept_set sortf sortf_sorts rootstr f lock running keep_conf count ka Hwf Hlock Hne)
        as [names [Hnf1 HK]].
      rewrite (newest_first_unique f names _ Hnf1 Hinv) in HK. clear names Hnf1.
      destruct (final_rest sortf sortf_sorts rootstr f lock running keep_conf count ka Hwf Hlock Hne)
        as [names [Hnf2 HR]].
      rewrite (newest_first_unique f names _ Hnf2 Hinv) in HR. clear names Hnf2.
      cbv zeta in HK, HR. rewrite Ek in HK, HR.
      set (g := snd (robsd_clean sortf rootstr keep_conf count ka lock f)) in *.
      destruct HK as [Hkept [_ [_ Hincl]]].
      destruct HR as [Hgone [Hrest [Hnew [Hoff Hon]]]].
      unfold spec_ok_clean, spec_ok_clean_on. rewrite N.eqb_refl. cbn [andb].
      rewrite (c1 f g running (S k) Hkept), (c2 f g running (S k) Hkept Hincl),
              (c3 f g running (S k) Hwf Hgone), (c4 f g running (S k) Hwf Hrest), (c5 f g ka Hnew).
      cbn [andb]. destruct ka.
      + specialize (Hon eq_refl). specialize (Hshape eq_refl). specialize (Hnest eq_refl).
        destruct Hon as [Hpaths _].
        (* the structure of the fold *)
        destruct (listing_names sortf sortf_sorts rootstr f lock Hwf) as [names [Hl Hnf]].
        pose proof (newest_first_unique f names _ Hnf Hinv) as En. subst names.
        pose proof (clean_is sortf sortf_sorts rootstr f lock running keep_conf count true _ Hwf Hlock Hne Hl Hnf) as Hg.
        fold g in Hg. rewrite Ek in Hg. unfold clean_tree in Hg.
        set (vs := victim_names (invocations_desc f) running (S k)) in *.
        assert (Hvi : forall v, In v vs <-> invocation f v /\ ~ In v (kept_of (invocations_desc f) running (S k))).
        { intros v. apply (victim_iff rootstr f lock running); auto. lia. }
        destruct (fold_purge_struct vs f Hwf) as [B [HB [Hcomp Hprov]]].
        { apply victims_nodup. now apply ssorted_desc_nodup, (proj2 Hnf). }
        { eapply victims_not_attic. exact Hnf. }
        { intros v Hv. apply date_shaped_no_slash, Hshape. now apply Hvi. }
        { intros v w Hv Hw. apply date_shaped_apart; apply Hshape; now apply Hvi. }
        rewrite <- Hg in Hcomp, Hprov.
        assert (Hcomp' : forall v e0, invocation f v /\ ~ In v (kept_of (invocations_desc f) running (S k)) ->
                  In e0 f -> under [v] (f_path e0) = true -> under [v; name_tmp] (f_path e0) = false ->
                  f_path e0 = [v] \/ whitelisted (basename (f_path e0)) = true -> In (copy_to (B v) e0) g).
        { intros v e0 Hv. apply Hcomp. now apply Hvi. }
        assert (Hprov' : forall e, In e g -> under [name_attic] (f_path e) = true ->
                  In e f \/ exists v, (invocation f v /\ ~ In v (kept_of (invocations_desc f) running (S k))) /\
                                      (created_parent v e \/ from_victim_at (B v) f v e)).
        { intros e He Ha. destruct (Hprov e He Ha) as [H|[v [Hv H]]]; [now left|right].
          exists v. split; [now apply Hvi|exact H]. }
        rewrite (c6 f g Hpaths), (c7 f g running (S k) Hwf B HB Hcomp'),
                (c8 f g running (S k) Hwf B HB Hprov' Hshape Hnest),
                (c9 f g running (S k) Hwf B HB Hcomp' Hprov').
        reflexivity.
      + apply (c10 f g). apply Hoff. reflexivity.
  Qed.
End Reflect.

(* outside the second guard the oracle is stricter than the model: an entry
   v/v/tmp/report of a removed invocation v is preserved by purge (it is not
   below v/tmp) and arrives at attic/Y/M/D.X/v/tmp/report, which the oracle
   takes for a copy of v/tmp into an existing destination *)
Lemma oracle_nested_tmp_rejected :
  exists f, wf_tree f /\ ~ no_nested_tmp f /\
    spec_ok_clean None 1 true 0 f (snd (robsd_clean_exec (bs "/r") 1 None true None f)) = false.
Proof.
  exists [mkfs [bs "2024-01-02.1"] FDir; mkfs [bs "2024-01-02.1"; bs "2024-01-02.1"] FDir;
          mkfs [bs "2024-01-02.1"; bs "2024-01-02.1"; bs "tmp"] FDir;
          mkfs [bs "2024-01-02.1"; bs "2024-01-02.1"; bs "tmp"; bs "report"] (FFile (bs "r"));
          mkfs [bs "2024-01-02.2"] FDir].
  split; [|split].
  - split; vm_compute; repeat constructor; simpl; intuition discriminate.
  - intros H. eapply (H _ (bs "2024-01-02.1") [bs "report"]); [right; right; right; now left|].
    vm_compute. reflexivity.
  - vm_compute. reflexivity.
Qed.

(* outside the first guard the data-preservation clause fails: the invocation
   directories a-a and a are not apart (attic/a/a vs attic/a); a-a goes to
   attic/a/a, then a - whose destination attic/a is by now a directory - is
   copied INTO it as attic/a/a and its report replaces the one of a-a.  The
   oracle rejects that result, as it should *)
Lemma attic_complete_refuted :
  exists f, wf_tree f /\
    In (mkfs [bs "a-a"; bs "report"] (FFile (bs "1"))) f /\
    let after := snd (robsd_clean_exec (bs "/r") 1 None true None f) in
    invocations_desc after = [bs "z"] /\
    forallb (fun e => negb (node_beq (f_node e) (FFile (bs "1")))) after = true /\
    ent_in (mkfs [bs "attic"; bs "a"; bs "a"; bs "report"] (FFile (bs "2"))) after = true /\
    spec_ok_clean None 1 true 0 f after = false.
Proof.
  exists [mkfs [bs "z"] FDir; mkfs [bs "a-a"] FDir; mkfs [bs "a-a"; bs "report"] (FFile (bs "1"));
          mkfs [bs "a"] FDir; mkfs [bs "a"; bs "report"] (FFile (bs "2"))].
  split; [|split].
  - split; vm_compute; repeat constructor; simpl; intuition discriminate.
  - right; right; now left.
  - vm_compute. repeat split; reflexivity.
Qed.

(* ---- the attic content in the shape of the property: one destination B v per
   removed invocation v; everything of v that is on the whitelist and outside
   tmp is there with its content, and nothing else is new in the attic ---- *)
Section AtticComplete.
  Variable sortf : list bytes -> list bytes.
  Hypothesis sortf_sorts : sorts sortf.
  Variable rootstr : bytes.

  Lemma final_attic_complete f lock running keep_conf count :
    wf_tree f -> lock_consistent rootstr lock running f ->
    effective_keep keep_conf count <> 0%nat ->
    (forall v w, invocation f v -> invocation f w -> v <> w -> apart v w) ->
    exists names B, newest_first f names /\
      let n := effective_keep keep_conf count in
      let kept := kept_of names running n in
      let after := snd (robsd_clean sortf rootstr keep_conf count true lock f) in
      (forall v, B v = attic_dst v \/ B v = attic_dst v ++ [v]) /\
      (forall v e0, invocation f v -> ~ In v kept -> In e0 f ->
         under [v] (f_path e0) = true -> under [v; name_tmp] (f_path e0) = false ->
         (f_path e0 = [v] \/ spec_whitelisted (basename (f_path e0)) = true) ->
         In (mkfs (B v ++ skipn 1 (f_path e0)) (f_node e0)) after) /\
      (forall v, invocation f v -> ~ In v kept -> is_dir_at (B v) after = true) /\
      (forall e, In e after -> under [name_attic] (f_path e) = true ->
         In e f \/ exists v, (invocation f v /\ ~ In v kept) /\
                             (created_parent v e \/ from_victim_at (B v) f v e)).
  Proof.
    intros Hwf Hlock Hne Hap.
    destruct (listing_names sortf sortf_sorts rootstr f lock Hwf) as [names [Hl Hnf]].
    pose proof (clean_is sortf sortf_sorts rootstr f lock running keep_conf count true _ Hwf Hlock Hne Hl Hnf) as Hg.
    unfold clean_tree in Hg.
    set (n := effective_keep keep_conf count) in *.
    set (vs := victim_names names running n) in *.
    assert (Hvi : forall v, In v vs <-> invocation f v /\ ~ In v (kept_of names running n)).
    { intros v. apply (victim_iff rootstr f lock running); auto. unfold n. lia. }
    destruct (fold_purge_struct vs f Hwf) as [B [HB [Hcomp Hprov]]].
    { apply victims_nodup. now apply ssorted_desc_nodup, (proj2 Hnf). }
    { eapply victims_not_attic. exact Hnf. }
    { intros v Hv. apply (invocation_noslash f v Hwf). now apply Hvi. }
    { intros v w Hv Hw. apply Hap; now apply Hvi. }
    rewrite <- Hg in Hcomp, Hprov.
    exists names, B. split; [exact Hnf|]. cbv zeta. fold n. split; [exact HB|]. split; [|split].
    - intros v e0 Hi Hk H0 Hu Ht Hw. apply (Hcomp v e0); [now apply Hvi|exact H0|exact Hu|exact Ht|].
      destruct Hw as [Hw|Hw]; [now left|right; now rewrite whitelisted_spec].
    - intros v Hi Hk. apply is_dir_at_intro.
      assert (H : In (copy_to (B v) (mkfs [v] FDir)) (snd (robsd_clean sortf rootstr keep_conf count true lock f))).
      { apply Hcomp; [now apply Hvi|apply Hi| | |now left].
        - simpl. now rewrite beq_refl.
        - simpl. rewrite beq_refl. reflexivity. }
      unfold copy_to in H. simpl in H. now rewrite app_nil_r in H.
    - intros e He Ha. destruct (Hprov e He Ha) as [H|[v [Hv H]]]; [now left|right].
      exists v. split; [now apply Hvi|exact H].
  Qed.
End AtticComplete.
