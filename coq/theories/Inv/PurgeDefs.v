(* PurgeDefs.v - executable model of robsd-clean and util.sh purge on an
   abstract file tree.  Definitions only.  Anchors: robsd-clean (count argument
   vs keep, keep-attic, retention 0), util.sh purge (victim selection, removal
   of tmp, whitelist, attic path, copy, remove), robsd-ls -B (Inv/LsDefs.v).

   The tree below the invocation root is a list of entries (path relative to
   the root as a list of components, node).  The keep directory is always
   <robsddir>/attic: the configuration grammar accepts no other value.  The
   whitelist, the +1 compensation and the tr characters come from
   gen/Gen_Util.v (regenerated from util.sh on every run). *)
From Coq Require Import String.
From Robsd Require Export Inv.LsDefs Inv.NameDefs Inv.Glob.
From RobsdGen Require Export Gen_Util.
Local Open Scope N_scope.

Inductive fnode := FDir | FFile (content : bytes) | FLink (target : bytes) | FOther.

Record fsent := mkfs { f_path : list bytes; f_node : fnode }.

Definition fstree := list fsent.

Definition node_is_dir (n : fnode) : bool := match n with FDir => true | _ => false end.

Definition dtype_of_node (n : fnode) : dtype :=
  match n with FDir => DT_DIR | FFile _ => DT_REG | FLink _ => DT_LNK | FOther => DT_OTHER end.

(* ---- paths as component lists ---- *)
Fixpoint path_beq (p q : list bytes) : bool :=
  match p, q with
  | [], [] => true
  | a :: p', b :: q' => beq a b && path_beq p' q'
  | _, _ => false
  end.

(* [p] is [q] or an ancestor of [q] *)
Fixpoint under (p q : list bytes) : bool :=
  match p, q with
  | [], _ => true
  | a :: p', b :: q' => beq a b && under p' q'
  | _ :: _, [] => false
  end.

Definition strictly_under (p q : list bytes) : bool := under p q && negb (path_beq p q).

(* what readdir(3) on the root delivers *)
Definition dirents_of (f : fstree) : list dirent :=
  flat_map (fun e => match f_path e with
                     | [n] => [mkde n (dtype_of_node (f_node e))]
                     | _ => []
                     end) f.

Definition name_attic := Eval vm_compute in bs "attic".

(* ${keep-dir} = "${robsddir}/attic" *)
Definition keepdir_of (rootstr : bytes) : bytes := mkpath rootstr name_attic.

(* ${_d##*/} *)
Fixpoint after_last_slash (s : bytes) (cur : bytes) : bytes :=
  match s with
  | [] => rev cur
  | c :: s' => if c =? 47 then after_last_slash s' [] else after_last_slash s' (c :: cur)
  end.

Definition basename_str (p : bytes) : bytes := after_last_slash p [].

(* ---- victim selection:  prev_release -B | tail -n "+${_n}" ---- *)
Definition is_running (lock : option bytes) : bool :=
  match running_builddir lock with Some _ => true | None => false end.

Definition victims (sortf : list bytes -> list bytes) (rootstr : bytes) (lock : option bytes)
    (n : nat) (f : fstree) : list bytes :=
  let n' := if is_running lock then n else (n + purge_not_running_compensation)%nat in
  skipn (n' - 1) (ls sortf rootstr (keepdir_of rootstr) true lock (dirents_of f)).

(* ---- one victim, attic enabled ---- *)
Definition whitelisted (n : bytes) : bool := any_glob purge_whitelist n.

(* find "${_d}" -mindepth 1 -not ( -name ... ) -delete, depth first, a
   directory that is not empty afterwards stays: an entry stays iff its name
   is on the whitelist or it is a directory with an entry below it whose name
   is on the whitelist *)
Definition survives (sub : fstree) (e : fsent) : bool :=
  whitelisted (basename (f_path e)) ||
  (node_is_dir (f_node e) &&
   existsb (fun e' => strictly_under (f_path e) (f_path e') && whitelisted (basename (f_path e'))) sub).

(* tr '-' '/' *)
Definition tr_dash (s : bytes) : bytes :=
  map (fun c => if c =? purge_attic_tr_from then purge_attic_tr_to else c) s.

(* the components of a path string; empty components vanish *)
Fixpoint split_on (sep : byte) (s : bytes) (cur : bytes) : list bytes :=
  match s with
  | [] => match cur with [] => [] | _ => [rev cur] end
  | c :: s' =>
      if c =? sep
      then match cur with [] => split_on sep s' [] | _ => rev cur :: split_on sep s' [] end
      else split_on sep s' (c :: cur)
  end.

(* _dst="${_attic}/$(echo "${_d##*/}" | tr '-' '/')" relative to the root *)
Definition attic_dst (v : bytes) : list bytes :=
  name_attic :: split_on 47 (tr_dash (echo_arg v)) [].

(* [ -d "${_attic}" ] || mkdir "${_attic}";  mkdir -p "${_dst%/*}" *)
Definition proper_prefixes (p : list bytes) : list (list bytes) :=
  map (fun k => firstn k p) (seq 1 (length p - 1)).

Definition attic_parents (dst : list bytes) : list (list bytes) :=
  [name_attic] :: proper_prefixes dst.

Definition has_path (p : list bytes) (f : fstree) : bool :=
  existsb (fun e => path_beq (f_path e) p) f.

Definition is_dir_at (p : list bytes) (f : fstree) : bool :=
  existsb (fun e => path_beq (f_path e) p && node_is_dir (f_node e)) f.

Definition mkdir_one (f : fstree) (p : list bytes) : fstree :=
  if has_path p f then f else f ++ [mkfs p FDir].

Definition mkdir_all (ps : list (list bytes)) (f : fstree) : fstree := fold_left mkdir_one ps f.

(* cp of one entry: whatever was at that path is replaced *)
Definition put (f : fstree) (e : fsent) : fstree :=
  filter (fun x => negb (path_beq (f_path x) (f_path e))) f ++ [e].

Definition purge_one (f : fstree) (v : bytes) : fstree :=
  (* rm -rf "${_d}/tmp" *)
  let f1 := filter (fun e => negb (under [v; name_tmp] (f_path e))) f in
  (* the whitelist *)
  let sub := filter (fun e => under [v] (f_path e)) f1 in
  let surv := filter (fun e => path_beq (f_path e) [v] || survives sub e) sub in
  (* the attic path; cp -pr copies INTO an existing directory *)
  let dst := attic_dst v in
  let f2 := mkdir_all (attic_parents dst) f1 in
  let base := if is_dir_at dst f2 then dst ++ [v] else dst in
  let copied := map (fun e => mkfs (base ++ skipn 1 (f_path e)) (f_node e)) surv in
  let f3 := fold_left put copied f2 in
  (* rm -r "${_d}" *)
  filter (fun e => negb (under [v] (f_path e))) f3.

(* attic disabled: purge -d lists the victims, robsd-clean does rm -rf *)
Definition remove_tree (f : fstree) (v : bytes) : fstree :=
  filter (fun e => negb (under [v] (f_path e))) f.

(* ---- robsd-clean -m mode [count] ---- *)
Definition msg_prog := Eval vm_compute in bs "robsd-clean: ".
Definition msg_moving := Eval vm_compute in bs "moving ".
Definition msg_to := Eval vm_compute in bs " to ".
Definition msg_removing := Eval vm_compute in bs "removing ".

Definition clean_message (keep_attic : bool) (rootstr v : bytes) : bytes :=
  if keep_attic then msg_prog ++ msg_moving ++ v ++ msg_to ++ keepdir_of rootstr
  else msg_prog ++ msg_removing ++ v.

(* _keep="${1:-0}"; 0 -> ${keep}; still 0 -> exit 0 *)
Definition effective_keep (keep_conf : nat) (count : option nat) : nat :=
  match count with
  | Some (S c) => S c
  | _ => keep_conf
  end.

Definition robsd_clean (sortf : list bytes -> list bytes) (rootstr : bytes)
    (keep_conf : nat) (count : option nat) (keep_attic : bool)
    (lock : option bytes) (f : fstree) : N * bytes * fstree :=
  match effective_keep keep_conf count with
  | O => (0, [], f)
  | S k =>
      let vs := victims sortf rootstr lock (S k) f in
      let names := map basename_str vs in
      (0, unlines (map (clean_message keep_attic rootstr) vs),
       fold_left (if keep_attic then purge_one else remove_tree) names f)
  end.

Definition robsd_clean_exec := robsd_clean isort.

(* ---- the same with the failures of mkdir and cp.  [purge_one] and
   [robsd_clean] above describe a cleaning in which every victim reaches the
   attic.  The loop of purge runs under `set -e` in a subshell of a pipeline:
   when `[ -d attic ] || mkdir attic`, `mkdir -p attic/YYYY/MM` or `cp -pr`
   onto something that is not a directory fails, the loop ends there - the
   victim has lost its tmp and everything off the whitelist by then, stays in
   the root, later victims are not looked at - and robsd-clean still exits 0
   (the status of a pipeline is the status of its last command, the `while
   read` that prints the messages). ---- *)
Definition nondir_at (p : list bytes) (f : fstree) : bool := has_path p f && negb (is_dir_at p f).

(* mkdir P for each P in turn (mkdir -p: the leading directories of the last
   one), stopping at the first that exists and is not a directory *)
Fixpoint mkdirs (ps : list (list bytes)) (f : fstree) : bool * fstree :=
  match ps with
  | [] => (true, f)
  | p :: ps' => if nondir_at p f then (false, f) else mkdirs ps' (mkdir_one f p)
  end.

(* rm -rf "${_d}/tmp"; find "${_d}" -mindepth 1 -not ( whitelist ) -delete *)
Definition strip_victim (f : fstree) (v : bytes) : fstree :=
  let f1 := filter (fun e => negb (under [v; name_tmp] (f_path e))) f in
  let sub := filter (fun e => under [v] (f_path e)) f1 in
  filter (fun e => negb (under [v] (f_path e)) || path_beq (f_path e) [v] || survives sub e) f1.

Definition purge_one_x (f : fstree) (v : bytes) : bool * fstree :=
  if nondir_at [name_attic] f then (false, f)
  else
    let fa := strip_victim (mkdir_one f [name_attic]) v in
    let dst := attic_dst v in
    match mkdirs (proper_prefixes dst) fa with
    | (false, fp) => (false, fp)
    | (true, f2) => if nondir_at dst f2 then (false, f2) else (true, purge_one f v)
    end.

(* the victims in turn, the completed ones are reported *)
Fixpoint purge_all_x (vs : list bytes) (f : fstree) : list bytes * fstree :=
  match vs with
  | [] => ([], f)
  | v :: vs' =>
      match purge_one_x f v with
      | (false, f') => ([], f')
      | (true, f') => let '(done, f'') := purge_all_x vs' f' in (v :: done, f'')
      end
  end.

Definition robsd_clean_x (sortf : list bytes -> list bytes) (rootstr : bytes)
    (keep_conf : nat) (count : option nat) (keep_attic : bool)
    (lock : option bytes) (f : fstree) : N * bytes * fstree :=
  match effective_keep keep_conf count with
  | O => (0, [], f)
  | S k =>
      let vs := victims sortf rootstr lock (S k) f in
      if keep_attic then
        let '(done, f') := purge_all_x (map basename_str vs) f in
        (0, unlines (map (clean_message true rootstr) (firstn (length done) vs)), f')
      else
        (0, unlines (map (clean_message false rootstr) vs), fold_left remove_tree (map basename_str vs) f)
  end.

Definition robsd_clean_x_exec := robsd_clean_x isort.
