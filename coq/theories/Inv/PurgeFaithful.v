(* PurgeFaithful.v - the C16 statements about the model the driver runs
   (robsd_clean_x: with the failures of mkdir/cp), and about "newest" read as
   "most recently created".

   1. Every lemma of PurgeProofs / PurgeOracle / PurgeTotal about robsd_clean
      holds for robsd_clean_x whenever every victim is archived ([completes]);
      [completes] holds whenever nothing but directories sits where the attic
      directories of the invocations go (completes_when_clear).
   2. Content that was in the attic before is still there with the same bytes,
      except at the destinations of the victims (old_attic_preserved).
   3. The age oracle: with the invocations listed by age the oracle accepts the
      model exactly under the guard that name order is age order; the witness
      DATE.2 ... DATE.10, running DATE.11, retention 9: the tenth invocation,
      the newest finished one, is archived. *)
From Coq Require Import String.
From Robsd Require Import Inv.PurgeSpec Inv.PurgeProofs Inv.LsProofs Inv.PurgeComplete Inv.PurgeOracle
  Inv.PurgeTotal Inv.PurgeBlocked Inv.NameProofs.
Local Open Scope N_scope.

Section Lifted.
  Variable sortf : list bytes -> list bytes.
  Hypothesis sortf_sorts : sorts sortf.
  Variable rootstr : bytes.

  Lemma final_zero_x f lock keep_conf count ka :
    effective_keep keep_conf count = 0%nat ->
    robsd_clean_x sortf rootstr keep_conf count ka lock f = (0, [], f).
  Proof. intros H. unfold robsd_clean_x. now rewrite H. Qed.

  Lemma final_kept_set_x f lock running keep_conf count ka :
    wf_tree f -> lock_consistent rootstr lock running f ->
    effective_keep keep_conf count <> 0%nat ->
    (ka = true -> completes sortf rootstr keep_conf count lock f) ->
    exists names, newest_first f names /\
      let n := effective_keep keep_conf count in
      let after := snd (robsd_clean_x sortf rootstr keep_conf count ka lock f) in
      (forall v, invocation after v <-> In v (kept_of names running n)) /\
      length (kept_of names running n) = Nat.min n (length names) /\
      (forall r, running = Some r -> In r (kept_of names running n)) /\
      (forall v, In v (kept_of names running n) -> In v names).
  Proof.
    intros Hwf Hl Hne Hc. rewrite clean_x_completes by exact Hc. now apply final_kept_set.
  Qed.

  Lemma final_rest_x f lock running keep_conf count ka :
    wf_tree f -> lock_consistent rootstr lock running f ->
    effective_keep keep_conf count <> 0%nat ->
    (ka = true -> completes sortf rootstr keep_conf count lock f) ->
    exists names, newest_first f names /\
      let n := effective_keep keep_conf count in
      let kept := kept_of names running n in
      let after := snd (robsd_clean_x sortf rootstr keep_conf count ka lock f) in
      (forall v e, invocation f v -> ~ In v kept -> In e after -> under [v] (f_path e) = false) /\
      (forall e, under [name_attic] (f_path e) = false ->
                 (forall v, invocation f v -> ~ In v kept -> under [v] (f_path e) = false) ->
                 (In e after <-> In e f)) /\
      (forall e, In e after -> In e f \/ (ka = true /\ under [name_attic] (f_path e) = true)) /\
      (ka = false -> forall e, under [name_attic] (f_path e) = true -> (In e after <-> In e f)) /\
      (ka = true ->
         (forall p, has_path p f = true -> under [name_attic] p = true -> has_path p after = true) /\
         (forall v, invocation f v -> ~ In v kept ->
            has_path (attic_dst v) after = true \/ has_path (attic_dst v ++ [v]) after = true) /\
         (forall e, In e after -> under [name_attic] (f_path e) = true ->
            In e f \/ exists v f', (invocation f v /\ ~ In v kept) /\
                                   (created_parent v e \/ from_victim f' v e) /\
                                   (forall x, In x f' -> In x f \/ under [name_attic] (f_path x) = true))).
  Proof.
    intros Hwf Hl Hne Hc. rewrite clean_x_completes by exact Hc. now apply final_rest.
  Qed.

  Lemma kept_set_total_x f lock keep_conf count ka :
    wf_tree f -> effective_keep keep_conf count <> 0%nat ->
    (ka = true -> completes sortf rootstr keep_conf count lock f) ->
    exists names, newest_first f names /\
      let n := effective_keep keep_conf count in
      let after := snd (robsd_clean_x sortf rootstr keep_conf count ka lock f) in
      forall v, invocation after v <->
                In v names /\ ~ In v (victim_names_total rootstr names (running_builddir lock) n).
  Proof.
    intros Hwf Hne Hc. rewrite clean_x_completes by exact Hc. now apply kept_set_total.
  Qed.

  Lemma kept_set_unlisted_lock_x f lock b keep_conf count ka :
    wf_tree f -> effective_keep keep_conf count <> 0%nat ->
    (ka = true -> completes sortf rootstr keep_conf count lock f) ->
    running_builddir lock = Some b -> (forall v, invocation f v -> mkpath rootstr v <> b) ->
    exists names, newest_first f names /\
      let n := effective_keep keep_conf count in
      let after := snd (robsd_clean_x sortf rootstr keep_conf count ka lock f) in
      (forall v, invocation after v <-> In v (firstn (n - 1) names)) /\
      length (firstn (n - 1) names) = Nat.min (n - 1) (length names).
  Proof.
    intros Hwf Hne Hc. rewrite clean_x_completes by exact Hc. now apply kept_set_unlisted_lock.
  Qed.

  Lemma final_attic_complete_x f lock running keep_conf count :
    wf_tree f -> lock_consistent rootstr lock running f ->
    effective_keep keep_conf count <> 0%nat ->
    completes sortf rootstr keep_conf count lock f ->
    (forall v w, invocation f v -> invocation f w -> v <> w -> apart v w) ->
    exists names B, newest_first f names /\
      let n := effective_keep keep_conf count in
      let kept := kept_of names running n in
      let after := snd (robsd_clean_x sortf rootstr keep_conf count true lock f) in
      (forall v, B v = attic_dst v \/ B v = attic_dst v ++ [v]) /\
      (forall v e0, invocation f v -> ~ In v kept -> In e0 f ->
         under [v] (f_path e0) = true -> under [v; name_tmp] (f_path e0) = false ->
         (f_path e0 = [v] \/ spec_whitelisted (basename (f_path e0)) = true) ->
         In (mkfs (B v ++ skipn 1 (f_path e0)) (f_node e0)) after) /\
      (forall v, invocation f v -> ~ In v kept -> is_dir_at (B v) after = true) /\
      (forall e, In e after -> under [name_attic] (f_path e) = true ->
         In e f \/ exists v, (invocation f v /\ ~ In v kept) /\
                             (created_parent v e \/ from_victim_at (B v) f v e)).
  Proof.
    intros Hwf Hl Hne Hc. rewrite clean_x_completes by (intros _; exact Hc). now apply final_attic_complete.
  Qed.

  Lemma oracle_accepts_model_x f lock running keep_conf count ka :
    wf_tree f -> lock_consistent rootstr lock running f ->
    (ka = true -> completes sortf rootstr keep_conf count lock f) ->
    (ka = true -> forall v, invocation f v -> date_shaped v) ->
    (ka = true -> no_nested_tmp f) ->
    let r := robsd_clean_x sortf rootstr keep_conf count ka lock f in
    spec_ok_clean running (effective_keep keep_conf count) ka (fst (fst r)) f (snd r) = true.
  Proof.
    intros Hwf Hl Hc. cbv zeta. rewrite clean_x_completes by exact Hc. now apply oracle_accepts_model.
  Qed.

  (* the victims of the command are the invocations that are not kept *)
  Lemma victim_list_is f lock running keep_conf count :
    wf_tree f -> lock_consistent rootstr lock running f -> effective_keep keep_conf count <> 0%nat ->
    exists names, newest_first f names /\
      victim_list sortf rootstr keep_conf count lock f =
      victim_names names running (effective_keep keep_conf count).
  Proof.
    intros Hwf Hl Hne.
    destruct (listing_names sortf sortf_sorts rootstr f lock Hwf) as [names [Hls Hnf]].
    exists names. split; [exact Hnf|]. unfold victim_list.
    rewrite (victims_are sortf sortf_sorts rootstr f lock running _ names Hwf Hl) by (auto; lia).
    apply map_basename_mkpath. apply Forall_forall. intros v Hv.
    apply (invocation_noslash f v Hwf). apply (proj1 Hnf).
    unfold victim_names in Hv. destruct running as [r|].
    - apply skipn_In in Hv. now apply filter_In in Hv as [Hv _].
    - now apply skipn_In in Hv.
  Qed.

  (* the guard is met whenever the places where the attic directories of the
     invocations go hold directories or nothing *)
  Lemma completes_when_clear f lock running keep_conf count :
    wf_tree f -> lock_consistent rootstr lock running f ->
    (forall v, invocation f v -> date_shaped v) ->
    (forall v p, invocation f v -> attic_path_of v p -> nondir_at p f = false) ->
    completes sortf rootstr keep_conf count lock f.
  Proof.
    intros Hwf Hl Hshape Hclear. unfold completes. intros Hne.
    destruct (victim_list_is f lock running keep_conf count Hwf Hl Hne) as [names [Hnf ->]].
    assert (Hn1 : (1 <= effective_keep keep_conf count)%nat) by lia.
    pose proof (fun v => victim_iff rootstr f lock running names _ v Hl Hnf Hn1) as Hvi.
    rewrite (attic_clear_completes _ f Hwf); [reflexivity| | |].
    - apply victims_nodup. now apply ssorted_desc_nodup, (proj2 Hnf).
    - intros v Hv. apply Hvi in Hv as [Hi _]. split; [now apply Hshape|apply Hi].
    - intros v p Hv Hp. apply Hvi in Hv as [Hi _]. now apply (Hclear v p).
  Qed.

  (* what was in the attic and is not at a victim's destination is still there,
     bytes included *)
  Lemma old_attic_preserved f lock running keep_conf count :
    wf_tree f -> lock_consistent rootstr lock running f ->
    effective_keep keep_conf count <> 0%nat ->
    completes sortf rootstr keep_conf count lock f ->
    exists names, newest_first f names /\
      let kept := kept_of names running (effective_keep keep_conf count) in
      let after := snd (robsd_clean_x sortf rootstr keep_conf count true lock f) in
      forall e, In e f -> under [name_attic] (f_path e) = true ->
        (forall v, invocation f v -> ~ In v kept -> under (attic_dst v) (f_path e) = false) ->
        In e after.
  Proof.
    intros Hwf Hl Hne Hc. rewrite clean_x_completes by (intros _; exact Hc).
    destruct (listing_names sortf sortf_sorts rootstr f lock Hwf) as [names [Hls Hnf]].
    exists names. split; [exact Hnf|]. cbv zeta.
    rewrite (clean_is sortf sortf_sorts rootstr f lock running keep_conf count true names Hwf Hl Hne Hls Hnf).
    assert (Hn1 : (1 <= effective_keep keep_conf count)%nat) by lia.
    pose proof (fun v => victim_iff rootstr f lock running names _ v Hl Hnf Hn1) as Hvi.
    intros e He Ha Hfar. unfold clean_tree. apply fold_purge_keeps_entry; [exact He|exact Ha| |].
    - eapply victims_not_attic. exact Hnf.
    - intros w Hw. apply Hvi in Hw as [Hi Hk]. now apply Hfar.
  Qed.
End Lifted.

Lemma robsd_clean_x_any_qsort sortf rootstr keep_conf count ka lock f :
  sorts sortf -> wf_tree f ->
  robsd_clean_x sortf rootstr keep_conf count ka lock f = robsd_clean_x_exec rootstr keep_conf count ka lock f.
Proof.
  intros Hs Hwf. unfold robsd_clean_x_exec, robsd_clean_x, victims.
  now rewrite (ls_any_qsort sortf rootstr (keepdir_of rootstr) true lock (dirents_of f) Hs (dirents_distinct f Hwf)).
Qed.

(* ---- the age oracle ---- *)
Lemma same_names_refl l : same_names l l = true.
Proof.
  unfold same_names. rewrite Nat.eqb_refl, andb_true_r.
  assert (H : forallb (fun v => memb v l) l = true) by (apply forallb_forall; intros v Hv; now apply memb_in).
  now rewrite H.
Qed.

(* a list of the invocations that descends by name is THE newest-first list *)
Lemma age_is_name_order f ages :
  wf_tree f -> age_list f ages -> StronglySorted (fun a b => blt b a) ages -> ages = invocations_desc f.
Proof.
  intros Hwf [Hin _] Hs. apply (newest_first_unique f); [now split|now apply invocations_desc_newest].
Qed.

Lemma oracle_age_accepts_model sortf rootstr f lock running keep_conf count ka ages :
  sorts sortf -> wf_tree f -> lock_consistent rootstr lock running f ->
  (ka = true -> completes sortf rootstr keep_conf count lock f) ->
  (ka = true -> forall v, invocation f v -> date_shaped v) ->
  (ka = true -> no_nested_tmp f) ->
  age_list f ages -> StronglySorted (fun a b => blt b a) ages ->
  let r := robsd_clean_x sortf rootstr keep_conf count ka lock f in
  spec_ok_clean_age ages running (effective_keep keep_conf count) ka (fst (fst r)) f (snd r) = true.
Proof.
  intros Hs Hwf Hl Hc Hsh Hnt Ha Hsorted. cbv zeta.
  rewrite (age_is_name_order f ages Hwf Ha Hsorted). unfold spec_ok_clean_age.
  rewrite same_names_refl. cbn [andb].
  exact (oracle_accepts_model_x sortf Hs rootstr f lock running keep_conf count ka Hwf Hl Hc Hsh Hnt).
Qed.

(* the kept set with "newest" = age, under the guard *)
Lemma kept_by_age sortf rootstr f lock running keep_conf count ka ages :
  sorts sortf -> wf_tree f -> lock_consistent rootstr lock running f ->
  effective_keep keep_conf count <> 0%nat ->
  (ka = true -> completes sortf rootstr keep_conf count lock f) ->
  age_list f ages -> StronglySorted (fun a b => blt b a) ages ->
  let n := effective_keep keep_conf count in
  let after := snd (robsd_clean_x sortf rootstr keep_conf count ka lock f) in
  (forall v, invocation after v <-> In v (kept_of ages running n)) /\
  length (kept_of ages running n) = Nat.min n (length ages).
Proof.
  intros Hs Hwf Hl Hne Hc Ha Hsorted.
  destruct (final_kept_set_x sortf Hs rootstr f lock running keep_conf count ka Hwf Hl Hne Hc)
    as [names [Hnf [H1 [H2 _]]]].
  assert (E : names = ages).
  { apply (newest_first_unique f); [exact Hnf|]. split; [apply (proj1 Ha)|exact Hsorted]. }
  subst names. cbv zeta. auto.
Qed.

(* ---- boolean checks for the witnesses ---- *)
Fixpoint nodupb (l : list (list bytes)) : bool :=
  match l with [] => true | p :: r => negb (existsb (path_beq p) r) && nodupb r end.

Lemma nodupb_sound l : nodupb l = true -> NoDup l.
Proof.
  induction l as [|p l IH]; simpl; intros H; constructor; apply andb_true_iff in H as [Hp Hl].
  - intros Hin. apply negb_true_iff in Hp. assert (existsb (path_beq p) l = true); [|congruence].
    apply existsb_exists. exists p. split; [exact Hin|apply path_beq_refl].
  - now apply IH.
Qed.

Definition wf_treeb (f : fstree) : bool :=
  nodupb (map f_path f) && forallb (fun e => forallb (fun c => negb (existsb (N.eqb 47) c)) (f_path e)) f.

Lemma wf_treeb_sound f : wf_treeb f = true -> wf_tree f.
Proof.
  unfold wf_treeb, wf_tree. intros H. apply andb_true_iff in H as [Hn Hc]. split; [now apply nodupb_sound|].
  rewrite forallb_forall in Hc. apply Forall_forall. intros e He. specialize (Hc e He).
  rewrite forallb_forall in Hc. apply Forall_forall. intros c Hcin Hs. specialize (Hc c Hcin).
  apply negb_true_iff in Hc. assert (existsb (N.eqb 47) c = true); [|congruence].
  apply existsb_exists. exists 47. split; [exact Hs|reflexivity].
Qed.

Lemma age_list_check f ages :
  wf_tree f -> same_names ages (invocations_desc f) = true -> age_list f ages.
Proof.
  intros Hwf H. unfold same_names in H. apply andb_true_iff in H as [H Hlen]. apply andb_true_iff in H as [Ha Hb].
  rewrite forallb_forall in Ha, Hb. apply Nat.eqb_eq in Hlen.
  pose proof (invocations_desc_newest f Hwf) as [Hin Hs]. pose proof (ssorted_desc_nodup _ Hs) as Hnd.
  assert (Hincl : incl (invocations_desc f) ages) by (intros v Hv; apply memb_in; now apply Hb).
  split.
  - intros v. rewrite <- Hin. split; [intros Hv; apply memb_in; now apply Ha|apply Hincl].
  - apply (NoDup_incl_NoDup Hnd); [lia|exact Hincl].
Qed.

Lemma not_sorted_check l : desc_adjacent l = false -> ~ StronglySorted (fun a b => blt b a) l.
Proof. intros H Hs. apply desc_adjacent_spec in Hs. congruence. Qed.

Lemma not_in_check v l : memb v l = false -> ~ In v l.
Proof. apply memb_false. Qed.

(* ---- witnesses ---- *)
Local Open Scope string_scope.
Definition day_dirs (ks : list string) : fstree :=
  flat_map (fun k => [mkfs [bs ("2024-03-05." ++ k)] FDir;
                      mkfs [bs ("2024-03-05." ++ k); bs "report"] (FFile (bs ("report of run " ++ k)))]) ks.

(* the second, third, ... tenth invocation of a day finished, the eleventh
   running, retention 9 (findings/D23_build_id_monotone.md, (b)) *)
Definition tenth_tree : fstree := day_dirs ["2"; "3"; "4"; "5"; "6"; "7"; "8"; "9"; "10"; "11"].
Definition tenth_ages : list bytes :=
  map (fun k => bs ("2024-03-05." ++ k)) ["11"; "10"; "9"; "8"; "7"; "6"; "5"; "4"; "3"; "2"].
Definition tenth_lock : option bytes := Some (bs "/r/2024-03-05.11" ++ [10%N])%list.

Lemma newest_is_name_order_witness :
  let after := snd (robsd_clean_x_exec (bs "/r") 9 None true tenth_lock tenth_tree) in
  wf_tree tenth_tree /\ age_list tenth_tree tenth_ages /\
  lock_consistent (bs "/r") tenth_lock (Some (bs "2024-03-05.11")) tenth_tree /\
  completes isort (bs "/r") 9 None tenth_lock tenth_tree /\
  ~ StronglySorted (fun a b => blt b a) tenth_ages /\
  (* by age the tenth is kept and the second goes *)
  In (bs "2024-03-05.10") (kept_of tenth_ages (Some (bs "2024-03-05.11")) 9) /\
  ~ In (bs "2024-03-05.2") (kept_of tenth_ages (Some (bs "2024-03-05.11")) 9) /\
  (* the code: the tenth - the newest finished invocation - is in the attic, the second stays *)
  invocation_b after (bs "2024-03-05.10") = false /\
  invocation_b after (bs "2024-03-05.2") = true /\
  ent_in (mkfs [bs "attic"; bs "2024"; bs "03"; bs "05.10"; bs "report"] (FFile (bs "report of run 10"))) after = true /\
  spec_ok_clean_age tenth_ages (Some (bs "2024-03-05.11")) 9 true 0 tenth_tree after = false /\
  (* read with name order the same result is accepted *)
  spec_ok_clean (Some (bs "2024-03-05.11")) 9 true 0 tenth_tree after = true.
Proof.
  cbv zeta.
  assert (Hwf : wf_tree tenth_tree) by (apply wf_treeb_sound; vm_compute; reflexivity).
  split; [exact Hwf|]. split; [apply age_list_check; [exact Hwf|vm_compute; reflexivity]|].
  split.
  { split; [vm_compute; reflexivity|]. apply invocation_b_spec. vm_compute. reflexivity. }
  split; [intros _; vm_compute; reflexivity|].
  split; [apply not_sorted_check; vm_compute; reflexivity|].
  split; [apply memb_in; vm_compute; reflexivity|].
  split; [apply not_in_check; vm_compute; reflexivity|].
  vm_compute. repeat split; reflexivity.
Qed.

(* the smallest instance: ninth and tenth finished, nothing running, retention 1 *)
Lemma newest_is_name_order_small :
  let f := day_dirs ["9"; "10"] in
  let ages := [bs "2024-03-05.10"; bs "2024-03-05.9"] in
  let after := snd (robsd_clean_x_exec (bs "/r") 1 None true None f) in
  wf_tree f /\ age_list f ages /\ kept_of ages None 1 = [bs "2024-03-05.10"] /\
  invocations_desc after = [bs "2024-03-05.9"] /\
  spec_ok_clean_age ages None 1 true 0 f after = false.
Proof.
  cbv zeta.
  assert (Hwf : wf_tree (day_dirs ["9"; "10"])) by (apply wf_treeb_sound; vm_compute; reflexivity).
  split; [exact Hwf|]. split; [apply age_list_check; [exact Hwf|vm_compute; reflexivity]|].
  vm_compute. repeat split; reflexivity.
Qed.

(* a plain file where attic/2024 should be: retention 1, three invocations *)
Definition blocked_tree : fstree :=
  [mkfs [bs "2024-01-02.1"] FDir; mkfs [bs "2024-01-02.1"; bs "report"] (FFile (bs "r1"));
   mkfs [bs "2024-01-02.1"; bs "001-a.log"] (FFile (bs "l1"));
   mkfs [bs "2024-01-02.2"] FDir; mkfs [bs "2024-01-02.2"; bs "report"] (FFile (bs "r2"));
   mkfs [bs "2024-01-02.2"; bs "001-a.log"] (FFile (bs "l2"));
   mkfs [bs "2024-01-02.2"; bs "tmp"] FDir; mkfs [bs "2024-01-02.2"; bs "tmp"; bs "t"] (FFile (bs "t"));
   mkfs [bs "2024-01-02.3"] FDir;
   mkfs [bs "attic"] FDir; mkfs [bs "attic"; bs "2024"] (FFile (bs "not a directory"))].

Lemma attic_blocked_witness :
  let r := robsd_clean_x_exec (bs "/r") 0 (Some 1%nat) true None blocked_tree in
  wf_tree blocked_tree /\ ~ completes isort (bs "/r") 0 (Some 1%nat) None blocked_tree /\
  fst r = (0%N, []) /\
  (* the first victim is still in the root, without its log and its tmp; the second is untouched *)
  invocations_desc (snd r) = [bs "2024-01-02.3"; bs "2024-01-02.2"; bs "2024-01-02.1"] /\
  has_path [bs "2024-01-02.2"; bs "001-a.log"] (snd r) = false /\
  has_path [bs "2024-01-02.2"; bs "tmp"] (snd r) = false /\
  ent_in (mkfs [bs "2024-01-02.2"; bs "report"] (FFile (bs "r2"))) (snd r) = true /\
  ent_in (mkfs [bs "2024-01-02.1"; bs "001-a.log"] (FFile (bs "l1"))) (snd r) = true /\
  ent_in (mkfs [bs "attic"; bs "2024"] (FFile (bs "not a directory"))) (snd r) = true /\
  spec_ok_clean None 1 true 0 blocked_tree (snd r) = false.
Proof.
  cbv zeta. split; [apply wf_treeb_sound; vm_compute; reflexivity|]. split.
  - unfold completes. intros H. assert (Hne : effective_keep 0 (Some 1%nat) <> 0%nat) by (vm_compute; discriminate).
    specialize (H Hne). vm_compute in H. discriminate.
  - vm_compute. repeat split; reflexivity.
Qed.

(* ---- the witnesses of PurgeProofs / PurgeOracle, for the model the driver runs ---- *)
Lemma kept_set_refuted_witness_x :
  (exists f lock, wf_tree f /\ running_builddir lock = Some (bs "/r/2020-02-02.7") /\
     invocations_desc f = [bs "2024-01-02.3"; bs "2024-01-02.2"; bs "2024-01-02.1"] /\
     invocations_desc (snd (robsd_clean_x_exec (bs "/r") 2 None true lock f)) = [bs "2024-01-02.3"]) /\
  (exists f lock, wf_tree f /\ running_builddir lock = Some (bs "/r//2024-01-02.1") /\
     invocations_desc f = [bs "2024-01-02.3"; bs "2024-01-02.2"; bs "2024-01-02.1"] /\
     invocations_desc (snd (robsd_clean_x_exec (bs "/r") 2 None true lock f)) = [bs "2024-01-02.3"]).
Proof.
  set (f := [mkfs [bs "2024-01-02.1"] FDir; mkfs [bs "2024-01-02.2"] FDir; mkfs [bs "2024-01-02.3"] FDir;
             mkfs [bs "2024-01-02.1"; bs "report"] (FFile (bs "r"))]).
  assert (Hwf : wf_tree f) by (apply wf_treeb_sound; vm_compute; reflexivity).
  split.
  - exists f, (Some (bs "/r/2020-02-02.7" ++ [10%N])%list). split; [exact Hwf|]. vm_compute. repeat split; reflexivity.
  - exists f, (Some (bs "/r//2024-01-02.1" ++ [10%N])%list). split; [exact Hwf|]. vm_compute. repeat split; reflexivity.
Qed.

Lemma oracle_nested_tmp_rejected_x :
  exists f, wf_tree f /\ ~ no_nested_tmp f /\
    spec_ok_clean None 1 true 0 f (snd (robsd_clean_x_exec (bs "/r") 1 None true None f)) = false.
Proof.
  exists [mkfs [bs "2024-01-02.1"] FDir; mkfs [bs "2024-01-02.1"; bs "2024-01-02.1"] FDir;
          mkfs [bs "2024-01-02.1"; bs "2024-01-02.1"; bs "tmp"] FDir;
          mkfs [bs "2024-01-02.1"; bs "2024-01-02.1"; bs "tmp"; bs "report"] (FFile (bs "r"));
          mkfs [bs "2024-01-02.2"] FDir].
  split; [apply wf_treeb_sound; vm_compute; reflexivity|]. split.
  - intros H. eapply (H _ (bs "2024-01-02.1") [bs "report"]); [right; right; right; now left|].
    vm_compute. reflexivity.
  - vm_compute. reflexivity.
Qed.

Lemma attic_complete_refuted_x :
  exists f, wf_tree f /\
    In (mkfs [bs "a-a"; bs "report"] (FFile (bs "1"))) f /\
    let after := snd (robsd_clean_x_exec (bs "/r") 1 None true None f) in
    invocations_desc after = [bs "z"] /\
    forallb (fun e => negb (node_beq (f_node e) (FFile (bs "1")))) after = true /\
    ent_in (mkfs [bs "attic"; bs "a"; bs "a"; bs "report"] (FFile (bs "2"))) after = true /\
    spec_ok_clean None 1 true 0 f after = false.
Proof.
  exists [mkfs [bs "z"] FDir; mkfs [bs "a-a"] FDir; mkfs [bs "a-a"; bs "report"] (FFile (bs "1"));
          mkfs [bs "a"] FDir; mkfs [bs "a"; bs "report"] (FFile (bs "2"))].
  split; [apply wf_treeb_sound; vm_compute; reflexivity|]. split.
  - right; right; now left.
  - vm_compute. repeat split; reflexivity.
Qed.
